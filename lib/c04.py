# C04 - SM3 digest, chunking independence, hash.Hash contract, HMAC/PBKDF2.
#   SM3.tla      executable GM/T 0004 (KAT-checked in PrimKAT)
#   HashObj.tla  Write/Sum/Reset object; HashObjTrace.tla validates real traces
#   SM3Table.tla digest / HMAC / PBKDF2 tables evaluated by TLC
import json
import os
import random

from vf import Infra, markers, write_ndjson, read_ndjson, validate_traces, compare_cases

LEVEL = "model_checking"

WLENS = "{0, 1, 55, 56, 57, 63, 64, 65, 119, 120, 128}"
PLENS = "{0, 2, 33}"

TRACE_CFG = """SPECIFICATION TraceSpec
CONSTANTS
  WriteLens = {0}
  PrefixLens = {0}
  MaxOps = 0
  TraceFile = "%s"
  TableFile = "digests.ndjson"
CONSTRAINT HighWater
POSTCONDITION Accepted
"""


def run(ctx):
    thorough = ctx.tier == "thorough"
    rnd = random.Random(ctx.seed)
    ctx.build_harness()
    d = ctx.tladir()
    ncpu = min(16, os.cpu_count() or 4)
    ctx.cov["trusted_base"] = ["TLC 1.8.0 + CommunityModules Bitwise", "GM/T 0004 test vectors (PrimKAT)", "crypto/hmac, x/crypto/pbkdf2 generic constructions"]

    # 0. the executable specification reproduces the standard's vectors
    ctx.tlc("PrimKAT", "PrimKAT.cfg", workers=1)

    # 1. HashObj exhaustively (state = length / blocks / tail): invariants of the object model
    maxops = 5 if thorough else 4
    with open(os.path.join(d, "hobj.cfg"), "w") as f:
        f.write("SPECIFICATION Spec\nCONSTANTS\n WriteLens = %s\n PrefixLens = %s\n MaxOps = %d\nINVARIANT Inv\nVIEW View\n" % (WLENS, PLENS, maxops + 3))
    r = ctx.tlc("HashObj", "hobj.cfg", workers=4)
    ctx.log("HashObj exhaustive: %d distinct states" % r["distinct"])

    # 2. behaviours: every op sequence up to the depth bound (BFS, history in the state), plus
    #    seeded longer ones by simulation
    depth = 3
    with open(os.path.join(d, "hgen.cfg"), "w") as f:
        f.write("SPECIFICATION Spec\nCONSTANTS\n WriteLens = %s\n PrefixLens = %s\n MaxOps = %d\nCONSTRAINT Emit\n" % (WLENS, PLENS, depth))
    r = ctx.tlc("HashObj", "hgen.cfg", workers=1, count=False)
    behs = markers(r["out"], "BEH")
    nexh = len(behs)
    exp = (11 + 6 + 1) ** depth
    if nexh != exp:
        raise Infra("expected %d behaviours of depth %d, TLC printed %d" % (exp, depth, nexh))
    nsim = 3000 if thorough else 400
    with open(os.path.join(d, "hsim.cfg"), "w") as f:
        f.write("SPECIFICATION Spec\nCONSTANTS\n WriteLens = %s\n PrefixLens = %s\n MaxOps = 8\nCONSTRAINT Emit\n" % (WLENS, PLENS))
    r = ctx.tlc("HashObj", "hsim.cfg", workers=1, simulate="num=%d" % nsim, depth=9, count=False)
    sim = markers(r["out"], "BEH")
    if len(sim) < nsim // 2:
        raise Infra("simulation produced only %d behaviours" % len(sim))
    behs += sim
    maxlen = 0
    for b in behs:
        n = 0
        for o in b:
            if o["op"] == "write":
                n += o["n"]
            elif o["op"] == "reset":
                n = 0
            maxlen = max(maxlen, n)
    ctx.log("behaviours: %d exhaustive (depth %d) + %d simulated (depth 8); longest stream %d bytes" % (nexh, depth, len(sim), maxlen))

    # 3. the oracle: TLC tabulates the digest of Msg(n) for every n up to the longest stream, and
    #    the HMAC / PBKDF2 cases
    top = max(maxlen, 2048 if thorough else 300)
    with open(os.path.join(d, "tab.cfg"), "w") as f:
        f.write("SPECIFICATION Spec\nCONSTANTS\n Lens = {%s}\n EdgeLens = {0,1,55,56,57,63,64,65,119,120,121,127,128,129,500,%s}\n" % (",".join(str(i) for i in range(top + 1)),
                # long messages in ONE Write / one-shot call (and in three pieces): past 64 KiB, and in the thorough tier past 1 MiB
                "65537,200000,1048577" if thorough else "65537"))
    r = ctx.tlc("SM3Table", "tab.cfg", workers=ncpu, timeout=3000)
    cases = markers(r["out"], "CASE")
    dig = {c["case"]["len"]: c["expect"] for c in cases if c["case"]["kind"] == "digest" and c["case"]["fam"] == 0}
    if sorted(dig) != list(range(top + 1)):
        raise Infra("digest table incomplete: %d of %d" % (len(dig), top + 1))
    write_ndjson(os.path.join(d, "digests.ndjson"), [{"len": n, "d": dig[n]} for n in range(top + 1)])
    ctx.log("TLC tabulated %d digests (lengths 0..%d), %d other cases" % (len(dig), top, len(cases) - len(dig)))

    # 4. replay on real objects, TLC judges every event
    behf = os.path.join(ctx.work, "beh.ndjson")
    write_ndjson(behf, behs)
    trf = os.path.join(ctx.work, "hash.trace.ndjson")
    ctx.harness(["c04-beh", behf, str(top), trf])
    events = read_ndjson(trf)
    traces, cur = [], []
    for e in events:
        if e["ev"] in ("new", "oneshot") and cur:
            traces.append(cur)
            cur = []
        cur.append(e)
    traces.append(cur)

    def describe(i, lineno, ev):
        beh = behs[i] if i < len(behs) else None
        return ("trace of real sm3 object rejected by HashObj at event %d: %s" % (lineno, json.dumps(ev)[:300]),
                {"behaviour": beh, "trace": traces[i][:60], "rejected_at": lineno})
    acc, nev = validate_traces(ctx, "HashObjTrace", TRACE_CFG, traces, describe, tag="hash")
    ctx.cov["traces_validated_against_impl"] = acc
    ctx.cov["events_validated"] = nev
    ctx.log("traces accepted: %d / %d (%d events)" % (acc, len(traces), nev))

    # 5. table cases (digest families, HMAC, PBKDF2) on the real code
    casef = os.path.join(ctx.work, "cases.ndjson")
    obsf = os.path.join(ctx.work, "obs.ndjson")
    write_ndjson(casef, cases)
    ctx.harness(["c04-table", casef, obsf])
    ok = compare_cases(ctx, cases, read_ndjson(obsf), None, "SM3 table")
    ctx.log("table cases equal: %d / %d" % (ok, len(cases)))

    ctx.cov["evaluations"] = len(behs) + len(cases)
    ctx.cov["distinct_nontrivial"] = len(behs) + len(cases)
    ctx.cov["rule"] = ("behaviours = distinct Write/Sum/Reset sequences printed by TLC (all of depth %d, simulated depth 8); "
                       "table cases = distinct (kind, lengths) tuples of SM3Table; every one is non-trivial (changes or observes the hash state)" % depth)
    ctx.cov["exhaustive"] = False
    for b in rnd.sample(behs, 3):
        ctx.sample({"behaviour": b})
    ctx.sample({"table_case": cases[0]})

    # 6. binding self-test: a corrupted digest byte must be rejected
    if not ctx.violations:
        t = [dict(e) for e in traces[min(5, len(traces) - 1)]]
        hit = False
        for e in t:
            if e["ev"] == "sum":
                e["out"] = list(e["out"])
                e["out"][-1] ^= 1
                hit = True
                break
        if hit:
            saved = list(ctx.violations)
            import io, contextlib
            buf = io.StringIO()
            with contextlib.redirect_stdout(buf):
                a2, _ = validate_traces(ctx, "HashObjTrace", TRACE_CFG, [t], lambda i, l, e: ("selftest", {}), tag="self")
            rejected = len(ctx.violations) > len(saved)
            for _, p in ctx.violations[len(saved):]:
                try:
                    os.remove(p)
                except OSError:
                    pass
            ctx.violations = saved
            if not rejected:
                raise Infra("self-test: corrupted digest accepted - binding is vacuous")
            ctx.cov["binding_selftest"] = "trace with one flipped digest bit rejected"
