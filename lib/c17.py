# C17 - PKCS#7 / PKCS#12 containers return what was put in, only to the right holder.
#   Containers.tla: symbolic algebra of enveloped-data, signed-data and PKCS#12 objects; make -> (one adversary change) -> use,
#   every combination explored by TLC, the statement's clauses are invariants; each done state is replayed on the real packages.
import json
import os
import random

from vf import Infra, markers, write_ndjson, read_ndjson

LEVEL = "model_checking"


def run(ctx):
    thorough = ctx.tier == "thorough"
    rnd = random.Random(ctx.seed)
    ctx.build_harness()
    ctx.cov["trusted_base"] = ["TLC 1.8.0", "symbolic cryptography in the model (perfect encryption, unforgeable signatures and MACs)",
                               "the harness's mirror of the PKCS#7 ASN.1 structures (SM2 signers and objects without signed attributes cannot be produced through the package API)",
                               "crypto/x509 and crypto/rsa for the RSA certificates"]
    r = ctx.tlc("Containers", "Containers_full.cfg" if thorough else "Containers_quick.cfg", workers=8 if thorough else 4, timeout=3000, coverage=False)
    rows = markers(r["out"], "CASE")
    if len(rows) < 5000:
        raise Infra("Containers: only %d cases" % len(rows))
    kinds = {}
    for x in rows:
        k = (x["make"]["what"], x["expect"] if x["expect"] in ("error", "unspecified") else "positive")
        kinds[k] = kinds.get(k, 0) + 1
    for need in (("env", "positive"), ("env", "error"), ("signed", "positive"), ("signed", "error"), ("p12", "positive"), ("p12", "error")):
        if not kinds.get(need):
            raise Infra("Containers: no %s/%s case (vacuous table)" % need)
    ctx.log("Containers: %d states, 4 invariants hold; %d cases %s" % (r["distinct"], len(rows), json.dumps({"%s/%s" % k: v for k, v in sorted(kinds.items())})))
    if not thorough:
        # all p12 and signed cases; envelope cases: every positive one and a seeded third of the negative ones
        rows = [x for x in rows if x["make"]["what"] != "env" or x["expect"] != "error" or rnd.random() < 0.34]
    rows.sort(key=lambda x: json.dumps([x["make"], x["tamper"]], sort_keys=True))      # lets the harness reuse a made object
    casef, obsf = os.path.join(ctx.work, "cases.ndjson"), os.path.join(ctx.work, "obs.ndjson")
    write_ndjson(casef, rows)
    ctx.harness(["c17-run", casef, obsf], timeout=6 * 3600 if thorough else 3000)
    obs = read_ndjson(obsf)
    if len(obs) != len(rows):
        raise Infra("c17-run: %d observations for %d cases" % (len(obs), len(rows)))
    ok = unspecified = 0
    seen = set()
    for x, o in zip(rows, obs):
        e, g = x["expect"], o["got"]
        if g == "refused":          # Encode rejects a password that is not text: nothing was produced, nothing can leak
            ok += 1
            continue
        if g == "make-error":
            raise Infra("c17-run could not build %s: %s" % (json.dumps(x["make"]), o["detail"]))
        if e == "unspecified" and g != "panic":
            unspecified += 1
            continue
        want = {"content": "content", "verified": "verified", "error": "error"}.get(e, "key" if e.startswith("key+") else e)
        got = e if (e.startswith("key+") and g == e) else g
        if x["tamper"] == "strip_mac" and g.startswith("key+") and x["use"]["pwd"] == "right" and g == "key+%d" % (x["make"]["ncas"] + 1):
            ok += 1         # the statement forbids a DIFFERENT key or certificate; the sweep changes the MAC-less bundle byte by byte
            continue
        if got == e or (want == g):
            ok += 1
            continue
        what = "%s, tamper %s, use %s: expected %s, got %s%s" % (json.dumps(x["make"], sort_keys=True), x["tamper"], json.dumps(x["use"], sort_keys=True), e, g,
                                                                 (" (" + o["detail"][:160] + ")") if o.get("detail") else "")
        facts = {"what": x["make"]["what"], "kind": x["make"].get("kind", x["make"].get("keykind")), "expect": e, "got": g, "api": x["use"].get("api", "")}
        k = ctx.match_known(facts)
        if k:
            ctx.known_finding(k, what)
            continue
        sig = json.dumps([x["make"].get("what"), x["make"].get("kind"), x["make"].get("keykind"), x["make"].get("attrs"), x["tamper"], x["use"].get("api"), x["use"].get("pwd"), e, g])
        if sig in seen and len(seen) > 40:
            continue
        seen.add(sig)
        ctx.violation(what, {"case": x, "observed": o})
    ctx.log("cases conforming: %d / %d (%d with unspecified outcome: DES-CBC content changed in transit)" % (ok, len(rows), unspecified))
    # single-byte corruption sweep
    swf = os.path.join(ctx.work, "sweep.json")
    ctx.harness(["c17-sweep", swf, "1" if thorough else "5", str(ctx.seed)], timeout=6 * 3600 if thorough else 3000)
    sw = json.load(open(swf))
    ctx.log("byte corruption sweep: %s" % json.dumps(sw["tried"], sort_keys=True))
    for f in sw["findings"] or []:
        what = "%s, byte %d := %02x: %s" % (f["container"], f["pos"], f["val"], f["what"])
        k = ctx.match_known({"container": f["container"], "what": f["what"][:40]})
        if k:
            ctx.known_finding(k, what)
        else:
            ctx.violation(what, f)
    ctx.cov["evaluations"] = len(rows) + sum(sw["tried"].values())
    ctx.cov["distinct_nontrivial"] = len(rows)
    ctx.cov["exhaustive"] = thorough
    ctx.cov["rule"] = ("TLC: {SM2 (both orderings), RSA} x {DES-CBC, AES-128-GCM} x recipient lists over 3 holders x lengths x {no change, body, wrapped key, recipient dropped, reordered} x "
                       "(certificate holder, key holder, API, ordering) over 4 holders; signed data {SM2, RSA} x attributes x detached x 4 signers x 7 changes x supplied content; "
                       "PKCS#12 password class x key kind x 0..2 CA certificates x {none, byte} x (right + 7 wrong-password variants) x {DecodeAll, Decode, ToPEM}; "
                       "sweep: every (quick: every 5th) byte of 8 signed-data objects, 2 GCM envelopes and 2 bundles x 4 values")
    for x in rnd.sample(rows, 3):
        ctx.sample(x)
