# C19 - streaming PKCS#7 padding is independent of chunking.
#   PadStream.tla      abstract spec (most general correct reader / writer / helpers)
#   PadStreamImpl.tla  the code's algorithms + unconstrained environment; refines PadStream
#   PadStreamTrace.tla validates traces of the real objects against PadStream
import json
import os
import random

from vf import Infra, markers, write_ndjson, read_ndjson, coverage_zero_actions

DEVS = ["DevShortReadPads", "DevSwapOverflow", "DevFinalLastByteOnly", "DevHelperSingleRead"]

SMALL = dict(Kinds='{"reader", "writer", "enc", "dec"}', BlockSizes="{2, 3}",
             DataLens="{0, 1, 2, 3, 4, 5, 6, 7}",
             Bads='{"none", "zero", "big", "fill", "fill2", "nopad", "empty"}',
             MaxReq="6", Reqs="{0, 1, 2, 3, 5}", Chunk="6", SwapSize="4", SrcKs="{0, 1, 2, 3, 4, 5, 6}",
             MaxZero="1")
MID = dict(SMALL, BlockSizes="{2, 3, 4}", DataLens="{0, 1, 2, 3, 4, 5, 6, 7, 8, 9, 11, 12, 13}",
           MaxReq="12", Reqs="{0, 1, 2, 3, 4, 5, 7, 12}", Chunk="12", SwapSize="4",
           SrcKs="{0, 1, 2, 3, 4, 5, 7, 12}", MaxZero="2")
REAL = dict(Kinds='{"reader", "writer", "enc", "dec"}', BlockSizes="{8, 16}",
            DataLens="{0, 1, 7, 8, 9, 15, 16, 17, 31, 32, 33, 40, 1007, 1008, 1009, 1023, 1024, 1025, 1039, 1040, 1041, 2047, 2048, 2049, 3000, 4999, 5000}",
            Bads='{"none", "zero", "big", "fill", "fill2", "nopad", "empty"}',
            MaxReq="8192", Reqs="{0, 1, 5, 7, 15, 16, 17, 1023, 1024, 1025, 1040, 1041, 2048, 4096, 8192}",
            Chunk="1024", SwapSize="1024", SrcKs="{0, 1, 5, 15, 16, 17, 1000, 1024, 5000}", MaxZero="2")


def cfg_text(consts, devs=(), props=True, view=True, fair=False, envout=False, refine=True):
    lines = ["SPECIFICATION " + ("FairSpec" if fair else "Spec"), "CONSTANTS"]
    for k, v in consts.items():
        lines.append("  %s = %s" % (k, v))
    for d in DEVS:
        lines.append("  %s = %s" % (d, "TRUE" if d in devs else "FALSE"))
    if props:
        lines.append("INVARIANTS DataOK LenOK NoPanic")
        if refine or fair:
            lines.append("PROPERTIES" + (" AbsSpec" if refine else "") + (" Finishes" if fair else ""))
    if view:
        lines.append("VIEW View")
    if envout:
        lines.append("CONSTRAINT EnvOut")
    return "\n".join(lines) + "\n"


def put(ctx, name, text):
    with open(os.path.join(ctx.tladir(), name), "w") as f:
        f.write(text)
    return name


def parse_hist_from_cex(out):
    """The environment (hist + parameters) of the last state of a TLC counter-example."""
    import re
    # states are printed as conjunctions "/\ var = value"; take the last occurrence of each
    def last(var):
        m = re.findall(r"^/\\ %s = (.*)$" % var, out, re.M)
        return m[-1] if m else None
    h = last("hist")
    if h is None:
        return None
    ops = []
    for rec in re.findall(r"\[([^\]]*)\]", h):
        o = {}
        for kv in rec.split(","):
            k, v = kv.split("|->")
            v = v.strip()
            o[k.strip()] = (v == "TRUE") if v in ("TRUE", "FALSE") else (v.strip('"') if v.startswith('"') else int(v))
        ops.append(o)
    return {"kind": last("kind").strip('"'), "bs": int(last("bs")), "n": int(last("n")),
            "bad": last("bad").strip('"'), "ops": ops}


def validate(ctx, envs, tag):
    """Play envs against the real code, validate the traces with TLC; returns #accepted."""
    d = ctx.tladir()
    envf = os.path.join(ctx.work, "envs.%s.ndjson" % tag)
    trf = os.path.join(d, "trace.%s.ndjson" % tag)
    write_ndjson(envf, envs)
    ctx.harness(["c19", envf, trf])
    events = read_ndjson(trf)
    # trace boundaries
    starts = [i for i, e in enumerate(events) if e["ev"] == "reset"]
    if len(starts) != len(envs):
        raise Infra("driver produced %d traces for %d environments" % (len(starts), len(envs)))
    accepted = 0
    alive = list(range(len(envs)))
    for attempt in range(8):
        cur = []
        index = []       # line -> env idx
        for i in alive:
            a = starts[i]
            b = starts[i + 1] if i + 1 < len(starts) else len(events)
            cur += events[a:b]
            index += [i] * (b - a)
        if not cur:
            break
        name = "trace.%s.%d.ndjson" % (tag, attempt)
        write_ndjson(os.path.join(d, name), cur)
        put(ctx, "PadStreamTrace.cfg", TRACE_CFG % name)
        r = ctx.tlc("PadStreamTrace", "PadStreamTrace.cfg", workers=1, timeout=1200, expect_fail=True, count=False)
        hw = [x for x in r["out"].splitlines() if x.startswith('<<"HWM"')]
        if not hw:
            raise Infra("trace validation produced no verdict:\n" + r["out"][-3000:])
        hwm = int(hw[-1].split(",")[1])
        if r["ok"] and hwm == len(cur) + 1:
            accepted += len(alive)
            ctx.cov["transitions"] += r["generated"]
            break
        if hwm < 1 or hwm > len(cur):
            raise Infra("inconsistent high-water mark %d of %d" % (hwm, len(cur)))
        badi = index[hwm - 1]
        a = starts[badi]
        b = starts[badi + 1] if badi + 1 < len(starts) else len(events)
        lineno = hwm - 1 - index.index(badi)
        ev = events[a + lineno]
        what = ("trace of the real %s (bs=%d n=%d bad=%s) rejected by PadStream at event %d: %s"
                % (envs[badi]["kind"], envs[badi]["bs"], envs[badi]["n"], envs[badi].get("bad"), lineno,
                   json.dumps(ev)[:300]))
        ctx.violation(what, {"env": envs[badi], "trace": events[a:b][:400], "rejected_at": lineno})
        accepted += alive.index(badi)
        alive = alive[alive.index(badi) + 1:]
    else:
        ctx.log("stopped validating after 8 rejected traces")
    return accepted, events


TRACE_CFG = """SPECIFICATION TraceSpec
CONSTANTS
  Kinds = {"reader", "writer", "enc", "dec", "rt"}
  BlockSizes = {2, 3, 4, 8, 16}
  DataLens = {0}
  Bads = {"none"}
  MaxReq = 100000
  TraceFile = "%s"
CONSTRAINT HighWater
POSTCONDITION Accepted
"""


def run(ctx):
    thorough = ctx.tier == "thorough"
    rnd = random.Random(ctx.seed)
    ctx.build_harness()
    ctx.cov["trusted_base"] = ["TLC 1.8.0", "Go scripted io.Reader/io.Writer that log what they are asked and answer"]
    ctx.assumptions = ["sources never return an error other than io.EOF and honour the io.Reader contract",
                       "block sizes 2,3,4 (exhaustive model) and 8,16 (real sizes); helper chunk 1024"]

    # 1. the abstract specification itself, and refinement of the algorithm model, exhaustively
    r = ctx.tlc("PadStream", "PadStream_mc.cfg", workers=8)
    ctx.log("PadStream (abstract) exhaustive: %d distinct" % r["distinct"])
    put(ctx, "impl_small.cfg", cfg_text(MID if thorough else SMALL))
    r = ctx.tlc("PadStreamImpl", "impl_small.cfg", workers=min(16, os.cpu_count() or 4), coverage=thorough, timeout=1700)
    ctx.log("PadStreamImpl refines PadStream: %d generated / %d distinct" % (r["generated"], r["distinct"]))
    if thorough:
        z = [a for a in coverage_zero_actions(r["out"]) if a not in ("Init",)]
        if z:
            raise Infra("vacuous: actions never taken in the exhaustive model: %s" % z)
        # liveness needs a caller that can make progress: zero-length buffers are left out (a caller may pass them for ever)
        put(ctx, "impl_fair.cfg", cfg_text(dict(SMALL, Reqs="{1, 2, 3, 5}"), fair=True))
        r = ctx.tlc("PadStreamImpl", "impl_fair.cfg", workers=8, timeout=1700)
        ctx.log("liveness (Finishes under WF): ok, %d distinct" % r["distinct"])

    # 2. each repaired defect as a deviation switch: TLC must find its counter-example (the model
    #    can tell the defect), and that counter-example's environment becomes a replayed case
    envs = []
    for dev in DEVS:
        base = dict(REAL if dev == "DevSwapOverflow" else SMALL)
        if dev == "DevSwapOverflow":
            base.update(Kinds='{"writer"}', DataLens="{2049}", BlockSizes="{16}", Bads='{"none"}')
        # (the refinement property quantifies over 0..MaxReq twice: only for the small constants)
        put(ctx, "dev.cfg", cfg_text(base, devs=[dev], refine=(dev != "DevSwapOverflow")))
        r = ctx.tlc("PadStreamImpl", "dev.cfg", workers=4, expect_fail=True, count=False, timeout=600)
        if r["rc"] not in (12, 13):
            raise Infra("anti-vacuity: deviation %s not detected by the model (rc=%d)\n%s" % (dev, r["rc"], r["out"][-1500:]))
        e = parse_hist_from_cex(r["out"])
        if e is None:
            raise Infra("no environment in the counter-example of " + dev)
        e["from"] = dev
        envs.append(e)
        if dev != "DevSwapOverflow" and e["kind"] in ("reader", "writer"):
            # the same environment at real block size
            pass
    ctx.log("deviation switches: %d/%d counter-examples found by TLC" % (len(envs), len(DEVS)))

    # 3. environments generated by TLC from the algorithm model (simulation), small and real sizes
    nsmall, nreal = (1500, 700) if thorough else (130, 70)     # per kind
    es, er = [], []
    for kind in ("reader", "writer", "enc", "dec"):
        k = '{"%s"}' % kind
        put(ctx, "gen_small.cfg", cfg_text(dict(MID, Kinds=k), props=False, view=False, envout=True))
        r = ctx.tlc("PadStreamImpl", "gen_small.cfg", workers=1, simulate="num=%d" % nsmall, depth=200, count=False, timeout=1500)
        es += markers(r["out"], "ENV")
        put(ctx, "gen_real.cfg", cfg_text(dict(REAL, Kinds=k), props=False, view=False, envout=True))
        r = ctx.tlc("PadStreamImpl", "gen_real.cfg", workers=1, simulate="num=%d" % nreal, depth=400, count=False, timeout=1500)
        er += markers(r["out"], "ENV")
    # the writer fed with everything at once (one Write far larger than its internal buffers), then Final
    put(ctx, "gen_big.cfg", cfg_text(dict(REAL, Kinds='{"writer"}', DataLens="{1025, 1040, 1041, 1500, 2049, 3000, 4999}", Reqs="{9999}"), props=False, view=False, envout=True))
    r = ctx.tlc("PadStreamImpl", "gen_big.cfg", workers=1, simulate="num=%d" % (200 if thorough else 60), depth=400, count=False, timeout=1500)
    er += markers(r["out"], "ENV")
    # a source that drips: long inputs delivered 8 bytes at a time with zero-byte answers in between (hundreds of empty reads in
    # all, never more than MaxZero in a row) - the reader and the encrypting helper must simply carry on
    put(ctx, "gen_drip.cfg", cfg_text(dict(REAL, Kinds='{"reader", "enc"}', DataLens="{1700, 3001}", SrcKs="{0, 8}", Reqs="{16, 1024}"), props=False, view=False, envout=True))
    r = ctx.tlc("PadStreamImpl", "gen_drip.cfg", workers=1, simulate="num=%d" % (60 if thorough else 12), depth=4000, count=False, timeout=1500)
    drip = markers(r["out"], "ENV")
    nz = max([sum(1 for o in e["ops"] if o.get("op") == "src" and o.get("k") == 0) for e in drip] or [0])
    er += drip
    ctx.cov["dripping_source_max_empty_reads"] = nz
    if len(es) < 2 * nsmall or len(er) < 2 * nreal:
        raise Infra("too few environments generated: %d small, %d real" % (len(es), len(er)))
    model = {}
    for e in es + er:
        if e["panic"]:
            raise Infra("model panicked in generation")
        envs.append({"kind": e["kind"], "bs": e["bs"], "n": e["n"], "bad": e["bad"], "ops": e["ops"]})
    # real SM4-CBC round trips reuse the source scripts of the "enc" environments
    for e in [x for x in envs if x["kind"] == "enc"][: (400 if thorough else 60)]:
        envs.append(dict(e, kind="rt"))
    # dedupe
    seen, uniq = set(), []
    for e in envs:
        k = json.dumps([e["kind"], e["bs"], e["n"], e["bad"], e["ops"]])
        if k not in seen:
            seen.add(k)
            uniq.append(e)
    envs = uniq
    kinds = {}
    for e in envs:
        kinds[e["kind"]] = kinds.get(e["kind"], 0) + 1
    ctx.log("environments: %d distinct %s" % (len(envs), kinds))
    for e in rnd.sample(envs, 3):
        ctx.sample({"environment": {k: e[k] for k in ("kind", "bs", "n", "bad")}, "ops": e["ops"][:12]})

    # 4. real code under those environments; TLC judges the traces
    acc, events = validate(ctx, envs, "main")
    ctx.cov["traces_validated_against_impl"] = acc
    ctx.cov["evaluations"] = len(envs)
    ctx.cov["distinct_nontrivial"] = len([e for e in envs if len(e["ops"]) >= 2])
    ctx.cov["events_validated"] = len(events)
    ctx.cov["rule"] = ("one case = one environment (kind, block size, data length, damage of the final block, "
                       "source answers / caller buffers / write sizes) generated by TLC from PadStreamImpl; "
                       "distinct by full content, non-trivial = at least two environment choices")
    ctx.cov["environment_kinds"] = kinds
    ctx.log("traces accepted: %d / %d (%d events)" % (acc, len(envs), len(events)))

    # 5. the binding is live: a corrupted trace must be rejected
    if not ctx.violations:
        good = [e for e in envs if e["kind"] == "reader" and e["n"] >= 3][:1] + \
               [e for e in envs if e["kind"] == "writer" and e["bad"] == "none" and e["n"] >= 3][:1]
        d = ctx.tladir()
        for g in good:
            envf = os.path.join(ctx.work, "one.ndjson")
            trf = os.path.join(d, "one.trace.ndjson")
            write_ndjson(envf, [g])
            ctx.harness(["c19", envf, trf])
            evs = read_ndjson(trf)
            hit = False
            for e in evs:
                if e["ev"] in ("ret", "out") and e.get("data"):
                    e["data"][0] ^= 1
                    hit = True
                    break
            if not hit:
                raise Infra("self-test: no data event to corrupt")
            write_ndjson(os.path.join(d, "corrupt.ndjson"), evs)
            put(ctx, "PadStreamTrace.cfg", TRACE_CFG % "corrupt.ndjson")
            r = ctx.tlc("PadStreamTrace", "PadStreamTrace.cfg", workers=1, expect_fail=True, count=False)
            if r["ok"]:
                raise Infra("self-test: corrupted trace was accepted - binding is vacuous")
        ctx.cov["binding_selftest"] = "corrupted reader and writer traces rejected"
