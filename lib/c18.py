# C18 - decoders of untrusted bytes fail closed: an error (or a value), never a panic, a hang or unbounded memory.
#   TLV.tla: a total BER/DER reader with a step counter; TLC proves termination within 4*len+4 steps and in-bounds
#   indexing for every string up to a bound over the critical-byte alphabet, and extracts the TLV nodes of the corpus
#   (valid encodings produced by the library).  The node lists drive the structural part of the mutation catalogue;
#   the short strings TLC enumerated are replayed into every ASN.1 decoder and the BER transcoder.
import json
import os

from vf import Infra, markers, write_ndjson, read_ndjson

LEVEL = "fault_enumeration"


def run(ctx):
    thorough = ctx.tier == "thorough"
    ctx.build_harness()
    ctx.cov["trusted_base"] = ["TLC 1.8.0", "Go runtime panic/recover and a 3 s wall-clock deadline per decoder call", "runtime.MemStats for the memory bound"]
    d = ctx.tladir()
    # 1. totality of the reference reader + the enumerated short strings
    with open(os.path.join(d, "TLV_str.cfg"), "w") as f:
        f.write("SPECIFICATION Spec\nCONSTANTS\n  Alphabet = {0, 1, 2, 4, 31, 48, 127, 128, 129, 132, 160, 255}\n  MaxLen = %d\n  CorpusFile = \"\"\n"
                "INVARIANTS Bounded InBounds NoStuck EmitStr\n" % (4 if thorough else 3))
    r = ctx.tlc("TLV", "TLV_str.cfg", workers=4, timeout=1500)
    strs = markers(r["out"], "STR")
    if len(strs) < 1000:
        raise Infra("TLV: %d short strings enumerated" % len(strs))
    nval = sum(1 for s in strs if s["status"] == "value")
    ctx.log("TLV: total on all %d strings (%d well-formed, %d rejected), %d states" % (len(strs), nval, len(strs) - nval, r["distinct"]))
    if nval == 0 or nval == len(strs):
        raise Infra("TLV: vacuous verdicts")
    shortf = os.path.join(ctx.work, "short.ndjson")
    write_ndjson(shortf, [s["s"] for s in strs])
    # 2. corpus from the library, TLV nodes from TLC
    corpf = os.path.join(ctx.work, "corpus.ndjson")
    ctx.harness(["c18-corpus", corpf], timeout=600)
    corpus = read_ndjson(corpf)
    asn = [{"name": c["name"], "bytes": c["bytes"]} for c in corpus if c["asn1"]]
    write_ndjson(os.path.join(d, "corpus_asn1.ndjson"), asn)
    with open(os.path.join(d, "TLV_corpus.cfg"), "w") as f:
        f.write("SPECIFICATION Spec\nCONSTANTS\n  Alphabet = {0}\n  MaxLen = 0\n  CorpusFile = \"corpus_asn1.ndjson\"\nINVARIANTS Bounded InBounds NoStuck Emit\n")
    r = ctx.tlc("TLV", "TLV_corpus.cfg", workers=1, timeout=900)
    nodes = markers(r["out"], "NODES")
    if len(nodes) != len(asn):
        raise Infra("TLV: nodes for %d of %d corpus items" % (len(nodes), len(asn)))
    for n in nodes:
        if n["status"] != "value":
            # the library produced an encoding the reference reader rejects: decide which one is wrong before going on
            raise Infra("TLV reader rejects the library's own encoding of %s" % n["name"])
    # OCTET STRING / BIT STRING values that themselves hold DER (extension values, the key in a PKCS#8 wrapper, the safe
    # contents of a PKCS#12 file): TLC reads them too, level by level; their nodes join the item's node list with
    # absolute offsets, right behind the wrapper, so that resizing an inner value re-encodes every enclosing length
    bytes_of = {a["name"]: a["bytes"] for a in asn}
    per_item = {n["name"]: list(n["nodes"]) for n in nodes}
    inner_total = 0
    frontier = [(n["name"], nd) for n in nodes for nd in per_item[n["name"]]]       # (item, node object)
    for level in range(3):
        cand = []
        for (name, nd) in frontier:
            b = bytes_of[name]
            tagbyte = b[nd["tag"] - 1]
            if nd["cons"] or nd["len"] < 2 or tagbyte not in (0x04, 0x03):
                continue
            start = nd["lenoff"] - 1 + nd["lensz"] + (1 if tagbyte == 0x03 else 0)     # a BIT STRING starts with its unused-bits octet
            end = nd["lenoff"] - 1 + nd["lensz"] + nd["len"]
            if end - start >= 2:
                cand.append({"name": "%s@%d.%d" % (name, level, len(cand)), "bytes": b[start:end], "item": name, "start": start, "wrapper": nd})
        if not cand:
            break
        write_ndjson(os.path.join(d, "corpus_inner.ndjson"), [{"name": c["name"], "bytes": c["bytes"]} for c in cand])
        with open(os.path.join(d, "TLV_inner.cfg"), "w") as f:
            f.write("SPECIFICATION Spec\nCONSTANTS\n  Alphabet = {0}\n  MaxLen = 0\n  CorpusFile = \"corpus_inner.ndjson\"\nINVARIANTS Bounded InBounds NoStuck Emit\n")
        r2 = ctx.tlc("TLV", "TLV_inner.cfg", workers=1, timeout=900)
        got = {x["name"]: x for x in markers(r2["out"], "NODES")}
        frontier = []
        for c in cand:
            x = got.get(c["name"])
            if x is None or x["status"] != "value" or not x["nodes"] or x["nodes"][0]["tag"] != 1:
                continue        # not DER inside: an opaque value
            lst = per_item[c["item"]]
            at = next(i for i, nd in enumerate(lst) if nd is c["wrapper"]) + 1
            shifted = [dict(nd, tag=nd["tag"] + c["start"], lenoff=nd["lenoff"] + c["start"]) for nd in x["nodes"]]
            lst[at:at] = shifted
            inner_total += len(shifted)
            frontier += [(c["item"], nd) for nd in shifted]
    nodef = os.path.join(ctx.work, "nodes.ndjson")
    write_ndjson(nodef, [{"name": name, "nodes": per_item[name]} for name in per_item])
    nn = sum(len(v) for v in per_item.values())
    ctx.log("corpus: %d items (%d ASN.1, %d TLV nodes of which %d inside OCTET / BIT STRING values)" % (len(corpus), len(asn), nn, inner_total))
    # 3. the mutation catalogue through every decoder
    outf = os.path.join(ctx.work, "out.json")
    ctx.harness(["c18-run", corpf, nodef, shortf, outf, "1" if thorough else "0", str(ctx.seed)], timeout=6 * 3600 if thorough else 3000)
    res = json.load(open(outf))
    ctx.log("inputs %d, decoder calls %d, slow-but-exempt (iteration count) %d; families %s" % (res["inputs"], res["calls"], res["exempt_slow"], json.dumps(res["families"], sort_keys=True)))
    for f in res["fails"] or []:
        facts = {"decoder": f["decoder"], "kind": f["kind"], "item": f["item"]}
        what = "%s on %s (%s): %s: %s" % (f["decoder"], f["item"], f["mut"], f["kind"], f["detail"].split("\n")[0][:200])
        k = ctx.match_known(facts)
        if k:
            ctx.known_finding(k, what)
        else:
            ctx.violation(what, f)
    # 4. TLS handshake messages: every short string inside every frame of HSFrame.tla
    ml = 6 if thorough else 5
    with open(os.path.join(d, "TLV_tls.cfg"), "w") as f:
        f.write("SPECIFICATION Spec\nCONSTANTS\n  Alphabet = {0, 1, 2, 3, 255}\n  MaxLen = %d\n  CorpusFile = \"\"\nINVARIANTS Bounded InBounds NoStuck EmitStr\n" % ml)
    r = ctx.tlc("TLV", "TLV_tls.cfg", workers=4, timeout=1500)
    tstrs = markers(r["out"], "STR")
    with open(os.path.join(d, "HSFrame_run.cfg"), "w") as f:
        f.write("SPECIFICATION Spec\nCONSTANTS MaxLen = %d\n" % ml)
    r = ctx.tlc("HSFrame", "HSFrame_run.cfg", workers=1, timeout=600)
    tmpls = markers(r["out"], "TEMPLATE")
    if len(tmpls) < 60 * (ml + 1) or len(tstrs) < 3000:
        raise Infra("HSFrame: %d templates, %d strings" % (len(tmpls), len(tstrs)))
    tf, sf2, of2 = (os.path.join(ctx.work, n) for n in ("tmpl.ndjson", "tstr.ndjson", "frames.json"))
    write_ndjson(tf, tmpls)
    write_ndjson(sf2, [x["s"] for x in tstrs])
    ctx.harness(["c18-frames", tf, sf2, of2], timeout=6 * 3600 if thorough else 3000)
    fr = json.load(open(of2))
    ctx.log("handshake frames: %d templates x strings up to %d bytes = %d messages, %d parser calls" % (fr["templates"], ml, fr["messages"], fr["calls"]))
    for f in fr["fails"] or []:
        what = "%s on framed message '%s': %s: %s (input %s)" % (f["Decoder"], f["Kind"], f["What"], f["Detail"].split("\n")[0][:200], f["Input"][:160])
        k = ctx.match_known({"decoder": f["Decoder"], "kind": f["What"], "item": f["Kind"]})
        if k:
            ctx.known_finding(k, what)
        else:
            ctx.violation(what, f)
    res["calls"] += fr["calls"]
    res["inputs"] += fr["messages"]
    res["families"]["tls_frames"] = fr["messages"]
    ctx.cov["evaluations"] = res["calls"]
    ctx.sample({"corpus item": corpus[0]["name"], "bytes": len(corpus[0]["bytes"]), "TLV nodes from TLC": per_item.get(corpus[0]["name"], [])[:4]})
    ctx.sample({"handshake frame template from HSFrame": tmpls[len(tmpls) // 2], "one of the short strings put into it": tstrs[len(tstrs) // 3]["s"]})
    ctx.cov["distinct_nontrivial"] = res["inputs"]
    ctx.cov["exhaustive"] = False
    ctx.cov["rule"] = ("corpus item x {every truncation; per byte the substitutions 00 01 7f 80 ff b^1 b^80; per TLV node (from TLC) length := 0, len-1, len+1, 0x80, 0x84ffffffff and 11 tag swaps; "
                       "nesting depth 100 / 10000 definite and indefinite; empty; random strings} plus all strings up to length %d over 12 critical bytes through every ASN.1 decoder; "
                       "quick tier samples positions of items longer than 200 bytes" % (4 if thorough else 3))
    ctx.cov["fault_points"] = res["families"]
