# C13 - SM2 key exchange gives both parties the same key and the standard's values.
import json
import os
import random

from vf import Infra, write_ndjson, read_ndjson
from c01 import tlc_table, find_special_keys, N

PP = 0xFFFFFFFEFFFFFFFFFFFFFFFFFFFFFFFFFFFFFFFF00000000FFFFFFFFFFFFFFFF
PA = PP - 3
PB = 0x28E9FA9E9D9F5E344D5A9E4BCF6509A7F39789F515AB8F92DDBCBD414D940E93

LEVEL = "exploration"


def run(ctx):
    thorough = ctx.tier == "thorough"
    rnd = random.Random(ctx.seed)
    ctx.build_harness()
    ctx.cov["trusted_base"] = ["TLC 1.8.0", "java.math.BigInteger (BigNat override)", "SM2.tla / ECurve.tla / SM3.tla (anchored by the GM/T 0003.5 and GM/T 0004 examples)"]
    ctx.tlc("ECurveKAT", "ECurveKAT.cfg", workers=1)
    rk = lambda: hex(rnd.randrange(2, N - 1))[2:]
    sk = find_special_keys(ctx, 1500 if thorough else 800)
    special = [hex(d)[2:] for d, _, _ in sk]
    shortx = [hex(d)[2:] for d, xl, _ in sk if xl < 32]      # x~ = 2^w + (x & (2^w - 1)) is taken from the ephemeral x: short ones matter
    # ephemeral keys that make a coordinate of the shared point short (leading zero byte): TLC searches
    da, db, rb = rk(), rk(), rk()
    ids = lambda n: {"kind": "absent"} if n == 0 else {"kind": "len", "n": n}
    fr = tlc_table(ctx, [{"kind": "findkx", "da": da, "db": db, "ra": hex(i)[2:], "rb": rb, "ida": ids(3), "idb": ids(3), "klen": 1}
                         for i in range(2, 900 if thorough else 330)], "findkx")
    shortv = [x["case"]["ra"] for x in fr if x["expect"]["xlen"] < 32 or x["expect"]["ylen"] < 32]
    if any(not x["expect"]["same"] for x in fr):
        raise Infra("specification: initiator and responder points differ")
    cases = []
    for ra in shortv[:4]:
        cases.append({"kind": "kx", "da": da, "db": db, "ra": ra, "rb": rb, "ida": ids(3), "idb": ids(3), "klen": 16, "note": "shared point has a short coordinate"})
    idl = [1, 16, 8191] if thorough else [1, 16]
    for i, klen in enumerate([1, 16, 32, 33, 48] + ([1024] if thorough else [100])):
        cases.append({"kind": "kx", "da": rk(), "db": rk(), "ra": rk(), "rb": rk(), "ida": ids(idl[i % len(idl)]), "idb": ids(idl[(i + 1) % len(idl)]), "klen": klen})
    for s in special[:3]:
        cases.append({"kind": "kx", "da": s, "db": rk(), "ra": rk(), "rb": special[-1], "ida": {"kind": "default"}, "idb": ids(16), "klen": 16, "note": "short long-term / ephemeral coordinates"})
    for i, s in enumerate(shortx[:6 if thorough else 4]):
        # an ephemeral key whose x has a leading zero byte, once on each side
        c = {"kind": "kx", "da": rk(), "db": rk(), "ra": rk(), "rb": rk(), "ida": ids(2), "idb": ids(5), "klen": 16, "note": "ephemeral x with a leading zero byte"}
        c["ra" if i % 2 == 0 else "rb"] = s
        cases.append(c)
    cases.append({"kind": "kx", "da": "1", "db": hex(N - 2)[2:], "ra": "2", "rb": "3", "ida": {"kind": "default"}, "idb": {"kind": "default"}, "klen": 16})
    # identities whose bit length does not fit one byte (ENTL is a 16-bit field): 256, 300 and the maximum 8191 bytes
    # the ends of the ephemeral range (GM/T 0003.3: r in [1, n-1]) and of the long-term range, on either side
    for (da, db, ra, rb, note) in ((rk(), rk(), hex(N - 1)[2:], rk(), "initiator's ephemeral scalar n - 1"), (rk(), rk(), rk(), hex(N - 1)[2:], "responder's ephemeral scalar n - 1"),
                                   (rk(), rk(), "1", hex(N - 1)[2:], "ephemeral scalars 1 and n - 1"), (hex(N - 2)[2:], "1", hex(N - 1)[2:], hex(N - 2)[2:], "all four scalars at the ends")):
        cases.append({"kind": "kx", "da": da, "db": db, "ra": ra, "rb": rb, "ida": ids(3), "idb": ids(4), "klen": 16, "note": note})
    # a party whose ephemeral key EQUALS its long-term key (R = P: P + [x~]R degenerates for implementations that add with
    # formulas for distinct points), whose ephemeral key is the negative of it, and both parties using the same scalars
    same = rk()
    cases.append({"kind": "kx", "da": rk(), "db": same, "ra": rk(), "rb": same, "ida": ids(3), "idb": ids(4), "klen": 16, "note": "responder's ephemeral key equals its long-term key"})
    same2 = rk()
    cases.append({"kind": "kx", "da": same2, "db": rk(), "ra": same2, "rb": rk(), "ida": ids(3), "idb": ids(4), "klen": 16, "note": "initiator's ephemeral key equals its long-term key"})
    s3 = int(rk(), 16)
    cases.append({"kind": "kx", "da": rk(), "db": hex(s3)[2:], "ra": rk(), "rb": hex(N - s3)[2:], "ida": ids(3), "idb": ids(4), "klen": 16, "note": "responder's ephemeral key is the negative of its long-term key"})
    s4 = rk()
    cases.append({"kind": "kx", "da": s4, "db": s4, "ra": s4, "rb": s4, "ida": ids(3), "idb": ids(3), "klen": 16, "note": "one scalar in all four places"})
    cases.append({"kind": "kx", "da": rk(), "db": rk(), "ra": rk(), "rb": rk(), "ida": ids(256), "idb": ids(300), "klen": 16, "note": "long identities"})
    cases.append({"kind": "kx", "da": rk(), "db": rk(), "ra": rk(), "rb": rk(), "ida": ids(8191), "idb": ids(255), "klen": 16, "note": "long identities"})
    # sparse scalars (long runs of zero digits in any recoding) as long-term and as ephemeral key
    cases.append({"kind": "kx", "da": hex((1 << 200) + 1)[2:], "db": rk(), "ra": rk(), "rb": hex(3 << 140)[2:], "ida": ids(3), "idb": ids(4), "klen": 16, "note": "sparse scalars"})
    cases.append({"kind": "kx", "da": rk(), "db": hex((1 << 255) - (1 << 130))[2:], "ra": hex((1 << 129) + 1)[2:], "rb": rk(), "ida": ids(3), "idb": ids(4), "klen": 16, "note": "sparse scalars"})
    # both ephemeral keys with a short x coordinate in ONE exchange
    if len(shortx) < 2:
        raise Infra("fewer than two small scalars with a short x coordinate found")
    else:
        cases.append({"kind": "kx", "da": rk(), "db": rk(), "ra": shortx[0], "rb": shortx[1], "ida": ids(2), "idb": ids(5), "klen": 16, "note": "both ephemeral x with a leading zero byte"})
    # t = d + x~ r = 0 (mod n): the shared point is the point at infinity and the standard makes both parties fail.
    # x~ comes from the ephemeral public point, which TLC computes for a small r; d is then chosen to cancel it.
    for side, r in (("a", 5), ("b", 11)):
        fk = tlc_table(ctx, [{"kind": "findkey", "d": r}], "findkey")[0]["expect"]
        xhat = (1 << 127) + (int(fk["x"], 16) & ((1 << 127) - 1))
        dz = hex((N - xhat * r) % N)[2:]
        c = {"kind": "kx", "da": rk(), "db": rk(), "ra": rk(), "rb": rk(), "ida": ids(3), "idb": ids(4), "klen": 16, "note": "t = 0 mod n for party " + side.upper()}
        c["d" + side], c["r" + side] = dz, hex(r)[2:]
        cases.append(c)
    # short keys: the exchange of (da, db, rb) with r_A = 2..n for key lengths 1 and 2 in the real code; every exchange in which a party
    # fails or the parties disagree becomes a case for the specification (a one-byte key is 00 in one exchange out of 256: still a key)
    tf, sf = os.path.join(ctx.work, "sweep.json"), os.path.join(ctx.work, "sweep.out.json")
    with open(tf, "w") as f:
        json.dump({"da": da, "db": db, "rb": rb, "ida": ids(3), "idb": ids(3), "klens": [1, 2]}, f)
    nsweep = 6000 if thorough else 1500
    ctx.harness(["c13-sweep", tf, str(nsweep), sf])
    sw = json.load(open(sf))
    swept = []     # (case, what the real code returned in the sweep: the same key OBJECTS serve every exchange of the sweep)
    for x in sw["odd"] + sw["zero"] + [sw["last"]]:
        swept.append(({"kind": "kx", "da": da, "db": db, "ra": x["ra"], "rb": rb, "ida": ids(3), "idb": ids(3), "klen": x["klen"], "note": "short-key sweep: " + x["why"][:80]}, x["got"]))
        cases.append({"kind": "kx", "da": da, "db": db, "ra": x["ra"], "rb": rb, "ida": ids(3), "idb": ids(3), "klen": x["klen"], "note": "short-key sweep: " + x["why"][:80]})
    ctx.log("short-key sweep: %d exchanges with key length 1 or 2; %d with an error or disagreement and %d with an all-zero key handed to the specification" % (sw["exchanges"], len(sw["odd"]), len(sw["zero"])))
    ctx.cov["short_key_all_zero_cases"] = len(sw["zero"])
    ctx.cov["short_key_exchanges"] = sw["exchanges"]
    # one party's side with the peer's values given as POINTS that no known scalar produces: an ephemeral point whose x lies in
    # [n, p) (a legal coordinate that is not a legal scalar), a static key with a zero coordinate (0, sqrt b), ephemeral points
    # whose x is exactly 16 bytes long with the top bit set / 15 bytes long (the x~ truncation at its boundary)
    def lift(x):
        """a curve point with this x (or the next x that has one)"""
        while True:
            y2 = (pow(x, 3, PP) + PA * x + PB) % PP
            y = pow(y2, (PP + 1) // 4, PP)
            if y * y % PP == y2:
                return hex(x)[2:], hex(y)[2:]
            x += 1
    gx, gy = tlc_table(ctx, [{"kind": "findkey", "d": 7}], "findkey7")[0]["expect"]["x"], tlc_table(ctx, [{"kind": "findkey", "d": 7}], "findkey7")[0]["expect"]["y"]
    g9 = tlc_table(ctx, [{"kind": "findkey", "d": 9}], "findkey9")[0]["expect"]
    half = []
    specials = [("peer ephemeral x in [n, p)", (g9["x"], g9["y"]), lift(N + 4)), ("peer ephemeral x = p - 2 ..", (g9["x"], g9["y"]), lift(PP - 2)),
                ("peer static key (0, sqrt b)", lift(0), (gx, gy)),
                ("peer ephemeral x of 16 bytes with the top bit set", (g9["x"], g9["y"]), lift(1 << 127)),
                ("peer ephemeral x of 16 bytes, top bit clear", (g9["x"], g9["y"]), lift((1 << 126) + 5)),
                ("peer ephemeral x of 15 bytes", (g9["x"], g9["y"]), lift(1 << 119)), ("peer ephemeral x of 17 bytes", (g9["x"], g9["y"]), lift(1 << 128))]
    for i, (note, pp, pr) in enumerate(specials):
        for role in ("a", "b"):
            half.append({"kind": "kxhalf", "role": role, "d": rk(), "r": rk(), "ppx": pp[0], "ppy": pp[1], "prx": pr[0], "pry": pr[1],
                         "ida": ids(3), "idb": ids(4), "klen": 16, "note": note})
    hrows = tlc_table(ctx, half, "kxhalf")
    for x in hrows:
        if not x["expect"]["peer_ok"]:
            raise Infra("constructed peer value is not on the curve: %s" % x["case"]["note"])
    rows = tlc_table(ctx, cases, "kx") + hrows
    bad = [dict(cases[5], bad="offcurve"), dict(cases[5], bad="infinity"), dict(cases[5], bad="xplusp"), dict(cases[5], bad="yminusp"), dict(cases[5], bad="p256point")]
    casef = os.path.join(ctx.work, "kx.ndjson")
    obsf = os.path.join(ctx.work, "kx.obs.ndjson")
    write_ndjson(casef, [{"case": x["case"]} for x in rows] + [{"case": c} for c in bad])
    ctx.harness(["c13-run", casef, obsf])
    obs = read_ndjson(obsf) + [{"case": dict(c, note=c["note"] + " (as observed in the sweep, key objects reused)"), "got": g} for c, g in swept]
    exp = {json.dumps(x["case"], sort_keys=True): x["expect"] for x in rows}
    for c, g in swept:
        exp[json.dumps(dict(c, note=c["note"] + " (as observed in the sweep, key objects reused)"), sort_keys=True)] = exp[json.dumps(c, sort_keys=True)]
    ok = 0
    for o in obs:
        c, g = o["case"], o["got"]
        probs = []
        if g.get("panic"):
            probs.append("panic: " + g["panic"][:300])
        elif c.get("bad"):
            for side in ("a", "b"):
                if not g[side]["err"]:
                    probs.append("party %s derived a key from a peer ephemeral value that is %s" % (side.upper(), {"offcurve": "not on the curve", "infinity": "the point at infinity", "xplusp": "a pair outside [0, p) (x + p, y)", "yminusp": "a pair outside [0, p) (x, y - p)", "p256point": "a point of the NIST P-256 curve that names that curve in its Curve field"}[c["bad"]]))
        elif c.get("kind") == "kxhalf":
            e, h = exp[json.dumps(c, sort_keys=True)], g["half"]
            if e["fail"]:
                if not h["err"]:
                    probs.append("a key was derived although the point is the point at infinity")
            elif h["err"]:
                probs.append("party %s failed" % c["role"].upper())
            else:
                if h["k"] != e["k"]:
                    probs.append("party %s: shared key differs from GM/T 0003.3" % c["role"].upper())
                if h["s1"] != e["s1"] or h["s2"] != e["s2"]:
                    probs.append("party %s: confirmation values differ from GM/T 0003.3" % c["role"].upper())
        else:
            e = exp[json.dumps(c, sort_keys=True)]
            if not e["same"]:
                raise Infra("specification inconsistent")
            if e["fail"]:
                for side in ("a", "b"):
                    if not g[side]["err"]:
                        probs.append("party %s derived a key although its point is the point at infinity (GM/T 0003.3 A5/B5: fail)" % side.upper())
            for side in ("a", "b") if not e["fail"] else ():
                if g[side]["err"]:
                    probs.append("party %s failed" % side.upper())
                    continue
                if g[side]["k"] != e["k"]:
                    probs.append("party %s: shared key differs from GM/T 0003.3" % side.upper())
                if g[side]["s1"] != e["s1"] or g[side]["s2"] != e["s2"]:
                    probs.append("party %s: confirmation values differ from GM/T 0003.3" % side.upper())
            if not probs and not e["fail"] and (g["a"]["k"] != g["b"]["k"] or g["a"]["s1"] != g["b"]["s1"] or g["a"]["s2"] != g["b"]["s2"]):
                probs.append("the two parties disagree")
        if probs:
            ctx.violation("key exchange %s: %s" % (json.dumps({k: v for k, v in c.items() if k in ("ida", "idb", "klen", "note", "bad", "role")}, sort_keys=True), "; ".join(probs)), {"case": c, "observed": g})
        else:
            ok += 1
    ctx.log("key-exchange cases conforming: %d / %d (%d with a short shared-point coordinate)" % (ok, len(obs), len(shortv[:4])))
    if not shortv:
        raise Infra("no short shared-point coordinate found")
    ctx.cov["evaluations"] = len(obs)
    ctx.cov["distinct_nontrivial"] = len(obs)
    ctx.cov["exhaustive"] = False
    ctx.cov["rule"] = "case = distinct (long-term keys, ephemeral keys, identities, key length); includes keys / ephemeral values / shared points with leading-zero coordinates found by TLC search, off-curve and infinite peer values"
    ctx.sample({"case": cases[0]})
    ctx.sample({"case": cases[-1], "expect_k": exp[json.dumps(cases[-1], sort_keys=True)]["k"]})
