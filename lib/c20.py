# C20 - results do not depend on goroutine interleaving; shared objects are race-free.
#   ConcSm4.tla: the block function as four steps on scratch storage; TLC refutes "as if alone" for object-owned scratch and
#   proves it for call-owned scratch; every schedule of the proved design is replayed through the gates of the real code.
#   ConcConn.tla / ConcConnTrace.tla: Write / Read / Close on one connection as atomic operations on a stream; histories
#   recorded from real connections are validated (linearisability).  All stress drivers run under the Go race detector.
import glob
import json
import os
import re

from vf import Infra, markers, write_ndjson, read_ndjson, validate_traces

CONN_CFG = """SPECIFICATION TraceSpec
CONSTANTS
  Ends = {"A", "B"}
  TraceFile = "%s"
CONSTRAINT HighWater
POSTCONDITION Accepted
"""
# (mode, writers on A, concurrent readers on A, writers on B, messages per writer, when A closes)
# "half": A half-closes (CloseWrite) in the middle while B keeps writing and A keeps reading
CONN_QUICK = [("tls", 2, 2, 1, 4, "after"), ("gm", 2, 1, 1, 4, "after"), ("tls", 3, 2, 2, 5, "during"), ("gm", 3, 1, 2, 5, "during"), ("tls", 1, 1, 1, 3, "during"),
              ("gm", 1, 1, 3, 6, "half"), ("tls", 2, 1, 3, 6, "half"),
              # "badrec": while Writes on A are blocked in the transport a forged record reaches A's reader, which answers with an alert
              ("gm", 2, 1, 0, 3, "badrec"), ("tls", 2, 2, 0, 3, "badrec"), ("gm", 1, 1, 0, 2, "badrec")]
# (the linearisation search grows as 3^(operations in flight): four writers with eight multi-record messages each took more than
# 20 minutes per history on this machine; the thorough tier stays at six messages and one repetition)
CONN_THOROUGH = CONN_QUICK + [("tls", 4, 2, 2, 6, "after"), ("gm", 4, 1, 2, 6, "after"), ("tls", 3, 2, 3, 6, "during"), ("gm", 3, 1, 3, 6, "during"), ("gm", 2, 1, 4, 6, "half"), ("tls", 2, 2, 4, 6, "half"),
                              ("gm", 3, 1, 0, 4, "badrec"), ("tls", 3, 2, 0, 4, "badrec")]

# (mode, clients, handshakes per client, rotations)
# several handshakes of every client fall between two rotations: the first of them offers a ticket under the OLD key, and
# only an installation that keeps the old key in force at every instant lets it resume
# "+rand": the rotations happen inside handshakes, when the server draws a ticket's IV from Config.Rand
CFG_QUICK = [("tls", 5, 24, 7), ("gm", 5, 24, 7), ("tls", 4, 20, 4), ("gm", 6, 12, 3), ("tls+rand", 4, 24, 7), ("gm+rand", 4, 24, 7)]
CFG_THOROUGH = CFG_QUICK + [("tls", 7, 16, 4), ("gm", 7, 16, 4), ("tls", 3, 60, 19), ("gm", 3, 60, 19), ("tls", 6, 30, 9), ("gm", 6, 30, 9)]
CFGT_CFG = """SPECIFICATION TraceSpec
CONSTANTS
  TraceFile = "%s"
CONSTRAINT HighWater
POSTCONDITION Accepted
VIEW View
"""

LEVEL = "model_checking"

DRIVERS_QUICK = [("pkg", 8, 6), ("sm4obj", 8, 300), ("hashctor", 8, 100), ("pool", 8, 20), ("pkcs7", 32, 4), ("firstuse", 32, 1), ("setiv", 4, 100), ("lru", 8, 300), ("config", 8, 14)]
DRIVERS_THOROUGH = [("pkg", 2, 40), ("pkg", 32, 10), ("sm4obj", 2, 20000), ("sm4obj", 32, 2000), ("hashctor", 32, 500), ("pool", 32, 60), ("pkcs7", 32, 30),
                    ("firstuse", 2, 1), ("firstuse", 32, 1), ("firstuse", 32, 1), ("setiv", 8, 2000), ("lru", 32, 3000), ("config", 16, 20)]


def race_reports(prefix):
    """Parse Go race detector logs: one entry per report, reduced to the library functions on top of the two stacks."""
    reps = []
    for p in glob.glob(prefix + ".*"):
        txt = open(p, errors="replace").read()
        for blk in txt.split("WARNING: DATA RACE")[1:]:
            blk = blk.split("==================")[0]
            tops = []
            for part in re.split(r"\n(?=(?:Write|Read|Previous write|Previous read|Atomic)[^\n]* at )", blk):
                if not re.match(r"\s*(Write|Read|Previous|Atomic)", part):
                    continue
                fr = re.findall(r"\n\s+([^\s(][^\n]*)\(\)\n", part)
                lib = [f for f in fr if "github.com/tjfoc/gmsm/" in f]
                tops.append((lib[0] if lib else (fr[0] if fr else "?")).strip())
            reps.append(tuple(sorted(set(tops))))
        os.unlink(p)
    return reps


def run(ctx):
    thorough = ctx.tier == "thorough"
    ctx.build_harness()
    hrace = ctx.build_harness(race=True)
    ctx.cov["trusted_base"] = ["TLC 1.8.0", "Go race detector (go build -race) as the sensor of the no-data-race clause", "the harness's gate scheduler (channels)",
                               "harness-level invocation/response stamps (one atomic counter) for histories"]
    # 1. ConcSm4: the model tells the two designs apart; schedules of the race-free design are replayed through the gates
    r = ctx.tlc("ConcSm4", "ConcSm4_TRUE.cfg", workers=1, timeout=600, expect_fail=True, count=False)
    if "AsIfAlone is violated" not in r["out"]:
        raise Infra("ConcSm4: object-owned scratch is not refuted by the model")
    d = ctx.tladir()
    with open(os.path.join(d, "ConcSm4_run.cfg"), "w") as f:
        f.write('SPECIFICATION Spec\nCONSTANTS\n  Procs = {%s}\n  Shared = FALSE\nINVARIANTS AsIfAlone Emit\n' % ('"p1", "p2", "p3"' if thorough else '"p1", "p2"'))
    r = ctx.tlc("ConcSm4", "ConcSm4_run.cfg", workers=1, timeout=3000)
    scheds = markers(r["out"], "SCHED")
    if len(scheds) < 70:
        raise Infra("ConcSm4: %d schedules" % len(scheds))
    sf, of = os.path.join(ctx.work, "scheds.ndjson"), os.path.join(ctx.work, "sm4.json")
    write_ndjson(sf, scheds)
    ctx.harness(["c20-sm4", sf, of], timeout=3000)
    res = json.load(open(of))
    ctx.log("ConcSm4: %d states; %d interleavings of %d calls replayed through the gates, %d with a wrong block" % (r["distinct"], res["schedules"], 3 if thorough else 2, len(res["bad"] or [])))
    for b in (res["bad"] or [])[:6]:
        what = "sm4 cipher object shared by goroutines: call %s returned %s instead of %s under the schedule %s" % (b["proc"], b["got"], b["want"], " ".join("%s.%s" % tuple(s) for s in b["sched"]))
        k = ctx.match_known({"kind": "sm4-schedule"})
        if k:
            ctx.known_finding(k, what)
        else:
            ctx.violation(what, b)
    # 2. stress drivers under the race detector
    nops = 0
    seen_races = {}
    for (drv, n, iters) in (DRIVERS_THOROUGH if thorough else DRIVERS_QUICK):
        of = os.path.join(ctx.work, "stress_%s_%d.json" % (drv, n))
        logp = os.path.join(ctx.work, "race_%s_%d" % (drv, n))
        ctx.harness(["c20-stress", drv, str(n), str(iters), of], timeout=3000, bin=hrace, env={"GORACE": "log_path=%s halt_on_error=0 exitcode=0" % logp})
        res = json.load(open(of))
        nops += res["ops"]
        for m in (res["mismatch"] or [])[:4]:
            what = "driver %s with %d goroutines: %s" % (drv, n, m)
            k = ctx.match_known({"kind": "result", "driver": drv})
            if k:
                ctx.known_finding(k, what)
            else:
                ctx.violation(what, {"driver": drv, "goroutines": n, "iterations": iters, "mismatch": m})
        for rep in race_reports(logp):
            if not any("github.com/tjfoc/gmsm/" in t for t in rep):
                raise Infra("data race outside the library (harness bug?): %s" % (rep,))
            key = (drv, rep)
            seen_races[key] = seen_races.get(key, 0) + 1
        ctx.log("driver %-8s %2d goroutines: %d operations, %d result mismatches, %d race reports" % (drv, n, res["ops"], len(res["mismatch"] or []), sum(v for (d2, _), v in seen_races.items() if d2 == drv)))
    for (drv, rep), cnt in sorted(seen_races.items()):
        what = "data race while running driver %s: %s (%d reports)" % (drv, " <-> ".join(rep), cnt)
        k = ctx.match_known({"kind": "race", "functions": list(rep)})
        if k:
            ctx.known_finding(k, what)
        else:
            ctx.violation(what, {"driver": drv, "functions": list(rep), "reports": cnt})
    # 3. one connection, concurrent Write / Read / Close: histories validated against ConcConn
    r = ctx.tlc("ConcConnMC", "ConcConnMC.cfg", workers=8, timeout=1500)
    ctx.log("ConcConn: %d states of the abstract connection, PerWriterOrder / DeliveredIsPrefix / NothingAfterClose hold" % r["distinct"])
    traces, descr = [], []
    for i, (mode, nwa, nra, nwb, k, cl) in enumerate(CONN_THOROUGH if thorough else CONN_QUICK):
        tf = os.path.join(ctx.work, "conn_%d.ndjson" % i)
        logp = os.path.join(ctx.work, "race_conn_%d" % i)
        ctx.harness(["c20-conn", mode, str(nwa), str(nra), str(nwb), str(k), cl, str(ctx.seed * 100 + i), tf], timeout=600, bin=hrace,
                    env={"GORACE": "log_path=%s halt_on_error=0 exitcode=0" % logp})
        evs = read_ndjson(tf)
        traces.append([{"ev": "reset", "op": 0}] + evs)
        descr.append("%s connection, %d writers and %d readers on A, %d writers on B, %d messages each, %s" % (mode, nwa, nra, nwb, k, {"badrec": "a forged record reaches A while its Writes are blocked in the transport", "half": "A half-closes in the middle"}.get(cl, "A closes " + cl)))
        for rep in race_reports(logp):
            if not any("github.com/tjfoc/gmsm/" in t for t in rep):
                raise Infra("data race outside the library (harness bug?): %s" % (rep,))
            what = "data race on one connection (%s): %s" % (descr[-1], " <-> ".join(rep))
            k2 = ctx.match_known({"kind": "race", "functions": list(rep)})
            if k2:
                ctx.known_finding(k2, what)
            elif ("conn", rep) not in seen_races:
                seen_races[("conn", rep)] = 1
                ctx.violation(what, {"driver": "conn", "functions": list(rep)})

    def describe(i, lineno, ev):
        return ("history of one %s: event %d is not explained by any order of atomic Write/Read/Close operations: %s" % (descr[i], lineno, json.dumps(ev)[:400]),
                {"history": descr[i], "event_index": lineno, "event": ev, "trace": traces[i]})
    acc, nev = validate_traces(ctx, "ConcConnTrace", CONN_CFG, traces, describe, tag="conn", timeout=3000)
    ctx.log("connection histories: %d of %d accepted (%d events)" % (acc, len(traces), nev))
    # 4. one Config, handshakes with tickets while the ticket keys rotate: ConcConfig
    r = ctx.tlc("ConcConfigMC", "ConcConfigMC.cfg", workers=8, timeout=1500)
    rd = ctx.tlc("ConcConfigMC", "ConcConfigMC_dev.cfg", workers=4, timeout=600, expect_fail=True)
    if rd["ok"]:
        raise Infra("ConcConfigMC does not refute the two-step rotation (RecentTicketResumes should fail)")
    ctx.log("ConcConfig: %d states, 5 invariants hold; the non-atomic rotation (deviation switch) is refuted" % r["distinct"])
    ctraces, cdescr = [], []
    plans = CFG_THOROUGH if thorough else CFG_QUICK
    for i, (mode, workers, iters, rots) in enumerate(plans):
        tf = os.path.join(ctx.work, "cfg_%d.ndjson" % i)
        logp = os.path.join(ctx.work, "race_cfg_%d" % i)
        ctx.harness(["c20-config", mode, str(workers), str(iters), str(rots), str(ctx.seed * 100 + i), tf], timeout=600, bin=hrace,
                    env={"GORACE": "log_path=%s halt_on_error=0 exitcode=0" % logp})
        evs = read_ndjson(tf)
        cdescr.append("%s server Config shared by %d clients x %d handshakes during %d key rotations" % (mode, workers, iters, rots))
        errs = [e for e in evs if e["ev"] == "error"]
        for e in errs:
            if "no loopback" in e["text"]:
                raise Infra(e["text"])
            ctx.violation("%s: %s" % (cdescr[-1], e["text"]), {"history": cdescr[-1], "error": e["text"]})
        if not errs:
            ctraces.append([{"ev": "reset", "op": 0, "keys": [1]}] + [e for e in evs if e["ev"] != "error"])
        else:
            ctraces.append([{"ev": "reset", "op": 0, "keys": [1]}])
        for rep in race_reports(logp):
            if not any("github.com/tjfoc/gmsm/" in t for t in rep):
                raise Infra("data race outside the library (harness bug?): %s" % (rep,))
            what = "data race on one Config (%s): %s" % (cdescr[-1], " <-> ".join(rep))
            k2 = ctx.match_known({"kind": "race", "functions": list(rep)})
            if k2:
                ctx.known_finding(k2, what)
            elif ("config", rep) not in seen_races:
                seen_races[("config", rep)] = 1
                ctx.violation(what, {"driver": "config history", "functions": list(rep)})

    def cdescribe(i, lineno, ev):
        return ("history of one %s: event %d is not explained by any order of atomic rotations and ticket open / seal instants: %s" % (cdescr[i], lineno, json.dumps(ev)[:400]),
                {"history": cdescr[i], "event_index": lineno, "event": ev, "trace": ctraces[i]})
    cacc, cnev = validate_traces(ctx, "ConcConfigTrace", CFGT_CFG, ctraces, cdescribe, tag="cfg", timeout=3000)
    nres = sum(1 for t in ctraces for e in t if e.get("kind") == "hs" and e.get("resumed"))
    nold = sum(1 for t in ctraces for e in t if e.get("kind") == "hs" and e.get("resumed") and e.get("newkey"))
    ctx.log("Config histories: %d of %d accepted (%d events; %d resumptions, %d of them through an old key with a re-issued ticket)" % (cacc, len(ctraces), cnev, nres, nold))
    if nres < 10:
        raise Infra("vacuous Config histories: only %d resumptions" % nres)
    nev += cnev
    acc += cacc
    traces_all = len(traces) + len(ctraces)
    ctx.cov["config_histories"] = len(ctraces)
    ctx.cov["config_resumptions"] = nres
    ctx.cov["traces"] = traces_all
    ctx.cov["traces_validated_against_impl"] = acc
    ctx.sample({"schedule of two calls on one sm4 cipher object (replayed through the gates)": scheds[len(scheds) // 2]["sched"]})
    if traces:
        ctx.sample({"history": descr[0], "first events": traces[0][1:9]})
    ctx.cov["evaluations"] = nops + res.get("schedules", 0) + nev
    ctx.cov["schedules"] = len(scheds)
    ctx.cov["distinct_nontrivial"] = len(scheds)
    ctx.cov["exhaustive"] = False
    ctx.cov["rule"] = ("all interleavings of 2 (thorough 3) calls x 4 steps on one sm4 cipher object, executed deterministically through gates; stress drivers with 2..32 goroutines under the race "
                       "detector: package-level sign/verify/encrypt/decrypt/hash/ECB/parse/verify-chain on separate data, one shared cipher.Block (raw, CBC), one hash constructor under HMAC, one "
                       "CertPool pair, PKCS#7 parse/envelope, first use of the curve in a fresh process, SetIV with Sm4Cbc, handshakes (GMSSL and TLS 1.2, tickets, key rotation every 3 ms, "
                       "shared client session cache) on one Config")
