# C05 - SM4 block encryption is the GM/T 0002 permutation; decryption inverts it.
#   SM4.tla (algebraic S-box, CK by formula; KAT-checked)   SM4Tab.tla (tables + vectors)
#   CipherObj.tla / CipherObjTrace.tla (call sequences on one object)
import json
import os
import random

from vf import Infra, markers, write_ndjson, read_ndjson, validate_traces, compare_cases

LEVEL = "model_checking"

TRACE_CFG = """SPECIFICATION TraceSpec
CONSTANTS
  KeyIds = {1, 2}
  BlkIds = {1, 2, 3}
  MaxOps = 0
  TraceFile = "%s"
  TableFile = "objtable.ndjson"
CONSTRAINT HighWater
POSTCONDITION Accepted
"""


def run(ctx):
    thorough = ctx.tier == "thorough"
    rnd = random.Random(ctx.seed)
    ctx.build_harness()
    d = ctx.tladir()
    ncpu = min(16, os.cpu_count() or 4)
    ctx.cov["trusted_base"] = ["TLC 1.8.0 + Bitwise", "GM/T 0002 example vector (PrimKAT)", "verif accessor sm4.VerifTables returns the tables the code uses"]
    ctx.tlc("PrimKAT", "PrimKAT.cfg", workers=1)

    # (T) the code's tables, dumped through the verif accessor, against the formulas; (R) vectors
    ctx.harness(["c05-tables", os.path.join(d, "sm4tables.json")])
    # search: (key, block) pairs that put a half-word 0000 / ffff into the S-box layer of some round (key schedule or encryption)
    nfind = 12000 if thorough else 4000
    with open(os.path.join(d, "find.cfg"), "w") as f:
        f.write('SPECIFICATION Spec\nCONSTANTS\n TablesFile = "sm4tables.json"\n BitStep = 1\n FillStep = 1\n NLcg = 0\n FindLcg = %d\n ExtraLcg = {}\n' % nfind)
    r = ctx.tlc("SM4Tab", "find.cfg", workers=ncpu, timeout=3000)
    hw = markers(r["out"], "HW")
    khits = sorted(x["s"] for x in hw if x["khit"])
    ehits = sorted(x["s"] for x in hw if x["ehit"])
    kf = sorted(x["s"] for x in hw if x["khitf"])
    ef = sorted(x["s"] for x in hw if x["ehitf"])
    lim = 40 if thorough else 6
    extra = sorted(set(khits[:lim] + ehits[:lim] + kf[:lim] + ef[:lim]))
    if not kf or not ef:
        raise Infra("half-word search found no ffff half (key schedule %d, rounds %d)" % (len(kf), len(ef)))
    ctx.log("half-word search over %d (key, block) pairs: %d hit the key schedule, %d the encryption rounds; %d added as vectors" % (len(hw), len(khits), len(ehits), len(extra)))
    if not khits or not ehits:
        raise Infra("half-word search found nothing")
    ctx.cov["halfword_edge_pairs"] = len(extra)
    with open(os.path.join(d, "tab.cfg"), "w") as f:
        f.write('SPECIFICATION Spec\nCONSTANTS\n TablesFile = "sm4tables.json"\n BitStep = %d\n FillStep = %d\n NLcg = %d\n FindLcg = 0\n ExtraLcg = {%s}\n'
                % ((1, 1, 1500, ", ".join(map(str, extra))) if thorough else (2, 3, 120, ", ".join(map(str, extra)))))
    r = ctx.tlc("SM4Tab", "tab.cfg", workers=ncpu, timeout=3000)
    okt = markers(r["out"], "TABOK")
    bad = markers(r["out"], "TABBAD")
    if len(okt) + len(bad) != 256 + 1024 + 4 + 32:
        raise Infra("table comparison incomplete: %d ok + %d bad" % (len(okt), len(bad)))
    for b in bad:
        ctx.violation("SM4 table entry in the code differs from the GM/T 0002 formula: %s" % json.dumps(b), b)
    ctx.log("tables: %d entries equal the formulas, %d differ" % (len(okt), len(bad)))
    cases = markers(r["out"], "CASE")
    casef = os.path.join(ctx.work, "cases.ndjson")
    obsf = os.path.join(ctx.work, "obs.ndjson")
    write_ndjson(casef, cases)
    ctx.harness(["c05-vec", casef, obsf])
    ok = compare_cases(ctx, cases, read_ndjson(obsf), None, "SM4 vector")
    ctx.log("vector / key-length cases equal: %d / %d" % (ok, len(cases)))

    # (R)+(V) call sequences on one object
    depth = 4 if thorough else 3
    with open(os.path.join(d, "cobj.cfg"), "w") as f:
        f.write("SPECIFICATION Spec\nCONSTANTS\n KeyIds = {1, 2}\n BlkIds = {1, 2, 3}\n MaxOps = %d\nCONSTRAINT Emit\n" % depth)
    r = ctx.tlc("CipherObj", "cobj.cfg", workers=1, timeout=1500)
    behs = markers(r["out"], "BEH")
    if len(behs) != 2 * 14 ** depth:
        raise Infra("expected %d behaviours, got %d" % (2 * 14 ** depth, len(behs)))
    tab = []
    for c in cases:
        cc = c["case"]
        if cc["kind"] == "vec" and cc["k"][0] == "lcg" and cc["k"][1] in (101, 102) and cc["b"][1] in (1, 2, 3):
            tab.append({"k": cc["k"][1] - 100, "b": cc["b"][1], "enc": c["expect"]["enc"], "dec": c["expect"]["dec"]})
    if len(tab) != 6:
        raise Infra("object table incomplete")
    write_ndjson(os.path.join(d, "objtable.ndjson"), tab)
    behf = os.path.join(ctx.work, "beh.ndjson")
    trf = os.path.join(ctx.work, "trace.ndjson")
    write_ndjson(behf, behs)
    ctx.harness(["c05-beh", behf, trf])
    traces, cur = [], []
    for e in read_ndjson(trf):
        if e["ev"] == "new" and cur:
            traces.append(cur)
            cur = []
        cur.append(e)
    traces.append(cur)

    def describe(i, lineno, ev):
        return ("trace of real sm4 cipher object rejected by CipherObj at event %d: %s" % (lineno, json.dumps(ev)[:300]),
                {"behaviour": behs[i], "trace": traces[i], "rejected_at": lineno})
    acc, nev = validate_traces(ctx, "CipherObjTrace", TRACE_CFG, traces, describe, tag="cobj")
    ctx.cov["traces_validated_against_impl"] = acc
    ctx.cov["events_validated"] = nev
    ctx.log("object traces accepted: %d / %d (%d events)" % (acc, len(traces), nev))
    ctx.cov["evaluations"] = len(cases) + len(behs) + len(okt) + len(bad)
    ctx.cov["distinct_nontrivial"] = len(cases) + len(behs) + len(okt) + len(bad)
    ctx.cov["table_entries_checked"] = len(okt) + len(bad)
    ctx.cov["exhaustive"] = False
    ctx.cov["rule"] = ("vector cases = distinct (key, block) descriptors of SM4Tab (standard example, single-bit keys and blocks, "
                       "byte fills, pseudo-random pairs) and key lengths 0..64; table entries = every entry of sbox, the four T-tables, FK, CK; "
                       "behaviours = every Encrypt/Decrypt call sequence of depth %d over 3 blocks x aliasing on one object" % depth)
    ctx.sample({"vector_case": rnd.choice(cases)})
    ctx.sample({"behaviour": rnd.choice(behs)})
    ctx.sample({"table_entry": okt[0] if okt else bad[0]})
