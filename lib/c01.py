# C01 - SM2 signatures are complete, sound and match GM/T 0003.2.
#   SM2Toy.tla (exhaustive on a 29-point and a 59-point curve), SM2.tla + SM2Tab.tla (real curve, anchored by the
#   GM/T 0003.5 Appendix A example), BigNat/ECurve/SM3
import json
import os
import random

from vf import Infra, markers, write_ndjson, read_ndjson

LEVEL = "model_checking"
N_HEX = "fffffffeffffffffffffffffffffffff7203df6b21c6052b53bbf40939d54123"
N = int(N_HEX, 16)
STD_D = "3945208f7b2144b13f36e38ac6d39f95889393692860b51a42fb81ef4df7c5b8"
STD_K = "59276e27d506861a16680f3ad9c02dccef3cc1fa3cdbe4ce6d54b80deac1bc21"

TOYS = {29: dict(P=23, A=1, B=4, N=29, GX=0, GY=2), 59: dict(P=53, A=2, B=1, N=59, GX=0, GY=1)}


def toy_cfg(t):
    return "SPECIFICATION Spec\nCONSTANTS\n" + "".join(" %s = %d\n" % kv for kv in t.items()) + "INVARIANTS Complete Sound NonceR EveryBranch\n"


def der_int(v):
    b = v.to_bytes((v.bit_length() + 8) // 8 or 1, "big")
    while len(b) > 1 and b[0] == 0 and b[1] < 0x80:
        b = b[1:]
    return bytes([2, len(b)]) + b


def der_sig(r, s):
    body = der_int(r) + der_int(s)
    return bytes([0x30, len(body)]) + body


def tlc_table(ctx, cases, tag):
    d = ctx.tladir()
    write_ndjson(os.path.join(d, "sm2cases.%s.ndjson" % tag), cases)
    with open(os.path.join(d, "sm2tab.%s.cfg" % tag), "w") as f:
        f.write('SPECIFICATION Spec\nCONSTANTS\n CasesFile = "sm2cases.%s.ndjson"\n' % tag)
    r = ctx.tlc("SM2Tab", "sm2tab.%s.cfg" % tag, workers=min(16, os.cpu_count() or 4), timeout=3300)
    rows = markers(r["out"], "CASE")
    if len(rows) != len(cases):
        raise Infra("SM2Tab: %d rows for %d cases" % (len(rows), len(cases)))
    return rows


def find_special_keys(ctx, upto):
    """small private keys whose public coordinates have leading zero bytes (TLC searches)"""
    rows = tlc_table(ctx, [{"kind": "findkey", "d": d} for d in range(1, upto + 1)], "find")
    out = []
    for x in rows:
        e = x["expect"]
        if e["xlen"] < 32 or e["ylen"] < 32:
            out.append((x["case"]["d"], e["xlen"], e["ylen"]))
    return sorted(out)


def run_toy(ctx, n, thorough):
    d = ctx.tladir()
    with open(os.path.join(d, "toy%d.cfg" % n), "w") as f:
        f.write(toy_cfg(TOYS[n]))
    r = ctx.tlc("SM2Toy", "toy%d.cfg" % n, workers=min(16, os.cpu_count() or 4), timeout=3300)
    rows = markers(r["out"], "CASE")
    if len(rows) != r["distinct"] // 2:
        raise Infra("toy table incomplete")
    g = [x for x in rows if x["case"]["kind"] == "group"][0]
    if not g["expect"]["ok"]:
        raise Infra("toy group table is not a group")
    casef = os.path.join(ctx.work, "toy%d.ndjson" % n)
    obsf = os.path.join(ctx.work, "toy%d.obs.ndjson" % n)
    write_ndjson(casef, rows)
    ctx.harness(["c01-toy", casef, obsf], timeout=3000)
    obs = {json.dumps(o["case"], sort_keys=True): o["got"] for o in read_ndjson(obsf)}
    ok = nsig = nver = 0
    branches = {}
    for x in rows:
        c = x["case"]
        if c["kind"] == "group":
            continue
        gg = obs[json.dumps(c, sort_keys=True)]
        probs = []
        if c["kind"] == "sign":
            for t, o in zip(x["expect"]["tries"], gg["tries"]):
                nsig += 1
                if o.get("panic") or o.get("err"):
                    probs.append("k=%d: %s" % (t["k"], o.get("panic") or o.get("err")))
                    continue
                want = (t["r"], t["s"], 1) if t["ok"] else (t["r2"], t["s2"], 2)
                if not t["ok"]:
                    branches[t["why"]] = branches.get(t["why"], 0) + 1
                if (o["r"], o["s"]) != want[:2]:
                    probs.append("nonce %d%s: signature (%d, %d), GM/T 0003.2 prescribes (%d, %d)" % (
                        t["k"], "" if t["ok"] else " (must be redrawn: %s, then %d)" % (t["why"], t["k2"]), o["r"], o["s"], want[0], want[1]))
                elif o["draws"] != want[2]:
                    probs.append("nonce %d: %d draws from the random source, expected %d" % (t["k"], o["draws"], want[2]))
                elif not o["verifies"]:
                    probs.append("nonce %d: own signature does not verify" % t["k"])
        else:
            nver += (TOYS[n]["N"] + 1) ** 2
            uns = {tuple(p) for p in x["expect"]["unspec"]}
            want = {tuple(p) for p in x["expect"]["accept"]}
            for name in ("accept", "accept_hash"):
                got = {tuple(p) for p in (gg[name] or [])} - uns
                if got != want:
                    extra, miss = sorted(got - want)[:4], sorted(want - got)[:4]
                    probs.append("%s: accepts %s that the standard rejects, rejects %s that it accepts" % ("Sm2Verify" if name == "accept" else "Verify", extra, miss))
            if gg["panic"]:
                probs.append("verify panicked: " + gg["panic"])
            if gg["neg"]:
                probs.append("negative r or s accepted")
        if probs:
            ctx.violation("toy curve n=%d, key d=%d, digest residue e=%d: %s" % (n, c["d"], c["e"], "; ".join(probs[:4])), {"case": c, "expect": x["expect"], "observed": gg})
        else:
            ok += 1
    ctx.log("toy curve n=%d: %d (key, digest) cases conforming of %d; %d signing attempts, retry branches hit: %s; %d candidate (r,s) judged" % (
        n, ok, len(rows) - 1, nsig, branches, nver))
    for b in ("r=0", "r+k=n", "s=0"):
        if not branches.get(b):
            raise Infra("vacuous: retry branch %s never exercised on the toy curve" % b)
    return len(rows) - 1, nsig


def run(ctx):
    thorough = ctx.tier == "thorough"
    rnd = random.Random(ctx.seed)
    ctx.build_harness()
    ctx.cov["trusted_base"] = ["TLC 1.8.0", "java.math.BigInteger (BigNat override)", "GM/T 0003.5 Appendix A signature example reproduced by SM2.tla",
                               "toy elliptic.Curve in the harness: a lookup in the XY table computed by TLC"]
    ctx.tlc("ECurveKAT", "ECurveKAT.cfg", workers=1)
    ncase, nsig = run_toy(ctx, 29, thorough)
    if thorough:
        a, b = run_toy(ctx, 59, thorough)
        ncase += a
        nsig += b

    # real curve
    special = find_special_keys(ctx, 3000 if thorough else 700)
    ctx.log("small keys with short public coordinates (found by TLC): %s" % special[:8])
    keys = [STD_D, "1", "2", hex(N - 2)[2:], "00ff".lstrip("0"), hex(rnd.getrandbits(255))[2:]] + [hex(d)[2:] for d, _, _ in special[:6]]
    # d with leading zero bytes
    keys.append(hex(rnd.getrandbits(236))[2:])
    ids = [{"kind": "default"}, {"kind": "absent"}, {"kind": "len", "n": 1}, {"kind": "len", "n": 8191}, {"kind": "empty"}]
    mlens = [0, 1, 55, 56, 64, 65, 4096] + ([65536] if thorough else [])
    cases = [{"kind": "sign", "d": STD_D, "id": {"kind": "default"}, "mf": 9, "mlen": 0, "ks": [STD_K]}]
    for i, dk in enumerate(keys):
        for j, idd in enumerate(ids):
            if not thorough and (i + j) % 2 and i > 1:
                continue
            ml = mlens[(i * 3 + j) % len(mlens)]
            cases.append({"kind": "sign", "d": dk, "id": idd, "mf": 0, "mlen": ml, "ks": [hex(rnd.randrange(1, N))[2:]]})
    for ml in mlens:
        cases.append({"kind": "sign", "d": keys[5], "id": {"kind": "default"}, "mf": 0, "mlen": ml, "ks": [hex(rnd.randrange(1, N))[2:]]})
    # block boundaries of the two hashes behind a signature: e = SM3(ZA || M) pads at |M| = 23, 24, 32 (mod 64), and
    # ZA = SM3(ENTL || ID || a || b || G || P) at |ID| = 53, 54, 62 (mod 64)
    for ml in (23, 24, 32, 87):
        cases.append({"kind": "sign", "d": keys[5], "id": {"kind": "default"}, "mf": 0, "mlen": ml, "ks": [hex(rnd.randrange(1, N))[2:]]})
    for idn in (53, 54, 62, 117):
        cases.append({"kind": "sign", "d": keys[5], "id": {"kind": "len", "n": idn}, "mf": 0, "mlen": 1, "ks": [hex(rnd.randrange(1, N))[2:]]})
    # sparse scalars (long runs of zero digits in any recoding) as private key and as nonce
    for sp in (hex((1 << 200) + 1)[2:], hex((1 << 255) - (1 << 130))[2:]):
        cases.append({"kind": "sign", "d": sp, "id": {"kind": "default"}, "mf": 0, "mlen": 5, "ks": [hex(rnd.randrange(1, N))[2:]]})
        cases.append({"kind": "sign", "d": keys[5], "id": {"kind": "default"}, "mf": 0, "mlen": 5, "ks": [sp]})
    rows = tlc_table(ctx, cases, "sign")
    std = rows_by(rows, cases[0])
    if std["expect"]["r"] != "f5a03b0648d2c4630eeac513e1bb81a15944da3827d5b74143ac7eaceee720b3" or \
       std["expect"]["s"] != "b1b6aa29df212fd8763182bc0d421ca1bb9038fd1f7f42d4840b69c485bbc1aa":
        raise Infra("SM2.tla does not reproduce the GM/T 0003.5 Appendix A example")
    # rejection catalogue derived from each expected signature
    vcases, dcases = [], []
    for x in rows[: (len(rows) if thorough else 8)]:
        c, e = x["case"], x["expect"]
        r, s = int(e["r"], 16), int(e["s"], 16)
        base = {"kind": "verify", "d": c["d"], "id": c["id"], "mf": c["mf"], "mlen": c["mlen"]}
        cand = [(r, s), (r + 1, s), (r - 1, s), (r, s + 1), (r, s - 1), (0, s), (r, 0), (N, s), (r, N), (r + N, s), (r, s + N), (r, (N - r) % N), (s, r)]
        for (rr, ss) in cand:
            if rr >= 0 and ss >= 0:
                vcases.append(dict(base, r=hex(rr)[2:], s=hex(ss)[2:]))
        vcases.append(dict(base, r=e["r"], s=e["s"], mlen=c["mlen"] + 1))                      # other message
        vcases.append(dict(base, r=e["r"], s=e["s"], id={"kind": "len", "n": 3}))              # other id
        vcases.append(dict(base, r=e["r"], s=e["s"], d=hex(int(c["d"], 16) + 1)[2:]))          # other key
        if c["id"]["kind"] == "default":
            good = der_sig(r, s)
            bad = {
                "trailing byte": good + b"\x00",
                "non-minimal r": bytes([0x30, len(good) - 2 + 1]) + bytes([2, good[3] + 1, 0]) + good[4:] if good[4] < 0x80 else None,
                "wrong outer tag": bytes([0x31]) + good[1:],
                "long-form length": bytes([0x30, 0x81, len(good) - 2]) + good[2:],
                "indefinite length": bytes([0x30, 0x80]) + good[2:] + b"\x00\x00",
                "three integers": bytes([0x30, len(good) - 2 + 3]) + good[2:] + bytes([2, 1, 1]),
                "one integer": bytes([0x30, 2 + good[3]]) + good[2:4 + good[3]],
                "negative r": bytes([0x30, len(good) - 2]) + bytes([2, good[3], good[4] | 0x80]) + good[5:] if good[4] < 0x80 and good[4] != 0 else None,
                "empty": b"",
                "truncated": good[:-1],
                # the sign octet 00 in front of an r (s) whose top bit is set taken away: DER then reads a negative number
                "r without its sign octet": (bytes([0x30, len(good) - 3, 2, good[3] - 1]) + good[5:]) if good[4] == 0 else None,
                "s without its sign octet": (bytes([0x30, len(good) - 3]) + good[2:4 + good[3]] + bytes([2, good[5 + good[3]] - 1]) + good[7 + good[3]:]) if good[6 + good[3]] == 0 else None,
                # the numbers in other containers than SEQUENCE { INTEGER, INTEGER }: fixed-width r || s (64 bytes, the format of
                # hardware modules), the same behind a 04 prefix, two bare INTEGERs without the SEQUENCE, an OCTET STRING pair
                "raw r || s (64 bytes)": r.to_bytes(32, "big") + s.to_bytes(32, "big"),
                "04 || r || s": b"\x04" + r.to_bytes(32, "big") + s.to_bytes(32, "big"),
                "two bare INTEGERs": good[2:],
                "SEQUENCE of two OCTET STRINGs": bytes([0x30, 68, 4, 32]) + r.to_bytes(32, "big") + bytes([4, 32]) + s.to_bytes(32, "big"),
            }
            dcases.append({"kind": "der", "d": c["d"], "mf": c["mf"], "mlen": c["mlen"], "der": good.hex(), "what": "valid", "want": True})
            for k, v in bad.items():
                if v is not None:
                    dcases.append({"kind": "der", "d": c["d"], "mf": c["mf"], "mlen": c["mlen"], "der": v.hex(), "what": k, "want": False})
    vrows = tlc_table(ctx, vcases, "verify")
    allcases = [x["case"] for x in rows] + [x["case"] for x in vrows] + dcases
    casef = os.path.join(ctx.work, "real.ndjson")
    obsf = os.path.join(ctx.work, "real.obs.ndjson")
    write_ndjson(casef, [{"case": c} for c in allcases])
    ctx.harness(["c01-real", casef, obsf], timeout=3000)
    obs = read_ndjson(obsf)
    ok = 0
    exp = {json.dumps(x["case"], sort_keys=True): x["expect"] for x in rows + vrows}
    for o in obs:
        c, g = o["case"], o["got"]
        e = exp.get(json.dumps(c, sort_keys=True))
        probs = []
        if g.get("panic"):
            probs.append("panic: " + g["panic"])
        elif c["kind"] == "sign":
            if g.get("err"):
                probs.append("Sm2Sign failed: " + g["err"])
            else:
                if g.get("za") != e["za"]:
                    probs.append("ZA differs from GM/T 0003.2 (%s.. vs %s..)" % (str(g.get("za"))[:16], e["za"][:16]))
                if (g["r"], g["s"]) != (e["r"], e["s"]):
                    probs.append("(r, s) is not the pair the standard prescribes for this key, id, message and nonce")
                if g["draws"] != e["draws"]:
                    probs.append("%d nonce draws, expected %d" % (g["draws"], e["draws"]))
                if not g["verifies"]:
                    probs.append("own signature rejected")
                if "der" in g:
                    if g["der"] != der_sig(int(e["r"], 16), int(e["s"], 16)).hex():
                        probs.append("Sign() output is not the DER SEQUENCE of the standard's (r, s)")
                    if not g["der_verifies"]:
                        probs.append("PublicKey.Verify rejects the DER signature")
        elif c["kind"] == "verify":
            if g["accept"] != e["accept"]:
                probs.append("Sm2Verify returned %s, the standard says %s" % (g["accept"], e["accept"]))
        elif c["kind"] == "der":
            if g["accept"] != c["want"]:
                probs.append("DER form '%s': Verify returned %s" % (c["what"], g["accept"]))
        if probs:
            ctx.violation("real curve %s: %s" % (json.dumps({k: (v if len(str(v)) < 70 else str(v)[:60] + "..") for k, v in c.items()}, sort_keys=True), "; ".join(probs)),
                          {"case": c, "expect": e, "observed": g})
        else:
            ok += 1
    ctx.log("real curve cases conforming: %d / %d (%d signatures, %d verification candidates, %d DER forms)" % (ok, len(obs), len(rows), len(vrows), len(dcases)))
    ctx.cov["evaluations"] = nsig + len(obs)
    ctx.cov["distinct_nontrivial"] = ncase + len(obs)
    ctx.cov["exhaustive"] = False
    ctx.cov["rule"] = ("toy: every (private key, digest residue) with every nonce (retry branches included) and every candidate (r, s) in [0, n]^2; real curve: distinct "
                       "(key incl. short-coordinate and boundary keys, user id absent/default/1/8191 bytes, message length, scripted nonce) cases, single-field perturbations of each "
                       "valid tuple, malformed DER encodings")
    ctx.sample({"real_sign_case": cases[1], "expect": rows_by(rows, cases[1])["expect"]})
    ctx.sample({"verify_candidate": vrows[3]["case"], "accept": vrows[3]["expect"]["accept"]})


def rows_by(rows, case):
    k = json.dumps(case, sort_keys=True)
    for x in rows:
        if json.dumps(x["case"], sort_keys=True) == k:
            return x
    raise Infra("case not found")
