# C06 - GMSSL/TLS handshakes agree on parameters and keys and then carry data intact.
#   TLCPCfg.tla: configuration-level specification (PolicyOutcome), one state per configuration
import json
import os
import random

from vf import Infra, markers, write_ndjson, read_ndjson

LEVEL = "model_checking"


def judge(case, exp, g):
    """Returns list of problems (empty = conforms)."""
    probs = []
    cli, srv = g["Cli"], g["Srv"]
    for side, o in (("client", cli), ("server", srv)):
        if o["panic"]:
            probs.append("%s panicked: %s" % (side, o["panic"][:200]))
    if g["timeout"]:
        probs.append("handshake did not terminate within the deadline")
    if probs:
        return probs
    both_failed = (not cli["complete"] and not srv["complete"] and cli["err"] and srv["err"])
    if exp["result"] == "fail":
        if cli["complete"] or srv["complete"]:
            probs.append("policy (%s) forbids this combination but %s completed" % (exp["why"], "both ends" if cli["complete"] and srv["complete"] else ("the client" if cli["complete"] else "the server")))
        elif not both_failed:
            probs.append("forbidden combination must fail on both sides with an error (client err=%r, server err=%r)" % (cli["err"], srv["err"]))
        return probs
    if exp.get("mayfail") and both_failed:
        return probs
    if not (cli["complete"] and srv["complete"]):
        probs.append("correctly configured peers did not complete: client err=%r server err=%r" % (cli["err"], srv["err"]))
        return probs
    if cli["err"] or srv["err"]:
        probs.append("completed with an error: %r / %r" % (cli["err"], srv["err"]))
    want_vers = [0x0101] if exp["proto"] == "gm" else [0x0301, 0x0302, 0x0303]
    if cli["version"] != srv["version"] or cli["version"] not in want_vers:
        probs.append("versions: client %04x server %04x, expected %s" % (cli["version"], srv["version"], exp["proto"]))
    if cli["suite"] != srv["suite"]:
        probs.append("cipher suites differ: client %s server %s" % (cli["suite"], srv["suite"]))
    elif cli["suite"] != exp["suite"] and not exp.get("mayfail"):
        probs.append("negotiated %s, the configured preference selects %s" % (cli["suite"], exp["suite"]))
    if (cli["peer"] or []) != g["want_peer_c"]:
        probs.append("client's view of the server certificates is not what the server sent")
    want_s = g["want_peer_s"] if exp["clientcert"] != "none" else []
    if (srv["peer"] or []) != (want_s or []):
        probs.append("server's view of the client certificate: %s, expected %s" % (srv["peer"], want_s))
    if cli["ekm"] != srv["ekm"] or cli["ekm"].startswith("error") or not cli["ekm"]:
        probs.append("exported keying material differs or failed: %s / %s" % (cli["ekm"][:40], srv["ekm"][:40]))
    if cli["resumed"] or srv["resumed"]:
        probs.append("a first connection reports DidResume")
    if case.get("data") and not g["data_ok"]:
        probs.append("application data: %s" % g["data_err"])
    return probs


def run(ctx):
    thorough = ctx.tier == "thorough"
    rnd = random.Random(ctx.seed)
    ctx.build_harness()
    ncpu = min(16, os.cpu_count() or 4)
    ctx.cov["trusted_base"] = ["TLC 1.8.0", "fixture PKI of gmtls/websvr/certs (externally issued)", "in-memory duplex with transparent interposer"]
    r = ctx.tlc("TLCPCfg", "TLCPCfg.cfg", workers=2, timeout=1700)
    rows = markers(r["out"], "CASE")
    inter = markers(r["out"], "INTEROP")
    if len(rows) + len(inter) != r["distinct"] // 2:
        raise Infra("table incomplete: %d rows for %d states" % (len(rows), r["distinct"]))
    ctx.log("TLCPCfg: %d configurations with the policy's verdict" % len(rows))
    if thorough:
        chosen = rows
    else:
        # every mode/auth/ccert combination at least once, the rest seeded
        seen, chosen, rest = set(), [], []
        rnd.shuffle(rows)
        for x in rows:
            c = x["case"]
            k = (c["smode"], c["ckind"], c["auth"], c["ccert"], x["expect"]["result"], x["expect"].get("why"))
            if k not in seen:
                seen.add(k)
                chosen.append(x)
            else:
                rest.append(x)
        chosen += rest[:1200]
    for i, x in enumerate(chosen):
        x["case"] = dict(x["case"])
        if i % 3 != 1:
            x["case"]["offer"] = True       # the client offers the session-ticket extension (independent of the server's setting)
        if x["expect"]["result"] == "complete" and (i % (7 if not thorough else 23) == 0):
            x["case"]["data"] = True
            if (i // (7 if not thorough else 23)) % 2 == 1:
                x["case"]["dyn"] = True
    casef = os.path.join(ctx.work, "cases.ndjson")
    obsf = os.path.join(ctx.work, "obs.ndjson")
    write_ndjson(casef, chosen)
    ctx.harness(["c06-run", casef, obsf], timeout=3300)
    obs = read_ndjson(obsf)
    if len(obs) != len(chosen):
        raise Infra("driver returned %d observations for %d cases" % (len(obs), len(chosen)))
    ok = 0
    nd = 0
    for x, o in zip(chosen, obs):
        if json.dumps(x["case"], sort_keys=True) != json.dumps(o["case"], sort_keys=True):
            raise Infra("case order mismatch")
        probs = judge(x["case"], x["expect"], o["got"])
        if x["case"].get("data"):
            nd += 1
        if probs:
            ctx.violation("configuration %s: %s" % (json.dumps(x["case"], sort_keys=True), "; ".join(probs)),
                          {"case": x["case"], "expect": x["expect"], "observed": o["got"]})
        else:
            ok += 1
    ctx.log("configurations conforming: %d / %d (%d with 260 kB of application data)" % (ok, len(chosen), nd))
    # message level: the flights the interposer saw, checked by TLC against TLCPFlight
    d = ctx.tladir()
    fobs = []
    for x, o in zip(chosen, obs):
        c, g = x["case"], o["got"]
        if x["expect"]["result"] == "fail" and x["expect"]["why"] == "mode":
            continue            # GMSSL client against a TLS-only server or the reverse: no common protocol to speak of
        proto = "gm" if c["ckind"] == "gm" else "tls"
        complete = bool(g["Cli"]["complete"] and g["Srv"]["complete"])
        suite = g["Cli"]["suite"] if complete else ""
        fobs.append({"proto": proto, "suite": suite, "auth": c["auth"], "ccert": c["ccert"], "tickets": bool(c["tickets"]) and bool(c.get("offer")), "complete": complete,
                     "flight": g.get("flight") or [], "case": json.dumps(c, sort_keys=True)})
    write_ndjson(os.path.join(d, "flights.ndjson"), fobs)
    with open(os.path.join(d, "flight.cfg"), "w") as f:
        f.write('SPECIFICATION Spec\nCONSTANTS\n ObsFile = "flights.ndjson"\n')
    fr = ctx.tlc("TLCPFlight", "flight.cfg", workers=4, timeout=1500)
    verdicts = {v["i"]: v for v in markers(fr["out"], "FLIGHT")}
    if len(verdicts) != len(fobs):
        raise Infra("TLCPFlight: %d verdicts for %d handshakes" % (len(verdicts), len(fobs)))
    fok = 0
    for i, fo in enumerate(fobs, 1):
        if verdicts[i]["ok"]:
            fok += 1
        else:
            ctx.violation("configuration %s: the handshake messages on the wire %s are not the flights GM/T 0024 / TLS order for it%s"
                          % (fo["case"], " ".join(fo["flight"]), (" (" + " ".join(verdicts[i]["expected"]) + ")") if verdicts[i]["expected"] else ""),
                          {"handshake": fo, "expected": verdicts[i]["expected"]})
    ctx.log("handshake flights conforming to TLCPFlight: %d / %d (%d completed)" % (fok, len(fobs), sum(1 for x in fobs if x["complete"])))
    # independent TLS 1.0-1.2 implementation: crypto/tls of the Go standard library as the peer
    icf = os.path.join(ctx.work, "interop.ndjson")
    iof = os.path.join(ctx.work, "interop.obs.ndjson")
    write_ndjson(icf, inter)
    ctx.harness(["c06-interop", icf, iof], timeout=1200)
    iobs = read_ndjson(iof)
    iok = 0
    for x, o in zip(inter, iobs):
        g, e, c = o["got"], x["expect"], x["case"]
        probs = []
        if g["GmPanic"]:
            probs.append("gmtls panicked: " + g["GmPanic"][:200])
        if g["Timeout"]:
            probs.append("did not terminate")
        if e["result"] == "complete":
            if not (g["GmComplete"] and g["StdComplete"]):
                probs.append("did not complete: gmtls err=%r, crypto/tls err=%r" % (g["GmErr"], g["StdErr"]))
            else:
                if g["GmVers"] != e["vers"] or g["StdVers"] != e["vers"]:
                    probs.append("versions gmtls %04x crypto/tls %04x expected %04x" % (g["GmVers"], g["StdVers"], e["vers"]))
                if g["GmSuite"] != e["suite"] or g["StdSuite"] != e["suite"]:
                    probs.append("suites gmtls %s crypto/tls %s expected %s" % (g["GmSuite"], g["StdSuite"], e["suite"]))
                if not g["DataOK"]:
                    probs.append("application data: " + g["DataErr"])
        else:
            if g["GmComplete"] or g["StdComplete"]:
                probs.append("completed although %s" % e["why"])
        if probs:
            ctx.violation("interop %s: %s" % (json.dumps(c, sort_keys=True), "; ".join(probs)), {"case": c, "expect": e, "observed": g})
        else:
            iok += 1
    ctx.log("interop with crypto/tls conforming: %d / %d" % (iok, len(inter)))
    # independent GM/T 0024 decoder: the TLA+ specification itself (RecordWire over SM3/HMAC/PRF/SM4/GCM)
    d = ctx.tladir()
    nper = 8 if thorough else 1
    ctx.harness(["c06-wire", str(nper), os.path.join(d, "sessions.ndjson")], timeout=600)
    sess = read_ndjson(os.path.join(d, "sessions.ndjson"))
    with open(os.path.join(d, "rw.cfg"), "w") as f:
        f.write('SPECIFICATION Spec\nCONSTANTS\n SessionsFile = "sessions.ndjson"\n')
    rw = ctx.tlc("RecordWire", "rw.cfg", workers=min(ncpu, len(sess)), timeout=3000)
    wires = {w["id"]: w for w in markers(rw["out"], "WIRE")}
    wok = 0
    for sx in sess:
        w = wires.get(sx["id"])
        if w is None:
            raise Infra("session %d not decoded" % sx["id"])
        probs = []
        for k in ("keylog_random_matches", "client_finished_opens", "client_verify_data_ok", "server_finished_opens",
                  "server_verify_data_ok", "c_app_opens", "s_app_opens"):
            if not w[k]:
                probs.append(k.replace("_", " ") + ": FALSE" + (" (%s)" % w.get(k.replace("opens", "why"), "") if k.endswith("opens") and w.get(k.replace("opens", "why")) else ""))
        if w["c_app_plain"] != sx["c_sent"]:
            probs.append("client application record does not decode to what the client wrote")
        if w["s_app_plain"] != sx["s_sent"]:
            probs.append("server application record does not decode to what the server wrote")
        if probs:
            ctx.violation("GMSSL session over %s (client auth %s): the bytes on the wire are not what GM/T 0024 prescribes for the logged master secret: %s"
                          % (sx["suite"], sx["auth"], "; ".join(probs)), {"session": sx, "decoded": w})
        else:
            wok += 1
    ctx.log("GMSSL sessions decoded by the TLA+ specification (key block, record protection, both Finished, application data): %d / %d" % (wok, len(sess)))
    ctx.cov["wire_sessions_decoded_by_spec"] = len(sess)
    ctx.cov["interop_cases"] = len(inter)
    ctx.cov["evaluations"] = len(chosen) + len(inter)
    ctx.cov["distinct_nontrivial"] = len(chosen) + len(inter)
    ctx.cov["exhaustive"] = thorough
    ctx.cov["rule"] = ("one case = one configuration of TLCPCfg (server mode, client kind, both suite lists, preference, ClientAuth, client certificate, "
                       "certificate source, tickets) with the verdict of the policy; each is a real handshake between gmtls.Client and gmtls.Server; all distinct")
    for x in rnd.sample(chosen, 3):
        ctx.sample({"case": x["case"], "expect": x["expect"]})
