# C14 - keys, signatures and ciphertexts survive every offered serialization unchanged.
#   Codec.tla: serialisation conventions (writer / reader pairs) checked by TLC over all model integers; case table
import json
import os
import random

from vf import Infra, markers, write_ndjson, read_ndjson

LEVEL = "exploration"


def run(ctx):
    thorough = ctx.tier == "thorough"
    rnd = random.Random(ctx.seed)
    ctx.build_harness()
    ctx.cov["trusted_base"] = ["TLC 1.8.0", "shape predicates of the harness (byte length / top nibble / top bit of the real integers)"]
    r = ctx.tlc("Codec", "Codec.cfg", workers=4, timeout=900)
    rows = markers(r["out"], "CASE")
    # the model can tell the repaired convention mismatch (anti-vacuity)
    r2 = ctx.tlc("Codec", "Codec_dev.cfg", workers=4, timeout=900, expect_fail=True, count=False)
    if "AllRoundTrip" not in r2["out"] or r2["rc"] == 0:
        raise Infra("Codec: the minimal-hex deviation is not detected by the model")
    ctx.log("Codec: every writer/reader pair round-trips on all %d model integers; %d table cases" % (65536, len(rows)))
    casef = os.path.join(ctx.work, "cases.ndjson")
    obsf = os.path.join(ctx.work, "obs.ndjson")
    write_ndjson(casef, rows)
    scratch = os.path.join(ctx.work, "files")
    os.makedirs(scratch, exist_ok=True)
    ctx.harness(["c14-run", casef, obsf, scratch, "1" if thorough else "0"], timeout=3000)
    obs = read_ndjson(obsf)
    ok = 0
    for x, o in zip(rows, obs):
        c, e, g = x["case"], x["expect"], o["got"]
        probs = []
        if g.get("panic"):
            probs.append("panic: " + g["panic"][:200])
        elif c["kind"] in ("key", "sig", "cipher"):
            probs += g.get("problems") or []
        elif c["kind"] == "wrongpwd":
            if g.get("problems"):
                probs += g["problems"]
            for a in g.get("accepted") or []:
                probs.append("a password-protected key was decoded with another password: " + a)
        elif c["kind"] == "loader":
            if g.get("problems"):
                probs += g["problems"]
            elif g["accept"] != e["accept"]:
                probs.append("%s %s a certificate with a %s key%s" % (c["ser"], "accepted" if g["accept"] else "rejected", {"match": "matching", "match_prefixed": "matching (behind other PEM blocks in the key input)", "otherkey": "different", "swapped": "swapped sign/enc", "negated": "negated (n-d, same x)", "grafted": "different (the certificate's public point grafted into its PKCS#8 file)", "match_chain": "matching (certificate PEM = leaf + CA)", "chain_cakey": "CA's (certificate PEM = leaf + CA)"}[c["shape"]],
                                                                    (" (" + g.get("err", g.get("note", "")) + ")") if g.get("err") or g.get("note") else ""))
        if probs:
            ctx.violation("%s: %s" % (json.dumps(c, sort_keys=True), "; ".join(probs[:3])), {"case": c, "expect": e, "observed": g})
        else:
            ok += 1
    ctx.log("cases conforming: %d / %d" % (ok, len(rows)))
    ctx.cov["evaluations"] = len(rows)
    ctx.cov["distinct_nontrivial"] = len(rows)
    ctx.cov["exhaustive"] = True
    ctx.cov["rule"] = ("case = serialiser (hex private/public key, compressed point, PKIX PEM, PKCS#8 PEM x 5 password classes, ASN.1 signature, ASN.1 ciphertext) x value shape "
                       "(plain, 1 or 2 leading zero bytes, leading zero nibble, high bit) on d / x / y / r / s / C1; wrong passwords (one character, case, length, empty); six TLS key-pair loaders x "
                       "{matching, other key, sign/enc swapped}")
    for x in rnd.sample(rows, 3):
        ctx.sample(x)
