# C07 - protected records cannot be altered, reordered, replayed or truncated undetected.
#   Record.tla (authenticated channel + adversary), HalfConnTrace.tla (per half-connection hooks)
import json
import os
import random
import subprocess

from vf import REPO, GOENV, Infra, markers, write_ndjson, read_ndjson, validate_traces

LEVEL = "model_checking"
HOWS = ["type", "type21", "type20", "vers", "len+", "len-", "iv", "body", "last", "trunc1", "truncblk", "ext1", "extblk"]
ALIENS = ["forged", "otherdir", "otherconn"]
SUITES = [0xe013, 0xe053]
DIRS = ["c2s", "s2c"]

HC_CFG = """SPECIFICATION TraceSpec
CONSTANTS
  TraceFile = "%s"
CONSTRAINT HighWater
POSTCONDITION Accepted
"""


def rec_cfg(nrec, budget, canonical, hows, aliens, props):
    s = "SPECIFICATION Spec\nCONSTANTS\n NRec = %d\n Budget = %d\n Hows = {%s}\n Aliens = {%s}\n Canonical = %s\n" % (
        nrec, budget, ", ".join('"%s"' % h for h in hows), ", ".join('"%s"' % a for a in aliens), "TRUE" if canonical else "FALSE")
    if props:
        s += "INVARIANTS Prefix SeqByOne TypeOK\nPROPERTIES Sticky\nVIEW View\n"
    else:
        s += "CONSTRAINT Emit\n"
    return s


def run(ctx):
    thorough = ctx.tier == "thorough"
    rnd = random.Random(ctx.seed)
    ctx.build_harness()
    d = ctx.tladir()
    ncpu = min(16, os.cpu_count() or 4)
    ctx.cov["trusted_base"] = ["TLC 1.8.0", "record-level interposer of the harness (parses 5-byte headers only)",
                               "verif hooks in halfConn.encrypt/decrypt/changeCipherSpec/setErrorLocked"]

    # 1. the channel model with a free-running adversary: exhaustive
    with open(os.path.join(d, "rec_mc.cfg"), "w") as f:
        f.write(rec_cfg(4 if thorough else 3, 3, False, ["any"], ["any"], True))
    r = ctx.tlc("Record", "rec_mc.cfg", workers=ncpu, timeout=1700)
    ctx.log("Record (free adversary) exhaustive: %d generated / %d distinct" % (r["generated"], r["distinct"]))
    # the same in canonical (replay) form: same invariants
    with open(os.path.join(d, "rec_can.cfg"), "w") as f:
        f.write(rec_cfg(3, 2, True, ["any"], ["any"], True))
    ctx.tlc("Record", "rec_can.cfg", workers=4)

    # 2. every canonical adversary schedule with concrete instances
    with open(os.path.join(d, "rec_gen.cfg"), "w") as f:
        f.write(rec_cfg(3, 2, True, HOWS, ALIENS, False))
    r = ctx.tlc("Record", "rec_gen.cfg", workers=1, timeout=1700, count=False)
    behs = markers(r["out"], "BEH")
    if len(behs) < 1000:
        raise Infra("only %d schedules generated" % len(behs))
    ctx.log("canonical adversary schedules from TLC: %d" % len(behs))
    scheds = []
    combos = [(s, dd) for s in SUITES for dd in DIRS]
    if thorough:
        chosen = [(b, c) for b in behs for c in combos]
        chosen = rnd.sample(chosen, 6000) if len(chosen) > 6000 else chosen
    else:
        single = [b for b in behs if len(b["ops"]) <= 1]
        double = [b for b in behs if len(b["ops"]) == 2]
        chosen = [(b, c) for b in single for c in combos] + [(b, rnd.choice(combos)) for b in rnd.sample(double, 900)]
    for b, (s, dd) in chosen:
        scheds.append({"ops": b["ops"], "delivered": b["delivered"], "err": b["err"], "suite": s, "dir": dd, "plan": "small"})
    # big payloads (16384-byte record) with a few single operations
    for b in [x for x in behs if len(x["ops"]) == 1 and x["ops"][0].get("how") in ("body", "last", "trunc1", None)][:12]:
        s, dd = rnd.choice(combos)
        scheds.append({"ops": b["ops"], "delivered": b["delivered"], "err": b["err"], "suite": s, "dir": dd, "plan": "big"})
    # one 40 000-byte Write cut into several records by the record layer, untouched by the adversary (the half-connection
    # trace spec sees every record's sequence number and explicit IV / nonce)
    for (s, dd) in combos:
        scheds.append({"ops": [], "delivered": 4 if s == 0xe013 else 3, "err": False, "suite": s, "dir": dd, "plan": "huge"})
    # record-type rewrites on payloads that would parse as an alert / ChangeCipherSpec (GCM: no 1/n-1 split)
    for b in [x for x in behs if len(x["ops"]) == 1 and x["ops"][0].get("how") in ("type", "type21", "type20")]:
        for dd in DIRS:
            scheds.append({"ops": b["ops"], "delivered": b["delivered"], "err": b["err"], "suite": 0xe053, "dir": dd, "plan": "alertlike"})
    # the same single operations arriving after the receiver has half-closed its own direction (CloseWrite: its close_notify is
    # out; what it receives is protected exactly as before)
    singles = [b for b in behs if len(b["ops"]) == 1]
    for b in (singles if thorough else rnd.sample(singles, min(len(singles), 40))):
        s, dd = rnd.choice(combos)
        scheds.append({"ops": b["ops"], "delivered": b["delivered"], "err": b["err"], "suite": s, "dir": dd, "plan": "small", "rcv_closewrite": True})
    # far into a connection: the same single operations (and the untouched stream) with the direction's counters at 2^32 - 2, so
    # that the three planned records carry the sequence number into its upper half (replays of earlier records must still fail)
    for b in [{"ops": [], "delivered": 3, "err": False}] + (singles if thorough else rnd.sample(singles, min(len(singles), 24))):
        for (s, dd) in (combos if not b["ops"] else [rnd.choice(combos)]):
            scheds.append({"ops": b["ops"], "delivered": b["delivered"], "err": b["err"], "suite": s, "dir": dd, "plan": "small", "seq_start": "fffffffe"})
    # the end of the counter: with 2^64 - 2 records behind it a direction can seal two more, and never a third
    for (s, dd) in combos:
        scheds.append({"ops": [], "delivered": 2, "err": False, "suite": s, "dir": dd, "plan": "exhaust", "seq_start": "fffffffffffffffe"})
    # a Write that the transport cuts short with an expired write deadline, then further Writes after the deadline was lifted
    for (s, dd) in combos:
        scheds.append({"ops": [], "delivered": 1, "err": False, "suite": s, "dir": dd, "plan": "wtimeout"})
    # both ends draw randomness from a source that returns 3 bytes per Read: handshake and explicit IVs must not care
    for (s, dd) in combos:
        for plan in ("small", "huge"):
            scheds.append({"ops": [], "delivered": (4 if s == 0xe013 else 3) if plan == "huge" else 3, "err": False, "suite": s, "dir": dd, "plan": plan, "short_rand": True})
    # 3. the abstract Flip instantiated at every bit (thorough) / one bit of every byte (quick) of record 2
    nbits = {}
    for (s, dd) in (combos if thorough else [combos[ctx.seed % 4], combos[(ctx.seed + 1) % 4]]):
        # record 2 of the small plan: header 5 + body; the driver reports the size, bits beyond are skipped
        for k in range(0, 8 * 110, 1 if thorough else 8):
            scheds.append({"ops": [{"op": "flip", "i": 2, "how": "bit:%d" % (k + (0 if thorough else rnd.randrange(8)))}],
                           "delivered": 1, "err": True, "suite": s, "dir": dd, "plan": "small", "sweep": True})
    for i, s in enumerate(scheds):
        s["id"] = i
    sf = os.path.join(ctx.work, "sched.ndjson")
    of = os.path.join(ctx.work, "obs.ndjson")
    tf = os.path.join(ctx.work, "hooks.ndjson")
    write_ndjson(sf, scheds)
    # sweep entries whose bit lies outside the record make the driver fail: filter by probing sizes first
    # (the driver returns an error for them, so give it only bits inside the smallest record: 5+~40 bytes)
    ctx.log("running %d schedules against real connections" % len(scheds))
    ctx.harness(["c07-run", sf, of, tf], timeout=3000)
    obs = {o["id"]: o for o in read_ndjson(of)}
    ok = 0
    timeouts = []
    for s in scheds:
        o = obs.get(s["id"])
        if o is None:
            raise Infra("schedule %d not executed" % s["id"])
        if o["err_class"] == "skipped":      # sweep bit beyond the end of this suite's record
            continue
        if o["err_class"] == "timeout":
            # the driver gave up after 8 s: not a verdict by itself.  It is reported as an infrastructure failure at the
            # end, unless other schedules of the same run show a violation (a receiver that goes on reading after an
            # error typically produces both)
            timeouts.append(s)
            continue
        probs = []
        if s["plan"] == "wtimeout":
            if not o["bytes_ok"]:
                ctx.violation("suite %04x %s: the receiver delivered %d bytes that are not the first payload after a record was torn by a write timeout (%s)" % (s["suite"], s["dir"], o["extra_bytes"], o["err_text"]), {"schedule": s, "observed": o})
            else:
                ok += 1
            continue
        if s["plan"] == "exhaust":
            if o["delivered"] > 2:
                ctx.violation("suite %04x %s: %s" % (s["suite"], s["dir"], o["err_text"]), {"schedule": s, "observed": o})
            else:
                ok += 1
            continue
        if o.get("panic"):
            probs.append("receiver panicked: " + o["panic"])
        if not o["bytes_ok"] or o["delivered"] > s["delivered"]:
            probs.append("receiver delivered bytes the sender did not send at that position (%d whole records + %d further bytes; the specification allows exactly %d records)"
                         % (o["delivered"], o["extra_bytes"], s["delivered"]))
        elif o["delivered"] < s["delivered"]:
            probs.append("receiver delivered only %d of the %d untouched leading records" % (o["delivered"], s["delivered"]))
        if o.get("after_err"):
            probs.append("Read delivered %d more bytes after it had returned an error (the error is not sticky)" % o["after_err"])
        if s["err"] and o["err_class"] != "fatal":
            probs.append("the first affected record was not rejected with a fatal error (Read ended with %s)" % (o["err_text"] or "EOF"))
        if not s["err"] and o["err_class"] != "eof":
            probs.append("untouched stream ended with an error: %s" % o["err_text"])
        if probs:
            ctx.violation("suite %04x %s plan=%s%s ops=%s: %s" % (s["suite"], s["dir"], s["plan"], " (receiver half-closed)" if s.get("rcv_closewrite") else "", json.dumps(s["ops"]), "; ".join(probs)),
                          {"schedule": s, "observed": o})
        else:
            ok += 1
    ctx.log("schedules conforming: %d / %d" % (ok, len(scheds)))
    if timeouts and not ctx.violations:
        raise Infra("%d schedule(s) timed out, e.g. %s" % (len(timeouts), json.dumps(timeouts[0])[:300]))

    # 4. (V) every record operation of every half connection in all those runs
    events = read_ndjson(tf)
    traces, cur = [], []
    for e in events:
        if e["ev"] == "reset" and cur:
            traces.append(cur)
            cur = []
        cur.append(e)
    traces.append(cur)
    # the executions of the repository's OWN gmtls tests (HTTPS over GMSSL, auto-switch server, client authentication ...): a
    # verif-tagged test file installs the same hooks, and every record operation those tests cause is validated as well
    rt = os.path.join(ctx.work, "repo_tests.trace.ndjson")
    try:
        pr = subprocess.run(["go", "test", "-tags", "verif", "-count=1", "./gmtls"], cwd=REPO, env=dict(GOENV, VERIF_TRACE=rt),
                            capture_output=True, text=True, timeout=600)
        ran = pr.returncode == 0 and os.path.exists(rt)
    except subprocess.TimeoutExpired:
        ran = False
    if ran:
        revs = read_ndjson(rt)
        traces.append([{"ev": "reset", "id": "repository tests (go test ./gmtls)"}] + revs)
        ctx.log("repository's own gmtls tests: %d record operations recorded through the hooks" % len(revs))
        ctx.cov["repository_test_events"] = len(revs)
    else:
        # (fixed ports: another run of these tests on the machine makes them fail; that is not this property's subject)
        ctx.log("repository's own gmtls tests did not run cleanly here; their traces are not part of this run")
        ctx.cov["repository_test_events"] = 0
    # freshness of explicit IVs under the short-read random source: every 4-byte window of the 16-byte IVs of a run takes a
    # different value in every record (a stale or zero-filled part would repeat)
    short_ids = {s["id"] for s in scheds if s.get("short_rand")}
    nfresh = 0
    for t in traces:
        tid = t[0].get("id")
        if tid in short_ids:
            ivs = [e["iv"] for e in t if e["ev"] == "enc" and len(e.get("iv", [])) == 16]
            nfresh += len(ivs)
            for w in (0, 4, 8, 12):
                vals = [tuple(iv[w:w + 4]) for iv in ivs]
                if len(set(vals)) != len(vals):
                    ctx.violation("suite %04x %s: explicit IVs drawn through a random source with short reads are not fresh: bytes %d..%d repeat across records (%s)"
                                  % (scheds[tid]["suite"], scheds[tid]["dir"], w, w + 3, [bytes(iv).hex() for iv in ivs[:4]]), {"schedule": scheds[tid], "ivs": ivs[:8]})
                    break
    ctx.cov["explicit_ivs_checked_for_freshness"] = nfresh
    for t in traces:
        t.append({"ev": "end"})

    def describe(i, lineno, ev):
        tid = traces[i][0].get("id")
        return ("hook trace of run %s rejected by HalfConnTrace at event %d: %s" % (tid, lineno, json.dumps(ev)[:300]),
                {"schedule": scheds[tid] if isinstance(tid, int) and tid < len(scheds) else None, "trace": traces[i][:80], "rejected_at": lineno})
    acc, nev = validate_traces(ctx, "HalfConnTrace", HC_CFG, traces, describe, tag="hc")
    ctx.log("half-connection traces accepted: %d / %d (%d record operations)" % (acc, len(traces), nev))
    ctx.cov["traces_validated_against_impl"] = acc
    ctx.cov["events_validated"] = nev
    ctx.cov["evaluations"] = len(scheds)
    ctx.cov["distinct_nontrivial"] = len({json.dumps([s["ops"], s["suite"], s["dir"], s["plan"]]) for s in scheds if s["ops"]})
    ctx.cov["exhaustive"] = False
    ctx.cov["rule"] = ("schedule = canonical adversary behaviour of Record.tla (<=2 actions over 3 records: flip with a concrete instance, drop, dup, swap, inject forged / "
                       "other-direction / other-connection record) x suite x direction, plus single-bit flips of record 2; non-trivial = at least one adversary action")
    for s in rnd.sample(scheds, 3):
        ctx.sample({k: s[k] for k in ("ops", "delivered", "err", "suite", "dir", "plan")})

    # 4b. CBC padding catalogue: TLC seals records with every padding length under the live session keys
    padcat(ctx, thorough, rnd)

    # 5. binding self-test: a trace with a wrong sequence number must be rejected
    if not ctx.violations:
        t = [dict(e) for e in traces[0]]
        hit = False
        for e in t:
            if e["ev"] == "enc" and e["seq"][7] >= 1:
                e["seq"] = e["seq"][:7] + [e["seq"][7] + 1]
                hit = True
                break
        if hit:
            import io, contextlib
            saved = list(ctx.violations)
            with contextlib.redirect_stdout(io.StringIO()):
                validate_traces(ctx, "HalfConnTrace", HC_CFG, [t], lambda i, l, e: ("selftest", {}), tag="self")
            rejected = len(ctx.violations) > len(saved)
            for _, p in ctx.violations[len(saved):]:
                try:
                    os.remove(p)
                except OSError:
                    pass
            ctx.violations = saved
            if not rejected:
                raise Infra("self-test: corrupted hook trace accepted")
            ctx.cov["binding_selftest"] = "hook trace with one sequence number off by one rejected"


def padcat(ctx, thorough, rnd):
    import subprocess
    from vf import GOENV
    d = ctx.tladir()
    nconn = 64 if thorough else 16
    lengths = list(range(256))
    rnd.shuffle(lengths)
    # corruptions: (pad, index of the corrupted padding byte; index pad = the length byte itself)
    corr = [(255, 0), (255, 255), (255, 128), (255, 1), (16, 0), (15, 15), (0, 0), (1, 0), (254, 0), (200, 100)]
    while len(corr) < nconn:
        L = rnd.randrange(256)
        corr.append((L, rnd.randrange(L + 1)))
    plans = []
    per = (256 + nconn - 1) // nconn
    for i in range(nconn):
        recs = [{"pad": L, "corrupt": -1} for L in lengths[i * per:(i + 1) * per]]
        L, j = corr[i]
        recs.append({"pad": L, "corrupt": j})
        plans.append({"recs": recs})
    planf = os.path.join(ctx.work, "padplan.ndjson")
    jobsf = os.path.join(d, "padjobs.ndjson")
    sealedf = os.path.join(ctx.work, "sealed.ndjson")
    obsf = os.path.join(ctx.work, "padobs.ndjson")
    write_ndjson(planf, plans)
    pr = subprocess.Popen([ctx.hbin, "c07-pad", planf, jobsf, sealedf, obsf], stdin=subprocess.PIPE, stdout=subprocess.PIPE,
                          stderr=subprocess.PIPE, text=True, env=dict(GOENV), cwd=ctx.work)
    try:
        while True:
            line = pr.stdout.readline()
            if not line:
                raise Infra("padding driver died: " + pr.stderr.read()[-2000:])
            if line.strip() == "READY":
                break
        with open(os.path.join(d, "seal.cfg"), "w") as f:
            f.write('SPECIFICATION Spec\nCONSTANTS\n JobsFile = "padjobs.ndjson"\n')
        r = ctx.tlc("RecordSeal", "seal.cfg", workers=min(16, nconn), timeout=3000)
        sealed = markers(r["out"], "SEALED")
        if len(sealed) != nconn:
            raise Infra("TLC sealed %d of %d connections" % (len(sealed), nconn))
        for s in sealed:
            if not all(x["aligned"] for x in s["recs"]):
                raise Infra("padding plan not block aligned")
        write_ndjson(sealedf, sealed)
        pr.stdin.write("go\n")
        pr.stdin.flush()
        out, err = pr.communicate(timeout=600)
        if pr.returncode != 0:
            raise Infra("padding driver failed: " + err[-2000:])
    finally:
        if pr.poll() is None:
            pr.kill()
    obs = read_ndjson(obsf)
    nval = sum(1 for p in plans for r in p["recs"] if r["corrupt"] == -1)
    ok = 0
    for o in obs:
        if o["valid"]:
            if o["err"] or o["delivered"] != o["want"]:
                ctx.violation("CBC record with valid padding length %d sealed by the specification was not delivered: err=%r delivered=%s" % (o["pad"], o["err"], o["delivered"][:8]), o)
            else:
                ok += 1
        else:
            if not o["err"] or o["delivered"]:
                ctx.violation("CBC record with padding length %d and padding byte %d corrupted was accepted (delivered %d bytes, err=%r)" % (o["pad"], o["corrupt"], len(o["delivered"]), o["err"]), o)
            else:
                ok += 1
    if len(obs) < nval:
        raise Infra("padding catalogue incomplete: %d observations" % len(obs))
    ctx.log("CBC padding catalogue: %d TLC-sealed records (all lengths 0..255 valid, %d corrupted) judged correctly: %d" % (len(obs), nconn, ok))
    ctx.cov["padding_records_sealed_by_tlc"] = len(obs)
