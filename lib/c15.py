# C15 - a misbehaving handshake peer gets an error, never completion, a crash or a hang.
#   TLCPPeer.tla: endpoint flight grammar + one peer deviation; TLC enumerates (role, position, op)
import json
import os
import random

from vf import Infra, markers, write_ndjson, read_ndjson

LEVEL = "fault_enumeration"


def run(ctx):
    thorough = ctx.tier == "thorough"
    rnd = random.Random(ctx.seed)
    ctx.build_harness()
    ctx.cov["trusted_base"] = ["TLC 1.8.0", "message-level interposer of the harness (reassembles plaintext handshake messages, re-frames records)",
                               "an honest gmtls endpoint supplies the context-correct messages"]
    cfgname = "TLCPPeer.cfg"
    if thorough:
        # the other GMSSL suite, TLS 1.2 ECDHE (ServerKeyExchange in the flight) and TLS 1.0 CBC as further endpoint roles
        d = ctx.tladir()
        t = open(os.path.join(d, "TLCPPeer.cfg")).read()
        t = t.replace('"client_tls_ecdhe"}', '"client_tls_ecdhe", "client_gm_gcm", "server_gm_gcm", "server_tls_ecdhe"}')
        t = t.replace("CutMax = 100", "CutMax = 400")
        cfgname = "TLCPPeer_thorough.cfg"
        with open(os.path.join(d, cfgname), "w") as f:
            f.write(t)
    r = ctx.tlc("TLCPPeer", cfgname, workers=1, timeout=1800)
    rows = markers(r["out"], "CASE")
    if len(rows) < 1000:
        raise Infra("only %d cases from TLCPPeer" % len(rows))
    ctx.cov["states"] = r["distinct"]
    ctx.cov["transitions"] = r["generated"]
    ctx.log("TLCPPeer: %d (role, position, deviation) cases, every one explored to its verdict" % len(rows))
    chosen = rows if thorough else rows   # ~1.5k handshakes run in parallel: cheap enough for the quick tier
    casef = os.path.join(ctx.work, "cases.ndjson")
    obsf = os.path.join(ctx.work, "obs.ndjson")
    write_ndjson(casef, chosen)
    ctx.harness(["c15-run", casef, obsf], timeout=3000)
    obs = read_ndjson(obsf)
    if len(obs) != len(chosen):
        raise Infra("driver returned %d observations for %d cases" % (len(obs), len(chosen)))
    ok = skipped = 0
    for x, o in zip(chosen, obs):
        g, c = o["got"], x["case"]
        if g["skipped"]:
            skipped += 1
            continue
        probs = []
        if g["eut_panic"]:
            probs.append("endpoint panicked: " + g["eut_panic"][:600])
        if g["hang"]:
            probs.append("endpoint kept waiting although its input had ended")
        if x["expect"] == "abort":
            if not g["applied"] and not probs:
                raise Infra("deviation was never applied: %s -> %s" % (json.dumps(c), json.dumps(g)))
            if g["eut_complete"]:
                probs.append("endpoint reported the handshake as complete")
            elif g["eut_returned"] and not g["eut_err"] and not g["eut_panic"]:
                probs.append("Handshake returned nil")
        else:
            if not g["eut_complete"] or g["eut_err"]:
                probs.append("a benign variation of the honest flight (%s) was not completed: %s" % (c["op"]["op"], g["eut_err"]))
        if probs:
            ctx.violation("endpoint %s (client auth %s), peer deviation %s: %s" % (c["role"], c["ca"], json.dumps(c["op"], sort_keys=True), "; ".join(probs)),
                          {"case": c, "expect": x["expect"], "observed": g})
        else:
            ok += 1
    ctx.log("cases conforming: %d / %d (%d skipped)" % (ok, len(chosen) - skipped, skipped))
    ctx.cov["evaluations"] = len(chosen) - skipped
    ctx.cov["distinct_nontrivial"] = len([x for x in chosen if x["expect"] == "abort"])
    ctx.cov["exhaustive"] = True
    ctx.cov["rule"] = ("case = (endpoint role in {GM client, GM-only server, auto-switch server x GM/TLS, TLS client, TLS server}, client auth on/off, position in the plaintext flight, "
                       "one deviation: drop / duplicate / swap / inject each of 15 message kinds / 9 truncations and length perturbations / CCS / application data / alerts / close); "
                       "non-trivial = the deviation changes what the endpoint receives")
    for x in rnd.sample(chosen, 3):
        ctx.sample(x)
