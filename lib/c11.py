# C11 - SM4 ECB/CBC/CFB/OFB helpers equal the standard PKCS#7-padded modes and invert.
#   Modes.tla (modes over SM4.tla + the package-level IV as state), ModesTab.tla, ModesTrace.tla
import json
import os
import random

from vf import Infra, markers, write_ndjson, read_ndjson, validate_traces

LEVEL = "model_checking"
MODES = ["ecb", "cbc", "cfb", "ofb"]
BEH_LENS = [0, 1, 15, 16, 17, 31, 32, 33]

TRACE_CFG = """SPECIFICATION TraceSpec
CONSTANTS
  ModeSet = {}
  IvIds = {}
  LenSet = {}
  MaxOps = 0
  TraceFile = "%s"
  TableFile = "modetable.ndjson"
CONSTRAINT HighWater
POSTCONDITION Accepted
"""


def run(ctx):
    thorough = ctx.tier == "thorough"
    rnd = random.Random(ctx.seed)
    ctx.build_harness()
    d = ctx.tladir()
    ncpu = min(16, os.cpu_count() or 4)
    ctx.cov["trusted_base"] = ["TLC 1.8.0 + Bitwise", "SM4.tla anchored by the GM/T 0002 example (PrimKAT)"]
    ctx.tlc("PrimKAT", "PrimKAT.cfg", workers=1)

    # cases: every length 0..64 for every mode and two IVs (default all-zero, set); padding
    # look-alike families on 0..48; beyond 64 every length to 1024 in thorough, a seeded sample in quick
    cases = set()
    for m in MODES:
        for n in range(0, 65):
            for iv in (0, 1):
                cases.add((m, iv, 0, n))
        for n in range(0, 49):
            cases.add((m, 1, 1, n))
            cases.add((m, 0, 2, n))
        big = range(65, 1025) if thorough else sorted(rnd.sample(range(65, 1025), 10) + [1023, 1024])
        for n in big:
            cases.add((m, 1 if n % 2 else 0, 0, n))
        for iv in (0, 1, 2, 3, 4, 5, 6):
            for n in BEH_LENS:
                cases.add((m, iv, 0, n))
    cases = sorted(c + (7,) for c in cases)
    # other keys, interleaved with the usual one (the driver hands every key over in one reused buffer), and inputs past 64 KiB
    extra = []
    for m in MODES:
        for n in (0, 15, 16, 33):
            for k in (8, 7, 9, 8):
                extra.append((m, 1, 0, n, k))
    # keys that begin / end / begin and end with an ASCII white-space byte (09..0d, 20): key bytes are not text
    for m in MODES:
        for k in (11, 5, 1206):
            extra.append((m, 1, 0, 33, k))
    extra += [("ecb", 0, 0, 65536, 7), ("cbc", 1, 0, 65537, 8), ("ofb", 2, 0, 4097, 7), ("cfb", 1, 0, 4100, 9), ("ofb", 1, 0, 9000, 8)] + ([("cfb", 1, 0, 70001, 7), ("ofb", 2, 0, 131072, 7), ("ecb", 0, 0, 262144, 9)] if thorough else [])
    cases = cases + extra
    write_ndjson(os.path.join(d, "modecases.ndjson"), [{"mode": c[0], "iv": c[1], "fam": c[2], "len": c[3], "key": c[4]} for c in cases])
    with open(os.path.join(d, "mtab.cfg"), "w") as f:
        f.write('SPECIFICATION Spec\nCONSTANTS\n CasesFile = "modecases.ndjson"\n')
    r = ctx.tlc("ModesTab", "mtab.cfg", workers=ncpu, timeout=3300)
    rows = markers(r["out"], "CASE")
    if len(rows) != len(cases):
        raise Infra("table incomplete: %d of %d" % (len(rows), len(cases)))
    ctx.log("TLC computed %d ciphertexts (%d blocks)" % (len(rows), sum(len(x["expect"]) // 16 for x in rows)))
    casef = os.path.join(ctx.work, "cases.ndjson")
    obsf = os.path.join(ctx.work, "obs.ndjson")
    write_ndjson(casef, rows)
    ctx.harness(["c11-table", casef, obsf])
    obs = {json.dumps(o["case"], sort_keys=True): o["got"] for o in read_ndjson(obsf)}
    ok = 0
    for row in rows:
        c = row["case"]
        g = obs.get(json.dumps({"mode": c["mode"], "iv": c["iv"], "fam": c["fam"], "len": c["len"], "key": c["key"]}, sort_keys=True))
        if g is None:
            g = obs.get(json.dumps(c, sort_keys=True))
        if g is None:
            raise Infra("case not evaluated: %s" % c)
        want_len = 16 * (c["len"] // 16 + 1)
        probs = []
        for tag in ("nospare", "spare"):
            if g["err_" + tag]:
                probs.append("encrypt error (%s): %s" % (tag, g["err_" + tag]))
            elif g["ct_" + tag] != row["expect"]:
                probs.append("ciphertext (%s) differs from the standard mode%s" % (tag, "" if len(g["ct_" + tag] or []) == want_len else " (length %d, expected %d)" % (len(g["ct_" + tag] or []), want_len)))
            if not g["in_intact_" + tag]:
                probs.append("input slice or key modified (%s)" % tag)
            if not g["spare_intact_" + tag]:
                probs.append("spare capacity behind the plaintext overwritten")
        pt = [(i * 29 + 11) % 256 for i in range(1, c["len"] + 1)] if c["fam"] == 0 else \
             [1 + ((c["len"] - i) % 16) for i in range(1, c["len"] + 1)] if c["fam"] == 1 else [16] * c["len"]
        if g["dec_err"]:
            probs.append("decrypt error: " + g["dec_err"])
        elif (g["dec"] or []) != pt:
            probs.append("decrypting the standard ciphertext does not return the plaintext")
        if not g["dec_in_intact"]:
            probs.append("decrypt modified its input")
        if probs:
            ctx.violation("Sm4 %s helper, iv=%d fam=%d len=%d: %s" % (c["mode"], c["iv"], c["fam"], c["len"], "; ".join(probs)),
                          {"case": c, "expect": row["expect"], "got": g})
        else:
            ok += 1
    ctx.log("table cases conforming: %d / %d" % (ok, len(rows)))

    # behaviours with SetIV interleaved
    write_ndjson(os.path.join(d, "modetable.ndjson"),
                 [{"mode": x["case"]["mode"], "iv": x["case"]["iv"], "fam": x["case"]["fam"], "len": x["case"]["len"], "ct": x["expect"]}
                  for x in rows if x["case"]["key"] == 7 and x["case"]["fam"] == 0 and x["case"]["len"] in BEH_LENS])
    nsim = 1500 if thorough else 150
    with open(os.path.join(d, "msim.cfg"), "w") as f:
        f.write('SPECIFICATION Spec\nCONSTANTS\n ModeSet = {"ecb", "cbc", "cfb", "ofb"}\n IvIds = {0, 1, 2, 3, 4, 5, 6}\n LenSet = {%s}\n MaxOps = 6\nCONSTRAINT Emit\n'
                % ", ".join(map(str, BEH_LENS)))
    r = ctx.tlc("Modes", "msim.cfg", workers=1, simulate="num=%d" % nsim, depth=7, timeout=1500)
    behs = markers(r["out"], "BEH")
    behs = [b for b in behs if any(o["op"] == "setiv" for o in b)] or behs
    if len(behs) > (4000 if thorough else 600):
        behs = rnd.sample(behs, 4000 if thorough else 600)
    behf = os.path.join(ctx.work, "beh.ndjson")
    trf = os.path.join(ctx.work, "trace.ndjson")
    write_ndjson(behf, behs)
    ctx.harness(["c11-beh", behf, os.path.join(d, "modetable.ndjson"), trf])
    traces, cur = [], []
    for e in read_ndjson(trf):
        if e["ev"] == "start" and cur:
            traces.append(cur)
            cur = []
        cur.append(e)
    traces.append(cur)

    def describe(i, lineno, ev):
        return ("trace of the real mode helpers rejected by Modes at event %d: %s" % (lineno, json.dumps(ev)[:300]),
                {"behaviour": behs[i], "trace": traces[i], "rejected_at": lineno})
    acc, nev = validate_traces(ctx, "ModesTrace", TRACE_CFG, traces, describe, tag="modes")
    ctx.log("SetIV behaviours accepted: %d / %d (%d events)" % (acc, len(traces), nev))
    ctx.cov["traces_validated_against_impl"] = acc
    ctx.cov["evaluations"] = len(rows) * 3 + len(behs)
    ctx.cov["distinct_nontrivial"] = len(rows) + len(behs)
    ctx.cov["exhaustive"] = False
    ctx.cov["rule"] = ("table case = distinct (mode, IV, plaintext family, length): all lengths 0..64 x 4 modes x 2 IVs, padding look-alikes 0..48, "
                       "lengths 65..1024 %s; each encrypts with and without spare capacity and decrypts the specification's ciphertext; "
                       "behaviour = distinct SetIV/encrypt/decrypt sequence of 6 operations simulated by TLC" % ("exhaustively" if thorough else "sampled by seed"))
    ctx.sample({"table_case": rows[len(rows) // 2]["case"], "expect_first_block": rows[len(rows) // 2]["expect"][:16]})
    ctx.sample({"behaviour": rnd.choice(behs)})
