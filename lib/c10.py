# C10 - chain verification accepts exactly the chains a reference path validator accepts.
#   PKIX.tla: declarative ValidChains over abstract certificates; PKI templates x knobs as a table spec
import json
import os
import random

from vf import Infra, markers, write_ndjson, read_ndjson

LEVEL = "model_checking"


def run(ctx):
    thorough = ctx.tier == "thorough"
    rnd = random.Random(ctx.seed)
    ctx.build_harness()
    d = ctx.tladir()
    ncpu = min(16, os.cpu_count() or 4)
    ctx.cov["trusted_base"] = ["TLC 1.8.0", "PKI materialised with the library's own CreateCertificate (explicit SM2-SM3) and fresh SM2 keys"]
    with open(os.path.join(d, "pkix.cfg"), "w") as f:
        f.write("SPECIFICATION Spec\nCONSTANT Pairs = %s\nINVARIANTS ChainsUseSupplied HonestAccepts\n" % ("TRUE" if thorough else "FALSE"))
    r = ctx.tlc("PKIX", "pkix.cfg", workers=ncpu, timeout=3300)
    rows = markers(r["out"], "CASE")
    if len(rows) != r["distinct"] // 2:
        raise Infra("table incomplete")
    nacc = sum(1 for x in rows if x["accept"])
    ctx.log("PKIX: %d PKI/query cases (%d with a valid chain, %d without)" % (len(rows), nacc, len(rows) - nacc))
    if thorough and len(rows) > 6000:
        rows = [x for x in rows if len(x["case"]["ck"]) == 2] + rnd.sample([x for x in rows if len(x["case"]["ck"]) > 2], 5000)
    casef = os.path.join(ctx.work, "cases.ndjson")
    obsf = os.path.join(ctx.work, "obs.ndjson")
    write_ndjson(casef, rows)
    ctx.harness(["c10-run", casef, obsf, "24" if thorough else "6"], timeout=3300)
    obs = read_ndjson(obsf)
    ok = nruns = 0
    for x, o in zip(rows, obs):
        want = {tuple(ch) for ch in x["chains"]}
        probs = []
        for ro in o["got"]["orders"]:
            nruns += 1
            if ro["panic"]:
                probs.append("pool order %s: panic %s" % (ro["order"], ro["panic"][:200]))
                continue
            got = {tuple(ch) for ch in (ro["chains"] or [])}
            if ro["ok"] != x["accept"] and x["accept"] and not x["must_accept"]:
                pass      # only chains through a CA whose own EKU excludes the usage: either verdict is within the statement
            elif ro["ok"] != x["accept"]:
                if x["accept"]:
                    probs.append("pool order %s: rejected (%s) although %s is a valid chain" % (ro["order"], ro["err"][:80], sorted(want)[0]))
                else:
                    probs.append("pool order %s: accepted chain(s) %s, the reference validator finds none" % (ro["order"], sorted(got)))
            elif ro["ok"] and not got <= want:
                probs.append("pool order %s: returned chain %s violates a condition" % (ro["order"], sorted(got - want)[0]))
        if probs:
            ctx.violation("PKI %s: %s" % (json.dumps(x["case"], sort_keys=True), "; ".join(probs[:3])), {"case": x, "observed": o["got"]})
        else:
            ok += 1
    ctx.log("cases conforming: %d / %d (%d Verify calls over pool orders)" % (ok, len(rows), nruns))
    ctx.cov["evaluations"] = nruns
    ctx.cov["distinct_nontrivial"] = len(rows)
    ctx.cov["exhaustive"] = False
    ctx.cov["rule"] = ("case = PKI template (linear depth 0-2, two roots with a cross-signed intermediate, mutual cross-signing loop, diamond under a path-length-limited root) x one "
                       "certificate knob (expired, not yet valid, not a CA, no certSign, path length 0/1, forged signature, permitted domains matching / not matching, unknown critical "
                       "extension)%s x one query knob (time, host name case / trailing dot / other / empty, wildcards, IP, requested and leaf EKUs), each under up to %d insertion orders of the pool"
                       % (" or two" if thorough else "", 24 if thorough else 6))
    for x in rnd.sample(rows, 3):
        ctx.sample({"case": x["case"], "accept": x["accept"], "chains": x["chains"]})
