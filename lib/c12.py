# C12 - SM4-GCM helpers compute standard GCM and authenticate all inputs.
#   GCM.tla (SP 800-38D over SM4.tla, executable)  GCMTab.tla (table spec)
import json
import os
import random

from vf import Infra, markers, write_ndjson, read_ndjson

LEVEL = "exploration"


def mk(k=1, ivf=0, ivl=12, af=0, al=0, pf=0, pl=0, tamper=0):
    return {"k": k, "ivf": ivf, "ivl": ivl, "af": af, "al": al, "pf": pf, "pl": pl, "tamper": tamper}


def run(ctx):
    thorough = ctx.tier == "thorough"
    rnd = random.Random(ctx.seed)
    ctx.build_harness()
    d = ctx.tladir()
    ncpu = min(16, os.cpu_count() or 4)
    ctx.cov["trusted_base"] = ["TLC 1.8.0 + Bitwise", "SM4.tla anchored by the GM/T 0002 example (PrimKAT)",
                               "GCM.tla cross-checked on every case against crypto/cipher GCM over the real sm4 block"]
    ctx.tlc("PrimKAT", "PrimKAT.cfg", workers=1)
    cases = []
    pairs = [(a, p) for a in range(0, 81) for p in range(0, 81)]
    if not thorough:
        edge = [0, 1, 15, 16, 17, 31, 32, 33, 48, 80]
        pairs = [(a, p) for a in edge for p in edge] + rnd.sample(pairs, 300)
    for (a, p) in pairs:
        cases.append(mk(al=a, pl=p, tamper=1 if (a + p <= 40 and (thorough or (a * 7 + p) % 4 == 0)) else 0))
    # IV lengths 1..64 (12 is the fast path), IVs of 0xff bytes and IVs ending ff ff ff ff
    for ivl in (range(1, 65) if thorough else [1, 7, 8, 11, 13, 16, 17, 32, 33, 64]):
        cases.append(mk(ivl=ivl, al=5, pl=37, tamper=1 if ivl in (1, 16, 17) else 0))
        cases.append(mk(ivl=ivl, ivf=1, al=16, pl=16))
    for ivl in (17, 32, 33, 48, 64):
        cases.append(mk(ivf=5, ivl=ivl, al=7, pl=33))       # IVs with an all-zero 16-byte block (or zero-padded tail) behind a non-zero one
    for ivl in (4, 12, 16, 20, 32):
        for fam in (6, 7, 8):
            cases.append(mk(ivf=fam, ivl=ivl, al=5, pl=21))     # IVs ending 00000001 / 00000000 / 00000002 (look like a counter block)
    for al in (33, 48, 49, 80):
        cases.append(mk(af=5, al=al, pl=21))                # additional data with an all-zero 16-byte block behind a non-zero one
        cases.append(mk(af=5, al=al, pf=5, pl=al))          # ... and the same shape as plaintext
    for ivl in (8191, 8192, 8200):
        cases.append(mk(ivl=ivl, al=5, pl=21))              # IV lengths whose bit count needs a third byte of the length block
    cases.append(mk(ivf=1, al=3, pl=40, tamper=1))          # 12-byte IV, all 0xff
    cases.append(mk(ivf=3, al=0, pl=33))                    # 12-byte IV ending ff ff ff ff
    cases.append(mk(ivf=2, al=20, pl=20))                   # all-zero IV (the repository test's)
    cases.append(mk(ivf=4, ivl=16, al=9, pl=70, tamper=1))  # IV built by TLC so that inc32 wraps after two blocks
    cases.append(mk(k=2, ivf=4, ivl=16, al=0, pl=48))
    cases.append(mk(k=2, af=1, al=16, pf=1, pl=32))
    cases.append(mk(k=3, af=2, al=17, pf=2, pl=31))
    # keys chosen by the shape of the hash subkey H = SM4_K(0): a zero byte at the front / the end / inside, several zero
    # bytes, a byte 0xff, top bit and bottom bit set - found by TLC over the first keys of the family
    with open(os.path.join(d, "gkeys.cfg"), "w") as f:
        f.write("SPECIFICATION Spec\nCONSTANTS\n NKeys = %d\n" % (4000 if thorough else 1200))
    r = ctx.tlc("GCMKeys", "gkeys.cfg", workers=ncpu, timeout=1500)
    hk = {x["k"]: x["h"] for x in markers(r["out"], "HKEY")}
    shapes = [("zero byte first", lambda h: h[0] == 0), ("zero byte last", lambda h: h[15] == 0), ("zero byte inside", lambda h: 0 in h[1:15]),
              ("two zero bytes", lambda h: h.count(0) >= 2), ("byte ff", lambda h: 255 in h), ("top bit", lambda h: h[0] >= 128), ("bottom bit", lambda h: h[15] % 2 == 1),
              ("top bit clear", lambda h: h[0] < 128)]
    picked = {}
    for name, f in shapes:
        ks = [k for k in sorted(hk) if f(hk[k]) and k not in picked.values()]
        for k in ks[: (3 if thorough else 2) if "zero" in name else 1]:
            picked[name + " #" + str(k)] = k
    if not any("zero" in n for n in picked):
        raise Infra("no key with a zero byte in H among %d" % len(hk))
    ctx.log("keys by shape of H (TLC, %d keys searched): %s" % (len(hk), picked))
    ctx.cov["keys_by_hash_subkey_shape"] = picked
    for k in picked.values():
        cases.append(mk(k=k, al=5, pl=37, tamper=1))
        cases.append(mk(k=k, ivl=16, al=16, pl=16))
        cases.append(mk(k=k, ivl=7, al=0, pl=1))
    # long messages (the counter runs through hundreds of blocks): one beyond 4 KiB in the quick tier
    for pl in ([255, 256, 257, 1024, 4096, 4097, 8200, 16385, 65536] if thorough else [257, 4097]):
        cases.append(mk(al=13, pl=pl))
    seen, uniq = set(), []
    for c in cases:
        k = json.dumps(c, sort_keys=True)
        if k not in seen:
            seen.add(k)
            uniq.append(c)
    cases = uniq
    write_ndjson(os.path.join(d, "gcmcases.ndjson"), cases)
    with open(os.path.join(d, "gtab.cfg"), "w") as f:
        f.write('SPECIFICATION Spec\nCONSTANTS\n CasesFile = "gcmcases.ndjson"\n')
    r = ctx.tlc("GCMTab", "gtab.cfg", workers=ncpu, timeout=3300)
    rows = markers(r["out"], "CASE")
    if len(rows) != len(cases):
        raise Infra("table incomplete: %d of %d" % (len(rows), len(cases)))
    ctx.log("TLC sealed %d cases in %.0fs" % (len(rows), r["wall"]))
    casef = os.path.join(ctx.work, "cases.ndjson")
    obsf = os.path.join(ctx.work, "obs.ndjson")
    write_ndjson(casef, rows)
    ctx.harness(["c12-table", casef, obsf])
    obs = {json.dumps(o["case"], sort_keys=True): o["got"] for o in read_ndjson(obsf)}
    ok = 0
    tam = 0
    for row in rows:
        c = row["case"]
        g = obs.get(json.dumps(c, sort_keys=True))
        if g is None:
            raise Infra("case not evaluated: %s" % c)
        e = row["expect"]
        pt = None
        probs = []
        if "std_ct" in g and (g["std_ct"] != e["ct"] or g["std_tag"] != e["tag"]):
            probs.append("crypto/cipher GCM over sm4.NewCipher (the TLS suites' construction) differs from SP 800-38D as specified")
        if g["enc_err"]:
            probs.append("encrypt: " + g["enc_err"])
        else:
            if g["ct"] != e["ct"]:
                probs.append("ciphertext differs from standard GCM")
            if g["tag"] != e["tag"]:
                probs.append("tag differs from standard GCM")
        if not g["enc_intact"]:
            probs.append("encrypt wrote to caller memory (arguments or their spare capacity)")
        if g["dec_err"]:
            probs.append("decrypt: " + g["dec_err"])
        else:
            want = bytes_of(c["pf"], c["pl"], 3)
            if g["pt"] != want:
                probs.append("decrypt of the standard ciphertext returns %d bytes%s, expected the %d-byte plaintext" % (
                    len(g["pt"] or []), "" if (g["pt"] or [])[:len(want)] != want else " (plaintext followed by extra bytes)", len(want)))
            if g["dec_tag"] != e["tag"]:
                probs.append("tag recomputed at decryption differs from standard GCM")
        if not g["dec_intact"]:
            probs.append("decrypt wrote to caller memory")
        if g.get("tamper_undetected"):
            probs.append("tag unchanged after tampering: %s" % g["tamper_undetected"])
        tam += g.get("tamper_tried", 0)
        if probs:
            ctx.violation("Sm4GCM k=%d iv=(fam %d, %d bytes) aad=(fam %d, %d) pt=(fam %d, %d): %s" % (
                c["k"], c["ivf"], c["ivl"], c["af"], c["al"], c["pf"], c["pl"], "; ".join(probs)),
                {"case": c, "expect": e, "got": g})
        else:
            ok += 1
    wrap = [x for x in rows if x["case"]["ivf"] == 4]
    if not wrap or any(x["expect"]["j0"][12:] != [255, 255, 255, 254] for x in wrap):
        raise Infra("counter-wrap IV construction failed: %s" % [x["expect"]["j0"] for x in wrap])
    ctx.log("cases conforming: %d / %d; single-bit tamperings tried: %d" % (ok, len(rows), tam))
    ctx.cov["evaluations"] = len(rows) + tam
    ctx.cov["distinct_nontrivial"] = len(rows)
    ctx.cov["tamperings"] = tam
    ctx.cov["states"] = r["distinct"]
    ctx.cov["exhaustive"] = False
    ctx.cov["rule"] = ("case = distinct (key, IV family/length, AAD family/length, plaintext family/length) descriptor; TLC computes ciphertext and tag "
                       "from GCM.tla; the helper's encrypt output, its decrypt of the specification's ciphertext, crypto/cipher GCM over sm4.NewCipher and "
                       "(for marked cases) every single-bit change of IV/AAD/ciphertext are compared; every case is non-trivial (distinct lengths/contents)")
    ctx.sample({"case": rows[0]["case"], "expect": rows[0]["expect"]})
    ctx.sample({"case": rows[-1]["case"], "expect_tag": rows[-1]["expect"]["tag"]})


def bytes_of(f, n, salt):
    if f == 0:
        return [(i * 41 + salt * 59 + 5) % 256 for i in range(1, n + 1)]
    if f == 1:
        return [255] * n
    if f == 2:
        return [0] * n
    if f == 5:
        return [i if i <= 16 else 0 if i <= 32 else i % 251 for i in range(1, n + 1)]
    if f in (6, 7, 8):
        return [({6: 1, 7: 0, 8: 2}[f] if i == n else 0) if i > n - 4 else (i * 13 + salt) % 256 for i in range(1, n + 1)]
    return [255 if i > n - 4 else (i * 7 + salt) % 256 for i in range(1, n + 1)]
