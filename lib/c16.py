# C16 - resumption preserves the session or falls back; tickets are authenticated.
#   TLCPResume.tla: histories of connections / key rotations / configuration changes / ticket tampering
import json
import os
import random

from vf import Infra, markers, write_ndjson, read_ndjson

LEVEL = "model_checking"


def cfg(cap, maxops, gen):
    s = 'SPECIFICATION Spec\nCONSTANTS\n ShapeName = "free"\n Cap = %d\n MaxOps = %d\n Suites = {"CBC", "GCM"}\n Names = {"a", "b"}\n Versions = {11, 12}\n' % (cap, maxops)
    if gen:
        s += "CONSTRAINT Emit\n"
    else:
        s += "INVARIANTS ResumeContinues CacheSane CacheBound\nVIEW View\n"
    return s


def run(ctx):
    thorough = ctx.tier == "thorough"
    rnd = random.Random(ctx.seed)
    ctx.build_harness()
    d = ctx.tladir()
    ncpu = min(16, os.cpu_count() or 4)
    ctx.cov["trusted_base"] = ["TLC 1.8.0", "fixture PKI", "verif accessors to the ticket inside a cached client session"]
    # 1. exhaustive (history hidden by VIEW): invariants of the resumption model for both cache capacities
    for cap in (1, 2):
        with open(os.path.join(d, "res_mc.cfg"), "w") as f:
            f.write(cfg(cap, 7 if thorough else 6, False))
        r = ctx.tlc("TLCPResume", "res_mc.cfg", workers=ncpu, timeout=3000)
        ctx.log("TLCPResume exhaustive (cap %d): %d generated / %d distinct" % (cap, r["generated"], r["distinct"]))
    # 2. histories by simulation, replayed
    behs = []
    nsim = 4000 if thorough else 350
    for cap in (1, 2, 3):
        with open(os.path.join(d, "res_gen.cfg"), "w") as f:
            f.write(cfg(cap, 6, True))
        r = ctx.tlc("TLCPResume", "res_gen.cfg", workers=1, simulate="num=%d" % nsim, depth=7, count=False, timeout=1500)
        for b in markers(r["out"], "BEH"):
            behs.append((cap, b))
    # all histories connect, X, Y, connect (every pair of changes between two connections), exhaustively by BFS
    directed = []
    with open(os.path.join(d, "res_dir.cfg"), "w") as f:
        f.write('SPECIFICATION Spec\nCONSTANTS\n ShapeName = "c_xx_c"\n Cap = 1\n MaxOps = 4\n Suites = {"CBC", "GCM"}\n Names = {"a"}\n Versions = {11, 12}\nCONSTRAINT Emit\n')
    r = ctx.tlc("TLCPResume", "res_dir.cfg", workers=1, timeout=1500, count=False)
    for b in markers(r["out"], "BEH"):
        if b[0]["op"] == "connect" and b[-1]["op"] == "connect":
            directed.append((1, b))
    with open(os.path.join(d, "res_dir.cfg"), "w") as f:
        f.write('SPECIFICATION Spec\nCONSTANTS\n ShapeName = "c_x_c"\n Cap = 1\n MaxOps = 3\n Suites = {"CBC", "GCM"}\n Names = {"a"}\n Versions = {11, 12}\nCONSTRAINT Emit\n')
    r = ctx.tlc("TLCPResume", "res_dir.cfg", workers=1, timeout=1500, count=False)
    for b in markers(r["out"], "BEH"):
        if b[0]["op"] == "connect" and b[-1]["op"] == "connect":
            directed.append((1, b))
    # sessions that carry a client certificate: set the policy, connect, any one operation, connect, connect (re-issued tickets)
    with open(os.path.join(d, "res_dir.cfg"), "w") as f:
        f.write('SPECIFICATION Spec\nCONSTANTS\n ShapeName = "cert_x_cc"\n Cap = 1\n MaxOps = 5\n Suites = {"CBC", "GCM"}\n Names = {"a"}\n Versions = {11, 12}\nCONSTRAINT Emit\n')
    r = ctx.tlc("TLCPResume", "res_dir.cfg", workers=1, timeout=1500, count=False)
    ncert = 0
    for b in markers(r["out"], "BEH"):
        if b[0]["op"] == "auth" and b[0]["ccert"] and b[0]["a"] != "none":
            directed.append((1, b))
            ncert += 1
    ctx.log("directed histories enumerated by TLC: %d (connect, <=2 changes, connect) incl. %d (client-certificate policy, connect, one operation, connect, connect)" % (len(directed), ncert))
    # keep histories with at least two connections; prefer those that resume / tamper / rotate
    behs = [x for x in behs if sum(1 for o in x[1] if o["op"] == "connect") >= 2]
    seen, uniq = set(), []
    for cap, b in behs:
        k = json.dumps([cap, b], sort_keys=True)
        if k not in seen:
            seen.add(k)
            uniq.append((cap, b))
    rich = [x for x in uniq if any(o["op"] == "connect" and o["expect"] == "resume" for o in x[1])]
    rest = [x for x in uniq if x not in rich]
    rnd.shuffle(rich)
    rnd.shuffle(rest)
    lim = (6000, 2000) if thorough else (450, 120)
    chosen = directed + rich[:lim[0]] + rest[:lim[1]]
    hist = []
    for i, (cap, b) in enumerate(chosen):
        # histories that switch the client's protocol version need a multi-version protocol: TLS
        tls_only = any(o["op"] == "vers" or o.get("vers") == 11 for o in b)
        # every fifth history runs against the auto-switch server (NewBasicAutoSwitchConfig) instead of a single-protocol one
        proto = "tls" if tls_only or i % 3 == 2 else "gm"
        if i % 5 == 4:
            proto = "auto_" + proto
        elif i % 7 == 3:
            proto += "+gcfc"        # the server hands out a fresh Config per connection through GetConfigForClient
        elif i % 7 == 5:
            proto += "+clone"       # every connection is served by a Clone of one long-lived Config that receives the rotations
        hist.append({"proto": proto, "cap": cap, "ops": b})
    # the abstract Tamper at every byte of the ticket (thorough) / a seeded sample: connect, tamper(byte), connect
    tam = []
    base = [{"op": "connect", "name": "a", "offered": False, "expect": "full", "sid": 1, "suite": "CBC", "hascert": False}]
    for region, n in (("keyname", 16), ("iv", 16), ("state", 200), ("mac", 32)):
        idx = range(n) if thorough else rnd.sample(range(n), 4)
        for j in idx:
            tam.append({"proto": rnd.choice(["gm", "tls"]), "cap": 1, "ops": base + [{"op": "tamper", "name": "a", "region": region, "byte": j + 1000},
                        {"op": "connect", "name": "a", "offered": True, "expect": "full", "sid": 2, "suite": "CBC", "hascert": False}]})
    # sessions that carry a client certificate, under a verifying policy and under one that takes any certificate (there a
    # changed certificate byte is not caught by chain verification: only the ticket's MAC stands in the way)
    for pol in ("require", "requireany"):
        cbase = [{"op": "auth", "a": pol, "ccert": True, "untrusted": False},
                 {"op": "connect", "name": "a", "offered": False, "expect": "full", "sid": 1, "suite": "CBC", "hascert": True}]
        for region, n in (("state_tail", 8), ("state", 700), ("mac", 32), ("iv", 16)):
            idx = range(n) if thorough else (list(range(3)) + rnd.sample(range(3, n), 2) if region == "state_tail" else rnd.sample(range(n), 2))
            for j in idx:
                for proto in ("gm", "tls"):
                    tam.append({"proto": proto, "cap": 1, "ops": cbase + [{"op": "tamper", "name": "a", "region": region, "byte": j + 1000},
                                {"op": "connect", "name": "a", "offered": True, "expect": "full", "sid": 2, "suite": "CBC", "hascert": True}]})
    for h in tam:
        for o in h["ops"]:
            if o["op"] == "tamper":
                o["byte"] -= 1000
                if o["byte"] == 0 and o["region"] != "state_tail":
                    o["byte"] = 1     # (0 is the driver's "middle of the region" default; for state_tail it is the last byte)
    hist += tam
    hf = os.path.join(ctx.work, "hist.ndjson")
    of = os.path.join(ctx.work, "obs.ndjson")
    write_ndjson(hf, hist)
    ctx.log("replaying %d histories (%d with a resumption, %d byte-level ticket tamperings)" % (len(hist), len([h for h in hist if any(o.get("expect") == "resume" for o in h["ops"])]), len(tam)))
    ctx.harness(["c16-run", hf, of], timeout=3000)
    obs = read_ndjson(of)
    if len(obs) != len(hist):
        raise Infra("driver returned %d observation lists for %d histories" % (len(obs), len(hist)))
    ok = nconn = nres = nfail = 0
    for h, ol in zip(hist, obs):
        conns = [(i, o) for i, o in enumerate(h["ops"]) if o["op"] == "connect"]
        if len(conns) != len(ol):
            raise Infra("history has %d connections, driver observed %d" % (len(conns), len(ol)))
        bad = None
        for (i, o), g in zip(conns, ol):
            nconn += 1
            probs = []
            if g["panic"]:
                probs.append("panic: " + g["panic"][:300])
            elif o["expect"] == "fail":
                # the client's certificate does not satisfy the server's policy: no resumption, and the full handshake fails
                nfail += 1
                if g["complete"] or not g["srv_err"]:
                    probs.append("the server completed a handshake (resumed: %s) with a client whose certificate its policy does not accept" % g["srv_resumed"])
            elif not g["complete"]:
                probs.append("connection failed instead of resuming or falling back to a full handshake: client err=%r server err=%r" % (g["cli_err"], g["srv_err"]))
            else:
                want = o["expect"] == "resume"
                if want:
                    nres += 1
                if g["cli_resumed"] != g["srv_resumed"]:
                    probs.append("DidResume differs: client %s server %s" % (g["cli_resumed"], g["srv_resumed"]))
                if g["srv_resumed"] and not want:
                    probs.append("server resumed a session that the gate forbids (ticket tampered / key no longer configured / suite not offered or not listed / client-certificate policy / tickets disabled)")
                if want and not g["srv_resumed"]:
                    probs.append("valid ticket under an unchanged configuration that lists the suite was not resumed")
                if g["suite"] != o["suite"]:
                    probs.append("suite %s, expected %s" % (g["suite"], o["suite"]))
                if not g["ekm_equal"] or not g["data_ok"]:
                    probs.append("keys differ between the ends after the handshake (EKM equal %s, data ok %s)" % (g["ekm_equal"], g["data_ok"]))
                if want and g["ms_known"] and not g["ms_same_sid"]:
                    probs.append("resumed session does not carry the original master secret")
                npeer = 2 if h["proto"].split("+")[0].endswith("gm") else 1
                if g["complete"] and g["cli_peers"] != npeer:
                    probs.append("the client reports %d server certificates on this connection instead of %d" % (g["cli_peers"], npeer))
                if want and g["srv_saw_cert"] != o["hascert"]:
                    probs.append("peer identity on the resumed session differs from the original (client certificate present: %s, originally %s)" % (g["srv_saw_cert"], o["hascert"]))
            if probs:
                bad = "connection %d (step %d) of history [%s, cache %d]: %s" % (conns.index((i, o)) + 1, i, h["proto"], h["cap"], "; ".join(probs))
                break
        if bad:
            ctx.violation(bad, {"history": h, "observed": ol})
        else:
            ok += 1
    ctx.log("histories conforming: %d / %d (%d connections, %d expected resumptions, %d expected client-certificate failures)" % (ok, len(hist), nconn, nres, nfail))
    if nres < 50:
        raise Infra("vacuous: only %d resumptions exercised" % nres)
    # tickets of ANOTHER server (ticket key 32 zero bytes / some other key), issued to a client that presented a certificate,
    # offered to servers set up in each documented way: TLCPResume's rule - a ticket is accepted only under a key in force
    # on this server - leaves a full handshake as the one outcome (in particular no Config may fall back to a guessable key)
    ff = os.path.join(ctx.work, "foreign.json")
    ctx.harness(["c16-foreign", ff], timeout=600)
    fobs = json.load(open(ff))
    if len(fobs) < 24:
        raise Infra("c16-foreign: %d observations" % len(fobs))
    fok = 0
    for o in fobs:
        what = "%s server (%s) offered a ticket that another server issued under %s" % (o["Proto"], o["Target"], "the all-zero ticket key" if o["Forger"] == "zero key" else "its own key")
        probs = []
        if o["Panic"]:
            probs.append("panic: " + o["Panic"][:300])
        if o["Resumed"]:
            probs.append("the server resumed the session (client identity taken from the ticket: %d certificate(s))" % o["PeerCerts"])
        elif not o["Complete"] and not o["Panic"]:
            probs.append("no full handshake instead: client %r, server %r" % (o["CliErr"], o["SrvErr"]))
        if probs:
            ctx.violation("%s: %s" % (what, "; ".join(probs)), {"probe": o})
        else:
            fok += 1
    ctx.log("foreign tickets refused with a full handshake: %d / %d" % (fok, len(fobs)))
    ctx.cov["evaluations"] = len(hist) + len(fobs)
    ctx.cov["distinct_nontrivial"] = len(hist)
    ctx.cov["connections"] = nconn
    ctx.cov["expected_resumptions"] = nres
    ctx.cov["expected_policy_failures"] = nfail
    ctx.cov["exhaustive"] = False
    ctx.cov["rule"] = ("history = distinct sequence of 6 operations of TLCPResume (connect to one of two names, rotate keys keeping/dropping the old one, change server or client suites, "
                       "change ClientAuth / client certificate, disable tickets, tamper with a region of the cached ticket) for cache capacity 1..3, GMSSL and TLS; plus single-byte ticket tamperings")
    for h in rnd.sample(hist, 2):
        ctx.sample(h)
