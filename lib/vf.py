# Common machinery for the gmsm TLA+ model-based checks (see DESIGN.md section 3).
#
#  * every verdict comes from real-code behaviour; TLC/JVM/driver trouble is exit 2
#  * every TLC run: under `timeout`, private -metadir, in a scratch copy of tla/
#  * evidence/<id>.json is rewritten on every run from numbers counted by that run
import atexit
import json
import os
import re
import shutil
import subprocess
import sys
import time

ROOT = os.path.dirname(os.path.dirname(os.path.abspath(__file__)))
REPO = os.environ.get("VERIF_REPO", "/repo")
TLA_DIR = os.path.join(ROOT, "tla")
JAR = "/opt/veriftools/tla/tla2tools.jar"
CMJAR = "/opt/veriftools/tla/CommunityModules-deps.jar"
NCPU = os.cpu_count() or 4

GOENV = dict(os.environ, GOFLAGS="-mod=mod", GOPROXY="off", GOSUMDB="off",
             GOTOOLCHAIN="local")


class Infra(Exception):
    """Infrastructure trouble (TLC crashed, driver dead, timeout): exit 2, never a violation."""


class Ctx:
    def __init__(self, pid, tier, seed, level):
        self.pid = pid
        self.tier = tier
        self.seed = seed
        self.level = level
        self.t0 = time.time()
        self.work = os.path.join(ROOT, ".work", "%s.%d" % (pid, os.getpid()))
        shutil.rmtree(self.work, ignore_errors=True)
        os.makedirs(self.work)
        atexit.register(self.cleanup)
        self.cov = {"states": 0, "transitions": 0, "traces_validated_against_impl": 0,
                    "evaluations": 0, "distinct_nontrivial": 0, "samples": [],
                    "tlc_runs": [], "trusted_base": [], "exhaustive": False}
        self.assumptions = []
        self.violations = []      # (what, replay path)
        self.known = []           # KNOWN-FINDING lines reproduced in this run
        self.kf = load_known(pid)
        self.hbin = None

    def cleanup(self):
        if os.environ.get("VERIF_KEEP"):
            return
        shutil.rmtree(self.work, ignore_errors=True)
        try:
            os.rmdir(os.path.join(ROOT, ".work"))
        except OSError:
            pass

    def log(self, *a):
        print("[%s %6.1fs]" % (self.pid, time.time() - self.t0), *a, flush=True)

    # ---------------------------------------------------------------- harness
    def build_harness(self, race=False):
        out = os.path.join(self.work, "h-race" if race else "h")
        hdir = os.path.join(ROOT, "harness")
        if REPO != "/repo":
            # a scratch copy of the repository (tools/selftest_parallel.py): build a private copy of the harness module against it
            hsrc = os.path.join(self.work, "harness_src")
            if not os.path.isdir(hsrc):
                shutil.copytree(hdir, hsrc, ignore=shutil.ignore_patterns("go.sum"))
                gm = open(os.path.join(hsrc, "go.mod")).read().replace("=> /repo", "=> " + REPO)
                open(os.path.join(hsrc, "go.mod"), "w").write(gm)
            hdir = hsrc
        shutil.copy(os.path.join(REPO, "go.sum"), os.path.join(hdir, "go.sum"))
        cmd = ["go", "build", "-tags", "verif"] + (["-race"] if race else []) + ["-o", out, "."]
        r = subprocess.run(cmd, cwd=hdir, env=GOENV, capture_output=True, text=True)
        if r.returncode != 0:
            # a tree that does not compile is not a property violation
            raise Infra("harness build failed:\n" + r.stdout + r.stderr)
        if not race:
            self.hbin = out
        return out

    def harness(self, args, stdin=None, timeout=1800, bin=None, env=None):
        e = dict(GOENV, VERIF_SEED=str(self.seed), VERIF_TIER=self.tier)
        if env:
            e.update(env)
        try:
            r = subprocess.run([bin or self.hbin] + args, input=stdin, capture_output=True,
                               text=True, timeout=timeout, env=e, cwd=self.work)
        except subprocess.TimeoutExpired:
            raise Infra("harness %s timed out after %ds" % (args[:1], timeout))
        if r.returncode != 0:
            raise Infra("harness %s exit %d:\n%s" % (args[:2], r.returncode, (r.stdout[-2000:] + r.stderr[-4000:])))
        return r.stdout

    # ---------------------------------------------------------------- TLC
    def tladir(self):
        d = os.path.join(self.work, "tla")
        if not os.path.isdir(d):
            shutil.copytree(TLA_DIR, d)
            ov = os.path.join(d, "overrides")
            # operator overrides (BigNat over java.math.BigInteger): compile unless setup already did
            for j in [x for x in os.listdir(ov)] if os.path.isdir(ov) else []:
                if j.endswith(".java") and not os.path.exists(os.path.join(ov, j[:-5] + ".class")):
                    r = subprocess.run(["javac", "-cp", JAR, "-d", ov, os.path.join(ov, j)], capture_output=True, text=True)
                    if r.returncode != 0:
                        raise Infra("javac failed: " + r.stderr[-2000:])
        return d

    def tlc(self, module, cfg, workers=1, timeout=900, simulate=None, depth=None, coverage=False,
            deadlock=False, dfs=False, heap=None, expect_fail=False, tag=None, count=True,
            extra=None):
        """Run TLC.  Returns dict(out, generated, distinct, ok, rc, wall).  ok means TLC finished
        with no violation and no error.  Any non-violation failure raises Infra."""
        d = self.tladir()
        meta = os.path.join(self.work, "meta.%d" % (len(self.cov["tlc_runs"]) + int(time.time() * 1000) % 100000))
        java = ["java", "-XX:+UseParallelGC", "-Xss512m"]
        if heap:
            java.append("-Xmx" + heap)
        if dfs:
            java.append("-Dtlc2.tool.queue.IStateQueue=StateDeque")
        java += ["-cp", "%s:%s:%s" % (JAR, CMJAR, os.path.join(d, "overrides")), "tlc2.TLC"]
        args = ["-metadir", meta, "-workers", str(workers), "-config", cfg, "-noGenerateSpecTE"]
        if not deadlock:
            args.append("-deadlock")      # (-deadlock switches deadlock checking OFF)
        if simulate:
            args += ["-simulate", simulate]
        if depth:
            args += ["-depth", str(depth)]
        if simulate or tag == "seeded":
            args += ["-seed", str(self.seed)]
        if coverage:
            args += ["-coverage", "1"]
        if extra:
            args += extra
        args.append(module)
        t = time.time()
        try:
            r = subprocess.run(["timeout", str(timeout)] + java + args, cwd=d, capture_output=True, text=True)
        finally:
            shutil.rmtree(meta, ignore_errors=True)
        wall = time.time() - t
        out = r.stdout
        gen = dist = 0
        m = re.findall(r"(\d+) states generated, (\d+) distinct states found", out)
        if m:
            gen, dist = int(m[-1][0]), int(m[-1][1])
        res = {"out": out, "generated": gen, "distinct": dist, "rc": r.returncode, "wall": wall,
               "ok": r.returncode == 0}
        run = {"module": module, "cfg": cfg, "workers": workers, "generated": gen, "distinct": dist,
               "rc": r.returncode, "wall_s": round(wall, 1), "mode": ("simulate " + simulate) if simulate else "bfs"}
        self.cov["tlc_runs"].append(run)
        if count and r.returncode == 0:
            self.cov["states"] += dist
            self.cov["transitions"] += gen
        if r.returncode == 124:
            raise Infra("TLC timeout (%ds) on %s/%s" % (timeout, module, cfg))
        if r.returncode != 0 and not expect_fail:
            raise Infra("TLC failed rc=%d on %s/%s:\n%s\n%s" % (r.returncode, module, cfg, out[-6000:], r.stderr[-2000:]))
        return res

    # ---------------------------------------------------------------- verdicts
    def violation(self, what, replay_obj):
        os.makedirs(os.path.join(ROOT, "replay"), exist_ok=True)
        p = os.path.join(ROOT, "replay", "%s-%d-%d.json" % (self.pid, self.seed, len(self.violations)))
        with open(p, "w") as f:
            json.dump({"property": self.pid, "what": what, "tier": self.tier, "seed": self.seed,
                       "replay": replay_obj}, f, indent=1, default=str)
        self.violations.append((what, p))
        if len(self.violations) <= 20:
            print("VIOLATION property=%s replay=%s" % (self.pid, p), flush=True)
            print("  detail: " + what[:600], flush=True)

    def known_finding(self, key, what):
        line = "KNOWN-FINDING: property=%s %s" % (self.pid, what)
        if (key, what) not in self.known:
            self.known.append((key, what))
            print(line, flush=True)

    def match_known(self, facts):
        """A finding listed in known_findings.json whose `match` dict is a subset of facts, or None."""
        for k in self.kf:
            m = k.get("match", {})
            if m and all(facts.get(a) == b for a, b in m.items()):
                return k
        return None

    def sample(self, obj, limit=6):
        if len(self.cov["samples"]) < limit:
            self.cov["samples"].append(obj)

    def finish(self):
        wall = time.time() - self.t0
        cov = dict(self.cov)
        if not cov["samples"]:
            cov["samples"] = ["(no sample recorded)"]
        cov["known_findings_reproduced"] = [w for _, w in self.known]
        ev = {"property_id": self.pid, "tier": self.tier, "seed": self.seed, "level": self.level,
              "coverage": cov, "assumptions": self.assumptions, "wall_s": round(wall, 2),
              "violations": len(self.violations)}
        os.makedirs(os.path.join(ROOT, "evidence"), exist_ok=True)
        with open(os.path.join(ROOT, "evidence", self.pid + ".json"), "w") as f:
            json.dump(ev, f, indent=1, default=str)
        if self.violations:
            self.log("FAIL: %d violation(s)" % len(self.violations))
            return 1
        self.log("OK  states=%d transitions=%d evaluations=%d traces=%d known=%d  %.1fs" % (
            cov["states"], cov["transitions"], cov["evaluations"],
            cov["traces_validated_against_impl"], len(self.known), wall))
        return 0


# -------------------------------------------------------------------- helpers
def load_known(pid):
    p = os.path.join(ROOT, "known_findings.json")
    if not os.path.exists(p):
        return []
    with open(p) as f:
        j = json.load(f)
    return [x for x in j.get("findings", []) if x.get("property") == pid]


def markers(out, kind):
    """Values printed by PrintT(<<"KIND", ToJson(x)>>) -> list of parsed JSON values.  With several
    workers the closing ">>" of a line can interleave with other output; the string itself is atomic."""
    res = []
    for m in re.finditer(r'<<"%s", "((?:[^"\\]|\\.)*)"' % kind, out):
        s = m.group(1).replace('\\\\', '\x00').replace('\\"', '"').replace('\x00', '\\')
        try:
            res.append(json.loads(s))
        except ValueError as e:
            raise Infra("bad %s marker: %s (%s)" % (kind, s[:200], e))
    return res


def validate_traces(ctx, module, cfg_tmpl, traces, describe, tag="t", max_reject=8, timeout=1500, heap=None):
    """Validate traces (list of event lists, concatenated into one ndjson file) with a TLC trace
    spec whose cfg is cfg_tmpl % filename.  The trace spec prints <<"HWM", highwater, len>> from its
    POSTCONDITION.  A rejected trace is reported through ctx.violation(describe(i, lineno, event), ..)
    and validation continues behind it.  Returns (#accepted, #events)."""
    d = ctx.tladir()
    accepted = 0
    nev = sum(len(t) for t in traces)
    alive = list(range(len(traces)))
    for attempt in range(max_reject + 1):
        cur, index = [], []
        for i in alive:
            cur += traces[i]
            index += [i] * len(traces[i])
        if not cur:
            break
        name = "trace.%s.%d.ndjson" % (tag, attempt)
        write_ndjson(os.path.join(d, name), cur)
        cfgname = "%s.%s.cfg" % (module, tag)
        with open(os.path.join(d, cfgname), "w") as f:
            f.write(cfg_tmpl % name)
        r = ctx.tlc(module, cfgname, workers=1, timeout=timeout, expect_fail=True, count=False, heap=heap)
        hw = [x for x in r["out"].splitlines() if x.startswith('<<"HWM"')]
        if not hw:
            raise Infra("trace validation produced no verdict:\n" + r["out"][-3000:])
        hwm = int(hw[-1].split(",")[1])
        if r["ok"] and hwm == len(cur) + 1:
            accepted += len(alive)
            ctx.cov["transitions"] += r["generated"]
            return accepted, nev
        if hwm < 1 or hwm > len(cur):
            raise Infra("inconsistent high-water mark %d of %d\n%s" % (hwm, len(cur), r["out"][-2000:]))
        badi = index[hwm - 1]
        lineno = hwm - 1 - index.index(badi)
        what, replay = describe(badi, lineno, traces[badi][lineno])
        ctx.violation(what, replay)
        accepted += alive.index(badi)
        alive = alive[alive.index(badi) + 1:]
    else:
        ctx.log("stopped validating after %d rejected traces" % (max_reject + 1))
    return accepted, nev


def compare_cases(ctx, expected, observed, key, label, is_known=None):
    """expected: list of {"case":..,"expect":..}; observed: list of {"case":..,"got":..}.
    Every expected case must be observed with got == expect."""
    obs = {json.dumps(o["case"], sort_keys=True): o for o in observed}
    ok = 0
    for e in expected:
        k = json.dumps(e["case"], sort_keys=True)
        if k not in obs:
            raise Infra("%s: case not evaluated by the driver: %s" % (label, k))
        got = obs[k].get("got")
        if got == e["expect"]:
            ok += 1
            continue
        if is_known and is_known(e, obs[k]):
            continue
        ctx.violation("%s: case %s: real code returned %s, specification says %s" % (
            label, k, json.dumps(got)[:300], json.dumps(e["expect"])[:300]), {"case": e["case"], "expect": e["expect"], "got": got})
    return ok


def write_ndjson(path, rows):
    with open(path, "w") as f:
        for r in rows:
            f.write(json.dumps(r, separators=(",", ":")) + "\n")


def read_ndjson(path):
    with open(path) as f:
        return [json.loads(l) for l in f if l.strip()]


def coverage_zero_actions(out):
    """Names of actions that TLC's -coverage 1 reports as never taken."""
    zero = []
    for m in re.finditer(r"^<(\w+) line \d+, col \d+ to line \d+, col \d+ of module (\w+)>: (\d+):(\d+)", out, re.M):
        if int(m.group(4)) == 0 and int(m.group(3)) == 0:
            zero.append(m.group(1))
    return sorted(set(zero))


def run_check(pid, level, fn):
    """Entry point used by ./check: fn(ctx) does the work; handles exit codes."""
    tier = sys.argv[2] if len(sys.argv) > 2 else os.environ.get("VERIF_TIER", "quick")
    if tier not in ("quick", "thorough"):
        tier = "quick"
    seed = int(os.environ.get("VERIF_SEED", "1") or 1)
    ctx = Ctx(pid, tier, seed, level)
    try:
        fn(ctx)
        rc = ctx.finish()
    except Infra as e:
        print("INFRA property=%s: %s" % (pid, e), flush=True)
        rc = 2
        if ctx.violations:
            # violations already reported come from behaviour of the real code; trouble in a LATER step of the run (a driver
            # that crashes on the same defect, a time-out) does not take them back
            ctx.cov["aborted_by_infrastructure_failure"] = str(e)[:300]
            try:
                rc = ctx.finish()
            except Exception:
                rc = 1
    sys.exit(rc)
