# C09 - issued certificates, CSRs and CRLs parse back and verify only under the issuer.
#   Issue.tla: the issuance contract (effective algorithm, signed input, verification) as a table
import json
import os
import random

from vf import Infra, markers, write_ndjson, read_ndjson

LEVEL = "fault_enumeration"


def run(ctx):
    thorough = ctx.tier == "thorough"
    rnd = random.Random(ctx.seed)
    ctx.build_harness()
    ctx.cov["trusted_base"] = ["TLC 1.8.0", "Go standard library RSA / ECDSA keys as signers", "symbolic signing in Issue.tla"]
    r = ctx.tlc("Issue", "Issue.cfg", workers=2, timeout=600)
    rows = markers(r["out"], "CASE")
    if len(rows) != r["distinct"] // 2:
        raise Infra("table incomplete")
    ctx.log("Issue: %d (object kind, signer family, requested algorithm, template class) cells" % len(rows))
    casef = os.path.join(ctx.work, "cases.ndjson")
    obsf = os.path.join(ctx.work, "obs.ndjson")
    write_ndjson(casef, rows)
    ctx.harness(["c09-run", casef, obsf, "1" if thorough else "0"], timeout=3000)
    obs = read_ndjson(obsf)
    ok = na = ntam = 0
    for x, o in zip(rows, obs):
        c, e, g = x["case"], x["expect"], o["got"]
        if g["err"] == "n/a":
            na += 1
            continue
        probs = []
        if g["panic"]:
            probs.append("panic: " + g["panic"][:200])
        elif not g["created"]:
            probs.append("creation failed: " + g["err"])
        else:
            ntam += g["tamper_n"]
            if g["alg"] != e["alg"]:
                probs.append("carries algorithm %s, the template / signer default selects %s" % (g["alg"], e["alg"]))
            if not g["verifies"]:
                probs.append("does not verify under its own issuer: " + g["verify_err"])
            if g["other_key"]:
                probs.append("verifies under a different key")
            if g["tampered"]:
                probs.append("still verifies after changing byte(s) %s" % g["tampered"][:5])
            if g.get("resigned"):
                probs.append("still verifies with the signature numbers re-encoded as %s" % ", ".join(g["resigned"]))
            if g["field_diff"]:
                probs.append("parsed fields differ from the template: %s" % g["field_diff"][:4])
        if probs:
            ctx.violation("%s by a %s signer, algorithm %s, template %s: %s" % (c["kind"], c["signer"], c["alg"], c["class"], "; ".join(probs)), {"case": c, "expect": e, "observed": g})
        else:
            ok += 1
    ctx.log("cells conforming: %d / %d (%d not offered by the API); %d single-byte changes all rejected" % (ok, len(rows) - na, na, ntam))
    ctx.cov["evaluations"] = len(rows) - na + ntam
    ctx.cov["distinct_nontrivial"] = len(rows) - na
    ctx.cov["tamperings"] = ntam
    ctx.cov["exhaustive"] = True
    ctx.cov["rule"] = ("cell = (certificate | request | CRL via CreateCRL | CRL via CreateRevocationList) x signer (SM2, RSA-2048, ECDSA P-256, P-384) x requested algorithm "
                       "(unset or each member of the signer's family), plus 12 certificate template classes; each created object is parsed back, compared, verified under the issuer "
                       "and another key, and re-verified after single-byte changes (%s)" % ("every byte" if thorough else "40 positions across the encoding"))
    for x in rnd.sample(rows, 3):
        ctx.sample(x)
