# C08 - handshakes complete only with a peer that proves the certified identity.
#   TLCPAdv.tla: symbolic GM/T 0024 handshake + attacker scenarios; Authentication / Agreement checked by TLC
import json
import os
import random

from vf import Infra, markers, write_ndjson, read_ndjson

LEVEL = "model_checking"


def run(ctx):
    thorough = ctx.tier == "thorough"
    rnd = random.Random(ctx.seed)
    ctx.build_harness()
    ctx.cov["trusted_base"] = ["TLC 1.8.0", "symbolic (Dolev-Yao style) treatment of signatures, encryption and hashing in TLCPAdv",
                               "PKI generated at run time with the library (explicit SM2-SM3 algorithm)", "verif peer fault points (SKE / CertificateVerify bytes)"]
    fracs = 64 if thorough else 8
    with open(os.path.join(ctx.tladir(), "TLCPAdv.cfg"), "w") as f:
        f.write("SPECIFICATION Spec\nCONSTANT Fracs = %d\nINVARIANTS AuthServer AuthClient Agreement HonestCompletes\nCONSTRAINT Emit\n" % fracs)
    r = ctx.tlc("TLCPAdv", "TLCPAdv.cfg", workers=1, timeout=600)
    rows = markers(r["out"], "CASE")
    if len(rows) < 40:
        raise Infra("only %d scenarios" % len(rows))
    ctx.log("TLCPAdv: %d attacker scenarios, Authentication and Agreement hold on the model" % len(rows))
    casef = os.path.join(ctx.work, "cases.ndjson")
    obsf = os.path.join(ctx.work, "obs.ndjson")
    reps = 3 if thorough else 1
    for x in rows:
        x["case"]["fracs"] = fracs
    allrows = rows * reps
    write_ndjson(casef, allrows)
    ctx.harness(["c08-run", casef, obsf], timeout=1800)
    obs = read_ndjson(obsf)
    if len(obs) != len(allrows):
        raise Infra("driver returned %d observations for %d cases" % (len(obs), len(allrows)))
    ok = 0
    for x, o in zip(allrows, obs):
        g, e, c = o["got"], x["expect"], x["case"]
        probs = []
        # a crash of the endpoint that plays the attacker in this scenario (e.g. a server configured with an RSA
        # key where SM2 is required) is not this property's subject; the endpoint under test must not crash
        srv_is_attacker = any(c[k] not in ("good", "right", "honest") for k in ("signCert", "encCert", "signKey", "encKey", "ske"))
        cli_is_attacker = c["cauth"] and any(c[k] not in ("good", "right", "honest") for k in ("cliCert", "cliKey", "cv"))
        if g["CliPanic"] and not cli_is_attacker:
            probs.append("client panicked: %s" % g["CliPanic"][:300])
        if g["SrvPanic"] and not srv_is_attacker:
            probs.append("server panicked: %s" % g["SrvPanic"][:300])
        if g["Timeout"]:
            probs.append("handshake did not terminate")
        want_c, want_s = e["client"] == "complete", e["server"] == "complete"
        if g["CliComplete"] and not want_c:
            probs.append("the client completed the handshake although the peer did not prove the certified identity (specification: client aborts)")
        if g["SrvComplete"] and not want_s:
            probs.append("the server completed the handshake (specification: server aborts)")
        if want_c and want_s and not (g["CliComplete"] and g["SrvComplete"]):
            probs.append("honest scenario did not complete: client err=%r server err=%r" % (g["CliErr"], g["SrvErr"]))
        if probs:
            diff = {k: v for k, v in c.items() if v not in ("good", "right", "honest", "none") and not (k == "verify" and v is True) and not (k == "cauth" and v is False)}
            ctx.violation("scenario %s: %s" % (json.dumps(diff, sort_keys=True), "; ".join(probs)), {"case": c, "expect": e, "observed": g})
        else:
            ok += 1
    ctx.log("scenarios conforming: %d / %d" % (ok, len(allrows)))
    ctx.cov["evaluations"] = len(allrows)
    ctx.cov["distinct_nontrivial"] = len(rows) - 3
    ctx.cov["exhaustive"] = True
    ctx.cov["rule"] = ("scenario = one deviation from the honest GMSSL handshake (certificate kind per slot, wrong private key per slot, ServerKeyExchange omitted / replayed / mis-signed / over "
                       "another encryption certificate, client certificate kind, wrong client key, replayed CertificateVerify, 13 man-in-the-middle field rewrites, verification off); "
                       "non-trivial = not one of the 3 honest scenarios")
    for x in rnd.sample(rows, 3):
        ctx.sample(x)
