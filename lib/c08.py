# C08 - handshakes complete only with a peer that proves the certified identity.
#   TLCPAdv.tla: symbolic GM/T 0024 handshake + attacker scenarios; Authentication / Agreement checked by TLC
import json
import os
import random

from vf import Infra, markers, write_ndjson, read_ndjson

LEVEL = "model_checking"


def run(ctx):
    thorough = ctx.tier == "thorough"
    rnd = random.Random(ctx.seed)
    ctx.build_harness()
    ctx.cov["trusted_base"] = ["TLC 1.8.0", "symbolic (Dolev-Yao style) treatment of signatures, encryption and hashing in TLCPAdv",
                               "PKI generated at run time with the library (explicit SM2-SM3 algorithm)", "verif peer fault points (SKE / CertificateVerify bytes)"]
    fracs = 48 if thorough else 8
    with open(os.path.join(ctx.tladir(), "TLCPAdv.cfg"), "w") as f:
        f.write("SPECIFICATION Spec\nCONSTANTS\n Fracs = %d\n ByteAll = %s\nINVARIANTS AuthServer AuthClient Agreement HonestCompletes LaxPoliciesAccept ClockHonoured\nCONSTRAINT Emit\n"
                % (fracs, "TRUE" if thorough else "FALSE"))
    r = ctx.tlc("TLCPAdv", "TLCPAdv.cfg", workers=1, timeout=600)
    rows = markers(r["out"], "CASE")
    if len(rows) < 400:
        raise Infra("only %d scenarios" % len(rows))
    ctx.log("TLCPAdv: %d attacker scenarios, Authentication and Agreement hold on the model" % len(rows))
    casef = os.path.join(ctx.work, "cases.ndjson")
    obsf = os.path.join(ctx.work, "obs.ndjson")
    reps = 3 if thorough else 1
    for x in rows:
        x["case"]["fracs"] = fracs
    allrows = rows * reps
    write_ndjson(casef, allrows)
    ctx.harness(["c08-run", casef, obsf], timeout=1800)
    obs = read_ndjson(obsf)
    if len(obs) != len(allrows):
        raise Infra("driver returned %d observations for %d cases" % (len(obs), len(allrows)))
    ok = 0
    for x, o in zip(allrows, obs):
        g, e, c = o["got"], x["expect"], x["case"]
        probs = []
        # a crash of the endpoint that plays the attacker in this scenario (e.g. a server configured with an RSA
        # key where SM2 is required) is not this property's subject; the endpoint under test must not crash
        srv_is_attacker = any(c[k] not in ("good", "right", "honest", "long", "future", "good_then_rogue") for k in ("signCert", "encCert", "signKey", "encKey", "ske"))
        cli_is_attacker = c["policy"] != "none" and any(c[k] not in ("good", "right", "honest", "long", "future", "good_then_rogue") for k in ("cliCert", "cliKey", "cv"))
        if g["CliPanic"] and not cli_is_attacker:
            probs.append("client panicked: %s" % g["CliPanic"][:300])
        if g["SrvPanic"] and not srv_is_attacker:
            probs.append("server panicked: %s" % g["SrvPanic"][:300])
        if g["Timeout"]:
            probs.append("handshake did not terminate")
        want_c, want_s = e["client"] == "complete", e["server"] == "complete"
        if g["CliComplete"] and not want_c:
            probs.append("the client completed the handshake although the peer did not prove the certified identity (specification: client aborts)")
        if g["SrvComplete"] and not want_s:
            probs.append("the server completed the handshake (specification: server aborts)")
        if want_c and want_s and not (g["CliComplete"] and g["SrvComplete"]):
            probs.append("honest scenario did not complete: client err=%r server err=%r" % (g["CliErr"], g["SrvErr"]))
        if want_c and want_s and not probs and c["mitm"] == "none" and g["Suite"] != g["WantSuite"]:
            raise Infra("scenario %s ran under suite %04x instead of %04x" % (json.dumps(c), g["Suite"], g["WantSuite"]))
        if c["veto"] != "none" and not g["VetoCalls"] and not probs:
            probs.append("the %s's VerifyPeerCertificate callback was never run" % c["veto"])
        if probs:
            diff = {k: v for k, v in c.items() if k in ("proto", "kx", "suite") or (v not in ("good", "right", "honest", "none", "", "now") and not (k == "verify" and v is True))}
            ctx.violation("scenario %s: %s" % (json.dumps(diff, sort_keys=True), "; ".join(probs)), {"case": c, "expect": e, "observed": g})
        else:
            ok += 1
    ctx.log("scenarios conforming: %d / %d" % (ok, len(allrows)))
    ctx.cov["evaluations"] = len(allrows)
    nh = len([x for x in rows if x["expect"] == {"client": "complete", "server": "complete"}])
    ctx.cov["distinct_nontrivial"] = len(rows) - nh
    ctx.cov["scenarios_expected_to_complete"] = nh
    ctx.cov["exhaustive"] = True
    ctx.cov["rule"] = ("scenario = one deviation from the honest handshake under one of six protocol combinations (GMSSL ECC, TLS RSA key transport, TLS ECDHE_RSA; CBC and AEAD suite): "
                       "certificate kind per slot, wrong private key per slot, ServerKeyExchange omitted / replayed / mis-signed / over another encryption certificate, client certificate "
                       "kind / none, wrong client key, replayed CertificateVerify under each of the four client-auth policies, named man-in-the-middle field rewrites, one byte changed at "
                       "%d positions of each plaintext handshake message, verification off; non-trivial = expected to abort on at least one side" % fracs)
    for x in rnd.sample(rows, 3):
        ctx.sample(x)
