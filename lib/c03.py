# C03 - the SM2 curve object implements the group law; generated keys lie on it.
#   BigNat.tla (+ Java override), ECurve.tla (affine group law), ECWalk.tla (walks with tracked discrete log),
#   ECTab.tla (scalar catalogue, key generation, parameters, limb arithmetic, comb table)
import json
import os
import random

from vf import Infra, markers, write_ndjson, read_ndjson

LEVEL = "exploration"


def run(ctx):
    thorough = ctx.tier == "thorough"
    rnd = random.Random(ctx.seed)
    ctx.build_harness()
    d = ctx.tladir()
    ncpu = min(16, os.cpu_count() or 4)
    ctx.cov["trusted_base"] = ["TLC 1.8.0", "java.math.BigInteger under the BigNat override", "GM/T 0003.5 parameters as written in ECurve.tla (self-checked: G on the curve, [n]G = O)",
                               "verif accessors to the limb arithmetic and comb table"]
    ctx.tlc("BigNatKAT", "BigNatKAT.cfg", workers=1)
    ctx.tlc("ECurveKAT", "ECurveKAT.cfg", workers=1)

    # 1. table cases
    with open(os.path.join(d, "ectab.cfg"), "w") as f:
        f.write("SPECIFICATION TSpec\nCONSTANTS\n MaxOps = 0\n AddSet = {1}\n NLcg = %d\n NField = %d\n BaseKind = \"G\"\n" % ((400, 3000) if thorough else (40, 300)))
    r = ctx.tlc("ECTab", "ectab.cfg", workers=ncpu, timeout=3000)
    rows = markers(r["out"], "CASE")
    if len(rows) != r["distinct"] // 2:
        raise Infra("table incomplete")
    casef = os.path.join(ctx.work, "cases.ndjson")
    obsf = os.path.join(ctx.work, "obs.ndjson")
    write_ndjson(casef, rows)
    ctx.harness(["c03-table", casef, obsf])
    obs = read_ndjson(obsf)
    ok = 0
    for x, o in zip(rows, obs):
        c, e, g = x["case"], x["data"]["expect"], o["got"]
        probs = []
        if g.get("panic"):
            probs.append("panic: " + g["panic"])
        elif c["kind"] in ("basemul", "mul", "comb"):
            if g["xy"] != e:
                probs.append("result (%s, %s), the group result is (%s, %s)" % (g["xy"]["x"][:16] + "..", g["xy"]["y"][:16] + "..", e["x"][:16] + "..", e["y"][:16] + ".."))
        elif c["kind"] == "addsamey":
            if x["data"]["ok"]:
                if not x["data"]["shape"]:
                    raise Infra("ECTab: the sum of two points with the same y is not (-x1 - x2, -y)")
                if not g["q_oncurve"]:
                    probs.append("IsOnCurve refuses the second root of x^3 + ax + b = y^2")
                if g["xy"] != e or g["xy_swapped"] != e:
                    probs.append("sum of two distinct points with the SAME y: (%s.., %s..) / swapped (%s.., %s..), the group result is (%s.., %s..)" % (
                        g["xy"]["x"][:16], g["xy"]["y"][:16], g["xy_swapped"]["x"][:16], g["xy_swapped"]["y"][:16], e["x"][:16], e["y"][:16]))
        elif c["kind"] == "genkey":
            if g.get("err"):
                probs.append("GenerateKey failed: " + g["err"])
            else:
                if g["d"] != e["d"]:
                    probs.append("private key %s.., the reader's bytes determine %s.." % (g["d"][:16], e["d"][:16]))
                if g["pub"] != e["pub"] or not g["oncurve"]:
                    probs.append("public key is not [d]G")
            if not g.get("short_err"):
                probs.append("a reader that runs dry did not produce an error")
        elif c["kind"] == "params":
            if g["params"] != {k: e[k] for k in ("p", "n", "b", "gx", "gy", "bits")}:
                probs.append("published parameters differ from GM/T 0003.5: %s" % g["params"])
        elif c["kind"] == "field":
            for k in ("mul", "square", "add", "sub", "roundtrip"):
                if g[k] != e[k]:
                    kf = ctx.match_known({"kind": "field", "s": c["s"], "t": c["t"], "op": k, "got": g[k]})
                    if kf:
                        ctx.known_finding(kf["id"], "%s: limb pattern s=%d, %s -> %s.. (should be %s..)" % (kf["id"], c["s"], k, g[k][:16], e[k][:16]))
                    else:
                        probs.append("field %s of limb-boundary elements: %s.., expected %s.." % (k, g[k][:20], e[k][:20]))
        if probs:
            ctx.violation("curve case %s: %s" % (json.dumps(c, sort_keys=True), "; ".join(probs)), {"case": c, "data": x["data"], "observed": g})
        else:
            ok += 1
    kinds = {}
    for x in rows:
        kinds[x["case"]["kind"]] = kinds.get(x["case"]["kind"], 0) + 1
    ctx.log("table cases conforming: %d / %d %s" % (ok, len(rows), kinds))

    # 2. walks: every single API call from both start points (BFS), and simulated walks of depth 5
    behs = []
    with open(os.path.join(d, "walk_bfs.cfg"), "w") as f:
        f.write("SPECIFICATION Spec\nCONSTANTS\n MaxOps = 2\n AddSet = {1, 2, 5}\n NLcg = 0\n BaseKind = \"G\"\nINVARIANT Consistent\nCONSTRAINT Emit\n")
    r = ctx.tlc("ECWalk", "walk_bfs.cfg", workers=ncpu, timeout=3000)
    behs += markers(r["out"], "BEH")
    # the same from the finite point with a zero coordinate, (0, sqrt b)
    with open(os.path.join(d, "walk_bfs0.cfg"), "w") as f:
        f.write("SPECIFICATION Spec\nCONSTANTS\n MaxOps = 2\n AddSet = {1, 2}\n NLcg = 0\n BaseKind = \"X0\"\nINVARIANT Consistent\nCONSTRAINT Emit\n")
    r = ctx.tlc("ECWalk", "walk_bfs0.cfg", workers=ncpu, timeout=3000)
    b0 = markers(r["out"], "BEH")
    if not any(st["op"] == "add" and st["p"]["x"] == "0" and st["p"]["y"] != "0" for b in b0 for st in b):
        raise Infra("no walk adds to the point (0, sqrt b)")
    behs += b0
    nex = len(behs)
    with open(os.path.join(d, "walk_sim.cfg"), "w") as f:
        f.write("SPECIFICATION Spec\nCONSTANTS\n MaxOps = 5\n AddSet = {1, 2, 5}\n NLcg = 0\n BaseKind = \"G\"\nCONSTRAINT Emit\n")
    r = ctx.tlc("ECWalk", "walk_sim.cfg", workers=8, simulate="num=%d" % (20 if thorough else 2), depth=6, count=False, timeout=3000)
    behs += markers(r["out"], "BEH")
    bf = os.path.join(ctx.work, "walks.ndjson")
    wf = os.path.join(ctx.work, "walks.obs.ndjson")
    write_ndjson(bf, behs)
    ctx.harness(["c03-walk", bf, wf])
    wobs = read_ndjson(wf)
    wok = nsteps = 0
    for b, ol in zip(behs, wobs):
        bad = None
        for i, (st, g) in enumerate(zip(b, ol)):
            nsteps += 1
            if g.get("panic"):
                bad = "step %d %s panicked: %s" % (i, st["op"], g["panic"])
            elif st["op"] == "oncurve":
                if g["got"] != st["expect"]:
                    bad = "step %d IsOnCurve(%s.., %s..) = %s, the curve equation says %s" % (i, st["x"][:12], st["y"][:12], g["got"], st["expect"])
            else:
                if g["got"] != st["expect"]:
                    bad = "step %d %s%s returned (%s.., %s..), the group law gives (%s.., %s..)" % (
                        i, st["op"], (" [" + st.get("kind", "") + "]") if st["op"] == "add" else "", g["got"]["x"][:14], g["got"]["y"][:14], st["expect"]["x"][:14], st["expect"]["y"][:14])
                elif st["op"] == "add" and g["got_swapped"] != st["expect"]:
                    bad = "step %d add with operands swapped differs" % i
            if bad:
                break
        if bad:
            ctx.violation("walk: " + bad, {"walk": b, "observed": ol})
        else:
            wok += 1
    ctx.log("walks conforming: %d / %d (%d exhaustive of depth 2, %d API calls)" % (wok, len(behs), nex, nsteps))
    ctx.cov["evaluations"] = len(rows) + nsteps
    ctx.cov["distinct_nontrivial"] = len(rows) + len(behs)
    ctx.cov["states"] = ctx.cov["states"]
    ctx.cov["exhaustive"] = False
    ctx.cov["rule"] = ("table case = distinct (kind, operands): every catalogue scalar (0, tiny, n-20..n+16, 2n, 2n+1, powers of two, all-ones strings of 1..40 bytes, leading zeros, empty, "
                       "40 bytes, pseudo-random) through ScalarBaseMult and through ScalarMult on [1,2,3,7]G; GenerateKey for 8 reader contents; parameters; limb-boundary field elements "
                       "through mul/square/add/sub; the 30 comb-table entries. walk = distinct sequence of Add (catalogue point, the same point, the opposite point, infinity) / Double / "
                       "ScalarMult / ScalarBaseMult / membership probes with the discrete log tracked by the specification")
    ctx.sample({"table_case": rows[0]["case"], "expect": rows[0]["data"]["expect"]})
    ctx.sample({"walk": [{k: v for k, v in st.items() if k in ("op", "kind", "kd")} for st in rnd.choice(behs)]})
