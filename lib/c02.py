# C02 - SM2 encryption round-trips, matches GM/T 0003.4 and rejects forged ciphertexts.
import json
import os
import random

from vf import Infra, markers, write_ndjson, read_ndjson
from c01 import tlc_table, find_special_keys, STD_D, STD_K, N, rows_by

LEVEL = "model_checking"


def der_len(n):
    if n < 128:
        return bytes([n])
    b = n.to_bytes((n.bit_length() + 7) // 8, "big")
    return bytes([0x80 | len(b)]) + b


def der_int_bytes(b):
    v = int.from_bytes(bytes(b), "big")
    x = v.to_bytes((v.bit_length() + 8) // 8 or 1, "big")
    while len(x) > 1 and x[0] == 0 and x[1] < 0x80:
        x = x[1:]
    return bytes([2]) + der_len(len(x)) + x


def asn1_ct(e):
    body = der_int_bytes(e["x1"]) + der_int_bytes(e["y1"]) + bytes([4]) + der_len(32) + bytes(e["c3"]) + bytes([4]) + der_len(len(e["c2"])) + bytes(e["c2"])
    return list(bytes([0x30]) + der_len(len(body)) + body)


def run(ctx):
    thorough = ctx.tier == "thorough"
    rnd = random.Random(ctx.seed)
    ctx.build_harness()
    ctx.cov["trusted_base"] = ["TLC 1.8.0", "java.math.BigInteger (BigNat override)", "SM2.tla anchored by the GM/T 0003.5 Appendix A signature and encryption examples", "SM3.tla (GM/T 0004 vectors)"]
    ctx.tlc("ECurveKAT", "ECurveKAT.cfg", workers=1)
    special = find_special_keys(ctx, 2000 if thorough else 500)
    keys = [STD_D, "1", hex(N - 2)[2:], hex(rnd.getrandbits(250))[2:]] + [hex(d)[2:] for d, _, _ in special[:4]]
    lens = [0, 1, 31, 32, 33, 63, 64, 65, 4096] + (list(range(2, 31)) + list(range(66, 130)) if thorough else [rnd.randrange(2, 31), rnd.randrange(66, 200)])
    cases = [{"kind": "enc", "d": STD_D, "mf": 8, "mlen": 0, "ks": [STD_K]}]
    for i, ml in enumerate(lens):
        for j, dk in enumerate(keys):
            if thorough or (i + j) % 4 == 0 or ml in (0, 32):
                cases.append({"kind": "enc", "d": dk, "mf": 0 if (i + j) % 5 else 2, "mlen": ml, "ks": [hex(rnd.randrange(1, N))[2:]]})
    # nonces k for which C1 = [k]G has a short x or y coordinate (the same small scalars TLC found): fixed-width fields
    for d, xl, yl in special[:6]:
        cases.append({"kind": "enc", "d": keys[3], "mf": 0, "mlen": 20, "ks": [hex(d)[2:]], "note": "C1 with x of %d and y of %d bytes" % (xl, yl)})
    # sparse scalars (long runs of zero digits in any recoding): as the private key in [d]C1 and as the nonce in [k]P
    for sp in (hex((1 << 200) + 1)[2:], hex((1 << 255) - (1 << 130))[2:], hex(3 << 140)[2:]):
        cases.append({"kind": "enc", "d": sp, "mf": 0, "mlen": 19, "ks": [hex(rnd.randrange(1, N))[2:]], "note": "sparse private key"})
        cases.append({"kind": "enc", "d": keys[3], "mf": 0, "mlen": 19, "ks": [sp], "note": "sparse nonce"})
    # the ends of the nonce range: k = 1 gives C1 = G, k = n - 1 gives C1 = -G (the finite point that shares G's x), k = n - 2
    for kk in (1, 2, N - 1, N - 2):
        cases.append({"kind": "enc", "d": keys[3], "mf": 0, "mlen": 19, "ks": [hex(kk)[2:]], "note": "nonce at the end of its range"})
        cases.append({"kind": "enc", "d": STD_D, "mf": 0, "mlen": 33, "ks": [hex(kk)[2:]], "note": "nonce at the end of its range"})
    # a nonce whose first KDF byte is zero: a 1-byte plaintext must be encrypted under the NEXT nonce
    zk = None
    frows = tlc_table(ctx, [{"kind": "findk", "d": STD_D, "k": k} for k in range(2, 1400)], "findk")
    for x in frows:
        if x["expect"]["zero"]:
            zk = x["case"]["k"]
            break
    if zk is None:
        raise Infra("no nonce with a zero KDF byte among 1400 candidates")
    zkcase = {"kind": "enc", "d": STD_D, "mf": 0, "mlen": 1, "ks": [hex(zk)[2:], hex(zk + 1)[2:]], "retry": True}
    cases.append(zkcase)
    # short plaintexts under many nonces in the real code: whenever more than one nonce is drawn (the standard redraws only when
    # the whole key stream is zero: one nonce in 2^16 for two bytes), the call fails or the own ciphertext does not decrypt,
    # the (nonce, length) becomes a case for the specification
    tf, sf = os.path.join(ctx.work, "sweep.json"), os.path.join(ctx.work, "sweep.out.json")
    with open(tf, "w") as f:
        json.dump({"d": keys[3], "mlens": [2, 3, 32, 33, 65]}, f)      # (33, 65: a one-byte last block behind full ones)
    ctx.harness(["c02-sweep", tf, str(4000 if thorough else 1000), sf])
    sw = json.load(open(sf))
    for x in sw["odd"]:
        cases.append({"kind": "enc", "d": keys[3], "mf": 0, "mlen": x["mlen"], "ks": [hex(x["k"])[2:], hex(x["k"] + 1)[2:], hex(x["k"] + 2)[2:]], "note": "nonce sweep: " + x["why"][:60]})
    ctx.log("nonce sweep: %d encryptions of 2 / 3 / 32 / 33 / 65 bytes, %d handed to the specification" % (sw["encryptions"], len(sw["odd"])))
    ctx.cov["nonce_sweep_encryptions"] = sw["encryptions"]
    rows = tlc_table(ctx, cases, "enc")
    std = rows_by(rows, cases[0])["expect"]
    if bytes(std["c3"]).hex() != "59983c18f809e262923c53aec295d30383b54e39d609d160afcb1908d0bd8766" or bytes(std["c2"]).hex() != "21886ca989ca9c7d58087307ca93092d651efa":
        raise Infra("SM2.tla does not reproduce the GM/T 0003.5 Appendix A encryption example (C3 %s C2 %s)" % (bytes(std["c3"]).hex(), bytes(std["c2"]).hex()))
    if rows_by(rows, zkcase)["expect"]["draws"] != 2:
        raise Infra("zero-KDF nonce did not cause a retry in the specification")
    ctx.log("TLC encrypted %d cases (the standard's example reproduced; zero-KDF nonce k=%d forces a second draw)" % (len(rows), zk))
    # rejection cases
    dec = []
    for x in rows:
        c, e = x["case"], x["expect"]
        if not e["ok"] or c["mlen"] > 200 and not thorough:
            continue
        for mode in ("c1c3c2", "c1c2c3"):
            ct = e[mode]
            dec.append({"kind": "dec", "d": c["d"], "mode": mode, "ct": ct, "want": "ok", "pt_len": len(e["c2"]), "src": c})
            dec.append({"kind": "dec", "d": hex(int(c["d"], 16) + 1)[2:] if int(c["d"], 16) + 1 < N - 1 else "3", "mode": mode, "ct": ct, "want": "err", "why": "other key"})
            pos = range(len(ct)) if thorough and len(ct) < 140 else sorted(set([0, 1, 32, 33, 64, 65, 96, len(ct) - 1] + rnd.sample(range(len(ct)), min(6, len(ct)))))
            for p in pos:
                if p >= len(ct) or p == 0:
                    continue          # byte 0 is the 04 tag, which this API ignores by documentation
                t = list(ct)
                t[p] ^= 1 << rnd.randrange(8)
                dec.append({"kind": "dec", "d": c["d"], "mode": mode, "ct": t, "want": "err", "why": "byte %d changed" % p})
            for cut in ([1, 2, 31, 32, 33] if len(ct) > 40 else [1]) + [len(ct) - 96, len(ct) - 97, len(ct) - 4, len(ct)]:
                if 0 < cut <= len(ct) and len(ct) - cut != len(ct):
                    if len(e["c2"]) == 0 and cut != len(ct) and len(ct) - cut >= 97:
                        continue
                    dec.append({"kind": "dec", "d": c["d"], "mode": mode, "ct": ct[:len(ct) - cut], "want": "err", "why": "truncated by %d" % cut})
    # the ASN.1 form: every single byte of it changed
    nas = 0
    for x in rows:
        c, e = x["case"], x["expect"]
        if e["ok"] and 0 < c["mlen"] <= (200 if thorough else 40) and (thorough or nas < 6):
            dec.append({"kind": "decasn1sweep", "d": c["d"], "ct": e["c1c3c2"], "pt_len": len(e["c2"]), "src": c})
            nas += 1
    # invalid-curve points built by the specification
    inv = tlc_table(ctx, [{"kind": "invalidcurve", "d": STD_D, "x0": x0, "y0": y0, "mf": 0, "mlen": ml}
                          for (x0, y0, ml) in [("5", "7", 16), ("1", "1", 1), ("2", "3", 33), (hex(rnd.getrandbits(200))[2:], hex(rnd.getrandbits(255))[2:], 20)]], "inv")
    for x in inv:
        if x["expect"]["oncurve"] or not x["expect"]["reject"]:
            raise Infra("invalid-curve construction failed")
        for mode in ("c1c3c2", "c1c2c3"):
            dec.append({"kind": "dec", "d": STD_D, "mode": mode, "ct": x["expect"][mode], "want": "err", "why": "C1 on another curve (b' != b), ciphertext otherwise consistent"})
    allc = [x["case"] for x in rows] + dec
    casef = os.path.join(ctx.work, "c02.ndjson")
    obsf = os.path.join(ctx.work, "c02.obs.ndjson")
    write_ndjson(casef, [{"case": c} for c in allc])
    ctx.harness(["c01-real", casef, obsf], timeout=3000)
    obs = read_ndjson(obsf)
    exp = {json.dumps(x["case"], sort_keys=True): x["expect"] for x in rows}
    ok = nasn = 0
    for o in obs:
        c, g = o["case"], o["got"]
        probs = []
        if g.get("panic"):
            probs.append("panic: " + g["panic"][:200])
        elif c["kind"] == "enc":
            e = exp[json.dumps(c, sort_keys=True)]
            for mode in ("c1c3c2", "c1c2c3"):
                if g.get(mode + "_hang"):
                    probs.append("Encrypt (%s) did not terminate" % mode)
                elif g.get(mode + "_panic") or g.get(mode + "_err"):
                    probs.append("Encrypt (%s): %s" % (mode, g.get(mode + "_panic") or g.get(mode + "_err")))
                else:
                    if g[mode] != e[mode]:
                        probs.append("%s ciphertext is not the one GM/T 0003.4 prescribes for this key, plaintext and nonce" % mode)
                    if g[mode + "_draws"] != e["draws"]:
                        probs.append("%s: %d nonce draws, expected %d" % (mode, g[mode + "_draws"], e["draws"]))
                    if not g[mode + "_back"]:
                        probs.append("%s ciphertext does not decrypt to the plaintext" % mode)
            if g.get("asn1_err"):
                probs.append("EncryptAsn1: " + g["asn1_err"])
            elif g.get("asn1") != asn1_ct(e):
                probs.append("ASN.1 ciphertext is not SEQUENCE{x, y, hash, cipher} of the standard's components")
            elif not g["asn1_back"]:
                probs.append("ASN.1 ciphertext does not decrypt to the plaintext")
        elif c["kind"] == "dec":
            if c["want"] == "ok":
                src = exp[json.dumps(c["src"], sort_keys=True)]
                if g["err"]:
                    probs.append("the standard's ciphertext was rejected")
            else:
                if not g["err"]:
                    probs.append("forged ciphertext accepted (%s): returned %d bytes" % (c["why"], len(g["pt"])))
        elif c["kind"] == "decasn1sweep":
            if g.get("marshal_err") or not g.get("plain_ok"):
                probs.append("the ASN.1 form of the standard's ciphertext does not decrypt (%s)" % g.get("marshal_err", ""))
            nasn += g.get("tried", 0)
            for a in (g.get("accepted") or [])[:3]:
                probs.append("ASN.1 ciphertext accepted after a single-byte change: " + a)
        if probs:
            short = {k: (v if len(str(v)) < 80 else str(v)[:70] + "..") for k, v in c.items() if k != "src"}
            ctx.violation("%s: %s" % (json.dumps(short, sort_keys=True), "; ".join(probs)), {"case": c, "observed": g})
        else:
            ok += 1
    ctx.log("cases conforming: %d / %d (%d encryptions, %d decryption verdicts incl. %d invalid-curve)" % (ok, len(obs), len(rows), len(dec), 2 * len(inv)))
    ctx.cov["evaluations"] = len(obs)
    ctx.cov["asn1_single_byte_changes"] = nasn
    ctx.cov["distinct_nontrivial"] = len(obs)
    ctx.cov["exhaustive"] = False
    ctx.cov["rule"] = ("encryption case = distinct (key incl. short-coordinate keys, plaintext length incl. 0 and around multiples of 32, content family, scripted nonce); "
                       "decryption case = each expected ciphertext in both orderings under the right key, another key, single-byte changes, truncations, and C1 on another curve")
    ctx.sample({"enc_case": cases[2]})
    ctx.sample({"dec_case": {k: v for k, v in dec[5].items() if k not in ("ct", "src")}})
