package main

// C06: runs every configuration of TLCPCfg.tla with the real gmtls client and server and reports what
// both ends observed; also gmtls <-> crypto/tls (standard library) interop for the TLS modes.

import (
	"bufio"
	"bytes"
	"crypto"
	"crypto/ecdsa"
	"crypto/rand"
	"crypto/rsa"
	"crypto/sha256"
	stdtls "crypto/tls"
	stdx509 "crypto/x509"
	"crypto/x509/pkix"
	"encoding/hex"
	"encoding/json"
	"encoding/pem"
	"fmt"
	"io"
	"math/big"
	"net"
	"os"
	"runtime"
	"sort"
	"sync"
	"sync/atomic"
	"time"

	"github.com/tjfoc/gmsm/gmtls"
	"github.com/tjfoc/gmsm/sm2"
	"github.com/tjfoc/gmsm/x509"
)

type c06Case struct {
	Smode   string   `json:"smode"`
	Ckind   string   `json:"ckind"`
	Csuites []string `json:"csuites"`
	Ssuites []string `json:"ssuites"`
	Prefer  bool     `json:"prefer"`
	Auth    string   `json:"auth"`
	Ccert   string   `json:"ccert"`
	Source  string   `json:"source"`
	Tickets bool     `json:"tickets"`
	Data    bool     `json:"data,omitempty"`  // driver-side: also push application data
	Dyn     bool     `json:"dyn,omitempty"`   // driver-side: dynamic record sizing left on, and the transfer starts with one 200 kB Write
	Offer   bool     `json:"offer,omitempty"` // driver-side: the client has a session cache, i.e. offers the session-ticket extension
}

var suiteIDs = map[string]uint16{
	"ECC_CBC": gmtls.GMTLS_SM2_WITH_SM4_SM3, "ECC_GCM": gmtls.GMTLS_ECC_SM4_GCM_SM3,
	"ECDHE_CBC": gmtls.GMTLS_ECDHE_SM4_CBC_SM3, "ECDHE_GCM": gmtls.GMTLS_ECDHE_SM4_GCM_SM3,
	"RSA_AES128_GCM": gmtls.TLS_RSA_WITH_AES_128_GCM_SHA256, "RSA_AES128_CBC": gmtls.TLS_RSA_WITH_AES_128_CBC_SHA,
	"ECDHE_RSA_AES128_GCM": gmtls.TLS_ECDHE_RSA_WITH_AES_128_GCM_SHA256, "ECDHE_RSA_AES256_CBC": gmtls.TLS_ECDHE_RSA_WITH_AES_256_CBC_SHA,
	"ECDHE_RSA_CHACHA": gmtls.TLS_ECDHE_RSA_WITH_CHACHA20_POLY1305,
}

func suiteName(id uint16) string {
	for k, v := range suiteIDs {
		if v == id {
			return k
		}
	}
	return fmt.Sprintf("%04x", id)
}

func suiteList(names []string) []uint16 {
	if len(names) == 0 {
		return nil
	}
	r := make([]uint16, len(names))
	for i, n := range names {
		r[i] = suiteIDs[n]
	}
	return r
}

var authTypes = map[string]gmtls.ClientAuthType{
	"none": gmtls.NoClientCert, "request": gmtls.RequestClientCert, "requireany": gmtls.RequireAnyClientCert,
	"verifyifgiven": gmtls.VerifyClientCertIfGiven, "requireandverify": gmtls.RequireAndVerifyClientCert,
}

// untrusted client certificates: issued by CAs that carry the SAME subject name as the fixture CAs
type rogueT struct {
	sm2 gmtls.Certificate
	rsa gmtls.Certificate
	// client certificates issued through an intermediate CA under the genuine fixture roots: [leaf, intermediate]
	chainSM2, chainRSA gmtls.Certificate
	err                error
	once               sync.Once
}

var rogue rogueT

func fixtureCAName() (pkix.Name, error) {
	pemBytes, err := os.ReadFile(certPath("SM2_CA.cer"))
	if err != nil {
		return pkix.Name{}, err
	}
	c, err := x509.ReadCertificateFromPem(pemBytes)
	if err != nil {
		return pkix.Name{}, err
	}
	return c.Subject, nil
}

func loadRogue() (*rogueT, error) {
	rogue.once.Do(func() {
		name, err := fixtureCAName()
		if err != nil {
			rogue.err = err
			return
		}
		ca, err := newSM2CA(name)
		if err != nil {
			rogue.err = err
			return
		}
		rogue.sm2, _, rogue.err = ca.issue(leafOpt{cn: "rogue client", usage: x509.KeyUsageDigitalSignature,
			eku: []x509.ExtKeyUsage{x509.ExtKeyUsageClientAuth}, notBefore: time.Now().Add(-time.Hour), notAfter: time.Now().Add(24 * time.Hour)})
		if rogue.err != nil {
			return
		}
		// RSA rogue through the standard library
		cakey, _ := rsa.GenerateKey(rand.Reader, 2048)
		cat := &stdx509.Certificate{SerialNumber: big.NewInt(77), Subject: name, NotBefore: time.Now().Add(-time.Hour), NotAfter: time.Now().Add(24 * time.Hour),
			IsCA: true, BasicConstraintsValid: true, KeyUsage: stdx509.KeyUsageCertSign}
		cader, err := stdx509.CreateCertificate(rand.Reader, cat, cat, &cakey.PublicKey, cakey)
		if err != nil {
			rogue.err = err
			return
		}
		cac, _ := stdx509.ParseCertificate(cader)
		lk, _ := rsa.GenerateKey(rand.Reader, 2048)
		lt := &stdx509.Certificate{SerialNumber: big.NewInt(78), Subject: pkix.Name{CommonName: "rogue rsa client"}, NotBefore: time.Now().Add(-time.Hour),
			NotAfter: time.Now().Add(24 * time.Hour), KeyUsage: stdx509.KeyUsageDigitalSignature | stdx509.KeyUsageKeyEncipherment,
			ExtKeyUsage: []stdx509.ExtKeyUsage{stdx509.ExtKeyUsageClientAuth}}
		lder, err := stdx509.CreateCertificate(rand.Reader, lt, cac, &lk.PublicKey, cakey)
		if err != nil {
			rogue.err = err
			return
		}
		rogue.rsa = gmtls.Certificate{Certificate: [][]byte{lder}, PrivateKey: lk}
		rogue.err = buildChains06()
	})
	return &rogue, rogue.err
}

// leaf <- intermediate <- fixture root, for both key families (the fixture directory holds the CA keys)
func buildChains06() error {
	// SM2
	kb, err := os.ReadFile(certPath("SM2_CA_KEY.pem"))
	if err != nil {
		return err
	}
	caKey, err := x509.ReadPrivateKeyFromPem(kb, nil)
	if err != nil {
		return fmt.Errorf("SM2 CA key: %v", err)
	}
	cb, _ := os.ReadFile(certPath("SM2_CA.cer"))
	caCert, err := x509.ReadCertificateFromPem(cb)
	if err != nil {
		return fmt.Errorf("SM2 CA certificate: %v", err)
	}
	ik, _ := sm2.GenerateKey(rand.Reader)
	it := &x509.Certificate{SerialNumber: big.NewInt(9001), Subject: pkix.Name{CommonName: "C06 intermediate"}, NotBefore: time.Now().Add(-time.Hour),
		NotAfter: time.Now().Add(24 * time.Hour), IsCA: true, BasicConstraintsValid: true, KeyUsage: x509.KeyUsageCertSign, SignatureAlgorithm: x509.SM2WithSM3, SubjectKeyId: []byte{6, 6, 6}}
	ider, err := x509.CreateCertificate(it, caCert, &ik.PublicKey, caKey)
	if err != nil {
		return err
	}
	icert, _ := x509.ParseCertificate(ider)
	lk, _ := sm2.GenerateKey(rand.Reader)
	lt := &x509.Certificate{SerialNumber: big.NewInt(9002), Subject: pkix.Name{CommonName: "C06 chained client"}, NotBefore: time.Now().Add(-time.Hour),
		NotAfter: time.Now().Add(24 * time.Hour), KeyUsage: x509.KeyUsageDigitalSignature, ExtKeyUsage: []x509.ExtKeyUsage{x509.ExtKeyUsageClientAuth}, SignatureAlgorithm: x509.SM2WithSM3}
	lder, err := x509.CreateCertificate(lt, icert, &lk.PublicKey, ik)
	if err != nil {
		return err
	}
	rogue.chainSM2 = gmtls.Certificate{Certificate: [][]byte{lder, ider}, PrivateKey: lk}
	// RSA, through the standard library
	rb, err := os.ReadFile(certPath("RSA_CA_KEY.pem"))
	if err != nil {
		return err
	}
	blk, _ := pem.Decode(rb)
	var rcaKey *rsa.PrivateKey
	if k, e := stdx509.ParsePKCS1PrivateKey(blk.Bytes); e == nil {
		rcaKey = k
	} else if k8, e := stdx509.ParsePKCS8PrivateKey(blk.Bytes); e == nil {
		rcaKey, _ = k8.(*rsa.PrivateKey)
	}
	if rcaKey == nil {
		return fmt.Errorf("RSA CA key does not parse")
	}
	rcb, _ := os.ReadFile(certPath("RSA_CA.cer"))
	rblk, _ := pem.Decode(rcb)
	rcaCert, err := stdx509.ParseCertificate(rblk.Bytes)
	if err != nil {
		return err
	}
	rik, _ := rsa.GenerateKey(rand.Reader, 2048)
	rit := &stdx509.Certificate{SerialNumber: big.NewInt(9003), Subject: pkix.Name{CommonName: "C06 rsa intermediate"}, NotBefore: time.Now().Add(-time.Hour),
		NotAfter: time.Now().Add(24 * time.Hour), IsCA: true, BasicConstraintsValid: true, KeyUsage: stdx509.KeyUsageCertSign}
	rider, err := stdx509.CreateCertificate(rand.Reader, rit, rcaCert, &rik.PublicKey, rcaKey)
	if err != nil {
		return err
	}
	ric, _ := stdx509.ParseCertificate(rider)
	rlk, _ := rsa.GenerateKey(rand.Reader, 2048)
	rlt := &stdx509.Certificate{SerialNumber: big.NewInt(9004), Subject: pkix.Name{CommonName: "C06 rsa chained client"}, NotBefore: time.Now().Add(-time.Hour),
		NotAfter: time.Now().Add(24 * time.Hour), KeyUsage: stdx509.KeyUsageDigitalSignature | stdx509.KeyUsageKeyEncipherment, ExtKeyUsage: []stdx509.ExtKeyUsage{stdx509.ExtKeyUsageClientAuth}}
	rlder, err := stdx509.CreateCertificate(rand.Reader, rlt, ric, &rlk.PublicKey, rik)
	if err != nil {
		return err
	}
	rogue.chainRSA = gmtls.Certificate{Certificate: [][]byte{rlder, rider}, PrivateKey: rlk}
	return nil
}

// a private key behind an opaque handle (hardware module, key service): the package sees Public(), Sign() and Decrypt() only,
// and Public() hands out the key in the form a parsed certificate carries it (*ecdsa.PublicKey over the SM2 curve)
type opaqueKey06 struct{ k *sm2.PrivateKey }

func (o opaqueKey06) Public() crypto.PublicKey {
	return &ecdsa.PublicKey{Curve: o.k.Curve, X: o.k.X, Y: o.k.Y}
}
func (o opaqueKey06) Sign(r io.Reader, digest []byte, opts crypto.SignerOpts) ([]byte, error) {
	return o.k.Sign(r, digest, opts)
}
func (o opaqueKey06) Decrypt(r io.Reader, msg []byte, opts crypto.DecrypterOpts) ([]byte, error) {
	return o.k.Decrypt(r, msg, opts)
}

func opaque06(c gmtls.Certificate) gmtls.Certificate {
	if k, ok := c.PrivateKey.(*sm2.PrivateKey); ok {
		c.PrivateKey = opaqueKey06{k}
	}
	return c
}

func c06Configs(c *c06Case) (cc, sc *gmtls.Config, err error) {
	f, err := loadFixtures()
	if err != nil {
		return nil, nil, err
	}
	rg, err := loadRogue()
	if err != nil {
		return nil, nil, err
	}
	both := x509.NewCertPool()
	for _, n := range []string{"SM2_CA.cer", "RSA_CA.cer"} {
		b, _ := os.ReadFile(certPath(n))
		both.AppendCertsFromPEM(b)
	}
	switch c.Smode {
	case "gm":
		sc = &gmtls.Config{GMSupport: &gmtls.GMSupport{}, Certificates: []gmtls.Certificate{f.sig, f.enc}}
		if c.Source == "opaque" {
			sc.Certificates = []gmtls.Certificate{opaque06(f.sig), opaque06(f.enc)}
		}
	case "auto":
		if c.Source == "static" {
			gs := gmtls.NewGMSupport()
			gs.EnableMixMode()
			sc = &gmtls.Config{GMSupport: gs, Certificates: []gmtls.Certificate{f.sig, f.enc}}
			break
		}
		sig, enc, rsaC := f.sig, f.enc, f.rsa
		if c.Source == "opaque" {
			sig, enc = opaque06(sig), opaque06(enc)
		}
		if c.Source == "mixed" {
			gs := gmtls.NewGMSupport()
			gs.EnableMixMode()
			sc = &gmtls.Config{GMSupport: gs, Certificates: []gmtls.Certificate{f.rsa},
				GetCertificate: func(h *gmtls.ClientHelloInfo) (*gmtls.Certificate, error) {
					for _, v := range h.SupportedVersions {
						if v == gmtls.VersionGMSSL {
							return &sig, nil
						}
					}
					return nil, nil
				},
				GetKECertificate: func(*gmtls.ClientHelloInfo) (*gmtls.Certificate, error) { return &enc, nil }}
			break
		}
		sc, err = gmtls.NewBasicAutoSwitchConfig(&sig, &enc, &rsaC)
		if err != nil {
			return nil, nil, err
		}
	case "tls":
		if c.Source == "callbacks" {
			rsaC := f.rsa
			sc = &gmtls.Config{GetCertificate: func(*gmtls.ClientHelloInfo) (*gmtls.Certificate, error) { return &rsaC, nil }}
		} else {
			sc = &gmtls.Config{Certificates: []gmtls.Certificate{f.rsa}}
		}
	}
	sc.CipherSuites = suiteList(c.Ssuites)
	sc.PreferServerCipherSuites = c.Prefer
	sc.ClientAuth = authTypes[c.Auth]
	sc.ClientCAs = both
	sc.SessionTicketsDisabled = !c.Tickets
	sc.DynamicRecordSizingDisabled = !c.Dyn
	if c.Ckind == "gm" {
		cc = &gmtls.Config{GMSupport: &gmtls.GMSupport{}, RootCAs: f.sm2CA, ServerName: "localhost"}
		switch c.Ccert {
		case "good":
			cc.Certificates = []gmtls.Certificate{f.auth}
		case "untrusted":
			cc.Certificates = []gmtls.Certificate{rg.sm2}
		case "chain":
			cc.Certificates = []gmtls.Certificate{rg.chainSM2}
		case "chain_leaf":
			cl := rg.chainSM2
			cl.Leaf, _ = x509.ParseCertificate(cl.Certificate[0])
			cc.Certificates = []gmtls.Certificate{cl}
		}
	} else {
		cc = &gmtls.Config{RootCAs: f.rsaCA, ServerName: "localhost", MaxVersion: gmtls.VersionTLS12}
		switch c.Ccert {
		case "good":
			cc.Certificates = []gmtls.Certificate{f.rsaAuth}
		case "untrusted":
			cc.Certificates = []gmtls.Certificate{rg.rsa}
		case "chain":
			cc.Certificates = []gmtls.Certificate{rg.chainRSA}
		case "chain_leaf":
			cl := rg.chainRSA
			cl.Leaf, _ = x509.ParseCertificate(cl.Certificate[0])
			cc.Certificates = []gmtls.Certificate{cl}
		}
	}
	cc.CipherSuites = suiteList(c.Csuites)
	cc.DynamicRecordSizingDisabled = !c.Dyn
	if c.Offer {
		// a client offers the session-ticket extension only when it has somewhere to keep the ticket
		cc.ClientSessionCache = gmtls.NewLRUClientSessionCache(1)
	}
	return cc, sc, nil
}

type endObs struct {
	Err      string   `json:"err"`
	Panic    string   `json:"panic"`
	Complete bool     `json:"complete"`
	Version  int      `json:"version"`
	Suite    string   `json:"suite"`
	Peer     []string `json:"peer"` // sha256 of each peer certificate
	Resumed  bool     `json:"resumed"`
	EKM      string   `json:"ekm"`
}

type c06Obs struct {
	Cli, Srv  endObs
	Timeout   bool     `json:"timeout"`
	DataOK    bool     `json:"data_ok"`
	DataErr   string   `json:"data_err"`
	DataBytes int      `json:"data_bytes"`
	WantPeerC []string `json:"want_peer_c"` // what the client should see: the server's chain
	WantPeerS []string `json:"want_peer_s"` // what the server should see when the client sent a certificate
	Flight    []string `json:"flight"`      // "c:CH", "s:SH", ... in the order the records reached the interposer
}

var hsNames = map[byte]string{0: "HREQ", 1: "CH", 2: "SH", 4: "NST", 11: "CERT", 12: "SKE", 13: "CREQ", 14: "SHD", 15: "CV", 16: "CKE", 20: "FIN", 22: "CSTATUS", 67: "NPN"}

// flightOf reads the handshake as the wire shows it: plaintext handshake messages (reassembled per direction), ChangeCipherSpec,
// protected handshake records ("ENC"), alerts; it stops at the first application-data record.
func flightOf(m *mitm) []string {
	m.c2s.mu.Lock()
	recs := append([]*record(nil), m.c2s.seen...)
	m.c2s.mu.Unlock()
	nc := len(recs)
	m.s2c.mu.Lock()
	recs = append(recs, m.s2c.seen...)
	m.s2c.mu.Unlock()
	dirOf := map[*record]string{}
	for i, r := range recs {
		if i < nc {
			dirOf[r] = "c"
		} else {
			dirOf[r] = "s"
		}
	}
	sort.Slice(recs, func(a, b int) bool { return recs[a].order < recs[b].order })
	var out []string
	buf := map[string][]byte{}
	enc := map[string]bool{}
	for _, r := range recs {
		d := dirOf[r]
		switch r.typ() {
		case 20:
			out = append(out, d+":CCS")
			enc[d] = true
		case 21:
			out = append(out, d+":ALERT")
		case 22:
			if enc[d] {
				out = append(out, d+":ENC")
				continue
			}
			buf[d] = append(buf[d], r.body...)
			for len(buf[d]) >= 4 {
				n := int(buf[d][1])<<16 | int(buf[d][2])<<8 | int(buf[d][3])
				if len(buf[d]) < 4+n {
					break
				}
				name, ok := hsNames[buf[d][0]]
				if !ok {
					name = fmt.Sprintf("T%d", buf[d][0])
				}
				out = append(out, d+":"+name)
				buf[d] = buf[d][4+n:]
			}
		case 23:
			return out
		default:
			out = append(out, fmt.Sprintf("%s:R%d", d, r.typ()))
		}
	}
	return out
}

func fp(der []byte) string { h := sha256.Sum256(der); return hex.EncodeToString(h[:8]) }

func observe(c *gmtls.Conn, err error, p interface{}) endObs {
	o := endObs{}
	if err != nil {
		o.Err = err.Error()
	}
	if p != nil {
		o.Panic = fmt.Sprint(p)
		return o
	}
	st := c.ConnectionState()
	o.Complete = st.HandshakeComplete
	if o.Complete {
		o.Version = int(st.Version)
		o.Suite = suiteName(st.CipherSuite)
		for _, pc := range st.PeerCertificates {
			o.Peer = append(o.Peer, fp(pc.Raw))
		}
		o.Resumed = st.DidResume
		if k, e := st.ExportKeyingMaterial("verif", []byte("ctx"), 32); e == nil {
			o.EKM = hex.EncodeToString(k)
		} else {
			o.EKM = "error: " + e.Error()
		}
	}
	return o
}

// push the payload in the given write sizes, read it with odd buffer sizes, compare
func transfer(w, r *gmtls.Conn, total int, seed int) (int, error) {
	return transferSizes(w, r, total, seed, []int{1, 2, 1207, 16384, 16385, 3, 70000})
}

func transferSizes(w, r *gmtls.Conn, total int, seed int, sizes []int) (int, error) {
	data := make([]byte, total)
	for i := range data {
		data[i] = byte((i*131 + seed) % 251)
	}
	errc := make(chan error, 1)
	go func() {
		pos, k := 0, 0
		for pos < len(data) {
			n := sizes[k%len(sizes)]
			k++
			if n > len(data)-pos {
				n = len(data) - pos
			}
			if _, e := w.Write(data[pos : pos+n]); e != nil {
				errc <- e
				return
			}
			pos += n
		}
		errc <- nil
	}()
	got := make([]byte, 0, total)
	rs := []int{1, 5, 4096, 17, 30000}
	k := 0
	r.SetReadDeadline(time.Now().Add(10 * time.Second))
	for len(got) < total {
		buf := make([]byte, rs[k%len(rs)])
		k++
		n, e := r.Read(buf)
		got = append(got, buf[:n]...)
		if e != nil {
			return len(got), fmt.Errorf("read after %d bytes: %v", len(got), e)
		}
	}
	r.SetReadDeadline(time.Time{})
	if e := <-errc; e != nil {
		return len(got), fmt.Errorf("write: %v", e)
	}
	if !bytes.Equal(got, data) {
		return len(got), fmt.Errorf("received stream differs from the sent stream")
	}
	return len(got), nil
}

// a transport that, once switched on, hands the reader its bytes in small pieces (3, 400, 2, 5000, 1, ... bytes) and lets
// every other Read call end in an expired read deadline: a temporary error after which the connection stays usable
type dripConn struct {
	net.Conn
	on     int32 // 1: pieces and expired deadlines; 2: the rest of the stream is collected and its last bytes come WITH io.EOF
	calls  int
	rest   []byte
	loaded bool
}

type dripTimeout struct{}

func (dripTimeout) Error() string   { return "verif: i/o timeout" }
func (dripTimeout) Timeout() bool   { return true }
func (dripTimeout) Temporary() bool { return true }

func (d *dripConn) Read(p []byte) (int, error) {
	if atomic.LoadInt32(&d.on) == 0 {
		return d.Conn.Read(p)
	}
	if atomic.LoadInt32(&d.on) == 2 {
		// (an io.Reader may return its last bytes together with io.EOF - buffered tunnels and multiplexers do)
		if !d.loaded {
			d.rest, _ = io.ReadAll(d.Conn)
			d.loaded = true
		}
		n := copy(p, d.rest)
		d.rest = d.rest[n:]
		if len(d.rest) == 0 {
			return n, io.EOF
		}
		return n, nil
	}
	d.calls++
	if d.calls%2 == 0 {
		return 0, dripTimeout{}
	}
	if k := []int{3, 400, 2, 5000, 1, 17, 1000}[(d.calls/2)%7]; len(p) > k {
		p = p[:k]
	}
	return d.Conn.Read(p)
}

// the writer sends messages of the given sizes; the reader's transport drips and times out; the reader retries after every
// timeout and must receive exactly the bytes sent
func dripTransfer(w, r *gmtls.Conn, d *dripConn, sizes []int) error {
	var msg []byte
	total := 0
	for _, n := range sizes {
		total += n
	}
	msg = make([]byte, total)
	for i := range msg {
		msg[i] = byte((i*61 + 11) % 251)
	}
	atomic.StoreInt32(&d.on, 1)
	defer atomic.StoreInt32(&d.on, 0)
	errc := make(chan error, 1)
	go func() {
		off := 0
		for _, n := range sizes {
			if _, e := w.Write(msg[off : off+n]); e != nil {
				errc <- e
				return
			}
			off += n
		}
		errc <- nil
	}()
	var got []byte
	timeouts := 0
	deadline := time.Now().Add(20 * time.Second)
	for len(got) < total {
		if time.Now().After(deadline) {
			return fmt.Errorf("%d of %d bytes after 20 s", len(got), total)
		}
		buf := make([]byte, 3000)
		k, e := r.Read(buf)
		got = append(got, buf[:k]...)
		if ne, ok := e.(net.Error); ok && ne.Timeout() {
			timeouts++
			continue
		}
		if e != nil {
			return fmt.Errorf("read after %d of %d bytes and %d expired deadlines: %v", len(got), total, timeouts, e)
		}
	}
	if e := <-errc; e != nil {
		return fmt.Errorf("write: %v", e)
	}
	if timeouts == 0 {
		return fmt.Errorf("driver: no read deadline expired")
	}
	if !bytes.Equal(got, msg) {
		return fmt.Errorf("stream delivered across %d expired read deadlines differs from the stream sent", timeouts)
	}
	return nil
}

func tailThenClose(w, r *gmtls.Conn, n int) error {
	msg := make([]byte, n)
	for i := range msg {
		msg[i] = byte((i*89 + 7) % 253)
	}
	errc := make(chan error, 1)
	go func() {
		_, e := w.Write(msg)
		if e == nil {
			e = w.Close()
		}
		errc <- e
	}()
	if e := <-errc; e != nil {
		return fmt.Errorf("write / close: %v", e)
	}
	time.Sleep(10 * time.Millisecond) // (data and close_notify have both arrived before the first Read)
	var got []byte
	r.SetReadDeadline(time.Now().Add(10 * time.Second))
	defer r.SetReadDeadline(time.Time{})
	for {
		buf := make([]byte, 64)
		k, e := r.Read(buf)
		got = append(got, buf[:k]...)
		if e == io.EOF {
			break
		}
		if e != nil {
			return fmt.Errorf("read after %d of %d bytes: %v", len(got), n, e)
		}
		if len(got) > n {
			break
		}
	}
	if !bytes.Equal(got, msg) {
		return fmt.Errorf("%d of the %d bytes written before Close were delivered before the end of the stream", len(got), n)
	}
	return nil
}

func runC06(c *c06Case) (c06Obs, error) {
	var obs c06Obs
	cc, sc, err := c06Configs(c)
	if err != nil {
		return obs, err
	}
	f, _ := loadFixtures()
	ce, se, m := newMitm()
	defer m.close()
	cli := gmtls.Client(ce, cc)
	srv := gmtls.Server(se, sc)
	r := runHandshake(cli, srv, 15*time.Second)
	obs.Timeout = r.timedOut
	obs.Cli = observe(cli, r.cliErr, r.cliPanic)
	obs.Srv = observe(srv, r.srvErr, r.srvPanic)
	// expected identities
	if c.Ckind == "gm" {
		obs.WantPeerC = []string{fp(f.sig.Certificate[0]), fp(f.enc.Certificate[0])}
	} else {
		obs.WantPeerC = []string{fp(f.rsa.Certificate[0])}
	}
	if len(cc.Certificates) > 0 {
		for _, der := range cc.Certificates[0].Certificate {
			obs.WantPeerS = append(obs.WantPeerS, fp(der))
		}
	}
	obs.Flight = flightOf(m)
	if c.Data && obs.Cli.Complete && obs.Srv.Complete && obs.Cli.Panic == "" && obs.Srv.Panic == "" {
		sizes := []int{1, 2, 1207, 16384, 16385, 3, 70000}
		if c.Dyn {
			sizes = []int{200000, 5, 17000} // the record-size ramp of the sender meets a Write that has far more than a record pending
		}
		n1, e1 := transferSizes(cli, srv, 220000, 1, sizes)
		n2, e2 := 0, error(nil)
		if e1 == nil {
			n2, e2 = transfer(srv, cli, 40000, 2)
		}
		// the end of the stream: the server writes a last message and closes at once, so that close_notify sits right behind the
		// data; the client, reading with a small buffer, must get every byte and then the end of the stream
		// (on a second connection of the same two configurations over loopback TCP: there both records wait in the kernel's
		// buffer, which the in-memory pipes of the interposer cannot do)
		var e3 error
		if e1 == nil && e2 == nil {
			if ce2, se2 := tcpPair(); ce2 == nil {
				return obs, fmt.Errorf("no loopback connection")
			} else {
				cc2, sc2, err := c06Configs(c)
				if err != nil {
					return obs, err
				}
				drip := &dripConn{Conn: ce2}
				cli2, srv2 := gmtls.Client(drip, cc2), gmtls.Server(se2, sc2)
				if r2 := runHandshake(cli2, srv2, 15*time.Second); r2.cliErr != nil || r2.srvErr != nil || r2.timedOut {
					e3 = fmt.Errorf("second connection of the same configuration: client %v, server %v", r2.cliErr, r2.srvErr)
				} else if e3 = dripTransfer(srv2, cli2, drip, []int{1, 1070, 20000, 5}); e3 == nil {
					if !c.Dyn {
						atomic.StoreInt32(&drip.on, 2) // the end of the stream arrives as (last bytes, io.EOF) in one Read
					}
					e3 = tailThenClose(srv2, cli2, 700+len(sizes))
				}
				cli2.Close()
				srv2.Close()
			}
		}
		obs.DataBytes = n1 + n2
		obs.DataOK = e1 == nil && e2 == nil && e3 == nil
		if e3 != nil {
			obs.DataErr = "s2c, second connection (reads interrupted by expired deadlines, then the last message before Close): " + e3.Error()
		}
		if e1 != nil {
			obs.DataErr = "c2s: " + e1.Error()
		} else if e2 != nil {
			obs.DataErr = "s2c: " + e2.Error()
		}
	}
	return obs, nil
}

// c06-run <cases.ndjson> <obs.ndjson>
func c06run(args []string) error {
	in, err := os.Open(args[0])
	if err != nil {
		return err
	}
	defer in.Close()
	var cases []c06Case
	var raws []json.RawMessage
	sc := bufio.NewScanner(in)
	sc.Buffer(make([]byte, 1<<20), 1<<26)
	for sc.Scan() {
		var row struct {
			Case json.RawMessage `json:"case"`
		}
		if err := json.Unmarshal(sc.Bytes(), &row); err != nil {
			return err
		}
		var c c06Case
		if err := json.Unmarshal(row.Case, &c); err != nil {
			return err
		}
		cases = append(cases, c)
		raws = append(raws, row.Case)
	}
	if _, err := loadRogue(); err != nil {
		return err
	}
	out := make([]c06Obs, len(cases))
	errs := make([]error, len(cases))
	var wg sync.WaitGroup
	sem := make(chan struct{}, runtime.NumCPU())
	for i := range cases {
		wg.Add(1)
		sem <- struct{}{}
		go func(i int) {
			defer wg.Done()
			defer func() { <-sem }()
			out[i], errs[i] = runC06(&cases[i])
		}(i)
	}
	wg.Wait()
	outf, err := os.Create(args[1])
	if err != nil {
		return err
	}
	defer outf.Close()
	w := bufio.NewWriter(outf)
	defer w.Flush()
	for i := range cases {
		if errs[i] != nil {
			return fmt.Errorf("case %d: %v", i, errs[i])
		}
		b, _ := json.Marshal(map[string]interface{}{"case": raws[i], "got": out[i]})
		w.Write(b)
		w.WriteByte('\n')
	}
	return nil
}

var _ = io.EOF
var _ = stdtls.VersionTLS12

func init() { cmds["c06-run"] = c06run }
