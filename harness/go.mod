module verif/harness

go 1.14

require (
	github.com/tjfoc/gmsm v0.0.0
	golang.org/x/crypto v0.0.0-20201012173705-84dcc777aaee
)

replace github.com/tjfoc/gmsm => /repo
