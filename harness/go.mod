module verif/harness

go 1.14

require github.com/tjfoc/gmsm v0.0.0

replace github.com/tjfoc/gmsm => /repo
