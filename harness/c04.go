package main

// C04: replays TLC-generated Write/Sum/Reset behaviours on real sm3.New() objects and records
// what each call returned; evaluates HMAC/PBKDF2/one-shot table cases with the real code.

import (
	"bufio"
	"bytes"
	"crypto/hmac"
	"encoding/json"
	"fmt"
	"hash"
	"os"
	"strconv"

	"github.com/tjfoc/gmsm/sm3"
	"golang.org/x/crypto/pbkdf2"
)

type hashOp struct {
	Op string `json:"op"`
	N  int    `json:"n"`
	P  int    `json:"p"`
	C  int    `json:"c"`
}

func c04MsgByte(f, i int) byte {
	switch f {
	case 1:
		return 255
	case 2:
		return 0
	}
	return byte((i*13 + 7) % 256)
}
func c04Msg(f, from, n int) []byte { // bytes from+1 .. from+n of the stream
	b := make([]byte, n)
	for i := range b {
		b[i] = c04MsgByte(f, from+i+1)
	}
	return b
}
func c04Key(n int) []byte {
	b := make([]byte, n)
	for i := range b {
		b[i] = byte(((i+1)*31 + 3) % 256)
	}
	return b
}

var reusedMac = map[int]hash.Hash{}

func c04Play(h hash.Hash, ops []hashOp, ev *evw) {
	// a panic in any call ends the behaviour with an event the specification has no action for
	defer func() {
		if p := recover(); p != nil {
			ev.emit(map[string]interface{}{"ev": "panic", "what": fmt.Sprint(p)})
		}
	}()
	pos := 0
	// the slices earlier Sum calls returned (kept, not copied) and their values at the time
	var kept, snap [][]byte
	resultsIntact := func() bool {
		for i := range kept {
			if !bytes.Equal(kept[i], snap[i]) {
				return false
			}
		}
		return true
	}
	for _, o := range ops {
		switch o.Op {
		case "write":
			// the caller's buffer has canary-filled spare capacity and is scribbled over as soon as
			// Write returns (io.Writer: Write must not retain or modify p): value semantics of the spec
			msg := c04Msg(0, pos, o.N)
			full := make([]byte, o.N+24)
			copy(full, msg)
			for i := o.N; i < len(full); i++ {
				full[i] = 0xA5
			}
			p := full[:o.N]
			n, err := h.Write(p)
			intact := string(p) == string(msg)
			for i := o.N; i < len(full); i++ {
				if full[i] != 0xA5 {
					intact = false
				}
			}
			for i := range full {
				full[i] = 0xEE
			}
			pos += o.N
			ev.emit(map[string]interface{}{"ev": "write", "n": o.N, "ret": n, "err": err != nil, "caller_intact": intact, "results_intact": resultsIntact()})
		case "sum":
			cp := o.P
			if o.C == 1 {
				cp += 40
			}
			buf := make([]byte, o.P, cp)
			for i := range buf {
				buf[i] = byte(200 + ((i + 1) % 50))
			}
			if o.P == 0 && o.C == 0 {
				buf = nil // Sum(nil), the usual call
			}
			out := h.Sum(buf)
			intact := true
			for i := range buf {
				if buf[i] != byte(200+((i+1)%50)) {
					intact = false
				}
			}
			ev.emit(map[string]interface{}{"ev": "sum", "p": o.P, "c": o.C, "out": ints(out), "prefix_intact": intact, "results_intact": resultsIntact()})
			kept, snap = append(kept, out), append(snap, append([]byte(nil), out...))
		case "reset":
			h.Reset()
			pos = 0
			ev.emit(map[string]interface{}{"ev": "reset", "results_intact": resultsIntact()})
		}
	}
}

// c04-beh <behaviours.ndjson> <oneshot-max-len> <trace.ndjson>
func c04beh(args []string) error {
	in, err := os.Open(args[0])
	if err != nil {
		return err
	}
	defer in.Close()
	maxOne, _ := strconv.Atoi(args[1])
	outf, err := os.Create(args[2])
	if err != nil {
		return err
	}
	defer outf.Close()
	ev := &evw{w: bufio.NewWriterSize(outf, 1<<20)}
	defer ev.w.Flush()
	sc := bufio.NewScanner(in)
	sc.Buffer(make([]byte, 1<<20), 1<<26)
	first := true
	for sc.Scan() {
		var ops []hashOp
		if err := json.Unmarshal(sc.Bytes(), &ops); err != nil {
			return err
		}
		h := sm3.New()
		ev.emit(map[string]interface{}{"ev": "new"})
		if first {
			ev.emit(map[string]interface{}{"ev": "size", "size": h.Size(), "bs": h.BlockSize()})
			first = false
		}
		c04Play(h, ops, ev)
	}
	for n := 0; n <= maxOne; n++ {
		ev.emit(map[string]interface{}{"ev": "oneshot", "n": n, "out": ints(sm3.Sm3Sum(c04Msg(0, 0, n)))})
	}
	return sc.Err()
}

// c04-table <cases.ndjson> <observed.ndjson>: each line {"case":{...}} -> {"case":..., "got":[...]}
func c04table(args []string) error {
	in, err := os.Open(args[0])
	if err != nil {
		return err
	}
	defer in.Close()
	outf, err := os.Create(args[1])
	if err != nil {
		return err
	}
	defer outf.Close()
	w := bufio.NewWriter(outf)
	defer w.Flush()
	sc := bufio.NewScanner(in)
	sc.Buffer(make([]byte, 1<<20), 1<<26)
	for sc.Scan() {
		var row struct {
			Case map[string]interface{} `json:"case"`
		}
		if err := json.Unmarshal(sc.Bytes(), &row); err != nil {
			return err
		}
		c := row.Case
		gi := func(k string) int { v, _ := c[k].(float64); return int(v) }
		var got []byte
		switch c["kind"] {
		case "digest":
			// written in three pieces through the streaming interface as well as one-shot
			m := c04Msg(gi("fam"), 0, gi("len"))
			got = sm3.Sm3Sum(m)
			h := sm3.New()
			h.Write(m[:len(m)/3])
			h.Write(m[len(m)/3:])
			if s := h.Sum(nil); string(s) != string(got) {
				got = append([]byte("STREAM!="), s...)
			}
			// and in a single Write
			h1 := sm3.New()
			h1.Write(m)
			if s := h1.Sum(nil); string(s) != string(got) {
				got = append([]byte("WRITE!="), s...)
			}
			// the largest table message once more, repeated to 3 MiB + 17 bytes: one Write, one-shot, and 4 KiB Writes agree (the
			// digest is a function of the byte string; TLC's value for the chunked form is established on the shorter messages)
			if len(m) >= 65537 && string(got[:1]) != "S" && string(got[:1]) != "W" {
				bigm := bytes.Repeat(m, (3<<20+17)/len(m)+1)[:3<<20+17]
				hb := sm3.New()
				for off := 0; off < len(bigm); off += 4096 {
					end := off + 4096
					if end > len(bigm) {
						end = len(bigm)
					}
					hb.Write(bigm[off:end])
				}
				chunked := hb.Sum(nil)
				h1b := sm3.New()
				h1b.Write(bigm)
				if one := h1b.Sum(nil); string(one) != string(chunked) {
					got = append([]byte("BIGWRITE!="), one...)
				} else if os := sm3.Sm3Sum(bigm); string(os) != string(chunked) {
					got = append([]byte("BIGONESHOT!="), os...)
				}
			}
			// Sum(b) for every prefix length 0..70 and every spare capacity 0..40 behind it (none, less than a digest, exactly
			// a digest, more): b || digest, the prefix kept, the object usable afterwards
			if len(m) <= 200 && string(got[:1]) != "S" && string(got[:1]) != "W" {
				digest := append([]byte(nil), got...)
				func() {
					defer func() {
						if p := recover(); p != nil {
							got = append([]byte("SUMCAP-PANIC!="), []byte(fmt.Sprint(p))...)
						}
					}()
					for pl := 0; pl <= 70; pl++ {
						for spare := 0; spare <= 40; spare++ {
							buf := make([]byte, pl, pl+spare)
							for i := range buf {
								buf[i] = byte(i*7 + 3)
							}
							out := h1.Sum(buf)
							ok := len(out) == pl+32 && string(out[pl:]) == string(digest)
							for i := 0; ok && i < pl; i++ {
								ok = out[i] == byte(i*7+3) && buf[i] == byte(i*7+3)
							}
							if !ok {
								got = append([]byte(fmt.Sprintf("SUMCAP(%d,%d)!=", pl, spare)), out...)
								return
							}
						}
					}
				}()
			}
		case "hmac":
			mac := hmac.New(sm3.New, c04Key(gi("klen")))
			mac.Write(c04Msg(0, 0, gi("mlen")))
			got = mac.Sum(nil)
			// the same through ONE HMAC object per key that is Reset between messages (crypto/hmac then re-creates or restores
			// the inner and outer states of the underlying hash)
			old := reusedMac[gi("klen")]
			if old == nil {
				old = hmac.New(sm3.New, c04Key(gi("klen")))
				reusedMac[gi("klen")] = old
			}
			old.Reset()
			old.Write(c04Msg(0, 0, gi("mlen")))
			if s := old.Sum(nil); string(s) != string(got) {
				got = append([]byte("REUSED!="), s...)
			}
		case "pbkdf2":
			got = pbkdf2.Key(c04Key(gi("plen")), c04Msg(0, 0, gi("slen")), gi("iter"), gi("dklen"), sm3.New)
		}
		b, _ := json.Marshal(map[string]interface{}{"case": c, "got": ints(got)})
		w.Write(b)
		w.WriteByte('\n')
	}
	return sc.Err()
}

func init() {
	cmds["c04-beh"] = c04beh
	cmds["c04-table"] = c04table
}
