package main

// C10: materialises the abstract PKIs of PKIX.tla with real SM2 keys and certificates and runs
// (*Certificate).Verify under several insertion orders of the intermediate pool.

import (
	"bufio"
	"crypto/rand"
	"crypto/sha256"
	"crypto/x509/pkix"
	"encoding/asn1"
	"encoding/json"
	"encoding/pem"
	"fmt"
	"math/big"
	"net"
	"os"
	"sort"
	"sync"
	"time"

	"github.com/tjfoc/gmsm/sm2"
	"github.com/tjfoc/gmsm/x509"
)

type absCert struct {
	ID        int      `json:"id"`
	Subj      string   `json:"subj"`
	Key       string   `json:"key"`
	Issuer    string   `json:"issuer"`
	Signer    string   `json:"signer"`
	CA        bool     `json:"ca"`
	Pathlen   int      `json:"pathlen"`
	Certsign  bool     `json:"certsign"`
	Nb        int      `json:"nb"`
	Na        int      `json:"na"`
	Permitted []string `json:"permitted"`
	Eku       []string `json:"eku"`
	DNS       []string `json:"dns"`
	IP        []string `json:"ip"`
	Crit      bool     `json:"crit"`
	Ski       string   `json:"ski"`
}

type pkixCase struct {
	Case   json.RawMessage    `json:"case"`
	Certs  map[string]absCert `json:"certs"`
	Leaf   int                `json:"leaf"`
	Inters []int              `json:"inters"`
	Roots  []int              `json:"roots"`
	Q      struct {
		Time   int      `json:"time"`
		Sub    int      `json:"sub"` // half seconds beyond Time
		Name   string   `json:"name"`
		Kind   string   `json:"kind"`
		Usages []string `json:"usages"`
	} `json:"q"`
	Accept bool    `json:"accept"`
	Chains [][]int `json:"chains"`
}

var (
	keyMu    sync.Mutex
	keyCache = map[string]*sm2.PrivateKey{}
)

func keyFor(name string) *sm2.PrivateKey {
	keyMu.Lock()
	defer keyMu.Unlock()
	if k, ok := keyCache[name]; ok {
		return k
	}
	k, err := sm2.GenerateKey(rand.Reader)
	if err != nil {
		panic(err)
	}
	keyCache[name] = k
	return k
}

func skid(key string) []byte { h := sha256.Sum256([]byte("skid:" + key)); return h[:8] }

var pkixBase = time.Date(2025, 1, 1, 0, 0, 0, 0, time.UTC)

func day(t int) time.Time { return pkixBase.Add(time.Duration(t) * 24 * time.Hour) }

var serialN int64 = 5000

func materialise(a absCert, issuerKeyName string) (*x509.Certificate, error) {
	serialN++
	t := &x509.Certificate{
		SerialNumber:       big.NewInt(serialN),
		Subject:            pkix.Name{CommonName: a.Subj, Organization: []string{"pkix"}},
		NotBefore:          day(a.Nb),
		NotAfter:           day(a.Na),
		SignatureAlgorithm: x509.SM2WithSM3,
		SubjectKeyId:       skid(a.Key),
		DNSNames:           a.DNS,
	}
	switch a.Ski { // children always name skid(key of the issuer) as authority key identifier
	case "none":
		t.SubjectKeyId = nil
	case "other":
		t.SubjectKeyId = skid("reissued:" + a.Key)
	}
	for _, ip := range a.IP {
		t.IPAddresses = append(t.IPAddresses, net.ParseIP(ip))
	}
	if a.CA || a.Pathlen >= 0 || a.Certsign {
		t.BasicConstraintsValid = true
		t.IsCA = a.CA
		if a.Pathlen >= 0 {
			t.MaxPathLen = a.Pathlen
			t.MaxPathLenZero = a.Pathlen == 0
		} else {
			t.MaxPathLen = -1
		}
	}
	if a.Certsign {
		t.KeyUsage = x509.KeyUsageCertSign | x509.KeyUsageCRLSign
	} else {
		t.KeyUsage = x509.KeyUsageDigitalSignature
	}
	if !a.CA && !a.Certsign && a.Pathlen < 0 && len(a.DNS)+len(a.IP) == 0 && len(a.Eku) == 0 {
		// a CA certificate whose CA bit was knocked off: keep the BasicConstraints extension, CA = false
		t.BasicConstraintsValid = true
	}
	t.PermittedDNSDomains = a.Permitted
	for _, e := range a.Eku {
		switch e {
		case "server":
			t.ExtKeyUsage = append(t.ExtKeyUsage, x509.ExtKeyUsageServerAuth)
		case "client":
			t.ExtKeyUsage = append(t.ExtKeyUsage, x509.ExtKeyUsageClientAuth)
		case "any":
			t.ExtKeyUsage = append(t.ExtKeyUsage, x509.ExtKeyUsageAny)
		case "unknown":
			t.UnknownExtKeyUsage = append(t.UnknownExtKeyUsage, asn1.ObjectIdentifier{1, 2, 3, 4, 5, 77})
		}
	}
	if a.Crit {
		t.ExtraExtensions = append(t.ExtraExtensions, pkix.Extension{Id: asn1.ObjectIdentifier{1, 2, 3, 4, 5, 99}, Critical: true, Value: []byte{5, 0}})
	}
	parent := &x509.Certificate{Subject: pkix.Name{CommonName: a.Issuer, Organization: []string{"pkix"}}, SubjectKeyId: skid(issuerKeyName)}
	if a.Issuer == a.Subj && a.Signer == a.Key {
		parent = t
	}
	signer := keyFor(a.Signer)
	if a.Signer == "kForged" {
		signer, _ = sm2.GenerateKey(rand.Reader)
	}
	der, err := x509.CreateCertificate(t, parent, &keyFor(a.Key).PublicKey, signer)
	if err != nil {
		return nil, err
	}
	return x509.ParseCertificate(der)
}

func perms(a []int, limit int) [][]int {
	var res [][]int
	var rec func(k int)
	b := append([]int(nil), a...)
	rec = func(k int) {
		if len(res) >= limit {
			return
		}
		if k == len(b) {
			res = append(res, append([]int(nil), b...))
			return
		}
		for i := k; i < len(b); i++ {
			b[k], b[i] = b[i], b[k]
			rec(k + 1)
			b[k], b[i] = b[i], b[k]
		}
	}
	rec(0)
	return res
}

type pkixObs struct {
	Orders []struct {
		Order  []int   `json:"order"`
		OK     bool    `json:"ok"`
		Err    string  `json:"err"`
		Chains [][]int `json:"chains"`
		Panic  string  `json:"panic"`
	} `json:"orders"`
	HostnameErr string `json:"hostname_err"`
}

func runPKIX(pc *pkixCase, maxOrders int) (pkixObs, error) {
	var o pkixObs
	// the issuer's key name for the AKI: the key of a certificate whose subject is the issuer and whose key signed
	certs := map[int]*x509.Certificate{}
	idOf := map[string]int{}
	for _, a := range pc.Certs {
		issuerKey := a.Signer
		for _, b := range pc.Certs {
			if b.Subj == a.Issuer {
				issuerKey = b.Key
			}
		}
		c, err := materialise(a, issuerKey)
		if err != nil {
			return o, fmt.Errorf("certificate %d: %v", a.ID, err)
		}
		certs[a.ID] = c
		idOf[string(c.Raw)] = a.ID
	}
	usages := []x509.ExtKeyUsage{}
	for _, u := range pc.Q.Usages {
		switch u {
		case "server":
			usages = append(usages, x509.ExtKeyUsageServerAuth)
		case "client":
			usages = append(usages, x509.ExtKeyUsageClientAuth)
		case "any":
			usages = append(usages, x509.ExtKeyUsageAny)
		}
	}
	sort.Ints(pc.Inters)
	for oi, order := range perms(pc.Inters, maxOrders) {
		roots := x509.NewCertPool()
		inter := x509.NewCertPool()
		var res struct {
			Order  []int   `json:"order"`
			OK     bool    `json:"ok"`
			Err    string  `json:"err"`
			Chains [][]int `json:"chains"`
			Panic  string  `json:"panic"`
		}
		res.Order = order
		if p := recoverStr(func() { buildPools10(oi, pc.Roots, order, certs, roots, inter) }); p != "" {
			res.Panic = "while the pools were filled: " + p
			o.Orders = append(o.Orders, res)
			continue
		}
		opts := x509.VerifyOptions{Roots: roots, Intermediates: inter, CurrentTime: day(pc.Q.Time).Add(time.Duration(pc.Q.Sub) * 500 * time.Millisecond), DNSName: pc.Q.Name, KeyUsages: usages}
		res.Panic = recoverStr(func() {
			chains, err := certs[pc.Leaf].Verify(opts)
			res.OK = err == nil
			if err != nil {
				res.Err = err.Error()
			}
			for _, ch := range chains {
				var ids []int
				for _, c := range ch {
					ids = append(ids, idOf[string(c.Raw)])
				}
				res.Chains = append(res.Chains, ids)
			}
		})
		o.Orders = append(o.Orders, res)
	}
	return o, nil
}

// even orders: AddCert one by one; odd orders: PEM bundles in which the first certificate appears twice and the last one is
// already in the pool (a pool is a set: duplicates must change nothing)
func buildPools10(oi int, rootIDs, order []int, certs map[int]*x509.Certificate, roots, inter *x509.CertPool) {
	if oi%2 == 0 {
		for _, r := range rootIDs {
			roots.AddCert(certs[r])
		}
		for _, i := range order {
			inter.AddCert(certs[i])
		}
		return
	}
	bundle := func(ids []int) []byte {
		var b []byte
		for k, i := range ids {
			blk := pem.EncodeToMemory(&pem.Block{Type: "CERTIFICATE", Bytes: certs[i].Raw})
			b = append(b, blk...)
			if k == 0 {
				b = append(b, blk...)
			}
		}
		return b
	}
	if len(rootIDs) > 0 {
		roots.AddCert(certs[rootIDs[len(rootIDs)-1]])
		roots.AppendCertsFromPEM(bundle(rootIDs))
	}
	if len(order) > 0 {
		inter.AddCert(certs[order[len(order)-1]])
		inter.AppendCertsFromPEM(bundle(order))
	}
}

// c10-run <cases.ndjson> <obs.ndjson> <max-orders>
func c10run(args []string) error {
	in, err := os.Open(args[0])
	if err != nil {
		return err
	}
	defer in.Close()
	maxOrders := 6
	fmt.Sscan(args[2], &maxOrders)
	outf, err := os.Create(args[1])
	if err != nil {
		return err
	}
	defer outf.Close()
	w := bufio.NewWriter(outf)
	defer w.Flush()
	sc := bufio.NewScanner(in)
	sc.Buffer(make([]byte, 1<<20), 1<<27)
	for sc.Scan() {
		var pc pkixCase
		if err := json.Unmarshal(sc.Bytes(), &pc); err != nil {
			return err
		}
		o, err := runPKIX(&pc, maxOrders)
		if err != nil {
			return err
		}
		b, _ := json.Marshal(map[string]interface{}{"case": pc.Case, "got": o})
		w.Write(b)
		w.WriteByte('\n')
	}
	return sc.Err()
}

func init() { cmds["c10-run"] = c10run }
