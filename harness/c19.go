package main

// C19: plays TLC-generated environments (source answers, caller buffers, write sizes)
// against the real sm4/padding objects and records one event per PadStream action.
// Nothing is judged here: the trace goes back to TLC (PadStreamTrace).

import (
	"bufio"
	"bytes"
	"crypto/cipher"
	"encoding/json"
	"fmt"
	"io"
	"os"

	"github.com/tjfoc/gmsm/sm4"
	"github.com/tjfoc/gmsm/sm4/padding"
)

type padOp struct {
	Op  string `json:"op"`
	K   int    `json:"k"`
	Eof bool   `json:"eof"`
	Buf int    `json:"buf"`
	Len int    `json:"len"`
}

type padEnv struct {
	Kind string  `json:"kind"`
	Bs   int     `json:"bs"`
	N    int     `json:"n"`
	Bad  string  `json:"bad"`
	Ops  []padOp `json:"ops"`
}

type evw struct {
	w *bufio.Writer
	n int
}

func (e *evw) emit(m map[string]interface{}) {
	b, _ := json.Marshal(m)
	e.w.Write(b)
	e.w.WriteByte('\n')
	e.n++
}

func ints(b []byte) []int {
	r := make([]int, len(b))
	for i, v := range b {
		r[i] = int(v)
	}
	return r
}

func srcByte(i int) byte { return byte(128 + ((i * 7) % 113)) } // i is 1-based, as in PadStream.tla

func padData(n int) []byte {
	b := make([]byte, n)
	for i := range b {
		b[i] = srcByte(i + 1)
	}
	return b
}

// the stream fed to writer/dec: StreamByte of PadStream.tla
func padStream(n, bs int, bad string) []byte {
	p := bs - n%bs
	d := padData(n)
	switch bad {
	case "empty":
		return nil
	case "nopad":
		l := bs
		if n > 0 {
			l = (n + bs - 1) / bs * bs
		}
		return padData(l)
	}
	s := append(d, bytes.Repeat([]byte{byte(p)}, p)...)
	switch bad {
	case "zero":
		s[len(s)-1] = 0
	case "big":
		s[len(s)-1] = byte(bs + 1)
	case "fill":
		if p == 1 {
			s[n] = 2
		} else {
			s[n] = byte(p - 1)
		}
	case "fill2":
		if p >= 3 {
			s[n], s[n+1] = 85, 85
		} else if p == 1 {
			s[n] = 2
		} else {
			s[n] = byte(p - 1)
		}
	}
	return s
}

// scripted source: the i-th Read is answered as the i-th "src" op says, capped by the
// request and by what is left; once the script is exhausted it hands out everything.
type scriptSrc struct {
	data   []byte
	pos    int
	script []padOp
	i      int
	eof    bool
	ev     *evw
	quiet  bool
}

func (s *scriptSrc) Read(p []byte) (int, error) {
	rem := len(s.data) - s.pos
	k, e := rem, true
	if s.i < len(s.script) {
		k, e = s.script[s.i].K, s.script[s.i].Eof
		s.i++
	}
	if k > len(p) {
		k = len(p)
	}
	if k > rem {
		k = rem
	}
	if s.eof {
		k, e = 0, true
	}
	e = e && s.pos+k == len(s.data)
	copy(p, s.data[s.pos:s.pos+k])
	s.pos += k
	if e {
		s.eof = true
	}
	if !s.quiet {
		s.ev.emit(map[string]interface{}{"ev": "src", "req": len(p), "k": k, "eof": e})
	}
	if e {
		return k, io.EOF
	}
	return k, nil
}

type recOut struct {
	ev  *evw
	buf bytes.Buffer
	log bool
}

func (o *recOut) Write(p []byte) (int, error) {
	if o.log {
		o.ev.emit(map[string]interface{}{"ev": "out", "data": ints(p)})
	}
	o.buf.Write(p)
	return len(p), nil
}

// identity BlockMode with the contract of the real ones
type idMode struct{ bs int }

func (m idMode) BlockSize() int { return m.bs }
func (m idMode) CryptBlocks(dst, src []byte) {
	if len(src)%m.bs != 0 {
		panic("crypto/cipher: input not full blocks")
	}
	if len(dst) < len(src) {
		panic("crypto/cipher: output smaller than input")
	}
	copy(dst, src)
}

func errClass(err error) string {
	if err == nil {
		return "nil"
	}
	if err == io.EOF {
		return "eof"
	}
	return "other"
}

func opsOf(env *padEnv, op string) []padOp {
	var r []padOp
	for _, o := range env.Ops {
		if o.Op == op {
			r = append(r, o)
		}
	}
	return r
}

func playReader(env *padEnv, ev *evw) {
	src := &scriptSrc{data: padData(env.N), script: opsOf(env, "src"), ev: ev}
	r := padding.NewPKCS7PaddingReader(src, env.Bs)
	calls := opsOf(env, "call")
	if len(calls) == 0 {
		calls = []padOp{{Buf: 16}}
	}
	budget := env.N + env.Bs + len(env.Ops) + 16
	done, post := false, 0
	for i := 0; i < budget && post < 1; i++ {
		b := calls[i%len(calls)].Buf
		if i >= len(calls) && b == 0 {
			b = 1 // an environment that only ever offers empty buffers cannot reach EOF
		}
		buf := make([]byte, b)
		ev.emit(map[string]interface{}{"ev": "call", "buf": b})
		var n int
		var err error
		func() {
			defer func() {
				if p := recover(); p != nil {
					ev.emit(map[string]interface{}{"ev": "ret", "k": 0, "err": "panic", "data": []int{}, "panic": fmt.Sprint(p)})
					post = 9
				}
			}()
			n, err = r.Read(buf)
			if n < 0 || n > b {
				ev.emit(map[string]interface{}{"ev": "ret", "k": n, "err": "other", "data": []int{}})
				post = 9
				return
			}
			ev.emit(map[string]interface{}{"ev": "ret", "k": n, "err": errClass(err), "data": ints(buf[:n])})
		}()
		if done {
			post++
		}
		if err == io.EOF {
			done = true
		} else if err != nil {
			break
		}
	}
}

func playWriter(env *padEnv, ev *evw) {
	stream := padStream(env.N, env.Bs, env.Bad)
	out := &recOut{ev: ev, log: true}
	w := padding.NewPKCS7PaddingWriter(out, env.Bs)
	defer func() {
		if p := recover(); p != nil {
			ev.emit(map[string]interface{}{"ev": "done", "err": "panic", "panic": fmt.Sprint(p)})
		}
	}()
	pos := 0
	ws := opsOf(env, "write")
	for i := 0; pos < len(stream); i++ {
		l := len(stream) - pos
		if i < len(ws) && ws[i].Len < l && ws[i].Len > 0 {
			l = ws[i].Len
		}
		// the write event is logged after the call returned: any "out" events of this call
		// come first, so log the push before (the abstract WWrite) and the result after
		ev.emit(map[string]interface{}{"ev": "write", "len": l, "k": l, "err": "nil"})
		n, err := w.Write(stream[pos : pos+l])
		if n != l || err != nil {
			ev.emit(map[string]interface{}{"ev": "done", "err": "other", "what": fmt.Sprint("short write ", n, err)})
			return
		}
		pos += l
	}
	ev.emit(map[string]interface{}{"ev": "finalcall"})
	err := w.Final()
	if err != nil {
		ev.emit(map[string]interface{}{"ev": "done", "err": "err"})
	} else {
		ev.emit(map[string]interface{}{"ev": "done", "err": "nil"})
	}
}

// a destination that, like bufio.Writer or os.File, offers more than Write: helpers that look for such methods must not let
// their results replace the verdict on the padding
type richOut struct{ *recOut }

func (richOut) Flush() error { return nil }
func (richOut) Sync() error  { return nil }
func (richOut) Close() error { return nil }

func playHelper(env *padEnv, ev *evw) {
	plain := &recOut{ev: ev, log: true}
	var out io.Writer = plain
	if (env.N+len(env.Bad))%2 == 1 {
		out = richOut{plain}
	}
	defer func() {
		if p := recover(); p != nil {
			ev.emit(map[string]interface{}{"ev": "done", "err": "panic", "panic": fmt.Sprint(p)})
		}
	}()
	var err error
	switch env.Kind {
	case "enc":
		src := &scriptSrc{data: padData(env.N), script: opsOf(env, "src"), ev: ev}
		err = padding.P7BlockEnc(idMode{env.Bs}, src, out)
	case "dec":
		src := &scriptSrc{data: padStream(env.N, env.Bs, env.Bad), script: opsOf(env, "src"), ev: ev}
		err = padding.P7BlockDecrypt(idMode{env.Bs}, src, out)
	case "rt":
		// real SM4-CBC: encrypt the scripted source, decrypt the ciphertext read through the
		// same script; the intermediate ciphertext is not interpreted
		key := []byte("0123456789abcdef")
		iv := []byte("fedcba9876543210")
		blk, e := sm4.NewCipher(key)
		if e != nil {
			panic(e)
		}
		src := &scriptSrc{data: padData(env.N), script: opsOf(env, "src"), ev: ev}
		mid := &recOut{ev: ev}
		err = padding.P7BlockEnc(cipher.NewCBCEncrypter(blk, iv), src, mid)
		if err == nil {
			src2 := &scriptSrc{data: mid.buf.Bytes(), script: opsOf(env, "src"), ev: ev, quiet: true}
			err = padding.P7BlockDecrypt(cipher.NewCBCDecrypter(blk, iv), src2, out)
		}
	}
	if err != nil {
		ev.emit(map[string]interface{}{"ev": "done", "err": "err", "msg": err.Error()})
	} else {
		ev.emit(map[string]interface{}{"ev": "done", "err": "nil"})
	}
}

// c19 <envs.ndjson> <trace.ndjson>
func c19(args []string) error {
	in, err := os.Open(args[0])
	if err != nil {
		return err
	}
	defer in.Close()
	outf, err := os.Create(args[1])
	if err != nil {
		return err
	}
	defer outf.Close()
	ev := &evw{w: bufio.NewWriterSize(outf, 1<<20)}
	defer ev.w.Flush()
	sc := bufio.NewScanner(in)
	sc.Buffer(make([]byte, 1<<20), 1<<26)
	for sc.Scan() {
		var env padEnv
		if err := json.Unmarshal(sc.Bytes(), &env); err != nil {
			return err
		}
		ev.emit(map[string]interface{}{"ev": "reset", "kind": env.Kind, "bs": env.Bs, "n": env.N, "bad": env.Bad})
		switch env.Kind {
		case "reader":
			playReader(&env, ev)
		case "writer":
			playWriter(&env, ev)
		default:
			playHelper(&env, ev)
		}
		ev.emit(map[string]interface{}{"ev": "end"})
	}
	return sc.Err()
}

func init() { cmds["c19"] = c19 }
