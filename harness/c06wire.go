package main

// C06: captures GMSSL sessions (wire records + KeyLogWriter output) for the independent decoder
// RecordWire.tla.

import (
	"bufio"
	"bytes"
	"encoding/hex"
	"encoding/json"
	"fmt"
	"io"
	"os"
	"strings"
	"time"

	"github.com/tjfoc/gmsm/gmtls"
)

type wireSession struct {
	ID    int     `json:"id"`
	Suite string  `json:"suite"`
	Auth  bool    `json:"auth"`
	Ms    []int   `json:"ms"`
	Cr    []int   `json:"cr"`
	HsC1  []int   `json:"hs_c1"`
	HsS1  []int   `json:"hs_s1"`
	HsC2  []int   `json:"hs_c2"`
	HsS2  []int   `json:"hs_s2"`
	CFin  []int   `json:"c_fin"`
	SFin  []int   `json:"s_fin"`
	CApp  [][]int `json:"c_app"`
	SApp  [][]int `json:"s_app"`
	CSent []int   `json:"c_sent"`
	SSent []int   `json:"s_sent"`
}

func captureSession(id int, suite string, auth, tickets bool) (*wireSession, error) {
	f, err := loadFixtures()
	if err != nil {
		return nil, err
	}
	var keylog bytes.Buffer
	cc := gmClientConfig(f, []uint16{suiteIDs[suite]})
	cc.ServerName = "localhost"
	cc.KeyLogWriter = &keylog
	sc := gmServerConfig(f, []uint16{suiteIDs[suite]})
	sc.SessionTicketsDisabled = !tickets
	if auth {
		cc.Certificates = []gmtls.Certificate{f.auth}
		sc.ClientAuth = gmtls.RequireAndVerifyClientCert
		sc.ClientCAs = f.sm2CA
	}
	ce, se, m := newMitm()
	defer m.close()
	cli := gmtls.Client(ce, cc)
	srv := gmtls.Server(se, sc)
	r := runHandshake(cli, srv, 10*time.Second)
	if r.cliErr != nil || r.srvErr != nil || r.cliPanic != nil || r.srvPanic != nil || r.timedOut {
		return nil, fmt.Errorf("handshake failed: %v %v %v %v", r.cliErr, r.srvErr, r.cliPanic, r.srvPanic)
	}
	csent := []byte(fmt.Sprintf("client payload %d over %s, 0123456789abcdefghijklmnopqrstuvwxyz", id, suite))
	ssent := []byte(fmt.Sprintf("server answer %d", id))
	go cli.Write(csent)
	buf := make([]byte, len(csent))
	srv.SetReadDeadline(time.Now().Add(5 * time.Second))
	if _, err := io.ReadFull(srv, buf); err != nil {
		return nil, err
	}
	go srv.Write(ssent)
	buf2 := make([]byte, len(ssent))
	cli.SetReadDeadline(time.Now().Add(5 * time.Second))
	if _, err := io.ReadFull(cli, buf2); err != nil {
		return nil, err
	}
	time.Sleep(time.Millisecond)
	// key log: "CLIENT_RANDOM <hex> <hex>"
	parts := strings.Fields(keylog.String())
	if len(parts) < 3 || parts[0] != "CLIENT_RANDOM" {
		return nil, fmt.Errorf("unexpected key log %q", keylog.String())
	}
	crb, _ := hex.DecodeString(parts[1])
	msb, _ := hex.DecodeString(parts[2])
	s := &wireSession{ID: id, Suite: suite, Auth: auth, Ms: ints(msb), Cr: ints(crb), CSent: ints(csent), SSent: ints(ssent)}
	m.c2s.mu.Lock()
	m.s2c.mu.Lock()
	defer m.c2s.mu.Unlock()
	defer m.s2c.mu.Unlock()
	split := func(recs []*record) (plain []*record, ccs *record, prot []*record) {
		for i, r := range recs {
			if r.typ() == 20 {
				return recs[:i], r, recs[i+1:]
			}
		}
		return recs, nil, nil
	}
	cpl, cccs, cpr := split(m.c2s.seen)
	spl, sccs, spr := split(m.s2c.seen)
	if cccs == nil || sccs == nil || len(cpl) < 2 || len(cpr) < 2 || len(spr) < 2 {
		return nil, fmt.Errorf("unexpected record layout: c2s %d/%d s2c %d/%d", len(cpl), len(cpr), len(spl), len(spr))
	}
	cat := func(rs []*record) []byte {
		var b []byte
		for _, r := range rs {
			if r.typ() == 22 {
				b = append(b, r.body...)
			}
		}
		return b
	}
	s.HsC1 = ints(cpl[0].body)
	s.HsC2 = ints(cat(cpl[1:]))
	var s1, s2 []*record
	for _, r := range spl {
		if r.order < cccs.order {
			s1 = append(s1, r)
		} else {
			s2 = append(s2, r)
		}
	}
	s.HsS1, s.HsS2 = ints(cat(s1)), ints(cat(s2))
	s.CFin, s.SFin = ints(cpr[0].body), ints(spr[0].body)
	for _, r := range cpr[1:] {
		if r.typ() == 23 {
			s.CApp = append(s.CApp, ints(r.body))
		}
	}
	for _, r := range spr[1:] {
		if r.typ() == 23 {
			s.SApp = append(s.SApp, ints(r.body))
		}
	}
	return s, nil
}

// c06-wire <n-per-suite> <sessions.ndjson>
func c06wire(args []string) error {
	n := 1
	fmt.Sscan(args[0], &n)
	outf, err := os.Create(args[1])
	if err != nil {
		return err
	}
	defer outf.Close()
	w := bufio.NewWriter(outf)
	defer w.Flush()
	id := 0
	for _, suite := range []string{"ECC_CBC", "ECC_GCM"} {
		for i := 0; i < n; i++ {
			id++
			s, err := captureSession(id, suite, i%2 == 1, i%3 != 2)
			if err != nil {
				return err
			}
			b, _ := json.Marshal(s)
			w.Write(b)
			w.WriteByte('\n')
		}
	}
	return nil
}

func init() { cmds["c06-wire"] = c06wire }
