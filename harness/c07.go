package main

// C07: executes TLC-generated adversary schedules (Record.tla, canonical form) with a record-level
// man in the middle between two real, established GMSSL connections, and records every record
// operation of every half connection through the verif hooks (validated by HalfConnTrace).

import (
	"bytes"
	"bufio"
	"encoding/json"
	"fmt"
	"io"
	"os"
	"strconv"
	"strings"
	"sync/atomic"
	"sync"
	"time"

	"github.com/tjfoc/gmsm/gmtls"
)

type advOp struct {
	Op   string `json:"op"`
	I    int    `json:"i"`
	How  string `json:"how"`
	Kind string `json:"kind"`
}

type schedule struct {
	Ops       []advOp `json:"ops"`
	Delivered int     `json:"delivered"`
	Err       bool    `json:"err"`
	Suite     int     `json:"suite"`
	Dir       string  `json:"dir"`
	Plan      string  `json:"plan"`           // "small" | "big"
	RcvCW     bool    `json:"rcv_closewrite"` // the receiver has half-closed (CloseWrite) before the records arrive
	SeqStart  string  `json:"seq_start"`      // hex, != "": sequence number of this direction when the planned records are written
	ShortRand bool    `json:"short_rand"`     // both ends draw their randomness from a source that returns at most 3 bytes per Read
	ID        int     `json:"id"`
}

// ---- hook trace ----
type hookTrace struct {
	mu  sync.Mutex
	ids map[uintptr]int
	ev  []map[string]interface{}
}

var ht = &hookTrace{ids: map[uintptr]int{}}

func (h *hookTrace) sink(e gmtls.VerifEvent) {
	h.mu.Lock()
	defer h.mu.Unlock()
	id, ok := h.ids[e.HC]
	if !ok {
		return // a half connection of an earlier run (late goroutine): not part of this trace
	}
	m := map[string]interface{}{"ev": e.Ev, "hc": id}
	switch e.Ev {
	case "setseq":
		m["seq"] = seq8(e.Seq)
	case "enc":
		m["seq"], m["typ"], m["iv"], m["len"] = seq8(e.Seq), e.Typ, ints(e.IV), e.Len
	case "dec":
		m["seq"], m["typ"], m["ok"], m["alert"] = seq8(e.Seq), e.Typ, e.OK, e.Alert
	case "seterr":
		m["seq"], m["err"] = seq8(e.Seq), e.Err
	}
	h.ev = append(h.ev, m)
}

// a sequence number as its 8 big-endian bytes (the trace specification counts in bytes: TLC integers are 32-bit)
func seq8(v uint64) []int {
	b := make([]int, 8)
	for i := 7; i >= 0; i-- {
		b[i] = int(v & 0xff)
		v >>= 8
	}
	return b
}

// register makes the two half connections of c part of the current trace (call before Handshake)
func (h *hookTrace) register(c *gmtls.Conn) {
	in, out := gmtls.VerifHalfConns(c)
	h.mu.Lock()
	defer h.mu.Unlock()
	h.ids[in] = len(h.ids) + 1
	h.ids[out] = len(h.ids) + 1
}

func (h *hookTrace) reset(tag map[string]interface{}) {
	h.mu.Lock()
	defer h.mu.Unlock()
	h.ids = map[uintptr]int{}
	m := map[string]interface{}{"ev": "reset"}
	for k, v := range tag {
		m[k] = v
	}
	h.ev = append(h.ev, m)
}

func (h *hookTrace) flush(path string) error {
	h.mu.Lock()
	defer h.mu.Unlock()
	f, err := os.Create(path)
	if err != nil {
		return err
	}
	w := bufio.NewWriterSize(f, 1<<20)
	for _, e := range h.ev {
		b, _ := json.Marshal(e)
		w.Write(b)
		w.WriteByte('\n')
	}
	w.Flush()
	return f.Close()
}

// ---- payload plans: exactly three application records on the wire ----
func c07Payload(i, n int) []byte {
	b := make([]byte, n)
	for j := range b {
		b[j] = byte(65 + (i*31+j*7)%57)
	}
	return b
}

// returns the Write calls to make and, per resulting record, the payload bytes it carries
func c07Plan(suite uint16, plan string) (writes [][]byte, recs [][]byte) {
	cbc := suite == gmtls.GMTLS_SM2_WITH_SM4_SM3
	sizes := []int{23, 16, 1}
	if plan == "big" {
		sizes = []int{16384, 17, 1}
	}
	if plan == "huge" {
		// one Write that the record layer has to cut into several records (every record its own explicit IV / nonce)
		p := c07Payload(7, 40000)
		if cbc {
			return [][]byte{p}, [][]byte{p[:1], p[1:16385], p[16385:32769], p[32769:]}
		}
		return [][]byte{p}, [][]byte{p[:16384], p[16384:32768], p[32768:]}
	}
	if plan == "exhaust" {
		// three separate single-byte... no: three one-record writes whatever the suite (a 1-byte Write is never split)
		return [][]byte{{65}, {66}, {67}}, [][]byte{{65}, {66}, {67}}
	}
	if plan == "alertlike" && !cbc {
		// payloads that would parse as a warning alert / a ChangeCipherSpec if the record type were not authenticated
		return [][]byte{{1, 91}, {1}, {1, 93}}, [][]byte{{1, 91}, {1}, {1, 93}}
	}
	if cbc {
		// 1/n-1 record splitting: a Write of more than one byte gives two records
		p1 := c07Payload(1, sizes[0])
		p3 := c07Payload(3, 1)
		return [][]byte{p1, p3}, [][]byte{p1[:1], p1[1:], p3}
	}
	p1, p2, p3 := c07Payload(1, sizes[0]), c07Payload(2, sizes[1]), c07Payload(3, sizes[2])
	return [][]byte{p1, p2, p3}, [][]byte{p1, p2, p3}
}

func setLen(r *record) {
	r.hdr[3] = byte(len(r.body) >> 8)
	r.hdr[4] = byte(len(r.body))
}

func cloneRec(r *record) *record { return &record{hdr: r.hdr, body: append([]byte(nil), r.body...)} }

func applyHow(r *record, how string) error {
	n := len(r.body)
	switch {
	case how == "type":
		r.hdr[0] ^= 1
	case how == "type21":
		r.hdr[0] = 21 // alert
	case how == "type20":
		r.hdr[0] = 20 // change_cipher_spec
	case how == "vers":
		r.hdr[2] ^= 1
	case how == "len+":
		v := int(r.hdr[3])<<8 | int(r.hdr[4])
		v++
		r.hdr[3], r.hdr[4] = byte(v>>8), byte(v)
	case how == "len-":
		v := int(r.hdr[3])<<8 | int(r.hdr[4])
		v--
		r.hdr[3], r.hdr[4] = byte(v>>8), byte(v)
	case how == "iv" && n > 0:
		r.body[0] ^= 0x80
	case how == "body" && n > 0:
		r.body[n/2] ^= 1
	case how == "last" && n > 0:
		r.body[n-1] ^= 1
	case how == "iv" || how == "body" || how == "last":
		r.body = append(r.body, 1) // nothing left to flip after earlier truncations: change it anyway
	case how == "trunc1":
		if n == 0 {
			n = 1
		}
		r.body = r.body[:n-1]
		setLen(r)
	case how == "truncblk":
		if n < 16 {
			n = 16 // already shortened by an earlier action: cut everything
		}
		r.body = r.body[:n-16]
		setLen(r)
	case how == "ext1":
		r.body = append(r.body, 0)
		setLen(r)
	case how == "extblk":
		r.body = append(r.body, make([]byte, 16)...)
		setLen(r)
	case strings.HasPrefix(how, "bit:"):
		k, err := strconv.Atoi(how[4:])
		if err != nil {
			return err
		}
		if k < 40 {
			r.hdr[k/8] ^= 1 << uint(7-k%8)
		} else {
			k -= 40
			if k/8 >= n {
				return fmt.Errorf("bit %d outside record", k+40)
			}
			r.body[k/8] ^= 1 << uint(7-k%8)
		}
	default:
		return fmt.Errorf("unknown how %q", how)
	}
	return nil
}

type c07Obs struct {
	ID         int    `json:"id"`
	Delivered  int    `json:"delivered"`   // number of whole record payloads read, in order
	BytesOK    bool   `json:"bytes_ok"`    // what was read is exactly the concatenation of those payloads
	ExtraBytes int    `json:"extra_bytes"` // bytes read beyond the last whole matching payload
	ErrClass   string `json:"err_class"`   // "eof" | "fatal" | "timeout"
	ErrText    string `json:"err_text"`
	RecBits    int    `json:"rec_bits"`  // size in bits of the record a single flip targets
	AfterErr   int    `json:"after_err"` // bytes returned by Read calls made after the first error
	Panic      string `json:"panic,omitempty"`
}

var alienCache = map[string]*record{}

func runSchedule(s *schedule) (obs c07Obs, err error) {
	obs.ID = s.ID
	suite := uint16(s.Suite)
	ht.reset(map[string]interface{}{"id": s.ID})
	gmPairShortRand, gmPairTorn = s.ShortRand, s.Plan == "wtimeout"
	cli, srv, m, err := gmPair(suite)
	gmPairShortRand, gmPairTorn = false, false
	if err != nil {
		return obs, err
	}
	defer m.close()
	snd, rcv := cli, srv
	d, back := m.c2s, m.s2c
	if s.Dir == "s2c" {
		snd, rcv = srv, cli
		d, back = m.s2c, m.c2s
	}
	needOther := false
	for _, o := range s.Ops {
		if o.Op == "inject" && o.Kind == "otherdir" {
			needOther = true
		}
	}
	var otherDir *record
	if needOther {
		// one application record in the opposite direction (receiver -> sender), captured
		go rcv.Write([]byte("Z"))
		buf := make([]byte, 8)
		snd.SetReadDeadline(time.Now().Add(3 * time.Second))
		if _, e := io.ReadAtLeast(snd, buf, 1); e != nil {
			return obs, fmt.Errorf("reverse record: %v", e)
		}
		snd.SetReadDeadline(time.Time{})
		back.mu.Lock()
		otherDir = cloneRec(back.seen[len(back.seen)-1])
		back.mu.Unlock()
	}
	if s.SeqStart != "" {
		// the same schedule far into the connection: the counters of this direction stand just below 2^32 (or 2^64)
		v, perr := strconv.ParseUint(s.SeqStart, 16, 64)
		if perr != nil {
			return obs, perr
		}
		gmtls.VerifSetSeq(snd, rcv, v)
	}
	if s.Plan == "wtimeout" {
		// One record goes out whole; the transport cuts the next one short and reports an expired write deadline; the
		// application lifts the deadline and writes twice more.  Whatever the sender does then (the connection may be
		// unusable for sending: the record layer is corrupt), it never seals a record under a sequence number / nonce it has
		// used - the hook trace is judged by HalfConnTrace - and the receiver delivers nothing but the first payload.
		tc := gmPairTornConns[0]
		if s.Dir == "s2c" {
			tc = gmPairTornConns[1]
		}
		var gotMu sync.Mutex
		var got []byte
		go func() {
			b := make([]byte, 4096)
			for {
				n, e := rcv.Read(b)
				gotMu.Lock()
				got = append(got, b[:n]...)
				gotMu.Unlock()
				if e != nil {
					return
				}
			}
		}()
		_, e1 := snd.Write([]byte("first payload"))
		atomic.StoreInt32(&tc.armed, 1)
		_, e2 := snd.Write(bytes.Repeat([]byte("second payload "), 8))
		snd.SetWriteDeadline(time.Time{})
		_, e3 := snd.Write([]byte("third payload, after the deadline was lifted"))
		_, e4 := snd.Write([]byte("fourth payload"))
		time.Sleep(30 * time.Millisecond)
		if e1 != nil || e2 == nil || atomic.LoadInt32(&tc.torn) != 1 {
			return obs, fmt.Errorf("wtimeout: first write %v, torn write %v, %d writes torn", e1, e2, tc.torn)
		}
		gotMu.Lock()
		if !strings.HasPrefix("first payload", string(got)) {
			obs.ExtraBytes = len(got)
		}
		gotMu.Unlock()
		obs.Delivered, obs.BytesOK, obs.ErrClass = 1, obs.ExtraBytes == 0, "eof"
		obs.ErrText = fmt.Sprintf("after the torn record: third Write %v, fourth Write %v, %d transport writes", e3, e4, atomic.LoadInt32(&tc.after))
		return obs, nil
	}
	writes, recs := c07Plan(suite, s.Plan)
	d.mu.Lock()
	d.hold = true
	d.mu.Unlock()
	go func() {
		// (a sender whose sequence numbers are used up may panic: the connection is over)
		defer func() {
			recover() // (nothing more is done with the connection: the interposer is closed when the schedule ends)
		}()
		for _, w := range writes {
			if _, e := snd.Write(w); e != nil {
				return
			}
		}
	}()
	if s.Plan == "exhaust" {
		// the counters stand at 2^64 - 2: two records can still be sealed, a third must never leave the sender
		d.waitHeld(3, 1500*time.Millisecond)
		d.mu.Lock()
		n := len(d.held)
		d.mu.Unlock()
		obs.Delivered, obs.BytesOK = n, n <= 2
		obs.ErrClass = "eof"
		if n > 2 {
			obs.ErrText = fmt.Sprintf("%d records were sealed although only two sequence numbers were left", n)
		}
		return obs, nil
	}
	if got := d.waitHeld(len(recs), 5*time.Second); got != len(recs) {
		return obs, fmt.Errorf("expected %d held records, got %d", len(recs), got)
	}
	time.Sleep(300 * time.Microsecond)
	d.mu.Lock()
	if len(d.held) != len(recs) {
		d.mu.Unlock()
		return obs, fmt.Errorf("record plan mismatch: %d records on the wire, %d planned", len(d.held), len(recs))
	}
	type wrec struct {
		r  *record
		id int
	}
	wire := []wrec{}
	for i, r := range d.held {
		wire = append(wire, wrec{cloneRec(r), i + 1})
	}
	d.mu.Unlock()
	// adversary
	for _, o := range s.Ops {
		i := o.I - 1
		switch o.Op {
		case "flip":
			if i < 0 || i >= len(wire) {
				return obs, fmt.Errorf("flip index %d", o.I)
			}
			if strings.HasPrefix(o.How, "bit:") {
				obs.RecBits = 8 * (5 + len(wire[i].r.body))
			}
			if e := applyHow(wire[i].r, o.How); e != nil {
				if strings.Contains(e.Error(), "outside record") {
					obs.ErrClass = "skipped"
					return obs, nil
				}
				return obs, e
			}
		case "drop":
			wire = append(wire[:i], wire[i+1:]...)
		case "dup":
			c := wrec{cloneRec(wire[i].r), wire[i].id}
			wire = append(wire[:i+1], append([]wrec{c}, wire[i+1:]...)...)
		case "swap":
			wire[i], wire[i+1] = wire[i+1], wire[i]
		case "inject":
			var a *record
			switch o.Kind {
			case "forged":
				a = &record{hdr: [5]byte{23, 1, 1, 0, 0}, body: c07Payload(9, 64)}
				setLen(a)
			case "otherdir":
				a = otherDir
			case "otherconn":
				key := fmt.Sprint(s.Suite, s.Dir)
				if alienCache[key] == nil {
					// first application record of the same direction on a different connection
					c2, s2, m2, e := gmPair(suite)
					if e != nil {
						return obs, e
					}
					snd2, d2 := c2, m2.c2s
					rcv2 := s2
					if s.Dir == "s2c" {
						snd2, d2, rcv2 = s2, m2.s2c, c2
					}
					go snd2.Write(c07Payload(1, 23))
					buf := make([]byte, 64)
					rcv2.SetReadDeadline(time.Now().Add(3 * time.Second))
					io.ReadAtLeast(rcv2, buf, 1)
					d2.mu.Lock()
					for _, r := range d2.seen {
						if r.typ() == 23 {
							alienCache[key] = cloneRec(r)
							break
						}
					}
					d2.mu.Unlock()
					m2.close()
					if alienCache[key] == nil {
						return obs, fmt.Errorf("no record captured from the other connection")
					}
				}
				a = cloneRec(alienCache[key])
			default:
				return obs, fmt.Errorf("unknown alien %q", o.Kind)
			}
			wire = append(wire[:i], append([]wrec{{a, 0}}, wire[i:]...)...)
		}
	}
	if s.RcvCW {
		// the receiving application has finished sending: its close_notify is out, its read side must behave as before
		if e := rcv.CloseWrite(); e != nil {
			return obs, fmt.Errorf("CloseWrite: %v", e)
		}
	}
	// the sender keeps reading what comes back (alerts), as a live application would
	go func() {
		b := make([]byte, 4096)
		for {
			if _, e := snd.Read(b); e != nil {
				return
			}
		}
	}()
	// deliver everything, then end the stream
	done := make(chan struct{})
	var got []byte
	var rerr error
	go func() {
		defer close(done)
		defer func() {
			if p := recover(); p != nil {
				obs.Panic = fmt.Sprint(p)
			}
		}()
		buf := make([]byte, 40000)
		for {
			n, e := rcv.Read(buf)
			got = append(got, buf[:n]...)
			if e != nil {
				rerr = e
				break
			}
		}
		// the error must be sticky: an application that reads again gets nothing more
		for i := 0; i < 3; i++ {
			n, e := rcv.Read(buf)
			obs.AfterErr += n
			if e == nil && n == 0 {
				break
			}
		}
	}()
	go func() {
		for _, w := range wire {
			if _, e := d.to.Write(w.r.bytes()); e != nil {
				break
			}
		}
		time.Sleep(2 * time.Millisecond)
		d.to.Close()
	}()
	select {
	case <-done:
	case <-time.After(8 * time.Second):
		obs.ErrClass = "timeout"
		m.close()
		<-done
		return obs, nil
	}
	// how many whole payloads, in order, does `got` consist of?
	pos := 0
	for _, p := range recs {
		if len(got)-pos >= len(p) && string(got[pos:pos+len(p)]) == string(p) {
			pos += len(p)
			obs.Delivered++
		} else {
			break
		}
	}
	obs.ExtraBytes = len(got) - pos
	obs.BytesOK = obs.ExtraBytes == 0
	if rerr == io.EOF {
		obs.ErrClass = "eof"
	} else {
		obs.ErrClass = "fatal"
	}
	if rerr != nil {
		obs.ErrText = rerr.Error()
	}
	return obs, nil
}

// c07-run <schedules.ndjson> <obs.ndjson> <hooktrace.ndjson>
func c07run(args []string) error {
	gmtls.VerifSink = ht.sink
	in, err := os.Open(args[0])
	if err != nil {
		return err
	}
	defer in.Close()
	outf, err := os.Create(args[1])
	if err != nil {
		return err
	}
	defer outf.Close()
	w := bufio.NewWriter(outf)
	defer w.Flush()
	sc := bufio.NewScanner(in)
	sc.Buffer(make([]byte, 1<<20), 1<<26)
	for sc.Scan() {
		var s schedule
		if err := json.Unmarshal(sc.Bytes(), &s); err != nil {
			return err
		}
		obs, err := runSchedule(&s)
		if err != nil {
			// one retry: handshakes over in-memory pipes do not fail spuriously, but be safe
			obs, err = runSchedule(&s)
			if err != nil {
				return fmt.Errorf("schedule %d: %v", s.ID, err)
			}
		}
		b, _ := json.Marshal(obs)
		w.Write(b)
		w.WriteByte('\n')
	}
	if err := sc.Err(); err != nil {
		return err
	}
	return ht.flush(args[2])
}

func init() { cmds["c07-run"] = c07run }
