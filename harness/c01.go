package main

// C01 / C02: the real sm2 functions over (a) a toy elliptic.Curve built from the XY table that TLC computed
// (SM2Toy.tla), so that every (key, nonce, digest) incl. the retry branches is enumerated, and (b) the real
// curve on the cases of SM2Tab.tla with scripted nonces.

import (
	"bufio"
	"bytes"
	"crypto/elliptic"
	"encoding/hex"
	"encoding/json"
	"fmt"
	"io"
	"math/big"
	"os"
	"strconv"

	"github.com/tjfoc/gmsm/sm2"
)

// ---------------------------------------------------------------- toy curve from TLC's table
type toyCurve struct {
	params *elliptic.CurveParams
	xy     [][2]int64 // xy[i-1] = [i]G, i = 1..n-1
	idx    map[[2]int64]int
	n      int
}

func newToyCurve(p, a, b, n int, xy [][2]int64) *toyCurve {
	t := &toyCurve{xy: xy, n: n, idx: map[[2]int64]int{}}
	for i, q := range xy {
		t.idx[q] = i + 1
	}
	t.params = &elliptic.CurveParams{P: big.NewInt(int64(p)), N: big.NewInt(int64(n)), B: big.NewInt(int64(b)),
		Gx: big.NewInt(xy[0][0]), Gy: big.NewInt(xy[0][1]), BitSize: 8, Name: fmt.Sprint("toy", n)}
	return t
}
func (t *toyCurve) Params() *elliptic.CurveParams { return t.params }
func (t *toyCurve) index(x, y *big.Int) (int, bool) {
	if x.Sign() == 0 && y.Sign() == 0 {
		return 0, true
	}
	if !x.IsInt64() || !y.IsInt64() {
		return 0, false
	}
	i, ok := t.idx[[2]int64{x.Int64(), y.Int64()}]
	return i, ok
}
func (t *toyCurve) point(i int) (*big.Int, *big.Int) {
	i = ((i % t.n) + t.n) % t.n
	if i == 0 {
		return new(big.Int), new(big.Int)
	}
	return big.NewInt(t.xy[i-1][0]), big.NewInt(t.xy[i-1][1])
}
func (t *toyCurve) IsOnCurve(x, y *big.Int) bool {
	i, ok := t.index(x, y)
	return ok && i != 0
}
func (t *toyCurve) must(x, y *big.Int) int {
	i, ok := t.index(x, y)
	if !ok {
		panic("toy curve: operand is not a point of the group")
	}
	return i
}
func (t *toyCurve) Add(x1, y1, x2, y2 *big.Int) (*big.Int, *big.Int) {
	return t.point(t.must(x1, y1) + t.must(x2, y2))
}
func (t *toyCurve) Double(x1, y1 *big.Int) (*big.Int, *big.Int) { return t.point(2 * t.must(x1, y1)) }
func (t *toyCurve) ScalarMult(x1, y1 *big.Int, k []byte) (*big.Int, *big.Int) {
	kk := new(big.Int).Mod(new(big.Int).SetBytes(k), t.params.N).Int64()
	return t.point(int(kk) * t.must(x1, y1) % t.n)
}
func (t *toyCurve) ScalarBaseMult(k []byte) (*big.Int, *big.Int) {
	kk := new(big.Int).Mod(new(big.Int).SetBytes(k), t.params.N).Int64()
	return t.point(int(kk))
}

// scripted random source: nonces k are encoded as the byte string that randFieldElement maps to k
type nonceReader struct {
	ks    []*big.Int
	size  int
	n     *big.Int
	reads int // whole nonces consumed so far
	i     int
	buf   []byte // unread bytes of the current nonce encoding
	chunk int    // 0: answer each Read in full; otherwise at most chunk bytes per Read (io.Reader allows short reads)
	used  int
}

var chunkCycle int

// the reader is a byte stream; how it cuts the stream into Read results must not matter (io.ReadFull semantics)
func nextChunk() int {
	chunkCycle++
	return []int{0, 0, 1, 7}[chunkCycle%4]
}

func (r *nonceReader) Read(p []byte) (int, error) {
	if len(r.buf) == 0 {
		if r.i >= len(r.ks) {
			return 0, io.EOF
		}
		v := new(big.Int).Sub(r.ks[r.i], big.NewInt(1)) // k = (bytes mod (n-1)) + 1
		b := v.Bytes()
		r.buf = make([]byte, r.size)
		copy(r.buf[r.size-len(b):], b)
		r.i++
	}
	n := len(p)
	if n > len(r.buf) {
		n = len(r.buf)
	}
	if r.chunk > 0 && n > r.chunk {
		n = r.chunk
	}
	copy(p, r.buf[:n])
	r.buf = r.buf[n:]
	r.used += n
	r.reads = r.used / r.size
	return n, nil
}

func recoverStr(f func()) (s string) {
	defer func() {
		if p := recover(); p != nil {
			s = fmt.Sprint(p)
		}
	}()
	f()
	return ""
}

// c01-toy <cases.ndjson (TLC output rows)> <obs.ndjson>
func c01toy(args []string) error {
	sm2.P256Sm2() // ZA reads package-level parameters that only this call initialises
	in, err := os.Open(args[0])
	if err != nil {
		return err
	}
	defer in.Close()
	type row struct {
		Case   map[string]interface{} `json:"case"`
		Expect json.RawMessage        `json:"expect"`
	}
	var rows []row
	sc := bufio.NewScanner(in)
	sc.Buffer(make([]byte, 1<<20), 1<<27)
	var curve *toyCurve
	for sc.Scan() {
		var r row
		if err := json.Unmarshal(sc.Bytes(), &r); err != nil {
			return err
		}
		if r.Case["kind"] == "group" {
			var g struct {
				P, A, B, N int
				XY         [][2]int64 `json:"xy"`
			}
			if err := json.Unmarshal(r.Expect, &g); err != nil {
				return err
			}
			curve = newToyCurve(g.P, g.A, g.B, g.N, g.XY)
		}
		rows = append(rows, r)
	}
	if curve == nil {
		return fmt.Errorf("no group case")
	}
	outf, err := os.Create(args[1])
	if err != nil {
		return err
	}
	defer outf.Close()
	w := bufio.NewWriter(outf)
	defer w.Flush()
	n := curve.n
	uid := []byte("1234567812345678")
	msgFor := map[[2]int][]byte{}
	find := func(pub *sm2.PublicKey, d, e int) ([]byte, error) {
		if m, ok := msgFor[[2]int{d, e}]; ok {
			return m, nil
		}
		for ctr := 0; ctr < 100000; ctr++ {
			m := []byte(fmt.Sprintf("toy message %d/%d", d, ctr))
			dg, err := pub.Sm3Digest(m, uid)
			if err != nil {
				return nil, err
			}
			ee := int(new(big.Int).Mod(new(big.Int).SetBytes(dg), big.NewInt(int64(n))).Int64())
			if _, ok := msgFor[[2]int{d, ee}]; !ok {
				msgFor[[2]int{d, ee}] = m
			}
			if ee == e {
				return m, nil
			}
		}
		return nil, fmt.Errorf("no message with digest residue %d", e)
	}
	for _, r := range rows {
		if r.Case["kind"] == "group" {
			continue
		}
		d, e := int(r.Case["d"].(float64)), int(r.Case["e"].(float64))
		px, py := curve.point(d)
		pub := &sm2.PublicKey{Curve: curve, X: px, Y: py}
		priv := &sm2.PrivateKey{PublicKey: *pub, D: big.NewInt(int64(d))}
		msg, err := find(pub, d, e)
		if err != nil {
			return err
		}
		got := map[string]interface{}{}
		switch r.Case["kind"] {
		case "sign":
			var exp struct {
				Tries []struct {
					K, K2 int
					Ok    bool
				} `json:"tries"`
			}
			if err := json.Unmarshal(r.Expect, &exp); err != nil {
				return err
			}
			var tries []map[string]interface{}
			for _, t := range exp.Tries {
				ks := []*big.Int{big.NewInt(int64(t.K))}
				if !t.Ok {
					ks = append(ks, big.NewInt(int64(t.K2)))
				}
				rd := &nonceReader{ks: ks, size: 9, n: curve.params.N, chunk: nextChunk()}
				o := map[string]interface{}{"k": t.K}
				var rr, ss *big.Int
				var serr error
				if p := recoverStr(func() { rr, ss, serr = sm2.Sm2Sign(priv, msg, uid, rd) }); p != "" {
					o["panic"] = p
				} else if serr != nil {
					o["err"] = serr.Error()
				} else {
					o["r"], o["s"], o["draws"] = rr.Int64(), ss.Int64(), rd.reads
					o["verifies"] = sm2.Sm2Verify(pub, msg, uid, rr, ss)
				}
				tries = append(tries, o)
			}
			got["tries"] = tries
		case "verify":
			dg, _ := pub.Sm3Digest(msg, uid)
			var acc, acc2 [][2]int
			pan := ""
			for rr := 0; rr <= n; rr++ {
				for ss := 0; ss <= n; ss++ {
					R, S := big.NewInt(int64(rr)), big.NewInt(int64(ss))
					var a, b bool
					if p := recoverStr(func() { a = sm2.Sm2Verify(pub, msg, uid, R, S); b = sm2.Verify(pub, dg, R, S) }); p != "" {
						pan = p
					}
					if a {
						acc = append(acc, [2]int{rr, ss})
					}
					if b {
						acc2 = append(acc2, [2]int{rr, ss})
					}
				}
			}
			// negative r, s
			neg := sm2.Sm2Verify(pub, msg, uid, big.NewInt(-1), big.NewInt(1)) || sm2.Sm2Verify(pub, msg, uid, big.NewInt(1), big.NewInt(-1))
			got["accept"], got["accept_hash"], got["panic"], got["neg"] = acc, acc2, pan, neg
		}
		b, _ := json.Marshal(map[string]interface{}{"case": r.Case, "got": got})
		w.Write(b)
		w.WriteByte('\n')
	}
	return nil
}

// ---------------------------------------------------------------- real curve
func msgBytes(f, n int) []byte {
	if f == 9 {
		return []byte("message digest")
	}
	if f == 8 {
		return []byte("encryption standard")
	}
	b := make([]byte, n)
	for i := 1; i <= n; i++ {
		switch f {
		case 0:
			b[i-1] = byte((i*17 + 3) % 256)
		case 2:
			b[i-1] = 255
		}
	}
	return b
}

func idBytes(spec map[string]interface{}) []byte {
	if spec["kind"] == "default" {
		return []byte("1234567812345678")
	}
	if spec["kind"] == "absent" {
		return nil
	}
	if spec["kind"] == "empty" { // present but of length zero: the same convention as absent
		return make([]byte, 0, 8)
	}
	n := int(spec["n"].(float64))
	b := make([]byte, n)
	for i := 1; i <= n; i++ {
		b[i-1] = byte(65 + (i % 26))
	}
	return b
}

func privOf(dhex string) *sm2.PrivateKey {
	c := sm2.P256Sm2()
	d := hx(dhex)
	x, y := c.ScalarBaseMult(d.Bytes())
	return &sm2.PrivateKey{PublicKey: sm2.PublicKey{Curve: c, X: x, Y: y}, D: d}
}

func hexList(v interface{}) []*big.Int {
	var r []*big.Int
	for _, s := range v.([]interface{}) {
		r = append(r, hx(s.(string)))
	}
	return r
}

// c01-real <cases.ndjson> <obs.ndjson>
func c01real(args []string) error {
	in, err := os.Open(args[0])
	if err != nil {
		return err
	}
	defer in.Close()
	outf, err := os.Create(args[1])
	if err != nil {
		return err
	}
	defer outf.Close()
	w := bufio.NewWriter(outf)
	defer w.Flush()
	sc := bufio.NewScanner(in)
	sc.Buffer(make([]byte, 1<<20), 1<<27)
	for sc.Scan() {
		var row struct {
			Case map[string]interface{} `json:"case"`
		}
		if err := json.Unmarshal(sc.Bytes(), &row); err != nil {
			return err
		}
		c := row.Case
		got := map[string]interface{}{}
		pan := recoverStr(func() {
			switch c["kind"] {
			case "sign":
				priv := privOf(c["d"].(string))
				id := idBytes(c["id"].(map[string]interface{}))
				msg := msgBytes(int(c["mf"].(float64)), int(c["mlen"].(float64)))
				rd := &nonceReader{ks: hexList(c["ks"]), size: 40, chunk: nextChunk()}
				r, s, err := sm2.Sm2Sign(priv, msg, id, rd)
				got["px"], got["py"] = priv.X.Text(16), priv.Y.Text(16)
				zid := id
				if len(zid) == 0 {
					zid = []byte("1234567812345678") // "absent" selects the default id inside Sign/Verify; ZA itself takes the id literally
				}
				if za, e := sm2.ZA(&priv.PublicKey, zid); e == nil {
					got["za"] = hex.EncodeToString(za)
				} else {
					got["za_err"] = e.Error()
				}
				if err != nil {
					got["err"] = err.Error()
				} else {
					got["r"], got["s"], got["draws"] = r.Text(16), s.Text(16), rd.reads
					got["verifies"] = sm2.Sm2Verify(&priv.PublicKey, msg, id, r, s)
				}
				if c["id"].(map[string]interface{})["kind"] == "default" {
					// the crypto.Signer form: DER, default user id
					rd2 := &nonceReader{ks: hexList(c["ks"]), size: 40, chunk: nextChunk()}
					der, e := priv.Sign(rd2, msg, nil)
					if e == nil {
						got["der"] = hex.EncodeToString(der)
						got["der_verifies"] = priv.PublicKey.Verify(msg, der)
					} else {
						got["der_err"] = e.Error()
					}
				}
			case "verify":
				priv := privOf(c["d"].(string))
				id := idBytes(c["id"].(map[string]interface{}))
				msg := msgBytes(int(c["mf"].(float64)), int(c["mlen"].(float64)))
				got["accept"] = sm2.Sm2Verify(&priv.PublicKey, msg, id, hx(c["r"].(string)), hx(c["s"].(string)))
			case "der":
				priv := privOf(c["d"].(string))
				msg := msgBytes(int(c["mf"].(float64)), int(c["mlen"].(float64)))
				der, _ := hex.DecodeString(c["der"].(string))
				got["accept"] = priv.PublicKey.Verify(msg, der)
			case "enc":
				priv := privOf(c["d"].(string))
				msg := msgBytes(int(c["mf"].(float64)), int(c["mlen"].(float64)))
				got["px"], got["py"] = priv.X.Text(16), priv.Y.Text(16)
				for _, mode := range []int{sm2.C1C3C2, sm2.C1C2C3} {
					tag := "c1c3c2"
					if mode == sm2.C1C2C3 {
						tag = "c1c2c3"
					}
					rd := &nonceReader{ks: hexList(c["ks"]), size: 40, chunk: nextChunk()}
					done := make(chan struct{})
					var ct []byte
					var err error
					var p string
					go func() {
						p = recoverStr(func() { ct, err = sm2.Encrypt(&priv.PublicKey, msg, rd, mode) })
						close(done)
					}()
					select {
					case <-done:
					case <-timeAfter(5):
						got[tag+"_hang"] = true
						continue
					}
					if p != "" {
						got[tag+"_panic"] = p
					} else if err != nil {
						got[tag+"_err"] = err.Error()
					} else {
						got[tag], got[tag+"_draws"] = ints(ct), rd.reads
						pt, e := sm2.Decrypt(priv, ct, mode)
						got[tag+"_back"] = e == nil && string(pt) == string(msg)
					}
				}
				// ASN.1 form of the same encryption
				rd := &nonceReader{ks: hexList(c["ks"]), size: 40, chunk: nextChunk()}
				if ct, err := sm2.EncryptAsn1(&priv.PublicKey, msg, rd); err == nil {
					got["asn1"] = ints(ct)
					pt, e := sm2.DecryptAsn1(priv, ct)
					got["asn1_back"] = e == nil && string(pt) == string(msg)
				} else {
					got["asn1_err"] = err.Error()
				}
			case "dec":
				priv := privOf(c["d"].(string))
				mode := sm2.C1C3C2
				if c["mode"] == "c1c2c3" {
					mode = sm2.C1C2C3
				}
				ct := toBytes(intList(c["ct"]))
				pt, err := sm2.Decrypt(priv, ct, mode)
				got["err"] = err != nil
				got["pt"] = ints(pt)
				if err != nil {
					got["pt"] = []int{}
				}
			case "decasn1sweep":
				// the ASN.1 form of a valid C1C3C2 ciphertext with every single byte changed (two masks): DecryptAsn1 must report
				// an error for each (DER has no byte that is not significant); the unchanged form must decrypt
				priv := privOf(c["d"].(string))
				ct := toBytes(intList(c["ct"]))
				a, err := sm2.CipherMarshal(ct)
				if err != nil {
					got["marshal_err"] = err.Error()
					break
				}
				pt, err := sm2.DecryptAsn1(priv, a)
				got["plain_ok"] = err == nil
				got["pt"] = ints(pt)
				accepted := []string{}
				tried := 0
				for i := range a {
					for _, m := range []byte{0x01, 0x80} {
						b := append([]byte(nil), a...)
						b[i] ^= m
						tried++
						if p2, e := sm2.DecryptAsn1(priv, b); e == nil {
							accepted = append(accepted, fmt.Sprintf("byte %d of %d ^ %02x (plaintext equal: %v)", i, len(a), m, bytes.Equal(p2, pt)))
						}
					}
				}
				got["tried"] = tried
				got["accepted"] = accepted
			}
		})
		if pan != "" {
			got["panic"] = pan
		}
		b, _ := json.Marshal(map[string]interface{}{"case": c, "got": got})
		w.Write(b)
		w.WriteByte('\n')
	}
	return sc.Err()
}

func intList(v interface{}) []int {
	a, _ := v.([]interface{})
	r := make([]int, len(a))
	for i, x := range a {
		r[i] = int(x.(float64))
	}
	return r
}

func init() {
	cmds["c01-toy"] = c01toy
	cmds["c01-real"] = c01real
}

// c13-run <cases.ndjson> <obs.ndjson>: sm2.KeyExchangeA / KeyExchangeB for both parties
func c13run(args []string) error {
	in, err := os.Open(args[0])
	if err != nil {
		return err
	}
	defer in.Close()
	outf, err := os.Create(args[1])
	if err != nil {
		return err
	}
	defer outf.Close()
	w := bufio.NewWriter(outf)
	defer w.Flush()
	sc := bufio.NewScanner(in)
	sc.Buffer(make([]byte, 1<<20), 1<<27)
	for sc.Scan() {
		var row struct {
			Case map[string]interface{} `json:"case"`
		}
		if err := json.Unmarshal(sc.Bytes(), &row); err != nil {
			return err
		}
		c := row.Case
		got := map[string]interface{}{}
		pan := recoverStr(func() {
			if c["kind"] == "kxhalf" {
				// one party only; the peer's static and ephemeral values are given as points
				d, r := privOf(c["d"].(string)), privOf(c["r"].(string))
				pt := func(xk, yk string) *sm2.PublicKey {
					return &sm2.PublicKey{Curve: sm2.P256Sm2(), X: hx(c[xk].(string)), Y: hx(c[yk].(string))}
				}
				ida, idb := idBytes(c["ida"].(map[string]interface{})), idBytes(c["idb"].(map[string]interface{}))
				klen := int(c["klen"].(float64))
				var k, s1, s2 []byte
				var e error
				if c["role"] == "a" {
					k, s1, s2, e = sm2.KeyExchangeA(klen, ida, idb, d, pt("ppx", "ppy"), r, pt("prx", "pry"))
				} else {
					k, s1, s2, e = sm2.KeyExchangeB(klen, ida, idb, d, pt("ppx", "ppy"), r, pt("prx", "pry"))
				}
				got["half"] = map[string]interface{}{"k": ints(k), "s1": ints(s1), "s2": ints(s2), "err": e != nil}
				return
			}
			da, db, ra, rb := privOf(c["da"].(string)), privOf(c["db"].(string)), privOf(c["ra"].(string)), privOf(c["rb"].(string))
			ida, idb := idBytes(c["ida"].(map[string]interface{})), idBytes(c["idb"].(map[string]interface{}))
			klen := int(c["klen"].(float64))
			rpubA, rpubB := &ra.PublicKey, &rb.PublicKey
			if bad, ok := c["bad"].(string); ok {
				// the peer's ephemeral value as received by each side is not a curve point
				mk := func(p *sm2.PublicKey) *sm2.PublicKey {
					q := &sm2.PublicKey{Curve: p.Curve, X: new(big.Int).Set(p.X), Y: new(big.Int).Set(p.Y)}
					switch bad {
					case "offcurve":
						q.Y.Add(q.Y, big.NewInt(1))
					case "infinity":
						q.X.SetInt64(0)
						q.Y.SetInt64(0)
					case "xplusp": // the residue of a curve point's x written as a number outside [0, p): not a coordinate
						q.X.Add(q.X, p.Curve.Params().P)
					case "yminusp":
						q.Y.Sub(q.Y, p.Curve.Params().P)
					case "p256point":
						// a point of ANOTHER curve, presented with that curve in its Curve field (the NIST P-256 generator): the
						// exchange is over the SM2 curve whatever the value says about itself, and this pair is not on it
						q.Curve = elliptic.P256()
						q.X.Set(elliptic.P256().Params().Gx)
						q.Y.Set(elliptic.P256().Params().Gy)
					}
					return q
				}
				rpubA, rpubB = mk(rpubA), mk(rpubB)
			}
			ka, s1a, s2a, ea := sm2.KeyExchangeA(klen, ida, idb, da, &db.PublicKey, ra, rpubB)
			kb, s1b, s2b, eb := sm2.KeyExchangeB(klen, ida, idb, db, &da.PublicKey, rb, rpubA)
			got["a"] = map[string]interface{}{"k": ints(ka), "s1": ints(s1a), "s2": ints(s2a), "err": ea != nil}
			got["b"] = map[string]interface{}{"k": ints(kb), "s1": ints(s1b), "s2": ints(s2b), "err": eb != nil}
		})
		if pan != "" {
			got["panic"] = pan
		}
		b, _ := json.Marshal(map[string]interface{}{"case": c, "got": got})
		w.Write(b)
		w.WriteByte('\n')
	}
	return sc.Err()
}

func init() { cmds["c13-run"] = c13run }

// c13-sweep <template.json> <n> <out.json>: the exchange of the template with ephemeral scalar r_A = 2..n and every key
// length of the template's "klens"; reports the exchanges in which a party failed or the parties disagree (each is then
// judged against the specification like any other case) and the number of exchanges made
func c13sweep(args []string) error {
	b, err := os.ReadFile(args[0])
	if err != nil {
		return err
	}
	var c map[string]interface{}
	if err := json.Unmarshal(b, &c); err != nil {
		return err
	}
	n, err := strconv.Atoi(args[1])
	if err != nil {
		return err
	}
	da, db, rb := privOf(c["da"].(string)), privOf(c["db"].(string)), privOf(c["rb"].(string))
	ida, idb := idBytes(c["ida"].(map[string]interface{})), idBytes(c["idb"].(map[string]interface{}))
	odd, zero := []map[string]interface{}{}, []map[string]interface{}{}
	var last map[string]interface{}
	total := 0
	for i := 2; i <= n; i++ {
		ra := privOf(strconv.FormatInt(int64(i), 16))
		for _, kl := range c["klens"].([]interface{}) {
			klen := int(kl.(float64))
			total++
			var why string
			got := map[string]interface{}{}
			pan := recoverStr(func() {
				ka, s1a, s2a, ea := sm2.KeyExchangeA(klen, ida, idb, da, &db.PublicKey, ra, &rb.PublicKey)
				kb, s1b, s2b, eb := sm2.KeyExchangeB(klen, ida, idb, db, &da.PublicKey, rb, &ra.PublicKey)
				got["a"] = map[string]interface{}{"k": ints(ka), "s1": ints(s1a), "s2": ints(s2a), "err": ea != nil}
				got["b"] = map[string]interface{}{"k": ints(kb), "s1": ints(s1b), "s2": ints(s2b), "err": eb != nil}
				switch {
				case ea != nil || eb != nil:
					why = fmt.Sprint("error: ", ea, " / ", eb)
				case !bytes.Equal(ka, kb) || !bytes.Equal(s1a, s1b) || !bytes.Equal(s2a, s2b):
					why = "parties disagree"
				case len(ka) != klen:
					why = fmt.Sprintf("key of %d bytes", len(ka))
				case len(bytes.Trim(ka, "\x00")) == 0 && len(zero) < 2:
					// a key of zero bytes only: the specification confirms that this is the standard's value
					zero = append(zero, map[string]interface{}{"ra": strconv.FormatInt(int64(i), 16), "klen": klen, "why": "all-zero key", "got": got})
				}
			})
			if pan != "" {
				why = "panic: " + pan
				got["panic"] = pan
			}
			last = map[string]interface{}{"ra": strconv.FormatInt(int64(i), 16), "klen": klen, "why": "last exchange of the sweep", "got": got}
			if why != "" && len(odd) < 8 {
				odd = append(odd, map[string]interface{}{"ra": strconv.FormatInt(int64(i), 16), "klen": klen, "why": why, "got": got})
			}
		}
	}
	out, _ := json.Marshal(map[string]interface{}{"exchanges": total, "odd": odd, "zero": zero, "last": last})
	return os.WriteFile(args[2], out, 0o644)
}

func init() { cmds["c13-sweep"] = c13sweep }

// c02-sweep <template.json> <n> <out.json>: Encrypt under the template's key with the nonce stream <<k, k+1, k+2>> for
// k = 2..n and every plaintext length of "mlens"; reports the (k, mlen) for which more than one nonce was drawn, the call
// failed, or the library cannot decrypt its own ciphertext - each becomes a case for the specification (which knows how
// many nonces the standard's all-zero key-stream rule consumes) - and the number of encryptions made
func c02sweep(args []string) error {
	b, err := os.ReadFile(args[0])
	if err != nil {
		return err
	}
	var c map[string]interface{}
	if err := json.Unmarshal(b, &c); err != nil {
		return err
	}
	n, err := strconv.Atoi(args[1])
	if err != nil {
		return err
	}
	priv := privOf(c["d"].(string))
	odd := []map[string]interface{}{}
	total := 0
	for k := 2; k <= n; k++ {
		for _, ml := range c["mlens"].([]interface{}) {
			mlen := int(ml.(float64))
			msg := msgBytes(0, mlen)
			ks := []*big.Int{big.NewInt(int64(k)), big.NewInt(int64(k + 1)), big.NewInt(int64(k + 2))}
			rd := &nonceReader{ks: ks, size: 40}
			total++
			why := ""
			pan := recoverStr(func() {
				ct, err := sm2.Encrypt(&priv.PublicKey, msg, rd, sm2.C1C3C2)
				switch {
				case err != nil:
					why = "Encrypt failed: " + err.Error()
				case rd.reads != 1:
					why = fmt.Sprintf("%d nonces drawn", rd.reads)
				default:
					if pt, e := sm2.Decrypt(priv, ct, sm2.C1C3C2); e != nil || !bytes.Equal(pt, msg) {
						why = fmt.Sprintf("own ciphertext does not decrypt (%v)", e)
					}
				}
			})
			if pan != "" {
				why = "panic: " + pan
			}
			if why != "" && len(odd) < 6 {
				odd = append(odd, map[string]interface{}{"k": k, "mlen": mlen, "why": why})
			}
		}
	}
	out, _ := json.Marshal(map[string]interface{}{"encryptions": total, "odd": odd})
	return os.WriteFile(args[2], out, 0o644)
}

func init() { cmds["c02-sweep"] = c02sweep }
