package main

// TLS test bed: fixture PKI, in-memory client <-> MITM <-> server plumbing with a record-level
// interposer, handshake helpers.  Used by the C06/C07/C08/C15/C16 drivers.

import (
	"crypto/rand"
	"errors"
	"fmt"
	"io"
	"io/ioutil"
	"net"
	"os"
	"path/filepath"
	"sync"
	"sync/atomic"
	"time"

	"github.com/tjfoc/gmsm/gmtls"
	"github.com/tjfoc/gmsm/x509"
)

func repoDir() string {
	if d := os.Getenv("VERIF_REPO"); d != "" {
		return d
	}
	return "/repo"
}

func certPath(n string) string { return filepath.Join(repoDir(), "gmtls", "websvr", "certs", n) }

type fixtures struct {
	sig, enc, auth gmtls.Certificate // SM2 sign / enc server certs, SM2 client auth cert
	rsa, rsaAuth   gmtls.Certificate
	sm2CA, rsaCA   *x509.CertPool
}

var fixOnce sync.Once
var fix fixtures
var fixErr error

func loadFixtures() (*fixtures, error) {
	fixOnce.Do(func() {
		ld := func(c, k string) gmtls.Certificate {
			cert, err := gmtls.LoadX509KeyPair(certPath(c), certPath(k))
			if err != nil && fixErr == nil {
				fixErr = fmt.Errorf("%s: %v", c, err)
			}
			return cert
		}
		fix.sig = ld("sm2_sign_cert.cer", "sm2_sign_key.pem")
		fix.enc = ld("sm2_enc_cert.cer", "sm2_enc_key.pem")
		fix.auth = ld("sm2_auth_cert.cer", "sm2_auth_key.pem")
		fix.rsa = ld("rsa_sign.cer", "rsa_sign_key.pem")
		fix.rsaAuth = ld("rsa_auth_cert.cer", "rsa_auth_key.pem")
		pool := func(f string) *x509.CertPool {
			p := x509.NewCertPool()
			b, err := ioutil.ReadFile(certPath(f))
			if err != nil && fixErr == nil {
				fixErr = err
			}
			p.AppendCertsFromPEM(b)
			return p
		}
		fix.sm2CA = pool("SM2_CA.cer")
		fix.rsaCA = pool("RSA_CA.cer")
	})
	return &fix, fixErr
}

// ---------------------------------------------------------------- records

type record struct {
	hdr   [5]byte
	body  []byte
	order int64 // global arrival order at the interposer (both directions)
}

var recOrder int64

func (r *record) bytes() []byte { return append(append([]byte(nil), r.hdr[:]...), r.body...) }
func (r *record) typ() byte     { return r.hdr[0] }

func readRecord(c net.Conn) (*record, error) {
	var r record
	if _, err := io.ReadFull(c, r.hdr[:]); err != nil {
		return nil, err
	}
	n := int(r.hdr[3])<<8 | int(r.hdr[4])
	r.body = make([]byte, n)
	if _, err := io.ReadFull(c, r.body); err != nil {
		return nil, err
	}
	return &r, nil
}

// one direction of the interposer: reads records from `from`, and either forwards them at once
// (pass) or holds them in `held` until released.
type mitmDir struct {
	mu      sync.Mutex
	from    net.Conn
	to      net.Conn
	hold    bool
	held    []*record
	seen    []*record // every record read (copy), for inspection
	filter  func(r *record) []*record
	closed  bool
	readErr error
	cond    *sync.Cond
}

func (d *mitmDir) pump() {
	for {
		r, err := readRecord(d.from)
		d.mu.Lock()
		if err != nil {
			d.readErr = err
			d.closed = true
			hold := d.hold
			d.cond.Broadcast()
			d.mu.Unlock()
			if !hold {
				d.to.Close()
			}
			return
		}
		r.order = atomic.AddInt64(&recOrder, 1)
		d.seen = append(d.seen, r)
		if d.hold {
			d.held = append(d.held, r)
			d.cond.Broadcast()
			d.mu.Unlock()
			continue
		}
		out := []*record{r}
		if d.filter != nil {
			out = d.filter(r)
		}
		d.mu.Unlock()
		for _, o := range out {
			if _, err := d.to.Write(o.bytes()); err != nil {
				// the receiving end is gone: the sender must see that too (as on a real socket)
				d.from.Close()
				return
			}
		}
	}
}

// waitHeld waits until n records are held (or the source closed / timeout).
func (d *mitmDir) waitHeld(n int, timeout time.Duration) int {
	deadline := time.Now().Add(timeout)
	d.mu.Lock()
	defer d.mu.Unlock()
	for len(d.held) < n && !d.closed && time.Now().Before(deadline) {
		d.mu.Unlock()
		time.Sleep(200 * time.Microsecond)
		d.mu.Lock()
	}
	return len(d.held)
}

type mitm struct {
	c2s, s2c *mitmDir
	ends     []net.Conn
}

func (m *mitm) close() {
	for _, e := range m.ends {
		e.Close()
	}
}

// newMitm returns the client-side and server-side net.Conn of a connection that runs through an
// interposer (initially transparent).
func newMitm() (cliEnd, srvEnd net.Conn, m *mitm) {
	c1, c2 := net.Pipe() // client <-> proxy
	s1, s2 := net.Pipe() // proxy <-> server
	m = &mitm{}
	m.c2s = &mitmDir{from: c2, to: s1}
	m.s2c = &mitmDir{from: s1, to: c2}
	m.c2s.cond = sync.NewCond(&m.c2s.mu)
	m.s2c.cond = sync.NewCond(&m.s2c.mu)
	m.ends = []net.Conn{c1, c2, s1, s2}
	go m.c2s.pump()
	go m.s2c.pump()
	return c1, s2, m
}

// ---------------------------------------------------------------- handshakes

type hsResult struct {
	cliErr, srvErr     error
	cliPanic, srvPanic interface{}
	timedOut           bool
}

func runHandshake(cli, srv *gmtls.Conn, timeout time.Duration) hsResult {
	var res hsResult
	var wg sync.WaitGroup
	wg.Add(2)
	go func() {
		defer wg.Done()
		defer func() {
			if p := recover(); p != nil {
				res.cliPanic = p
				cli.Close()
			}
		}()
		res.cliErr = cli.Handshake()
		if res.cliErr != nil {
			cli.Close() // what an application does after a failed handshake; lets the peer see the end of the stream
		}
	}()
	go func() {
		defer wg.Done()
		defer func() {
			if p := recover(); p != nil {
				res.srvPanic = fmt.Sprint(p, " @ ", string(debugStack()))
				srv.Close()
			}
		}()
		res.srvErr = srv.Handshake()
		if res.srvErr != nil {
			srv.Close()
		}
	}()
	done := make(chan struct{})
	go func() { wg.Wait(); close(done) }()
	select {
	case <-done:
	case <-time.After(timeout):
		res.timedOut = true
		cli.Close()
		srv.Close()
		<-done
	}
	return res
}

func gmServerConfig(f *fixtures, suites []uint16) *gmtls.Config {
	return &gmtls.Config{
		GMSupport:                   &gmtls.GMSupport{},
		Certificates:                []gmtls.Certificate{f.sig, f.enc},
		CipherSuites:                suites,
		DynamicRecordSizingDisabled: true,
	}
}

func gmClientConfig(f *fixtures, suites []uint16) *gmtls.Config {
	return &gmtls.Config{
		GMSupport:                   &gmtls.GMSupport{},
		RootCAs:                     f.sm2CA,
		ServerName:                  "test.example.com",
		CipherSuites:                suites,
		DynamicRecordSizingDisabled: true,
	}
}

// gmPair establishes a GMSSL connection through a (transparent) interposer.
// gmPairRand: the same with a random source for both ends that hands out at most 3 bytes per Read (an io.Reader may
// return short reads; whoever needs n random bytes has to keep reading)
var gmPairShortRand bool

type shortRand struct{}

func (shortRand) Read(p []byte) (int, error) {
	if len(p) > 3 {
		p = p[:3]
	}
	return rand.Read(p)
}

// a transport whose next Write, once armed, takes only the first 20 bytes and then reports an expired write deadline
// (what a stalled peer and SetWriteDeadline produce): a record is torn on the wire
type tornConn struct {
	net.Conn
	armed int32
	torn  int32 // writes cut short so far
	after int32 // transport writes that came after the first torn one
}

type tornTimeout struct{}

func (tornTimeout) Error() string   { return "verif: write deadline exceeded" }
func (tornTimeout) Timeout() bool   { return true }
func (tornTimeout) Temporary() bool { return true }

func (t *tornConn) Write(p []byte) (int, error) {
	if atomic.CompareAndSwapInt32(&t.armed, 1, 0) && len(p) > 20 {
		atomic.AddInt32(&t.torn, 1)
		n, _ := t.Conn.Write(p[:20])
		return n, tornTimeout{}
	}
	if atomic.LoadInt32(&t.torn) > 0 {
		atomic.AddInt32(&t.after, 1)
	}
	return t.Conn.Write(p)
}

// gmPairTorn: when set, both ends' transports are wrapped (returned through gmPairTornConns)
var gmPairTorn bool
var gmPairTornConns [2]*tornConn

func gmPair(suite uint16) (cli, srv *gmtls.Conn, m *mitm, err error) {
	f, err := loadFixtures()
	if err != nil {
		return nil, nil, nil, err
	}
	ce, se, m := newMitm()
	cc := gmClientConfig(f, []uint16{suite})
	cc.InsecureSkipVerify = true // identity is C08's subject; here only the record layer matters
	scfg := gmServerConfig(f, []uint16{suite})
	if gmPairShortRand {
		cc.Rand, scfg.Rand = shortRand{}, shortRand{}
	}
	if gmPairTorn {
		tc, ts := &tornConn{Conn: ce}, &tornConn{Conn: se}
		gmPairTornConns = [2]*tornConn{tc, ts}
		ce, se = tc, ts
	}
	cli = gmtls.Client(ce, cc)
	srv = gmtls.Server(se, scfg)
	ht.register(cli)
	ht.register(srv)
	r := runHandshake(cli, srv, 10*time.Second)
	if r.cliErr != nil || r.srvErr != nil || r.cliPanic != nil || r.srvPanic != nil || r.timedOut {
		m.close()
		return nil, nil, nil, fmt.Errorf("handshake failed: cli=%v srv=%v panic=%v/%v timeout=%v", r.cliErr, r.srvErr, r.cliPanic, r.srvPanic, r.timedOut)
	}
	return cli, srv, m, nil
}

var errTimeout = errors.New("timeout")

func init() {
	cmds["tls-probe"] = func(a []string) error {
		for _, s := range []uint16{gmtls.GMTLS_SM2_WITH_SM4_SM3, gmtls.GMTLS_ECC_SM4_GCM_SM3} {
			t := time.Now()
			cli, srv, m, err := gmPair(s)
			if err != nil {
				return err
			}
			go func() { cli.Write([]byte("hello")) }()
			buf := make([]byte, 16)
			n, err := srv.Read(buf)
			fmt.Printf("suite %04x: %v vers=%04x read %q err=%v recs=%d\n", s, time.Since(t), cli.ConnectionState().Version, buf[:n], err, len(m.c2s.seen))
			m.close()
		}
		return nil
	}
}

func timeAfter(sec int) <-chan time.Time { return time.After(time.Duration(sec) * time.Second) }
