package main

import (
	"encoding/json"
	"fmt"
	"os"
	"runtime/pprof"
	"time"
)

func init() {
	cmds["c06-one"] = func(a []string) error {
		var c c06Case
		if err := json.Unmarshal([]byte(a[0]), &c); err != nil {
			return err
		}
		go func() {
			time.Sleep(3 * time.Second)
			pprof.Lookup("goroutine").WriteTo(os.Stderr, 1)
		}()
		o, err := runC06(&c)
		b, _ := json.MarshalIndent(o, "", " ")
		fmt.Println(string(b), err)
		return nil
	}
}

func init() {
	cmds["interop-one"] = func(a []string) error {
		var c interopCase
		if err := json.Unmarshal([]byte(a[0]), &c); err != nil {
			return err
		}
		o, err := runInterop(&c)
		b, _ := json.MarshalIndent(o, "", " ")
		fmt.Println(string(b), err)
		return nil
	}
}

func init() {
	cmds["c15-one"] = func(a []string) error {
		var c c15Case
		if err := json.Unmarshal([]byte(a[0]), &c); err != nil {
			return err
		}
		b0 := c15Case{Role: c.Role, Ca: c.Ca, Op: peerOp{Op: "none"}}
		o0, err := runC15(&b0, true)
		fmt.Printf("baseline: %+v %v\n", o0, err)
		o, err := runC15(&c, false)
		b, _ := json.MarshalIndent(o, "", " ")
		fmt.Println(string(b), err)
		return nil
	}
}
