package main

// C08: realises each attacker scenario of TLCPAdv.tla against real endpoints: certificates that must
// not be accepted, genuine certificates with wrong private keys, ServerKeyExchange omitted / replayed
// / mis-signed (peer fault point), CertificateVerify from another session, and a man in the middle
// rewriting plaintext handshake fields.

import (
	"bufio"
	"crypto/rand"
	"crypto/rsa"
	stdx509 "crypto/x509"
	"crypto/x509/pkix"
	"encoding/hex"
	"encoding/json"
	"errors"
	"fmt"
	"net"
	"os"
	"sync"
	"sync/atomic"
	"time"

	"github.com/tjfoc/gmsm/gmtls"
	"github.com/tjfoc/gmsm/sm2"
	"github.com/tjfoc/gmsm/sm3"
	"github.com/tjfoc/gmsm/x509"
)

type advScenario struct {
	Proto    string `json:"proto"` // "gm" (default) or "tls"
	Kx       string `json:"kx"`    // "ecc" (GMSSL), "rsa", "ecdhe"
	Suite    string `json:"suite"` // "CBC" or "GCM"
	Policy   string `json:"policy"`
	Verify   bool   `json:"verify"`
	SignCert string `json:"signCert"`
	EncCert  string `json:"encCert"`
	SignKey  string `json:"signKey"`
	EncKey   string `json:"encKey"`
	Ske      string `json:"ske"`
	CliCert  string `json:"cliCert"`
	CliKey   string `json:"cliKey"`
	Cv       string `json:"cv"`
	Mitm     string `json:"mitm"`
	Msg      string `json:"msg"`
	Frac     int    `json:"frac"`
	Fracs    int    `json:"fracs"`
	Clock    string `json:"clock"` // "now" | "ahead": both endpoints run on Config.Time = wall clock + 10 days
	Veto     string `json:"veto"`  // "none" | "client" | "server": that side's VerifyPeerCertificate callback refuses
}

type advPKI struct {
	ca, rogue          *caT
	sign, enc          map[string]gmtls.Certificate
	cli                map[string]gmtls.Certificate
	enc2               gmtls.Certificate // a second, equally trusted encryption certificate
	rogueEncKey        *sm2.PrivateKey
	roots, clientRoots *x509.CertPool
	// the TLS side: RSA certificates under an RSA CA (made with the standard library)
	tlsSrv, tlsCli           map[string]gmtls.Certificate
	tlsRoots, tlsClientRoots *x509.CertPool
	spareRSA                 *rsa.PrivateKey
	err                      error
	once                     sync.Once
}

var adv advPKI

func loadAdvPKI() (*advPKI, error) {
	adv.once.Do(func() {
		var err error
		fail := func(e error) bool {
			if e != nil && adv.err == nil {
				adv.err = e
			}
			return e != nil
		}
		adv.ca, err = newSM2CA(pkix.Name{CommonName: "verif trusted CA", Organization: []string{"verif"}})
		if fail(err) {
			return
		}
		adv.rogue, err = newSM2CA(pkix.Name{CommonName: "verif trusted CA", Organization: []string{"verif"}}) // same name, other key
		if fail(err) {
			return
		}
		now := time.Now()
		signU := x509.KeyUsageDigitalSignature
		encU := x509.KeyUsageKeyEncipherment | x509.KeyUsageDataEncipherment
		eku := []x509.ExtKeyUsage{x509.ExtKeyUsageServerAuth, x509.ExtKeyUsageClientAuth}
		mk := func(ca *caT, usage x509.KeyUsage, name string, nb, na time.Time) gmtls.Certificate {
			c, _, e := ca.issue(leafOpt{cn: name, dns: []string{name}, usage: usage, eku: eku, notBefore: nb, notAfter: na})
			fail(e)
			return c
		}
		ok0, ok1 := now.Add(-time.Hour), now.Add(24*time.Hour)
		adv.sign = map[string]gmtls.Certificate{}
		adv.enc = map[string]gmtls.Certificate{}
		for kind, usage := range map[string][2]x509.KeyUsage{"sign": {signU, encU}, "enc": {encU, signU}} {
			m := adv.sign
			if kind == "enc" {
				m = adv.enc
			}
			m["good"] = mk(adv.ca, usage[0], "localhost", ok0, ok1)
			m["untrusted"] = mk(adv.rogue, usage[0], "localhost", ok0, ok1)
			// the same, followed by the certificate of the CA that nobody trusts (a server may append its chain)
			wc := mk(adv.rogue, usage[0], "localhost", ok0, ok1)
			wc.Certificate = append(wc.Certificate, adv.rogue.der)
			m["untrusted_with_ca"] = wc
			// self-signed, carrying the trusted root's subject and subject key identifier (another key)
			if lk, e := sm2.GenerateKey(rand.Reader); !fail(e) {
				lt := &x509.Certificate{SerialNumber: nextSerial(), Subject: adv.ca.cert.Subject, SubjectKeyId: adv.ca.cert.SubjectKeyId, AuthorityKeyId: adv.ca.cert.SubjectKeyId,
					NotBefore: ok0, NotAfter: ok1, KeyUsage: usage[0] | x509.KeyUsageCertSign, ExtKeyUsage: eku, DNSNames: []string{"localhost"},
					BasicConstraintsValid: true, IsCA: true, SignatureAlgorithm: x509.SM2WithSM3}
				if lder, e := x509.CreateCertificate(lt, lt, &lk.PublicKey, lk); !fail(e) {
					m["lookalike_root"] = gmtls.Certificate{Certificate: [][]byte{lder}, PrivateKey: lk}
				}
			}
			m["noipsan"] = m["good"]
			m["long"] = mk(adv.ca, usage[0], "localhost", ok0, now.Add(480*time.Hour))
			m["future"] = mk(adv.ca, usage[0], "localhost", now.Add(120*time.Hour), now.Add(480*time.Hour))
			m["expired"] = mk(adv.ca, usage[0], "localhost", now.Add(-48*time.Hour), now.Add(-24*time.Hour))
			m["notyet"] = mk(adv.ca, usage[0], "localhost", now.Add(24*time.Hour), now.Add(48*time.Hour))
			m["wrongname"] = mk(adv.ca, usage[0], "other.example", ok0, ok1)
			// the subject's common name is the name the client asks for, the subjectAltName extension names another host:
			// where a SAN extension with DNS names is present, the common name does not count
			if cc, _, e := adv.ca.issue(leafOpt{cn: "localhost", dns: []string{"other.example"}, usage: usage[0], eku: eku, notBefore: ok0, notAfter: ok1}); !fail(e) {
				m["cn_not_san"] = cc
			}
			m["wrongusage"] = mk(adv.ca, usage[1], "localhost", ok0, ok1)
			f, e := loadFixtures()
			if !fail(e) {
				m["rsa"] = f.rsa
			}
		}
		adv.enc2 = mk(adv.ca, encU, "localhost", ok0, ok1)
		// a self-signed encryption certificate of the attacker's own making, appended behind the genuine one
		if rk, e := sm2.GenerateKey(rand.Reader); !fail(e) {
			rt := &x509.Certificate{SerialNumber: nextSerial(), Subject: pkix.Name{CommonName: "localhost"}, NotBefore: ok0, NotAfter: ok1, KeyUsage: encU, ExtKeyUsage: eku,
				DNSNames: []string{"localhost"}, SignatureAlgorithm: x509.SM2WithSM3}
			if rder, e := x509.CreateCertificate(rt, rt, &rk.PublicKey, rk); !fail(e) {
				g := adv.enc["good"]
				adv.enc["good_then_rogue"] = gmtls.Certificate{Certificate: [][]byte{g.Certificate[0], rder}, PrivateKey: g.PrivateKey}
				adv.rogueEncKey = rk
			}
		}
		adv.cli = map[string]gmtls.Certificate{
			"good":      mk(adv.ca, signU, "client", ok0, ok1),
			"untrusted": mk(adv.rogue, signU, "client", ok0, ok1),
			"expired":   mk(adv.ca, signU, "client", now.Add(-48*time.Hour), now.Add(-24*time.Hour)),
			"notyet":    mk(adv.ca, signU, "client", now.Add(24*time.Hour), now.Add(48*time.Hour)),
			"long":      mk(adv.ca, signU, "client", ok0, now.Add(480*time.Hour)),
			"future":    mk(adv.ca, signU, "client", now.Add(120*time.Hour), now.Add(480*time.Hour)),
		}
		// a CA certificate of the client's own making in front of a victim's certificate and the victim's issuer
		if mk2, e := sm2.GenerateKey(rand.Reader); !fail(e) {
			mt := &x509.Certificate{SerialNumber: nextSerial(), Subject: pkix.Name{CommonName: "mallory CA"}, NotBefore: ok0, NotAfter: ok1, KeyUsage: signU | x509.KeyUsageCertSign,
				ExtKeyUsage: eku, BasicConstraintsValid: true, IsCA: true, SignatureAlgorithm: x509.SM2WithSM3}
			if mder, e := x509.CreateCertificate(mt, mt, &mk2.PublicKey, mk2); !fail(e) {
				adv.cli["ca_first"] = gmtls.Certificate{Certificate: [][]byte{mder, adv.cli["good"].Certificate[0], adv.ca.der}, PrivateKey: mk2}
			}
		}
		adv.roots = poolOf(adv.ca.cert)
		adv.clientRoots = poolOf(adv.ca.cert)
		fail(adv.makeTLS(now))
	})
	return &adv, adv.err
}

func withOtherKey(c gmtls.Certificate) gmtls.Certificate {
	if _, isRSA := c.PrivateKey.(*rsa.PrivateKey); isRSA {
		return gmtls.Certificate{Certificate: c.Certificate, PrivateKey: adv.spareRSA, Leaf: c.Leaf}
	}
	k, _ := sm2.GenerateKey(rand.Reader)
	return gmtls.Certificate{Certificate: c.Certificate, PrivateKey: k, Leaf: c.Leaf}
}

// RSA CA and leaves for the TLS scenarios, produced by the Go standard library
func (p *advPKI) makeTLS(now time.Time) error {
	type rca struct {
		cert *stdx509.Certificate
		key  *rsa.PrivateKey
		der  []byte
	}
	newCA := func() (*rca, error) {
		k, err := rsa.GenerateKey(rand.Reader, 2048)
		if err != nil {
			return nil, err
		}
		t := &stdx509.Certificate{SerialNumber: nextSerial(), Subject: pkix.Name{CommonName: "verif trusted RSA CA", Organization: []string{"verif"}},
			NotBefore: now.Add(-100 * time.Hour), NotAfter: now.Add(1000 * time.Hour), IsCA: true, BasicConstraintsValid: true,
			KeyUsage: stdx509.KeyUsageCertSign | stdx509.KeyUsageCRLSign}
		der, err := stdx509.CreateCertificate(rand.Reader, t, t, &k.PublicKey, k)
		if err != nil {
			return nil, err
		}
		c, err := stdx509.ParseCertificate(der)
		return &rca{c, k, der}, err
	}
	ca, err := newCA()
	if err != nil {
		return err
	}
	rogue, err := newCA() // same name, other key
	if err != nil {
		return err
	}
	var ferr error
	var mkcn func(ca *rca, cn, san string, eku []stdx509.ExtKeyUsage, nb, na time.Time) gmtls.Certificate
	mk := func(ca *rca, name string, eku []stdx509.ExtKeyUsage, nb, na time.Time) gmtls.Certificate {
		return mkcn(ca, name, name, eku, nb, na)
	}
	mkcn = func(ca *rca, cn, name string, eku []stdx509.ExtKeyUsage, nb, na time.Time) gmtls.Certificate {
		k, err := rsa.GenerateKey(rand.Reader, 2048)
		if err != nil {
			ferr = err
			return gmtls.Certificate{}
		}
		t := &stdx509.Certificate{SerialNumber: nextSerial(), Subject: pkix.Name{CommonName: cn, Organization: []string{"verif"}},
			NotBefore: nb, NotAfter: na, DNSNames: []string{name}, ExtKeyUsage: eku,
			KeyUsage: stdx509.KeyUsageDigitalSignature | stdx509.KeyUsageKeyEncipherment}
		der, err := stdx509.CreateCertificate(rand.Reader, t, ca.cert, &k.PublicKey, ca.key)
		if err != nil {
			ferr = err
			return gmtls.Certificate{}
		}
		leaf, err := x509.ParseCertificate(der)
		if err != nil {
			ferr = err
		}
		return gmtls.Certificate{Certificate: [][]byte{der}, PrivateKey: k, Leaf: leaf}
	}
	both := []stdx509.ExtKeyUsage{stdx509.ExtKeyUsageServerAuth, stdx509.ExtKeyUsageClientAuth}
	ok0, ok1 := now.Add(-time.Hour), now.Add(24*time.Hour)
	wc := mk(rogue, "localhost", both, ok0, ok1)
	wc.Certificate = append(wc.Certificate, rogue.der)
	p.tlsSrv = map[string]gmtls.Certificate{
		"good":              mk(ca, "localhost", both, ok0, ok1),
		"untrusted":         mk(rogue, "localhost", both, ok0, ok1),
		"untrusted_with_ca": wc,
		"expired":           mk(ca, "localhost", both, now.Add(-48*time.Hour), now.Add(-24*time.Hour)),
		"notyet":            mk(ca, "localhost", both, now.Add(24*time.Hour), now.Add(48*time.Hour)),
		"wrongname":         mk(ca, "other.example", both, ok0, ok1),
		"cn_not_san":        mkcn(ca, "localhost", "other.example", both, ok0, ok1),
		"long":              mk(ca, "localhost", both, ok0, now.Add(480*time.Hour)),
		"future":            mk(ca, "localhost", both, now.Add(120*time.Hour), now.Add(480*time.Hour)),
		"wrongeku":          mk(ca, "localhost", []stdx509.ExtKeyUsage{stdx509.ExtKeyUsageClientAuth}, ok0, ok1),
	}
	if lk, err := rsa.GenerateKey(rand.Reader, 2048); err != nil {
		return err
	} else {
		lt := &stdx509.Certificate{SerialNumber: nextSerial(), Subject: ca.cert.Subject, SubjectKeyId: ca.cert.SubjectKeyId, AuthorityKeyId: ca.cert.SubjectKeyId,
			NotBefore: ok0, NotAfter: ok1, DNSNames: []string{"localhost"}, ExtKeyUsage: both, IsCA: true, BasicConstraintsValid: true,
			KeyUsage: stdx509.KeyUsageDigitalSignature | stdx509.KeyUsageKeyEncipherment | stdx509.KeyUsageCertSign}
		lder, err := stdx509.CreateCertificate(rand.Reader, lt, lt, &lk.PublicKey, lk)
		if err != nil {
			return err
		}
		p.tlsSrv["lookalike_root"] = gmtls.Certificate{Certificate: [][]byte{lder}, PrivateKey: lk}
	}
	p.tlsSrv["noipsan"] = p.tlsSrv["good"]
	p.tlsCli = map[string]gmtls.Certificate{
		"good":      mk(ca, "client", both, ok0, ok1),
		"untrusted": mk(rogue, "client", both, ok0, ok1),
		"expired":   mk(ca, "client", both, now.Add(-48*time.Hour), now.Add(-24*time.Hour)),
		"notyet":    mk(ca, "client", both, now.Add(24*time.Hour), now.Add(48*time.Hour)),
		"long":      mk(ca, "client", both, ok0, now.Add(480*time.Hour)),
		"future":    mk(ca, "client", both, now.Add(120*time.Hour), now.Add(480*time.Hour)),
	}
	if ferr != nil {
		return ferr
	}
	cac, err := x509.ParseCertificate(ca.der)
	if err != nil {
		return err
	}
	p.tlsRoots, p.tlsClientRoots = poolOf(cac), poolOf(cac)
	p.spareRSA, err = rsa.GenerateKey(rand.Reader, 2048)
	return err
}

// bytes captured from an earlier honest session under the same certificates
type advReplay struct {
	ske, cv       []byte // GMSSL: the bytes seen at the peer fault points
	skeMsg, cvMsg []byte // TLS: the whole handshake messages as seen on the wire
	sr, cr        string // the randoms of the recorded session
}

// a reproducible random source: SM3(seed || counter)
type detRand struct {
	seed string
	ctr  uint32
	buf  []byte
}

func (d *detRand) Read(p []byte) (int, error) {
	for len(d.buf) < len(p) {
		d.ctr++
		d.buf = append(d.buf, sm3.Sm3Sum([]byte(fmt.Sprintf("%s/%d", d.seed, d.ctr)))...)
	}
	copy(p, d.buf[:len(p)])
	d.buf = d.buf[len(p):]
	return len(p), nil
}

var rndMu sync.Mutex

var (
	faultMu    sync.Mutex
	faultTable = map[*gmtls.Conn]func(site string, honest []byte) ([]byte, bool){}
)

func faultDispatch(c *gmtls.Conn, site string, honest []byte) ([]byte, bool) {
	faultMu.Lock()
	f := faultTable[c]
	faultMu.Unlock()
	if f == nil {
		return nil, false
	}
	return f(site, honest)
}

// field-aware rewriting of plaintext handshake messages
func advByte(s *advScenario, msg []byte, toServer bool) []byte {
	kinds := map[string]byte{"CH": 1, "SH": 2, "CERT": 11, "SKE": 12, "CREQ": 13, "SHD": 14, "CCERT": 11, "CKE": 16, "CV": 15}
	t, ok := kinds[s.Msg]
	if !ok || msg[0] != t || (s.Msg == "CCERT") != (toServer && t == 11) && t == 11 {
		return msg
	}
	m := append([]byte(nil), msg...)
	n := s.Fracs
	if n <= 0 {
		n = 8
	}
	off := len(m) * s.Frac / n
	if len(m) == 4 { // empty body (ServerHelloDone): only the header can change; make the length non-zero
		m[3] ^= 1
		return m
	}
	if off < 4 {
		off = 4 + s.Frac%(len(m)-4) // keep the 4-byte header intact: header damage is C15's subject
	}
	m[off] ^= 0x10
	return m
}

func advRewrite(mitm string, msg []byte, p *advPKI, toServer bool, suites []uint16) []byte {
	m := append([]byte(nil), msg...)
	t := m[0]
	flipLast := func() []byte { m[len(m)-1] ^= 1; return m }
	switch {
	case mitm == "ch_random" && t == 1, mitm == "sh_random" && t == 2:
		m[4+2+10] ^= 1
		return m
	case mitm == "ch_suites" && t == 1:
		p0 := 4 + 34 + 1 + int(m[4+34])
		if int(m[p0])<<8|int(m[p0+1]) >= 4 {
			m[p0+2], m[p0+3], m[p0+4], m[p0+5] = m[p0+4], m[p0+5], m[p0+2], m[p0+3]
		}
		return m
	case mitm == "ch_session" && t == 1, mitm == "sh_session" && t == 2:
		// give the hello a (different) one-byte session id
		b := m[4:]
		sl := int(b[34])
		nb := append([]byte(nil), b[:34]...)
		nb = append(nb, 1, 0x5a)
		nb = append(nb, b[35+sl:]...)
		return hsMsg(t, nb)
	case mitm == "sh_suite" && t == 2:
		p0 := 4 + 34 + 1 + int(m[4+34])
		// the other suite the client offered
		to := suites[0]
		if m[p0] == byte(to>>8) && m[p0+1] == byte(to) {
			to = suites[1]
		}
		m[p0], m[p0+1] = byte(to>>8), byte(to)
		return m
	case mitm == "ccert_bit" && t == 11 && toServer:
		// last byte of the (single) client certificate: inside its signature value
		m[len(m)-1] ^= 1
		return m
	case (mitm == "cert_swap" || mitm == "cert_bit" || mitm == "cert_other_enc") && t == 11 && !toServer:
		b := m[4:]
		var certs [][]byte
		for q := 3; q+3 <= len(b); {
			l := int(b[q])<<16 | int(b[q+1])<<8 | int(b[q+2])
			certs = append(certs, append([]byte(nil), b[q+3:q+3+l]...))
			q += 3 + l
		}
		if len(certs) < 2 && mitm != "cert_bit" || len(certs) == 0 {
			return m
		}
		switch mitm {
		case "cert_swap":
			certs[0], certs[1] = certs[1], certs[0]
		case "cert_bit":
			certs[0][len(certs[0])-1] ^= 1
		case "cert_other_enc":
			certs[1] = p.enc2.Certificate[0]
		}
		var list []byte
		for _, c := range certs {
			list = append(list, byte(len(c)>>16), byte(len(c)>>8), byte(len(c)))
			list = append(list, c...)
		}
		return hsMsg(11, append([]byte{byte(len(list) >> 16), byte(len(list) >> 8), byte(len(list))}, list...))
	case mitm == "ske_bit" && t == 12, mitm == "cv_bit" && t == 15:
		return flipLast()
	case mitm == "cke_bit" && t == 16:
		m[len(m)-20] ^= 1
		return m
	case mitm == "creq_bit" && t == 13:
		m[5] ^= 2
		return m
	}
	return m
}

type advObs struct {
	CliComplete, SrvComplete bool
	CliErr, SrvErr           string
	CliPanic, SrvPanic       string
	Timeout                  bool
	Skipped                  string
	SrvRandom, CliRandom     string
	Suite, WantSuite         uint16 // negotiated (client's view) / the first suite of the scenario's list
	VetoCalls                int    // times the refusing VerifyPeerCertificate callback was run
}

func runAdv(s *advScenario, replay *advReplay, capture *advReplay) (o advObs, err error) {
	p, err := loadAdvPKI()
	if err != nil {
		return o, err
	}
	if s.Proto == "" {
		s.Proto, s.Kx = "gm", "ecc"
	}
	if s.Policy == "" {
		s.Policy = "none"
	}
	gm := s.Proto == "gm"
	var suites []uint16
	var sc, cc *gmtls.Config
	cliCerts := p.cli
	if gm {
		sign, enc := p.sign[s.SignCert], p.enc[s.EncCert]
		if s.SignKey == "wrong" {
			sign = withOtherKey(sign)
		}
		if s.EncKey == "wrong" {
			if s.EncCert == "good_then_rogue" { // the key of the self-made certificate at the end of the list
				enc = gmtls.Certificate{Certificate: enc.Certificate, PrivateKey: p.rogueEncKey}
			} else {
				enc = withOtherKey(enc)
			}
		}
		suites = []uint16{gmtls.GMTLS_SM2_WITH_SM4_SM3, gmtls.GMTLS_ECC_SM4_GCM_SM3}
		if s.Suite == "GCM" {
			suites[0], suites[1] = suites[1], suites[0]
		}
		sc = &gmtls.Config{GMSupport: &gmtls.GMSupport{}, Certificates: []gmtls.Certificate{sign, enc}, CipherSuites: suites, SessionTicketsDisabled: true}
		cc = &gmtls.Config{GMSupport: &gmtls.GMSupport{}, RootCAs: p.roots, ServerName: "localhost", CipherSuites: suites, InsecureSkipVerify: !s.Verify}
		sc.ClientCAs = p.clientRoots
	} else {
		cert, ok := p.tlsSrv[s.SignCert]
		if !ok {
			return o, fmt.Errorf("no TLS certificate of kind %q", s.SignCert)
		}
		if s.SignKey == "wrong" {
			cert = withOtherKey(cert)
		}
		switch s.Kx + "/" + s.Suite {
		case "rsa/CBC":
			suites = []uint16{gmtls.TLS_RSA_WITH_AES_128_CBC_SHA, gmtls.TLS_RSA_WITH_AES_128_GCM_SHA256}
		case "rsa/GCM":
			suites = []uint16{gmtls.TLS_RSA_WITH_AES_128_GCM_SHA256, gmtls.TLS_RSA_WITH_AES_128_CBC_SHA}
		case "ecdhe/CBC":
			suites = []uint16{gmtls.TLS_ECDHE_RSA_WITH_AES_256_CBC_SHA, gmtls.TLS_ECDHE_RSA_WITH_AES_128_GCM_SHA256}
		case "ecdhe/GCM":
			suites = []uint16{gmtls.TLS_ECDHE_RSA_WITH_AES_128_GCM_SHA256, gmtls.TLS_ECDHE_RSA_WITH_AES_256_CBC_SHA}
		default:
			return o, fmt.Errorf("unknown TLS combination %s/%s", s.Kx, s.Suite)
		}
		sc = &gmtls.Config{Certificates: []gmtls.Certificate{cert}, CipherSuites: suites, SessionTicketsDisabled: true, MinVersion: gmtls.VersionTLS12, MaxVersion: gmtls.VersionTLS12}
		cc = &gmtls.Config{RootCAs: p.tlsRoots, ServerName: "localhost", CipherSuites: suites, InsecureSkipVerify: !s.Verify, MinVersion: gmtls.VersionTLS12, MaxVersion: gmtls.VersionTLS12}
		sc.ClientCAs = p.tlsClientRoots
		cliCerts = p.tlsCli
	}
	if s.SignCert == "noipsan" || s.EncCert == "noipsan" {
		cc.ServerName = "192.0.2.10" // an IP literal: the certificate must carry it as an IP subject alternative name
	}
	switch s.Policy {
	case "none":
	case "request":
		sc.ClientAuth = gmtls.RequestClientCert
	case "requireany":
		sc.ClientAuth = gmtls.RequireAnyClientCert
	case "verifyifgiven":
		sc.ClientAuth = gmtls.VerifyClientCertIfGiven
	case "require":
		sc.ClientAuth = gmtls.RequireAndVerifyClientCert
	default:
		return o, fmt.Errorf("unknown policy %q", s.Policy)
	}
	if s.Policy != "none" && s.CliCert != "none" {
		cl := cliCerts[s.CliCert]
		if s.CliCert == "good_then_other" {
			other := cliCerts["untrusted"]
			cl = gmtls.Certificate{Certificate: [][]byte{cliCerts["good"].Certificate[0], other.Certificate[0]}, PrivateKey: cliCerts["good"].PrivateKey}
			if s.CliKey == "of_other" {
				cl.PrivateKey = other.PrivateKey
			}
		}
		if cl.PrivateKey == nil {
			return o, fmt.Errorf("no client certificate of kind %q", s.CliCert)
		}
		if s.CliKey == "wrong" {
			cl = withOtherKey(cl)
		}
		cc.Certificates = []gmtls.Certificate{cl}
	}
	if s.Clock == "ahead" {
		at := func() time.Time { return time.Now().Add(240 * time.Hour) }
		sc.Time, cc.Time = at, at
	}
	var vetoCalls int32
	veto := func(rawCerts [][]byte, _ [][]*x509.Certificate) error {
		atomic.AddInt32(&vetoCalls, 1)
		return errors.New("verif: the application refuses this peer")
	}
	switch s.Veto {
	case "client":
		cc.VerifyPeerCertificate = veto
	case "server":
		sc.VerifyPeerCertificate = veto
	}
	defer func() { o.VetoCalls = int(atomic.LoadInt32(&vetoCalls)) }()
	// reproducible randoms: the recorded session, and the replays that share one of its randoms
	if capture != nil || s.Ske == "same_server_random" {
		sc.Rand = &detRand{seed: "c08 server"}
	}
	if capture != nil || s.Ske == "same_client_random" {
		cc.Rand = &detRand{seed: "c08 client"}
	}
	c1, c2 := net.Pipe()
	s1, s2 := net.Pipe()
	defer func() { c1.Close(); c2.Close(); s1.Close(); s2.Close() }()
	cli := gmtls.Client(c1, cc)
	srv := gmtls.Server(s2, sc)
	// peer faults
	if gm && (s.Ske != "honest" || s.Cv != "honest" || capture != nil) {
		f := func(site string, honest []byte) ([]byte, bool) {
			if capture != nil {
				if site == "ske" {
					capture.ske = append([]byte(nil), honest...)
				}
				if site == "cv" {
					capture.cv = append([]byte(nil), honest...)
				}
				return nil, false
			}
			switch {
			case site == "ske" && s.Ske == "omitted":
				return nil, true
			case site == "ske" && (s.Ske == "otherrandoms" || s.Ske == "same_server_random" || s.Ske == "same_client_random"):
				return replay.ske, true
			case site == "ske" && (s.Ske == "trailing" || s.Ske == "extraint") && len(honest) > 4:
				// honest = 2-byte length || DER signature
				sig := append([]byte(nil), honest[2:]...)
				if s.Ske == "trailing" {
					sig = append(sig, 0)
				} else if sig[0] == 0x30 && sig[1] < 0x7d && int(sig[1]) == len(sig)-2 {
					sig = append(sig, 2, 1, 1) // INTEGER 1 inside the SEQUENCE
					sig[1] += 3
				} else {
					return nil, false
				}
				return append([]byte{byte(len(sig) >> 8), byte(len(sig))}, sig...), true
			case site == "cv" && s.Cv == "trailing":
				return append(append([]byte(nil), honest...), 0), true
			case site == "ske" && s.Ske == "badsig":
				b := append([]byte(nil), honest...)
				b[len(b)-3] ^= 4
				return b, true
			case site == "cv" && s.Cv == "othersession":
				return replay.cv, true
			}
			return nil, false
		}
		faultMu.Lock()
		faultTable[cli], faultTable[srv] = f, f
		faultMu.Unlock()
		defer func() { faultMu.Lock(); delete(faultTable, cli); delete(faultTable, srv); faultMu.Unlock() }()
	}
	mitm := s.Mitm
	if s.Ske == "otherenccert" {
		mitm = "cert_other_enc"
	}
	// TLS: the same peer deviations, realised on the wire (the server's own ServerKeyExchange / the client's own
	// CertificateVerify is replaced, dropped or damaged before the other end sees it)
	wireFaults := !gm && (s.Ske != "honest" || s.Cv != "honest" || capture != nil)
	wire := func(msg []byte, toServer bool) ([]byte, bool) {
		switch {
		case capture != nil && msg[0] == 12 && !toServer:
			capture.skeMsg = append([]byte(nil), msg...)
		case capture != nil && msg[0] == 15 && toServer:
			capture.cvMsg = append([]byte(nil), msg...)
		case capture != nil:
		case msg[0] == 12 && !toServer && s.Ske == "omitted":
			return nil, false
		case msg[0] == 12 && !toServer && (s.Ske == "otherrandoms" || s.Ske == "same_server_random" || s.Ske == "same_client_random"):
			return replay.skeMsg, true
		case msg[0] == 12 && !toServer && s.Ske == "badsig":
			b := append([]byte(nil), msg...)
			b[len(b)-3] ^= 4
			return b, true
		case msg[0] == 15 && toServer && s.Cv == "othersession":
			return replay.cvMsg, true
		}
		return msg, true
	}
	pumpRW := func(from, to net.Conn, toServer bool) {
		var buf []byte
		plain := true
		for {
			r, err := readRecord(from)
			if err != nil {
				to.Close()
				return
			}
			out := []*record{r}
			if plain && r.typ() == 22 && len(r.body) >= 38 && (r.body[0] == 1 || r.body[0] == 2) {
				rnd := hex.EncodeToString(r.body[6:38])
				rndMu.Lock()
				if r.body[0] == 1 {
					o.CliRandom = rnd
				} else {
					o.SrvRandom = rnd
				}
				rndMu.Unlock()
			}
			if plain && r.typ() == 20 {
				plain = false
			} else if plain && r.typ() == 22 && (mitm != "none" || wireFaults) {
				buf = append(buf, r.body...)
				out = nil
				for len(buf) >= 4 {
					n := int(buf[1])<<16 | int(buf[2])<<8 | int(buf[3])
					if len(buf) < 4+n {
						break
					}
					msg := buf[:4+n]
					buf = buf[4+n:]
					if wireFaults {
						if m2, keep := wire(msg, toServer); keep {
							out = append(out, frame(r.hdr, 22, m2))
						}
					} else if mitm == "byte" {
						out = append(out, frame(r.hdr, 22, advByte(s, msg, toServer)))
					} else {
						out = append(out, frame(r.hdr, 22, advRewrite(mitm, msg, p, toServer, suites)))
					}
				}
			}
			for _, x := range out {
				if _, err := to.Write(x.bytes()); err != nil {
					from.Close()
					return
				}
			}
		}
	}
	go pumpRW(c2, s1, true)
	go pumpRW(s1, c2, false)
	r := runHandshake(cli, srv, 10*time.Second)
	o.Timeout = r.timedOut
	if r.cliErr != nil {
		o.CliErr = r.cliErr.Error()
	}
	if r.srvErr != nil {
		o.SrvErr = r.srvErr.Error()
	}
	if r.cliPanic != nil {
		o.CliPanic = fmt.Sprint(r.cliPanic)
	} else {
		o.CliComplete = cli.ConnectionState().HandshakeComplete && r.cliErr == nil
		o.Suite, o.WantSuite = cli.ConnectionState().CipherSuite, suites[0]
	}
	if r.srvPanic != nil {
		o.SrvPanic = fmt.Sprint(r.srvPanic) + string(debugStack())
	} else {
		o.SrvComplete = srv.ConnectionState().HandshakeComplete && r.srvErr == nil
	}
	return o, nil
}

// c08-run <cases.ndjson> <obs.ndjson>
func c08run(args []string) error {
	gmtls.VerifFault = faultDispatch
	in, err := os.Open(args[0])
	if err != nil {
		return err
	}
	defer in.Close()
	outf, err := os.Create(args[1])
	if err != nil {
		return err
	}
	defer outf.Close()
	w := bufio.NewWriter(outf)
	defer w.Flush()
	// an earlier honest session under the same certificates supplies the material to replay (one per key exchange)
	reps := map[string]*advReplay{}
	for _, k := range [][2]string{{"gm", "ecc"}, {"tls", "rsa"}, {"tls", "ecdhe"}} {
		rep := &advReplay{}
		hon := advScenario{Proto: k[0], Kx: k[1], Suite: "CBC", Verify: true, SignCert: "good", EncCert: "good", SignKey: "right", EncKey: "right", Ske: "honest",
			Policy: "require", CliCert: "good", CliKey: "right", Cv: "honest", Mitm: "none"}
		o, err := runAdv(&hon, nil, rep)
		if err != nil {
			return err
		}
		rep.sr, rep.cr = o.SrvRandom, o.CliRandom
		okc := rep.sr != "" && rep.cr != ""
		switch k[1] {
		case "ecc":
			okc = okc && rep.ske != nil && rep.cv != nil
		case "rsa":
			okc = okc && rep.cvMsg != nil
		case "ecdhe":
			okc = okc && rep.skeMsg != nil && rep.cvMsg != nil
		}
		if !o.CliComplete || !o.SrvComplete || !okc {
			return fmt.Errorf("honest capture run %v failed: %+v", k, o)
		}
		reps[k[0]+"/"+k[1]] = rep
	}
	sc := bufio.NewScanner(in)
	sc.Buffer(make([]byte, 1<<20), 1<<26)
	for sc.Scan() {
		var row struct {
			Case json.RawMessage `json:"case"`
		}
		if err := json.Unmarshal(sc.Bytes(), &row); err != nil {
			return err
		}
		var s advScenario
		if err := json.Unmarshal(row.Case, &s); err != nil {
			return err
		}
		if s.Proto == "" {
			s.Proto, s.Kx = "gm", "ecc"
		}
		rep := reps[s.Proto+"/"+s.Kx]
		if rep == nil {
			return fmt.Errorf("no recorded session for %s/%s", s.Proto, s.Kx)
		}
		o, err := runAdv(&s, rep, nil)
		if err != nil {
			return err
		}
		// the replay scenarios are only realised if the intended random really is the recorded one
		if s.Ske == "same_server_random" && (o.SrvRandom != rep.sr || o.CliRandom == rep.cr) {
			return fmt.Errorf("scenario same_server_random not realised: server random %s vs recorded %s", o.SrvRandom, rep.sr)
		}
		if s.Ske == "same_client_random" && (o.CliRandom != rep.cr || o.SrvRandom == rep.sr) {
			return fmt.Errorf("scenario same_client_random not realised: client random %s vs recorded %s", o.CliRandom, rep.cr)
		}
		b, _ := json.Marshal(map[string]interface{}{"case": row.Case, "got": o})
		w.Write(b)
		w.WriteByte('\n')
	}
	return sc.Err()
}

func init() { cmds["c08-run"] = c08run }
