package main

// C03: replays TLC's group walks and table cases on sm2.P256Sm2(), GenerateKey, and (white box, verif
// accessors) the limb arithmetic and the comb table.

import (
	"bufio"
	"bytes"
	"encoding/json"
	"fmt"
	"io"
	"math/big"
	"os"

	"github.com/tjfoc/gmsm/sm2"
)

func hx(s string) *big.Int {
	v, ok := new(big.Int).SetString(s, 16)
	if !ok {
		panic("bad hex " + s)
	}
	return v
}

type xy struct {
	X string `json:"x"`
	Y string `json:"y"`
}

func mkxy(x, y *big.Int) xy { return xy{x.Text(16), y.Text(16)} }

// hands its bytes out n per Read, then io.EOF
type chunkReader struct {
	b []byte
	n int
}

func (r *chunkReader) Read(p []byte) (int, error) {
	if len(r.b) == 0 {
		return 0, io.EOF
	}
	k := r.n
	if k > len(p) {
		k = len(p)
	}
	if k > len(r.b) {
		k = len(r.b)
	}
	copy(p, r.b[:k])
	r.b = r.b[k:]
	return k, nil
}

type shortReader struct {
	b []byte
}

func (r *shortReader) Read(p []byte) (int, error) {
	if len(r.b) == 0 {
		return 0, io.EOF
	}
	n := copy(p, r.b)
	r.b = r.b[n:]
	return n, nil
}

func c03Step(op map[string]interface{}) (res map[string]interface{}) {
	c := sm2.P256Sm2()
	res = map[string]interface{}{}
	defer func() {
		if p := recover(); p != nil {
			res["panic"] = fmt.Sprint(p)
		}
	}()
	pt := func(k string) (*big.Int, *big.Int) {
		m := op[k].(map[string]interface{})
		return hx(m["x"].(string)), hx(m["y"].(string))
	}
	kb := func() []byte {
		a := op["k"].([]interface{})
		b := make([]byte, len(a))
		for i, v := range a {
			b[i] = byte(v.(float64))
		}
		return b
	}
	switch op["op"] {
	case "add":
		px, py := pt("p")
		qx, qy := pt("q")
		x, y := c.Add(px, py, qx, qy)
		res["got"] = mkxy(x, y)
		x2, y2 := c.Add(qx, qy, px, py) // commutes
		res["got_swapped"] = mkxy(x2, y2)
	case "double":
		px, py := pt("p")
		x, y := c.Double(px, py)
		res["got"] = mkxy(x, y)
	case "mul":
		px, py := pt("p")
		x, y := c.ScalarMult(px, py, kb())
		res["got"] = mkxy(x, y)
	case "basemul":
		x, y := c.ScalarBaseMult(kb())
		res["got"] = mkxy(x, y)
	case "oncurve":
		res["got"] = c.IsOnCurve(hx(op["x"].(string)), hx(op["y"].(string)))
	}
	return res
}

// c03-walk <behaviours.ndjson> <obs.ndjson>
func c03walk(args []string) error {
	in, err := os.Open(args[0])
	if err != nil {
		return err
	}
	defer in.Close()
	outf, err := os.Create(args[1])
	if err != nil {
		return err
	}
	defer outf.Close()
	w := bufio.NewWriter(outf)
	defer w.Flush()
	sc := bufio.NewScanner(in)
	sc.Buffer(make([]byte, 1<<20), 1<<26)
	for sc.Scan() {
		var ops []map[string]interface{}
		if err := json.Unmarshal(sc.Bytes(), &ops); err != nil {
			return err
		}
		var out []map[string]interface{}
		for _, op := range ops {
			out = append(out, c03Step(op))
		}
		b, _ := json.Marshal(out)
		w.Write(b)
		w.WriteByte('\n')
	}
	return sc.Err()
}

// c03-table <cases.ndjson> <obs.ndjson>
func c03table(args []string) error {
	in, err := os.Open(args[0])
	if err != nil {
		return err
	}
	defer in.Close()
	outf, err := os.Create(args[1])
	if err != nil {
		return err
	}
	defer outf.Close()
	w := bufio.NewWriter(outf)
	defer w.Flush()
	c := sm2.P256Sm2()
	sc := bufio.NewScanner(in)
	sc.Buffer(make([]byte, 1<<20), 1<<26)
	for sc.Scan() {
		var row struct {
			Case map[string]interface{} `json:"case"`
			Data map[string]interface{} `json:"data"`
		}
		if err := json.Unmarshal(sc.Bytes(), &row); err != nil {
			return err
		}
		got := map[string]interface{}{}
		func() {
			defer func() {
				if p := recover(); p != nil {
					got["panic"] = fmt.Sprint(p)
				}
			}()
			bytesOf := func(k string) []byte {
				a, _ := row.Data[k].([]interface{})
				b := make([]byte, len(a))
				for i, v := range a {
					b[i] = byte(v.(float64))
				}
				return b
			}
			switch row.Case["kind"] {
			case "basemul":
				x, y := c.ScalarBaseMult(bytesOf("k"))
				got["xy"] = mkxy(x, y)
			case "mul":
				p := row.Data["p"].(map[string]interface{})
				x, y := c.ScalarMult(hx(p["x"].(string)), hx(p["y"].(string)), bytesOf("k"))
				got["xy"] = mkxy(x, y)
			case "addsamey":
				if ok, _ := row.Data["ok"].(bool); ok {
					p, q := row.Data["p"].(map[string]interface{}), row.Data["q"].(map[string]interface{})
					px, py, qx, qy := hx(p["x"].(string)), hx(p["y"].(string)), hx(q["x"].(string)), hx(q["y"].(string))
					x, y := c.Add(px, py, qx, qy)
					got["xy"] = mkxy(x, y)
					x, y = c.Add(qx, qy, px, py)
					got["xy_swapped"] = mkxy(x, y)
					got["q_oncurve"] = c.IsOnCurve(qx, qy)
				}
			case "genkey":
				rb := bytesOf("reader")
				k, err := sm2.GenerateKey(bytes.NewReader(rb))
				// the same bytes handed out 1 / 7 / 33 per Read (an io.Reader may return short reads): the same key
				for _, chunk := range []int{1, 7, 33} {
					k2, err2 := sm2.GenerateKey(&chunkReader{b: rb, n: chunk})
					if (err == nil) != (err2 == nil) || err == nil && k.D.Cmp(k2.D) != 0 {
						err = fmt.Errorf("the key depends on how the reader cuts its stream (%d bytes per Read): %v", chunk, err2)
						break
					}
				}
				if err != nil {
					got["err"] = err.Error()
				} else {
					got["d"] = k.D.Text(16)
					got["pub"] = mkxy(k.X, k.Y)
					got["oncurve"] = c.IsOnCurve(k.X, k.Y)
				}
				// a reader that runs dry must give an error, not a key
				_, err2 := sm2.GenerateKey(&shortReader{b: rb[:17]})
				_, err3 := sm2.GenerateKey(&shortReader{b: rb[:39]}) // one byte short of what key generation consumes
				_, err4 := sm2.GenerateKey(&chunkReader{b: rb[:32], n: 5})
				got["short_err"] = err2 != nil && err3 != nil && err4 != nil
			case "params":
				p := c.Params()
				got["params"] = map[string]interface{}{"p": p.P.Text(16), "n": p.N.Text(16), "b": p.B.Text(16), "gx": p.Gx.Text(16), "gy": p.Gy.Text(16), "bits": p.BitSize}
			case "field":
				a, b := hx(row.Data["a"].(string)), hx(row.Data["b"].(string))
				got["mul"] = sm2.VerifFieldOp("mul", a, b).Text(16)
				got["square"] = sm2.VerifFieldOp("square", a, nil).Text(16)
				got["add"] = sm2.VerifFieldOp("add", a, b).Text(16)
				got["sub"] = sm2.VerifFieldOp("sub", a, b).Text(16)
				got["roundtrip"] = sm2.VerifFieldOp("roundtrip", a, nil).Text(16)
				l := sm2.VerifLimbs(a)
				ls := make([]int, 9)
				for i, v := range l {
					ls[i] = int(v)
				}
				got["limbs"] = ls
			case "comb":
				xs, ys := sm2.VerifPrecomputed()
				t, i := int(row.Case["t"].(float64)), int(row.Case["i"].(float64))
				got["xy"] = mkxy(xs[t][i-1], ys[t][i-1])
			}
		}()
		b, _ := json.Marshal(map[string]interface{}{"case": row.Case, "got": got})
		w.Write(b)
		w.WriteByte('\n')
	}
	return sc.Err()
}

func init() {
	cmds["c03-walk"] = c03walk
	cmds["c03-table"] = c03table
}
