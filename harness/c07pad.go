package main

// C07 padding catalogue: keeps N established CBC sessions open, hands their key logs to TLC
// (RecordSeal.tla), injects the records TLC sealed and reports what the real receiver did.

import (
	"bufio"
	"bytes"
	"encoding/hex"
	"encoding/json"
	"fmt"
	"os"
	"strings"
	"time"

	"github.com/tjfoc/gmsm/gmtls"
)

type padRec struct {
	Seq     int   `json:"seq"`
	Pad     int   `json:"pad"`
	Corrupt int   `json:"corrupt"`
	Content []int `json:"content"`
}
type padJob struct {
	ID   int      `json:"id"`
	Ms   []int    `json:"ms"`
	Cr   []int    `json:"cr"`
	Sr   []int    `json:"sr"`
	Recs []padRec `json:"recs"`
}
type padConn struct {
	srv *gmtls.Conn
	m   *mitm
}

// c07-pad <plan.ndjson> <jobs.ndjson> <sealed.ndjson> <obs.ndjson>
// plan: one line per connection: {"recs":[{pad, corrupt}...]} ; waits for a line on stdin once jobs are written
func c07pad(args []string) error {
	pf, err := os.Open(args[0])
	if err != nil {
		return err
	}
	var plans [][]padRec
	sc := bufio.NewScanner(pf)
	for sc.Scan() {
		var p struct {
			Recs []padRec `json:"recs"`
		}
		if err := json.Unmarshal(sc.Bytes(), &p); err != nil {
			return err
		}
		plans = append(plans, p.Recs)
	}
	pf.Close()
	f, err := loadFixtures()
	if err != nil {
		return err
	}
	var conns []padConn
	var jobs []padJob
	for i, plan := range plans {
		var keylog bytes.Buffer
		cc := gmClientConfig(f, []uint16{gmtls.GMTLS_SM2_WITH_SM4_SM3})
		cc.ServerName = "localhost"
		cc.KeyLogWriter = &keylog
		sc := gmServerConfig(f, []uint16{gmtls.GMTLS_SM2_WITH_SM4_SM3})
		ce, se, m := newMitm()
		cli := gmtls.Client(ce, cc)
		srv := gmtls.Server(se, sc)
		r := runHandshake(cli, srv, 10*time.Second)
		if r.cliErr != nil || r.srvErr != nil || r.timedOut {
			return fmt.Errorf("handshake %d failed: %v %v", i, r.cliErr, r.srvErr)
		}
		parts := strings.Fields(keylog.String())
		crb, _ := hex.DecodeString(parts[1])
		msb, _ := hex.DecodeString(parts[2])
		m.s2c.mu.Lock()
		sh := m.s2c.seen[0].body
		m.s2c.mu.Unlock()
		job := padJob{ID: i, Ms: ints(msb), Cr: ints(crb), Sr: ints(sh[6:38])}
		for k, p := range plan {
			// content length chosen so that content + MAC(32) + padding(pad+1) fills whole blocks
			n := (16 - (33+p.Pad)%16) % 16
			if n == 0 {
				n = 16
			}
			content := make([]int, n)
			for j := range content {
				content[j] = 97 + (i+k+j)%26
			}
			job.Recs = append(job.Recs, padRec{Seq: k + 1, Pad: p.Pad, Corrupt: p.Corrupt, Content: content})
		}
		jobs = append(jobs, job)
		conns = append(conns, padConn{srv, m})
	}
	jf, err := os.Create(args[1])
	if err != nil {
		return err
	}
	w := bufio.NewWriter(jf)
	for _, j := range jobs {
		b, _ := json.Marshal(j)
		w.Write(b)
		w.WriteByte('\n')
	}
	w.Flush()
	jf.Close()
	fmt.Println("READY")
	os.Stdout.Sync()
	// wait for TLC
	in := bufio.NewReader(os.Stdin)
	if _, err := in.ReadString('\n'); err != nil {
		return fmt.Errorf("no go-ahead: %v", err)
	}
	sf, err := os.Open(args[2])
	if err != nil {
		return err
	}
	sealed := map[int][]struct {
		Body  []int `json:"body"`
		Valid bool  `json:"valid"`
	}{}
	ssc := bufio.NewScanner(sf)
	ssc.Buffer(make([]byte, 1<<20), 1<<26)
	for ssc.Scan() {
		var s struct {
			ID   int `json:"id"`
			Recs []struct {
				Body  []int `json:"body"`
				Valid bool  `json:"valid"`
			} `json:"recs"`
		}
		if err := json.Unmarshal(ssc.Bytes(), &s); err != nil {
			return err
		}
		sealed[s.ID] = s.Recs
	}
	sf.Close()
	of, err := os.Create(args[3])
	if err != nil {
		return err
	}
	defer of.Close()
	ow := bufio.NewWriter(of)
	defer ow.Flush()
	for i, pc := range conns {
		recs, ok := sealed[i]
		if !ok {
			return fmt.Errorf("no sealed records for connection %d", i)
		}
		for k, r := range recs {
			rec := &record{hdr: [5]byte{23, 1, 1, 0, 0}, body: toBytes(r.Body)}
			setLen(rec)
			go pc.m.c2s.to.Write(rec.bytes())
			buf := make([]byte, 1024)
			pc.srv.SetReadDeadline(time.Now().Add(3 * time.Second))
			n, err := pc.srv.Read(buf)
			res := map[string]interface{}{"conn": i, "k": k, "pad": jobs[i].Recs[k].Pad, "corrupt": jobs[i].Recs[k].Corrupt, "valid": r.Valid,
				"delivered": ints(buf[:n]), "want": jobs[i].Recs[k].Content, "err": ""}
			if err != nil {
				res["err"] = err.Error()
			}
			b, _ := json.Marshal(res)
			ow.Write(b)
			ow.WriteByte('\n')
			if err != nil {
				break
			}
		}
		pc.m.close()
	}
	return nil
}

func init() { cmds["c07-pad"] = c07pad }
