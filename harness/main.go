package main

import (
	"fmt"
	"os"
)

type cmdFn func(args []string) error

var cmds = map[string]cmdFn{}

func main() {
	if len(os.Args) < 2 {
		fmt.Fprintln(os.Stderr, "usage: h <cmd> args...")
		os.Exit(2)
	}
	f, ok := cmds[os.Args[1]]
	if !ok {
		fmt.Fprintln(os.Stderr, "unknown command", os.Args[1])
		os.Exit(2)
	}
	if err := f(os.Args[2:]); err != nil {
		fmt.Fprintln(os.Stderr, "harness error:", err)
		os.Exit(2)
	}
}
