package main

// C18: decoders of untrusted bytes fail closed.  Builds a corpus of valid encodings with the library,
// hands it to TLC (TLV.tla yields the TLV nodes of each item), then applies the mutation catalogue and runs
// every decoder under recover and a deadline.

import (
	"bufio"
	"bytes"
	"crypto/rand"
	"crypto/rsa"
	"crypto/x509/pkix"
	"encoding/hex"
	"encoding/json"
	"encoding/pem"
	"fmt"
	"math/big"
	"os"
	"regexp"
	"runtime/metrics"
	"sort"
	"strings"
	"sync/atomic"
	"time"

	"github.com/tjfoc/gmsm/gmtls"
	"github.com/tjfoc/gmsm/pkcs12"
	"github.com/tjfoc/gmsm/sm2"
	"github.com/tjfoc/gmsm/sm4"
	"github.com/tjfoc/gmsm/x509"
)

type corpusItem struct {
	Name  string `json:"name"`
	Class string `json:"class"` // which decoders apply
	Bytes []int  `json:"bytes"`
	ASN1  bool   `json:"asn1"` // TLV-structured: gets the structural mutations
	// byte ranges that carry a password-stretching iteration count (exempt from the time bound)
	Exempt [][2]int `json:"exempt"`
}

type decoderFn func(b []byte)

type c18Env struct {
	keyPEM  []byte
	certPEM []byte
	rsaKey  *rsa.PrivateKey
	priv    *sm2.PrivateKey
	cert    *x509.Certificate
	ticketC *gmtls.Config
}

var env18 c18Env

func decodersFor(class string) map[string]decoderFn {
	e := &env18
	switch class {
	case "cert":
		return map[string]decoderFn{"ParseCertificate": func(b []byte) { x509.ParseCertificate(b) }, "ParseCertificates": func(b []byte) { x509.ParseCertificates(b) },
			"ReadCertificateFromPem": func(b []byte) { x509.ReadCertificateFromPem(b) }, "ParseSm2CertifateToX509": func(b []byte) { x509.ParseSm2CertifateToX509(b) }}
	case "csr":
		return map[string]decoderFn{"ParseCertificateRequest": func(b []byte) { x509.ParseCertificateRequest(b) }}
	case "crl":
		return map[string]decoderFn{"ParseDERCRL": func(b []byte) { x509.ParseDERCRL(b) }, "ParseCRL": func(b []byte) { x509.ParseCRL(b) }}
	case "pkcs7":
		return map[string]decoderFn{"ParsePKCS7": func(b []byte) {
			p, err := x509.ParsePKCS7(b)
			if err == nil && p != nil {
				p.Verify()
				p.DecryptSM2(e.cert, e.priv, sm2.C1C3C2)
				p.Decrypt(e.cert, e.rsaKey)
			}
		}, "ber2der": func(b []byte) { x509.VerifBer2Der(b) }}
	case "pkcs8":
		return map[string]decoderFn{"ParsePKCS8UnecryptedPrivateKey": func(b []byte) { x509.ParsePKCS8UnecryptedPrivateKey(b) }, "pkcs12.ParsePKCS8PrivateKey": func(b []byte) { pkcs12.ParsePKCS8PrivateKey(b) },
			"ParsePKCS8PrivateKey(nil)": func(b []byte) { x509.ParsePKCS8PrivateKey(b, nil) }, "ParseSm2PrivateKey": func(b []byte) { x509.ParseSm2PrivateKey(b) }}
	case "pkcs8enc":
		return map[string]decoderFn{"ParsePKCS8PrivateKey(pwd)": func(b []byte) { x509.ParsePKCS8PrivateKey(b, []byte("pw")) },
			"ParsePKCS8EcryptedPrivateKey": func(b []byte) { x509.ParsePKCS8EcryptedPrivateKey(b, []byte("pw")) }}
	case "pem":
		return map[string]decoderFn{"ReadPrivateKeyFromPem": func(b []byte) { x509.ReadPrivateKeyFromPem(b, nil) }, "ReadPublicKeyFromPem": func(b []byte) { x509.ReadPublicKeyFromPem(b) },
			"ReadCertificateFromPem": func(b []byte) { x509.ReadCertificateFromPem(b) }, "ReadCertificateRequestFromPem": func(b []byte) { x509.ReadCertificateRequestFromPem(b) }}
	case "pempair":
		return map[string]decoderFn{"gmtls.X509KeyPair(cert := input)": func(b []byte) { gmtls.X509KeyPair(b, e.keyPEM) }, "gmtls.X509KeyPair(key := input)": func(b []byte) { gmtls.X509KeyPair(e.certPEM, b) },
			"gmtls.GMX509KeyPairsSingle(cert := input)": func(b []byte) { gmtls.GMX509KeyPairsSingle(b, e.keyPEM) }, "gmtls.GMX509KeyPairsSingle(key := input)": func(b []byte) { gmtls.GMX509KeyPairsSingle(e.certPEM, b) },
			"CertPool.AppendCertsFromPEM": func(b []byte) { x509.NewCertPool().AppendCertsFromPEM(b) }}
	case "pemenc":
		return map[string]decoderFn{"ReadPrivateKeyFromPem(pwd)": func(b []byte) { x509.ReadPrivateKeyFromPem(b, []byte("pw")) }}
	case "sm4pem":
		return map[string]decoderFn{"sm4.ReadKeyFromPem": func(b []byte) { sm4.ReadKeyFromPem(b, nil) }, "sm4.ReadKeyFromPem(pwd)": func(b []byte) { sm4.ReadKeyFromPem(b, []byte("pw")) }}
	case "pkcs1":
		return map[string]decoderFn{"ParsePKCS1PrivateKey": func(b []byte) { x509.ParsePKCS1PrivateKey(b) }, "pkcs12.ParsePKCS8PrivateKey": func(b []byte) { pkcs12.ParsePKCS8PrivateKey(b) }}
	case "pubkey":
		return map[string]decoderFn{"ParseSm2PublicKey": func(b []byte) { x509.ParseSm2PublicKey(b) }, "ParsePKIXPublicKey": func(b []byte) { x509.ParsePKIXPublicKey(b) }}
	case "hex":
		return map[string]decoderFn{"ReadPrivateKeyFromHex": func(b []byte) { x509.ReadPrivateKeyFromHex(string(b)) }, "ReadPublicKeyFromHex": func(b []byte) { x509.ReadPublicKeyFromHex(string(b)) }}
	case "pkcs12":
		return map[string]decoderFn{"pkcs12.Decode": func(b []byte) { pkcs12.Decode(b, "pw") }, "pkcs12.DecodeAll": func(b []byte) { pkcs12.DecodeAll(b, "pw") },
			"pkcs12.ToPEM": func(b []byte) { pkcs12.ToPEM(b, "pw") }}
	case "sm2raw":
		return map[string]decoderFn{"sm2.Decrypt(C1C3C2)": func(b []byte) { sm2.Decrypt(e.priv, b, sm2.C1C3C2) }, "sm2.Decrypt(C1C2C3)": func(b []byte) { sm2.Decrypt(e.priv, b, sm2.C1C2C3) },
			"sm2.CipherMarshal": func(b []byte) { sm2.CipherMarshal(b) }, "PrivateKey.Decrypt": func(b []byte) { e.priv.Decrypt(nil, b, nil) }}
	case "sm2asn1":
		return map[string]decoderFn{"sm2.DecryptAsn1": func(b []byte) { sm2.DecryptAsn1(e.priv, b) }, "sm2.CipherUnmarshal": func(b []byte) { sm2.CipherUnmarshal(b) }}
	case "sig":
		return map[string]decoderFn{"PublicKey.Verify": func(b []byte) { e.priv.PublicKey.Verify([]byte("m"), b) }, "sm2.SignDataToSignDigit": func(b []byte) { sm2.SignDataToSignDigit(b) }}
	case "point":
		return map[string]decoderFn{"sm2.Decompress": func(b []byte) { sm2.Decompress(b) }}
	case "hsmsg":
		return map[string]decoderFn{"handshake unmarshal (GM)": func(b []byte) { gmtls.VerifUnmarshalHandshake(b, true, 0x0101) },
			"handshake unmarshal (TLS 1.2)": func(b []byte) { gmtls.VerifUnmarshalHandshake(b, false, 0x0303) }}
	case "ticket":
		return map[string]decoderFn{"decryptTicket": func(b []byte) { gmtls.VerifDecryptTicket(e.ticketC, b) }}
	case "sessionstate":
		return map[string]decoderFn{"sessionState.unmarshal": func(b []byte) { gmtls.VerifSessionStateUnmarshal(b) }}
	}
	return nil
}

func buildCorpus() ([]corpusItem, error) {
	var items []corpusItem
	add := func(name, class string, b []byte, asn bool) {
		it := corpusItem{Name: name, Class: class, Bytes: ints(b), ASN1: asn}
		// PBKDF2 / PKCS#12 iteration counts: INTEGER 2048 = 02 02 08 00
		if class == "pkcs8enc" || class == "pkcs12" {
			for i := 0; i+4 <= len(b); i++ {
				if b[i] == 2 && b[i+1] == 2 && b[i+2] == 8 && b[i+3] == 0 {
					it.Exempt = append(it.Exempt, [2]int{i, i + 4})
				}
			}
		}
		items = append(items, it)
	}
	p, err := loadAdvPKI()
	if err != nil {
		return nil, err
	}
	priv, _ := sm2.GenerateKey(rand.Reader)
	leaf, lc, err := p.ca.issue(leafOpt{cn: "corpus", dns: []string{"c.example.com"}, usage: x509.KeyUsageDigitalSignature | x509.KeyUsageKeyEncipherment,
		eku: []x509.ExtKeyUsage{x509.ExtKeyUsageServerAuth}})
	if err != nil {
		return nil, err
	}
	priv = leaf.PrivateKey.(*sm2.PrivateKey)
	env18.priv, env18.cert = priv, lc
	add("certificate", "cert", lc.Raw, true)
	csr, err := x509.CreateCertificateRequest(rand.Reader, &x509.CertificateRequest{Subject: pkix.Name{CommonName: "r"}, DNSNames: []string{"r.example.com"}, SignatureAlgorithm: x509.SM2WithSM3}, priv)
	if err != nil {
		return nil, err
	}
	add("request", "csr", csr, true)
	now := time.Now()
	crl, err := p.ca.cert.CreateCRL(rand.Reader, p.ca.key, []pkix.RevokedCertificate{{SerialNumber: big.NewInt(5), RevocationTime: now}}, now, now.Add(time.Hour))
	if err != nil {
		return nil, err
	}
	add("crl", "crl", crl, true)
	// the PEM forms the same decoders accept: the CRL alone, behind a block of another type, with text around the blocks
	crlPEM := pem.EncodeToMemory(&pem.Block{Type: "X509 CRL", Bytes: crl})
	add("crl (PEM)", "crl", crlPEM, false)
	add("crl (PEM, behind a certificate block and text)", "crl", append(append(pem.EncodeToMemory(&pem.Block{Type: "CERTIFICATE", Bytes: lc.Raw}), []byte("some text\n")...), crlPEM...), false)
	add("request (PEM)", "pem", pem.EncodeToMemory(&pem.Block{Type: "CERTIFICATE REQUEST", Bytes: csr}), false)
	env, err := x509.PKCS7EncryptSM2([]byte("enveloped content 0123456789"), []*x509.Certificate{lc}, sm2.C1C3C2)
	if err != nil {
		return nil, err
	}
	add("pkcs7 enveloped", "pkcs7", env, true)
	if sd, err := x509.NewSignedData([]byte("signed content")); err == nil {
		sd.AddCertificate(lc)
		if b, err := sd.Finish(); err == nil {
			add("pkcs7 signed (degenerate)", "pkcs7", b, true)
		}
	}
	p8, err := x509.MarshalSm2UnecryptedPrivateKey(priv)
	if err != nil {
		return nil, err
	}
	add("pkcs8", "pkcs8", p8, true)
	p8e, err := x509.MarshalSm2EcryptedPrivateKey(priv, []byte("pw"))
	if err != nil {
		return nil, err
	}
	add("pkcs8 encrypted", "pkcs8enc", p8e, true)
	pemKey, _ := x509.WritePrivateKeyToPem(priv, nil)
	add("pem private key", "pem", pemKey, false)
	pemEnc, _ := x509.WritePrivateKeyToPem(priv, []byte("pw"))
	add("pem private key (encrypted)", "pemenc", pemEnc, false)
	certPEM := pem.EncodeToMemory(&pem.Block{Type: "CERTIFICATE", Bytes: lc.Raw})
	add("pem certificate", "pempair", certPEM, false)
	add("pem key for pair", "pempair", pemKey, false)
	k4, _ := sm4.WriteKeyToPem(sm4.SM4Key(bytes.Repeat([]byte{7}, 16)), nil)
	add("sm4 key pem", "sm4pem", k4, false)
	k4e, _ := sm4.WriteKeyToPem(sm4.SM4Key(bytes.Repeat([]byte{7}, 16)), []byte("pw"))
	add("sm4 key pem (encrypted)", "sm4pem", k4e, false)
	add("pkcs1 rsa key", "pkcs1", x509.MarshalPKCS1PrivateKey(rsaKeyOf()), true)
	pemPub, _ := x509.WritePublicKeyToPem(&priv.PublicKey)
	add("pem public key", "pem", pemPub, false)
	pk, _ := x509.MarshalSm2PublicKey(&priv.PublicKey)
	add("pkix public key", "pubkey", pk, true)
	add("hex private key", "hex", []byte(x509.WritePrivateKeyToHex(priv)), false)
	add("hex public key", "hex", []byte(x509.WritePublicKeyToHex(&priv.PublicKey)), false)
	// the other spellings of a point in hex: compressed (02 / 03 || X) and hybrid (06 / 07 || X || Y) - readers that know only the
	// uncompressed form refuse them, readers that expand them must cope with an X that is on no point
	xhex := hex.EncodeToString(priv.PublicKey.X.FillBytes(make([]byte, 32)))
	yhex := hex.EncodeToString(priv.PublicKey.Y.FillBytes(make([]byte, 32)))
	add("hex public key (compressed 02)", "hex", []byte("02"+xhex), false)
	add("hex public key (compressed 03)", "hex", []byte("03"+xhex), false)
	add("hex public key (hybrid 06)", "hex", []byte("06"+xhex+yhex), false)
	add("hex public key (compressed, X = 2)", "hex", []byte("02"+strings.Repeat("0", 63)+"2"), false)
	add("hex public key (compressed, X = p)", "hex", []byte("03fffffffeffffffffffffffffffffffffffffffff00000000ffffffffffffffff"), false)
	if b, err := pkcs12Encode(priv, lc, p.ca.cert); err == nil {
		add("pkcs12", "pkcs12", b, true)
	} else {
		return nil, fmt.Errorf("pkcs12: %v", err)
	}
	raw, err := sm2.Encrypt(&priv.PublicKey, []byte("sm2 ciphertext corpus item"), rand.Reader, sm2.C1C3C2)
	if err != nil {
		return nil, err
	}
	add("sm2 ciphertext raw", "sm2raw", raw, false)
	a1, _ := sm2.CipherMarshal(raw)
	add("sm2 ciphertext asn1", "sm2asn1", a1, true)
	sig, _ := priv.Sign(rand.Reader, []byte("m"), nil)
	add("signature", "sig", sig, true)
	add("compressed point", "point", sm2.Compress(&priv.PublicKey), false)
	// TLS handshake messages from an honest GM run with client auth
	b0 := c15Case{Role: "server_gm", Ca: true, Op: peerOp{Op: "none"}}
	if _, err := runC15(&b0, true); err != nil {
		return nil, err
	}
	b1 := c15Case{Role: "client_gm", Ca: true, Op: peerOp{Op: "none"}}
	if _, err := runC15(&b1, true); err != nil {
		return nil, err
	}
	lib.mu.Lock()
	var keys []string
	for k := range lib.m {
		if strings.HasPrefix(k, "server_gmtrue/") || strings.HasPrefix(k, "client_gmtrue/") {
			keys = append(keys, k)
		}
	}
	sort.Strings(keys)
	seenKind := map[string]bool{}
	for _, k := range keys {
		kind := k[strings.Index(k, "/")+1:]
		if !seenKind[kind] {
			seenKind[kind] = true
			add("handshake "+kind, "hsmsg", lib.m[k], false)
		}
	}
	lib.mu.Unlock()
	add("handshake NST", "hsmsg", synth("NST"), false)
	add("handshake FIN", "hsmsg", synth("FIN"), false)
	// a session ticket and its plaintext state
	env18.ticketC = &gmtls.Config{}
	var key [32]byte
	key[0] = 7
	env18.ticketC.SetSessionTicketKeys([][32]byte{key})
	if t, st, err := captureTicket(key); err == nil {
		add("session ticket", "ticket", t, false)
		_ = st
		// plaintext session state: vers, suite, master secret, one certificate
		ss := []byte{0x01, 0x01, 0xe0, 0x13, 0, 48}
		ss = append(ss, bytes.Repeat([]byte{0x5a}, 48)...)
		ss = append(ss, 0, 1, byte(len(lc.Raw)>>24), byte(len(lc.Raw)>>16), byte(len(lc.Raw)>>8), byte(len(lc.Raw)))
		ss = append(ss, lc.Raw...)
		if !gmtls.VerifSessionStateUnmarshal(ss) {
			return nil, fmt.Errorf("synthetic session state does not parse")
		}
		add("session state", "sessionstate", ss, false)
	} else {
		return nil, err
	}
	return items, nil
}

// one resumable GM session: returns the ticket the client cached
func captureTicket(key [32]byte) ([]byte, []byte, error) {
	f, err := loadFixtures()
	if err != nil {
		return nil, nil, err
	}
	suites := []uint16{gmtls.GMTLS_SM2_WITH_SM4_SM3}
	sc := &gmtls.Config{GMSupport: &gmtls.GMSupport{}, Certificates: []gmtls.Certificate{f.sig, f.enc}, CipherSuites: suites}
	sc.SetSessionTicketKeys([][32]byte{key})
	cache := gmtls.NewLRUClientSessionCache(2)
	cc := &gmtls.Config{GMSupport: &gmtls.GMSupport{}, InsecureSkipVerify: true, ServerName: "t", CipherSuites: suites, ClientSessionCache: cache}
	ce, se, m := newMitm()
	defer m.close()
	r := runHandshake(gmtls.Client(ce, cc), gmtls.Server(se, sc), 10*time.Second)
	if r.cliErr != nil || r.srvErr != nil {
		return nil, nil, fmt.Errorf("ticket session: %v %v", r.cliErr, r.srvErr)
	}
	cs, ok := cache.Get("t")
	if !ok || cs == nil {
		return nil, nil, fmt.Errorf("no ticket cached")
	}
	return gmtls.VerifSessionTicket(cs), nil, nil
}

// ---- running one input through the decoders of its class ----
type c18Fail struct {
	Item    string `json:"item"`
	Decoder string `json:"decoder"`
	Kind    string `json:"kind"` // panic | hang | memory
	Detail  string `json:"detail"`
	Mut     string `json:"mut"`
	Input   string `json:"input"` // hex (truncated)
}

type c18Stats struct {
	Inputs, Calls, Exempt int
	Fails                 []c18Fail
	seen                  map[string]bool
	deferred              []c18Deferred
	draining              bool
	lastFailed            bool           // the last input run failed in some decoder (reported or a repetition of a reported failure)
	hangs                 map[string]int // per decoder: calls that did not return; each leaves a goroutine burning a core
	Skipped               int
}

// Inputs whose iteration count may have been changed are kept for the end of the sweep (runDeferred): a decoder that is
// still stretching a password when its deadline passes goes on allocating in the background, and the allocation counter
// is process-wide - every measurement taken while such a call is alive would be polluted by it.
func (s *c18Stats) run(it *corpusItem, mut string, b []byte, exempt bool) {
	if exempt && !s.draining {
		s.deferred = append(s.deferred, c18Deferred{it, mut, append([]byte(nil), b...)})
		return
	}
	s.runNow(it, mut, b, exempt)
}

func (s *c18Stats) runDeferred() {
	s.draining = true
	for _, d := range s.deferred {
		s.runNow(d.it, d.mut, d.b, true)
	}
	s.deferred = nil
}

type c18Deferred struct {
	it  *corpusItem
	mut string
	b   []byte
}

func (s *c18Stats) runNow(it *corpusItem, mut string, b []byte, exempt bool) {
	s.Inputs++
	s.lastFailed = false
	if s.hangs == nil {
		s.hangs = map[string]int{}
	}
	for name, fn := range decodersFor(it.Class) {
		if s.hangs[name] >= 3 {
			// this decoder has not returned three times already (a violation is reported for each distinct item); every
			// further hang costs 3 s and leaves another goroutine spinning, so the decoder is left out from here on
			s.Skipped++
			continue
		}
		s.Calls++
		done := make(chan string, 1)
		a0 := allocBytes()
		go func() {
			done <- recoverStr(func() { fn(append([]byte(nil), b...)) })
		}()
		var fail *c18Fail
		select {
		case p := <-done:
			if p != "" {
				fail = &c18Fail{Kind: "panic", Detail: p}
			}
		case <-time.After(map[bool]time.Duration{false: 3 * time.Second, true: time.Second}[exempt]):
			if exempt {
				s.Exempt++
			} else {
				fail = &c18Fail{Kind: "hang", Detail: "no result within 3 s"}
			}
		}
		if fail == nil && !exempt {
			// (an input whose iteration count was changed is exempt: the counter below adds up every allocation of every iteration)
			// RSA / SM2 / KDF work behind a decoder allocates a few hundred KB whatever the input; the bound is linear in the input
			if grown := allocBytes() - a0; grown > uint64(256*len(b)+(8<<20)) {
				fail = &c18Fail{Kind: "memory", Detail: fmt.Sprintf("%d bytes allocated for a %d-byte input", grown, len(b))}
			}
		}
		if fail != nil {
			s.lastFailed = true
			if fail.Kind == "hang" {
				s.hangs[name]++
			}
			fail.Item, fail.Decoder, fail.Mut = it.Name, name, mut
			key := fail.Item + "|" + fail.Decoder + "|" + fail.Kind + "|" + digitsRe.ReplaceAllString(strings.SplitN(fail.Detail, "\n", 2)[0], "N")
			if s.seen == nil {
				s.seen = map[string]bool{}
			}
			if !s.seen[key] { // one report per (item, decoder, failure): the first input that shows it
				s.seen[key] = true
				h := hex.EncodeToString(b)
				if len(h) > 400 {
					h = h[:400] + "..."
				}
				fail.Input = h
				s.Fails = append(s.Fails, *fail)
			}
		}
	}
}

type tlvNode struct {
	Tag    int  `json:"tag"`    // 1-based offset of the identifier octet
	LenOff int  `json:"lenoff"` // 1-based offset of the first length octet
	LenSz  int  `json:"lensz"`
	Len    int  `json:"len"`
	Cons   bool `json:"cons"`
}

func inExempt(it *corpusItem, lo, hi int) bool {
	for _, r := range it.Exempt {
		if lo < r[1] && hi > r[0] {
			return true
		}
	}
	return false
}

// c18-corpus <corpus.ndjson>
func c18corpus(args []string) error {
	items, err := buildCorpus()
	if err != nil {
		return err
	}
	f, err := os.Create(args[0])
	if err != nil {
		return err
	}
	defer f.Close()
	w := bufio.NewWriter(f)
	defer w.Flush()
	for _, it := range items {
		b, _ := json.Marshal(it)
		w.Write(b)
		w.WriteByte('\n')
	}
	// the key material the decoders need is regenerated per process: keep it for c18-run through a side file
	kp, _ := x509.WritePrivateKeyToPem(env18.priv, nil)
	side := map[string]interface{}{"priv": env18.priv.D.Text(16), "cert": ints(env18.cert.Raw), "keypem": string(kp)}
	sb, _ := json.Marshal(side)
	return os.WriteFile(args[0]+".env", sb, 0600)
}

// c18-run <corpus.ndjson> <nodes.ndjson> <shortstrings.ndjson|-> <out.json> <dense 0|1> <seed>
func c18run(args []string) error {
	// environment
	sb, err := os.ReadFile(args[0] + ".env")
	if err != nil {
		return err
	}
	var side struct {
		Priv string `json:"priv"`
		Cert []int  `json:"cert"`
		KeyP string `json:"keypem"`
	}
	json.Unmarshal(sb, &side)
	env18.priv = privOf(side.Priv)
	env18.cert, _ = x509.ParseCertificate(toBytes(side.Cert))
	env18.keyPEM = []byte(side.KeyP)
	env18.certPEM = pem.EncodeToMemory(&pem.Block{Type: "CERTIFICATE", Bytes: toBytes(side.Cert)})
	env18.rsaKey = rsaKeyOf()
	env18.ticketC = &gmtls.Config{}
	var key [32]byte
	key[0] = 7
	env18.ticketC.SetSessionTicketKeys([][32]byte{key})
	var items []corpusItem
	cf, err := os.Open(args[0])
	if err != nil {
		return err
	}
	sc := bufio.NewScanner(cf)
	sc.Buffer(make([]byte, 1<<20), 1<<27)
	for sc.Scan() {
		var it corpusItem
		if err := json.Unmarshal(sc.Bytes(), &it); err != nil {
			return err
		}
		items = append(items, it)
	}
	cf.Close()
	nodes := map[string][]tlvNode{}
	nf, err := os.Open(args[1])
	if err != nil {
		return err
	}
	sc = bufio.NewScanner(nf)
	sc.Buffer(make([]byte, 1<<20), 1<<27)
	for sc.Scan() {
		var n struct {
			Name  string    `json:"name"`
			Nodes []tlvNode `json:"nodes"`
		}
		if err := json.Unmarshal(sc.Bytes(), &n); err != nil {
			return err
		}
		nodes[n.Name] = n.Nodes
	}
	nf.Close()
	dense := args[4] == "1"
	seed := int64(1)
	fmt.Sscan(args[5], &seed)
	rnd := newLCG(seed)
	st := &c18Stats{}
	perFamily := map[string]int{}
	for i := range items {
		it := &items[i]
		orig := toBytes(it.Bytes)
		st.run(it, "unchanged", orig, false)
		// every truncation
		for n := 0; n < len(orig); n++ {
			if !dense && len(orig) > 300 && n%7 != int(seed)%7 && n > 40 && n < len(orig)-40 {
				continue
			}
			st.run(it, fmt.Sprint("truncate to ", n), orig[:n], false)
			perFamily["truncate"]++
		}
		// single-byte substitutions from the alphabet {00,01,7f,80,ff,b^1,b^0x80}
		for pos := 0; pos < len(orig); pos++ {
			if !dense && len(orig) > 200 && rnd.next()%uint64(len(orig)/150+1) != 0 {
				continue
			}
			for _, v := range []int{0x00, 0x01, 0x7f, 0x80, 0xff, int(orig[pos]) ^ 1, int(orig[pos]) ^ 0x80} {
				if byte(v) == orig[pos] {
					continue
				}
				m := append([]byte(nil), orig...)
				m[pos] = byte(v)
				st.run(it, fmt.Sprintf("byte %d := %02x", pos, v), m, inExempt(it, pos, pos+1))
				perFamily["substitute"]++
			}
		}
		// structural mutations on the TLV nodes that TLC extracted
		for _, nd := range nodes[it.Name] {
			lo := nd.LenOff - 1
			variants := [][]byte{{0}, {0x80}, {0x84, 0xff, 0xff, 0xff, 0xff}, {0x81, 0}, {0x82, 0, 0}, {0x84, 0x7f, 0xff, 0xff, 0xff}, {0x84, 0x80, 0, 0, 0},
				{0x85, 1, 0, 0, 0, 0}, {0x88, 0x7f, 0xff, 0xff, 0xff, 0xff, 0xff, 0xff, 0xff}, {0x88, 0xff, 0xff, 0xff, 0xff, 0xff, 0xff, 0xff, 0xff},
				{0x88, 0x80, 0, 0, 0, 0, 0, 0, 0}, {0x88, 0, 0, 0, 0, 0, 0, 0, 1}, {0x89, 1, 0, 0, 0, 0, 0, 0, 0, 0}, {0xff}}
			if nd.Len > 0 {
				variants = append(variants, derLen(nd.Len-1))
			}
			if nd.Len >= 0 {
				variants = append(variants, derLen(nd.Len+1))
			}
			for _, v := range variants {
				m := append(append(append([]byte(nil), orig[:lo]...), v...), orig[lo+nd.LenSz:]...)
				st.run(it, fmt.Sprintf("length of TLV at %d := % x", nd.Tag-1, v), m, inExempt(it, lo-2, lo+nd.LenSz+4))
				perFamily["length"]++
			}
			for _, t := range []byte{0x02, 0x03, 0x04, 0x05, 0x06, 0x0c, 0x13, 0x17, 0x30, 0x31, 0xa0} {
				if orig[nd.Tag-1] == t {
					continue
				}
				m := append([]byte(nil), orig...)
				m[nd.Tag-1] = t
				st.run(it, fmt.Sprintf("tag at %d := %02x", nd.Tag-1, t), m, inExempt(it, nd.Tag-1, nd.Tag+3))
				perFamily["tag"]++
			}
		}
		// well-formed structural changes: the content of one node is replaced and every enclosing length re-encoded,
		// so the decoder's own field handling (not the ASN.1 layer) sees values of unexpected size
		nds := nodes[it.Name]
		for ni, nd := range nds {
			if nd.Len < 0 {
				continue
			}
			cs := nd.LenOff - 1 + nd.LenSz
			content := orig[cs : cs+nd.Len]
			var repl [][]byte
			repl = append(repl, nil)
			if !nd.Cons {
				for _, k := range []int{1, 2, 8, 33, 34, 66, 300} {
					repl = append(repl, append(bytes.Repeat([]byte{0x7f}, k), content...)) // grown in front
					repl = append(repl, bytes.Repeat([]byte{0xff}, k))
					repl = append(repl, bytes.Repeat([]byte{0x00}, k))
				}
				if nd.Len > 1 {
					repl = append(repl, content[:1], content[1:], content[:nd.Len-1])
				}
			} else {
				repl = append(repl, append(append([]byte(nil), content...), content...)) // children twice
				// first child only / without first child
				if first := childEnd(nds, ni, cs); first > 0 {
					repl = append(repl, orig[cs:first], orig[first:cs+nd.Len])
				}
			}
			var ins [][]byte
			var insInt []bool
			if nd.Cons {
				// an element the producer never writes - an OPTIONAL field, a further member - inserted at every position
				// among the components (direct children are the nodes that start where the previous one ends)
				var cuts []int
				for p, k := cs, ni+1; p < cs+nd.Len && k < len(nds); {
					cuts = append(cuts, p)
					for k < len(nds) && nds[k].Tag-1 < p {
						k++
					}
					if k >= len(nds) || nds[k].Tag-1 != p || nds[k].Len < 0 {
						break
					}
					p = nds[k].LenOff - 1 + nds[k].LenSz + nds[k].Len
					k++
				}
				cuts = append(cuts, cs+nd.Len)
				extra := [][]byte{{0x02, 0x01, 0xff}, {0x02, 0x04, 0x80, 0x00, 0x00, 0x00}, {0x02, 0x05, 0x00, 0xff, 0xff, 0xff, 0xff},
					{0x02, 0x09, 0x00, 0xff, 0xff, 0xff, 0xff, 0xff, 0xff, 0xff, 0xff}, {0x05, 0x00}, {0x04, 0x00}, {0x30, 0x00}, {0x01, 0x01, 0xff}}
				seen := map[int]bool{}
				for _, c := range cuts {
					if seen[c] {
						continue
					}
					seen[c] = true
					for _, e := range extra {
						ins = append(ins, append(append(append([]byte(nil), orig[cs:c]...), e...), orig[c:cs+nd.Len]...))
						insInt = append(insInt, e[0] == 0x02)
					}
				}
			}
			for ri, r := range ins {
				if m := rebuild(orig, nds, ni, r); m != nil {
					// (in the password-based formats an inserted INTEGER may be read as the iteration count the format carries)
					ex := inExempt(it, nd.Tag-1, cs+nd.Len) || (it.Class == "pkcs8enc" || it.Class == "pkcs12") && insInt[ri]
					st.run(it, fmt.Sprintf("an element inserted among the components of the TLV at %d, lengths re-encoded", nd.Tag-1), m, ex)
					perFamily["insert"]++
				}
			}
			for _, r := range repl {
				m := rebuild(orig, nds, ni, r)
				if m == nil {
					continue
				}
				st.run(it, fmt.Sprintf("content of TLV at %d (%d bytes) := %d bytes, lengths re-encoded", nd.Tag-1, nd.Len, len(r)), m, inExempt(it, nd.Tag-1, cs+nd.Len))
				perFamily["resize"]++
			}
		}
		// BER segmentation: a primitive string value (OCTET STRING, or the [0] IMPLICIT OCTET STRING of encrypted content) is
		// re-encoded in the constructed form BER allows for it - one segment, two segments, empty segments in front / behind /
		// alone, no segment, nested constructed segments, a segment of another type, definite and indefinite length, a missing
		// end-of-contents - and every enclosing length re-encoded. The BER-reading decoders (PKCS#7) have to handle or refuse
		// these, the DER-reading ones to refuse them; none may hang on them.
		for ni, nd := range nds {
			tb := orig[nd.Tag-1]
			if nd.Len < 0 || nd.Cons || nd.LenOff != nd.Tag+1 || !(tb == 0x04 || tb == 0x80) {
				continue
			}
			cs := nd.LenOff - 1 + nd.LenSz
			c := orig[cs : cs+nd.Len]
			tlv := func(tag byte, parts ...[]byte) []byte {
				body := bytes.Join(parts, nil)
				return append(append([]byte{tag}, derLen(len(body))...), body...)
			}
			ind := func(tag byte, eoc bool, parts ...[]byte) []byte {
				b := append([]byte{tag, 0x80}, bytes.Join(parts, nil)...)
				if eoc {
					b = append(b, 0, 0)
				}
				return b
			}
			seg, empty, ct := tlv(0x04, c), []byte{0x04, 0x00}, tb|0x20
			half := len(c) / 2
			forms := map[string][]byte{
				"one segment":                        tlv(ct, seg),
				"two segments":                       tlv(ct, tlv(0x04, c[:half]), tlv(0x04, c[half:])),
				"a segment and an empty one":         tlv(ct, seg, empty),
				"an empty segment and a segment":     tlv(ct, empty, seg),
				"an empty segment between two":       tlv(ct, tlv(0x04, c[:half]), empty, tlv(0x04, c[half:])),
				"only an empty segment":              tlv(ct, empty),
				"only empty segments":                tlv(ct, empty, empty, empty),
				"no segment":                         tlv(ct),
				"nested constructed segment":         tlv(ct, tlv(0x24, seg)),
				"a NULL among the segments":          tlv(ct, seg, []byte{0x05, 0x00}),
				"indefinite, one segment":            ind(ct, true, seg),
				"indefinite, segment and empty":      ind(ct, true, seg, empty),
				"indefinite, empty and segment":      ind(ct, true, empty, seg),
				"indefinite, only empty":             ind(ct, true, empty),
				"indefinite, no segment":             ind(ct, true),
				"indefinite nested in indefinite":    ind(ct, true, ind(0x24, true, seg, empty)),
				"indefinite without end-of-contents": ind(ct, false, seg),
				"indefinite segment inside definite": tlv(ct, ind(0x24, true, seg)),
			}
			for name, f := range forms {
				if m := rebuildWhole(orig, nds, ni, f); m != nil {
					st.run(it, fmt.Sprintf("string at %d (%d bytes) in the constructed form: %s", nd.Tag-1, nd.Len, name), m, inExempt(it, nd.Tag-1, cs+nd.Len))
					perFamily["segmented"]++
				}
			}
		}
		if it.ASN1 {
			// well-terminated indefinite nesting around a small value and around the item: (c 80)^d value (00 00)^d for the
			// constructed tags 30 / a0 / 24 / 31, with increasing depth; the walk stops at the first depth that fails, because a
			// decoder that reads every level more than once multiplies its work with every level
			for _, tail := range [][]byte{{0x04, 0x01, 0x55}, orig} {
				for _, tag := range []byte{0x30, 0xa0, 0x24, 0x31} {
					for _, depth := range []int{1, 2, 3, 4, 8, 12, 16, 20, 24, 28, 32, 100, 1000} {
						b := append(append(bytes.Repeat([]byte{tag, 0x80}, depth), tail...), make([]byte, 2*depth)...)
						st.run(it, fmt.Sprintf("value of %d bytes inside %d well-terminated indefinite-length levels of tag %02x", len(tail), depth, tag), b, false)
						perFamily["balanced"]++
						if st.lastFailed {
							break
						}
					}
				}
			}
			// deep nesting in front of the item (BER, definite and indefinite lengths)
			for _, depth := range []int{100, 10000} {
				st.run(it, fmt.Sprint("nested SEQUENCE depth ", depth, " (indefinite)"), append(bytes.Repeat([]byte{0x30, 0x80}, depth), orig...), false)
				nest := orig
				for d := 0; d < depth && len(nest) < 1<<20; d++ {
					nest = append(append([]byte{0x30}, derLen(len(nest))...), nest...)
				}
				st.run(it, fmt.Sprint("nested SEQUENCE depth ", depth, " (definite)"), nest, false)
				perFamily["nesting"] += 2
			}
			// overlapping nesting: at every level a SEQUENCE whose declared content is only the header of its one component,
			// while that component claims everything that follows (a component reaching beyond its parent). Increasing depth;
			// the walk stops at the first depth that fails, because a decoder that reads the overrun twice doubles its work
			// with every level.
			for _, tail := range [][]byte{{0x04, 0x00}, orig} {
				depths := []int{1, 2, 4, 8, 12, 16, 18, 20, 22}
				if len(tail) > 64 {
					depths = []int{1, 2, 4, 8, 10}
				}
				for _, depth := range depths {
					b := tail
					for d := 0; d < depth; d++ {
						ch := append([]byte{0x30}, derLen(len(b))...)
						b = append(append(append([]byte{0x30}, derLen(len(ch))...), ch...), b...)
					}
					st.run(it, fmt.Sprintf("overlapping nesting depth %d: each SEQUENCE declares only the header of a component that claims the %d-byte rest", depth, len(tail)), b, false)
					perFamily["overlap"]++
					if st.lastFailed {
						break
					}
				}
			}
		}
		// empty and random strings
		st.run(it, "empty", nil, false)
		for k := 0; k < 20; k++ {
			b := make([]byte, 1+rnd.next()%uint64(len(orig)+8))
			for j := range b {
				b[j] = byte(rnd.next())
			}
			st.run(it, "random string", b, false)
			perFamily["random"]++
		}
	}
	// all short strings over the alphabet (enumerated by TLC) through every ASN.1 decoder and the BER transcoder
	nshort := 0
	if args[2] != "-" {
		sf, err := os.Open(args[2])
		if err != nil {
			return err
		}
		sc = bufio.NewScanner(sf)
		sc.Buffer(make([]byte, 1<<20), 1<<27)
		var asn []*corpusItem
		seenClass := map[string]bool{}
		for i := range items {
			if items[i].ASN1 && !seenClass[items[i].Class] {
				seenClass[items[i].Class] = true
				asn = append(asn, &items[i])
			}
		}
		for sc.Scan() {
			var s []int
			if err := json.Unmarshal(sc.Bytes(), &s); err != nil {
				return err
			}
			nshort++
			for _, it := range asn {
				st.run(it, "short string", toBytes(s), false)
			}
		}
		sf.Close()
	}
	st.runDeferred()
	out := map[string]interface{}{"inputs": st.Inputs, "calls": st.Calls, "exempt_slow": st.Exempt, "skipped_after_hangs": st.Skipped, "fails": st.Fails, "families": perFamily,
		"items": len(items), "short_strings": nshort}
	b, _ := json.Marshal(out)
	return os.WriteFile(args[3], b, 0644)
}

func derLen(n int) []byte {
	if n < 128 {
		return []byte{byte(n)}
	}
	var b []byte
	for v := n; v > 0; v >>= 8 {
		b = append([]byte{byte(v)}, b...)
	}
	return append([]byte{0x80 | byte(len(b))}, b...)
}

type lcg struct{ s uint64 }

func newLCG(seed int64) *lcg { return &lcg{uint64(seed)*2862933555777941757 + 3037000493} }
func (l *lcg) next() uint64 {
	l.s = l.s*6364136223846793005 + 1442695040888963407
	return l.s >> 33
}

func init() {
	cmds["c18-corpus"] = c18corpus
	cmds["c18-run"] = c18run
}

func pkcs12Encode(priv *sm2.PrivateKey, cert *x509.Certificate, _ *x509.Certificate) ([]byte, error) {
	return pkcs12.Encode(priv, cert, nil, "pw")
}

var rsaOnce *rsa.PrivateKey

func rsaKeyOf() *rsa.PrivateKey {
	if rsaOnce == nil {
		rsaOnce, _ = rsa.GenerateKey(rand.Reader, 1024)
	}
	return rsaOnce
}

var allocSample = []metrics.Sample{{Name: "/gc/heap/allocs:bytes"}}

func allocBytes() uint64 {
	metrics.Read(allocSample)
	return allocSample[0].Value.Uint64()
}

var digitsRe = regexp.MustCompile(`-?[0-9]+`)

// end offset (0-based, exclusive) of the first child of constructed node ni, or 0
func childEnd(nds []tlvNode, ni int, cs int) int {
	if ni+1 < len(nds) && nds[ni+1].Tag-1 == cs && nds[ni+1].Len >= 0 {
		c := nds[ni+1]
		return c.LenOff - 1 + c.LenSz + c.Len
	}
	return 0
}

// replace the content of node ni by r and re-encode the length of ni and of every enclosing node (DER lengths)
func rebuild(orig []byte, nds []tlvNode, ni int, r []byte) []byte {
	nd := nds[ni]
	return rebuildWhole(orig, nds, ni, append(append(append([]byte(nil), orig[nd.Tag-1:nd.LenOff-1]...), derLen(len(r))...), r...))
}

// replace the whole TLV of node ni (tag, length and content) by cur and re-encode the length of every enclosing node
func rebuildWhole(orig []byte, nds []tlvNode, ni int, cur []byte) []byte {
	nd := nds[ni]
	cs := nd.LenOff - 1 + nd.LenSz
	lo, hi := nd.Tag-1, cs+nd.Len // the byte range of orig that cur replaces
	for a := ni - 1; a >= 0; a-- {
		an := nds[a]
		if an.Len < 0 {
			return nil // indefinite ancestors are left alone
		}
		acs := an.LenOff - 1 + an.LenSz
		if !(acs <= lo && hi <= acs+an.Len) {
			continue // not an ancestor
		}
		content := append(append(append([]byte(nil), orig[acs:lo]...), cur...), orig[hi:acs+an.Len]...)
		cur = append(append(append([]byte(nil), orig[an.Tag-1:an.LenOff-1]...), derLen(len(content))...), content...)
		lo, hi = an.Tag-1, acs+an.Len
	}
	return append(append(append([]byte(nil), orig[:lo]...), cur...), orig[hi:]...)
}

// c18-frames <templates.ndjson> <strings.ndjson> <out.json>: every TLC-enumerated short string inside every frame of HSFrame.tla
func c18frames(args []string) error {
	type tmpl struct {
		Kind   string `json:"kind"`
		N      int    `json:"n"`
		Prefix []int  `json:"prefix"`
	}
	var tmpls []tmpl
	tf, err := os.Open(args[0])
	if err != nil {
		return err
	}
	sc := bufio.NewScanner(tf)
	sc.Buffer(make([]byte, 1<<20), 1<<27)
	for sc.Scan() {
		var t tmpl
		if err := json.Unmarshal(sc.Bytes(), &t); err != nil {
			return err
		}
		tmpls = append(tmpls, t)
	}
	tf.Close()
	byLen := map[int][][]byte{}
	sf, err := os.Open(args[1])
	if err != nil {
		return err
	}
	sc = bufio.NewScanner(sf)
	sc.Buffer(make([]byte, 1<<20), 1<<27)
	for sc.Scan() {
		var s []int
		if err := json.Unmarshal(sc.Bytes(), &s); err != nil {
			return err
		}
		byLen[len(s)] = append(byLen[len(s)], toBytes(s))
	}
	sf.Close()
	decs := decodersFor("hsmsg")
	var names []string
	for n := range decs {
		names = append(names, n)
	}
	sort.Strings(names)
	type failT struct {
		Kind, Decoder, What, Detail, Input string
	}
	var fails []failT
	seen := map[string]bool{}
	var progress int64
	var msgs, calls int
	for _, t := range tmpls {
		prefix := toBytes(t.Prefix)
		inputs := byLen[t.N]
		msgs += len(inputs)
		for _, dn := range names {
			fn := decs[dn]
			start := 0
			for start < len(inputs) {
				// a worker runs the rest of the batch; the main goroutine watches its progress
				done := make(chan struct{})
				var panicAt int64 = -1
				var panicMsg string
				atomic.StoreInt64(&progress, int64(start))
				go func(from int) {
					defer close(done)
					for i := from; i < len(inputs); i++ {
						atomic.StoreInt64(&progress, int64(i))
						m := append(append([]byte(nil), prefix...), inputs[i]...)
						if p := recoverStr(func() { fn(m) }); p != "" {
							panicAt, panicMsg = int64(i), p
							return
						}
					}
					atomic.StoreInt64(&progress, int64(len(inputs)))
				}(start)
				last, lastT := int64(-1), time.Now()
				hang := false
			wait:
				for {
					select {
					case <-done:
						break wait
					case <-time.After(200 * time.Millisecond):
						p := atomic.LoadInt64(&progress)
						if p != last {
							last, lastT = p, time.Now()
						} else if time.Since(lastT) > 3*time.Second {
							hang = true
							break wait
						}
					}
				}
				at := int(atomic.LoadInt64(&progress))
				if hang || panicAt >= 0 {
					if panicAt >= 0 {
						at = int(panicAt)
					}
					f := failT{Kind: t.Kind, Decoder: dn, What: "panic", Detail: panicMsg}
					if hang {
						f.What, f.Detail = "hang", "no result within 3 s"
					}
					key := f.Kind + "|" + f.Decoder + "|" + f.What + "|" + digitsRe.ReplaceAllString(strings.SplitN(f.Detail, "\n", 2)[0], "N")
					if !seen[key] {
						seen[key] = true
						f.Input = hex.EncodeToString(append(append([]byte(nil), prefix...), inputs[at]...))
						fails = append(fails, f)
					}
					calls += at + 1 - start
					start = at + 1 // (a hung worker is abandoned)
					continue
				}
				calls += len(inputs) - start
				start = len(inputs)
			}
		}
	}
	out := map[string]interface{}{"templates": len(tmpls), "messages": msgs, "calls": calls, "fails": fails}
	b, _ := json.Marshal(out)
	return os.WriteFile(args[2], b, 0644)
}

func init() { cmds["c18-frames"] = c18frames }
