package main

// A GMSSL (GM/T 0024, ECC-SM4-CBC-SM3) client written out by hand on top of the primitives only (SM2, SM3, SM4, HMAC):
// it keeps its own transcript and key schedule, so it can deviate from the protocol CONSISTENTLY - omit a message it
// should send, replace ChangeCipherSpec by something else and send its Finished in the clear, repeat a message - and
// still produce a Finished that matches its own view.  The endpoint under test (a real gmtls server) must notice the
// deviation itself; no transcript mismatch will save it.  With how = "none" the scripted client is honest and the
// handshake must complete (which also checks the script against the implementation).

import (
	"bytes"
	"crypto/aes"
	"crypto/cipher"
	"crypto/ecdsa"
	"crypto/hmac"
	"crypto/rand"
	"crypto/rsa"
	"crypto/sha1"
	"crypto/sha256"
	"encoding/binary"
	"fmt"
	"net"
	"runtime"
	"strings"
	"time"

	"github.com/tjfoc/gmsm/gmtls"
	"github.com/tjfoc/gmsm/sm2"
	"github.com/tjfoc/gmsm/sm3"
	"github.com/tjfoc/gmsm/sm4"
	"github.com/tjfoc/gmsm/x509"
)

func pSM3(secret, seed []byte, n int) []byte {
	var out []byte
	a := seed
	for len(out) < n {
		m := hmac.New(sm3.New, secret)
		m.Write(a)
		a = m.Sum(nil)
		m = hmac.New(sm3.New, secret)
		m.Write(a)
		m.Write(seed)
		out = append(out, m.Sum(nil)...)
	}
	return out[:n]
}

func prfSHA256(secret []byte, label string, seed []byte, n int) []byte {
	seed = append([]byte(label), seed...)
	var out []byte
	a := seed
	for len(out) < n {
		m := hmac.New(sha256.New, secret)
		m.Write(a)
		a = m.Sum(nil)
		m = hmac.New(sha256.New, secret)
		m.Write(a)
		m.Write(seed)
		out = append(out, m.Sum(nil)...)
	}
	return out[:n]
}

func prfGM(secret []byte, label string, seed []byte, n int) []byte {
	return pSM3(secret, append([]byte(label), seed...), n)
}

type scriptGM struct {
	conn       net.Conn
	transcript []byte
	buf        []byte
	cr, sr     []byte
	master     []byte
	// client write state
	macKey, key []byte
	seq         uint64
	encrypting  bool
}

func (s *scriptGM) rec(typ byte, body []byte) error {
	if s.encrypting {
		hdr := []byte{typ, 1, 1, byte(len(body) >> 8), byte(len(body))}
		var seq [8]byte
		for i := 0; i < 8; i++ {
			seq[7-i] = byte(s.seq >> (8 * uint(i)))
		}
		m := hmac.New(sm3.New, s.macKey)
		m.Write(seq[:])
		m.Write(hdr)
		m.Write(body)
		pt := append(append([]byte(nil), body...), m.Sum(nil)...)
		pad := 16 - (len(pt)+1)%16
		if pad == 16 {
			pad = 0
		}
		for i := 0; i <= pad; i++ {
			pt = append(pt, byte(pad))
		}
		iv := make([]byte, 16)
		rand.Read(iv)
		blk, _ := sm4.NewCipher(s.key)
		ct := make([]byte, len(pt))
		cipher.NewCBCEncrypter(blk, iv).CryptBlocks(ct, pt)
		body = append(iv, ct...)
		s.seq++
	}
	_, err := s.conn.Write(append([]byte{typ, 1, 1, byte(len(body) >> 8), byte(len(body))}, body...))
	return err
}

func (s *scriptGM) send(msg []byte) error {
	s.transcript = append(s.transcript, msg...)
	return s.rec(22, msg)
}

// next plaintext handshake message from the server (nil on alert / end of stream)
func (s *scriptGM) next() []byte {
	for {
		if len(s.buf) >= 4 {
			n := int(s.buf[1])<<16 | int(s.buf[2])<<8 | int(s.buf[3])
			if len(s.buf) >= 4+n {
				m := append([]byte(nil), s.buf[:4+n]...)
				s.buf = s.buf[4+n:]
				s.transcript = append(s.transcript, m...)
				return m
			}
		}
		r, err := readRecord(s.conn)
		if err != nil || r.typ() != 22 {
			return nil
		}
		s.buf = append(s.buf, r.body...)
	}
}

// runs the scripted client; returns an error text when the script itself could not proceed (the server refused early)
func (s *scriptGM) run(how string, cert *gmtls.Certificate) string {
	s.cr = make([]byte, 32)
	rand.Read(s.cr)
	hello := append([]byte{1, 1}, s.cr...)
	hello = append(hello, 0, 0, 2, 0xe0, 0x13, 1, 0)
	if strings.HasPrefix(how, "npn_") {
		hello = append(hello, 0, 4, 0x33, 0x74, 0, 0) // extensions: next_protocol_negotiation, empty
	}
	if err := s.send(hsMsg(1, hello)); err != nil {
		return "write: " + err.Error()
	}
	var certs [][]byte
	creq := false
	for {
		m := s.next()
		if m == nil {
			return "server ended the handshake during its first flight"
		}
		switch m[0] {
		case 2:
			s.sr = append([]byte(nil), m[6:38]...)
		case 11:
			b := m[7:]
			for len(b) >= 3 {
				l := int(b[0])<<16 | int(b[1])<<8 | int(b[2])
				if len(b) < 3+l {
					break
				}
				certs = append(certs, b[3:3+l])
				b = b[3+l:]
			}
		case 13:
			creq = true
		}
		if m[0] == 14 {
			break
		}
	}
	if len(certs) < 2 || s.sr == nil {
		return "server flight incomplete"
	}
	ec, err := x509.ParseCertificate(certs[1])
	if err != nil {
		return "encryption certificate: " + err.Error()
	}
	pk, ok := ec.PublicKey.(*ecdsa.PublicKey)
	if !ok {
		return "encryption certificate key type"
	}
	sendCert := creq && cert != nil
	if creq {
		body := []byte{0, 0, 0}
		if sendCert {
			var list []byte
			for _, c := range cert.Certificate {
				list = append(list, byte(len(c)>>16), byte(len(c)>>8), byte(len(c)))
				list = append(list, c...)
			}
			body = append([]byte{byte(len(list) >> 16), byte(len(list) >> 8), byte(len(list))}, list...)
		}
		if err := s.send(hsMsg(11, body)); err != nil {
			return "write: " + err.Error()
		}
	}
	pms := make([]byte, 48)
	rand.Read(pms)
	pms[0], pms[1] = 1, 1
	ct, err := sm2.EncryptAsn1(&sm2.PublicKey{Curve: pk.Curve, X: pk.X, Y: pk.Y}, pms, rand.Reader)
	if err != nil {
		return "encrypt: " + err.Error()
	}
	cke := hsMsg(16, append([]byte{byte(len(ct) >> 8), byte(len(ct))}, ct...))
	if err := s.send(cke); err != nil {
		return "write: " + err.Error()
	}
	if how == "dup_cke" {
		s.send(cke)
	}
	if sendCert && how != "omit_cv" {
		digest := sm3.Sm3Sum(s.transcript)
		sig, err := cert.PrivateKey.(*sm2.PrivateKey).Sign(rand.Reader, digest, nil)
		if err != nil {
			return "sign: " + err.Error()
		}
		cv := hsMsg(15, append([]byte{byte(len(sig) >> 8), byte(len(sig))}, sig...))
		s.send(cv)
		if how == "dup_cv" {
			s.send(cv)
		}
	}
	s.master = prfGM(pms, "master secret", append(append([]byte(nil), s.cr...), s.sr...), 48)
	kb := prfGM(s.master, "key expansion", append(append([]byte(nil), s.sr...), s.cr...), 2*32+2*16+2*16)
	s.macKey, s.key = kb[0:32], kb[64:80]
	fin := func() []byte {
		return hsMsg(20, prfGM(s.master, "client finished", sm3.Sm3Sum(s.transcript), 12))
	}
	switch how {
	case "noccs_plainfin_hreq":
		// a HelloRequest where ChangeCipherSpec belongs, then the (correct) Finished without protection
		s.rec(22, hsMsg(0, nil))
		s.rec(22, fin())
	case "noccs_plainfin":
		s.rec(22, fin())
	case "fin_before_ccs":
		s.rec(22, fin())
		s.rec(20, []byte{1})
	case "ccs_twice":
		s.rec(20, []byte{1})
		s.rec(20, []byte{1})
		s.encrypting = true
		s.rec(22, fin())
	case "appdata_before_fin":
		s.rec(20, []byte{1})
		s.encrypting = true
		s.rec(23, []byte("early"))
		s.rec(22, fin())
	case "npn_unsolicited":
		// the hello offered next-protocol negotiation, the server (no NextProtos) did not take it up; the client sends its
		// NextProtocol message all the same, hashes it, and then a Finished that is correct for that transcript
		s.rec(20, []byte{1})
		s.encrypting = true
		np := append([]byte{2, 'h', '2', 28}, make([]byte, 28)...)
		s.send(hsMsg(67, np))
		s.rec(22, fin())
	case "fin_trailing1", "fin_trailing20", "fin_short":
		// the right verify_data followed by further bytes (handshake length 13 / 32), or only its first 11 bytes
		vd := prfGM(s.master, "client finished", sm3.Sm3Sum(s.transcript), 12)
		switch how {
		case "fin_trailing1":
			vd = append(vd, 0)
		case "fin_trailing20":
			vd = append(vd, bytes.Repeat([]byte{0x5a}, 20)...)
		default:
			vd = vd[:11]
		}
		s.rec(20, []byte{1})
		s.encrypting = true
		s.rec(22, hsMsg(20, vd))
	default:
		s.rec(20, []byte{1})
		s.encrypting = true
		s.rec(22, fin())
	}
	// read what the server answers (ticket, ChangeCipherSpec, Finished or an alert) until it stops
	s.conn.SetReadDeadline(time.Now().Add(2 * time.Second))
	sawCCS := false
	for i := 0; i < 4; i++ {
		r, err := readRecord(s.conn)
		if err != nil {
			break
		}
		if r.typ() == 20 {
			sawCCS = true
		} else if sawCCS && r.typ() == 22 {
			break // the server's Finished: the handshake is over
		}
	}
	return ""
}

// one scripted case against a real GMSSL server with the given client-certificate policy
func runScript(c *c15Case) (c15Obs, error) {
	var obs c15Obs
	f, err := loadFixtures()
	if err != nil {
		return obs, err
	}
	var sc *gmtls.Config
	switch c.Role {
	case "server_gm":
		sc = &gmtls.Config{GMSupport: &gmtls.GMSupport{}, Certificates: []gmtls.Certificate{f.sig, f.enc}}
	case "server_auto_gm":
		sig, enc, rsaC := f.sig, f.enc, f.rsa
		if sc, err = gmtls.NewBasicAutoSwitchConfig(&sig, &enc, &rsaC); err != nil {
			return obs, err
		}
	default:
		obs.Skipped = "the scripted peer is a GMSSL client"
		return obs, nil
	}
	if c.Ca {
		obs.Skipped = "the scripted cases carry their own client-certificate policy"
		return obs, nil
	}
	sc.SessionTicketsDisabled = true
	sc.ClientCAs = f.sm2CA
	sc.ClientAuth = map[string]gmtls.ClientAuthType{"none": gmtls.NoClientCert, "request": gmtls.RequestClientCert, "requireany": gmtls.RequireAnyClientCert,
		"verifyifgiven": gmtls.VerifyClientCertIfGiven, "requireandverify": gmtls.RequireAndVerifyClientCert}[c.Op.Policy]
	// a buffered transport: with a synchronous pipe the server's alert and the script's next message block each other
	pc, ps := tcpPair()
	if pc == nil {
		return obs, fmt.Errorf("no loopback connection")
	}
	defer pc.Close()
	defer ps.Close()
	srv := gmtls.Server(ps, sc)
	type res struct {
		err error
		p   interface{}
	}
	done := make(chan res, 1)
	go func() {
		var r res
		defer func() {
			if p := recover(); p != nil {
				buf := make([]byte, 2048)
				r.p = fmt.Sprint(p, " @ ", string(buf[:runtime.Stack(buf, false)]))
				srv.Close()
			}
			done <- r
		}()
		r.err = srv.Handshake()
		if r.err != nil {
			srv.Close()
		}
	}()
	script := make(chan string, 1)
	go func() {
		s := &scriptGM{conn: pc}
		pc.SetDeadline(time.Now().Add(8 * time.Second))
		var cert *gmtls.Certificate
		if c.Op.Policy != "none" {
			cert = &f.auth
		}
		script <- s.run(c.Op.How, cert)
		pc.Close()
	}()
	select {
	case r := <-done:
		obs.EutReturned = true
		if r.err != nil {
			obs.EutErr = r.err.Error()
		}
		if r.p != nil {
			obs.EutPanic = fmt.Sprint(r.p)
		} else {
			obs.EutComplete = srv.ConnectionState().HandshakeComplete
		}
	case <-time.After(12 * time.Second):
		obs.Hang = true
	}
	select {
	case e := <-script:
		obs.PeerErr = e
	case <-time.After(3 * time.Second):
	}
	obs.Applied = true
	return obs, nil
}

// A scripted GMSSL server for the ECDHE-SM2 suites (which the client offers by default but no gmtls server implements):
// it holds the genuine signing key, selects suite e011 and sends a correctly signed ServerKeyExchange whose named curve
// is not the SM2 curve.  The client must answer with an error.
func runServerScript(c *c15Case) (c15Obs, error) {
	var obs c15Obs
	if c.Role == "client_tls" && !c.Ca && c.Op.How == "noccs_plainfin" {
		return runTLSServerScript(c)
	}
	if strings.HasPrefix(c.Op.How, "reneg_") || strings.HasPrefix(c.Op.How, "shvers_") {
		if c.Role == "client_tls" && !c.Ca {
			return runTLSRenegScript(c)
		}
		obs.Skipped = "scripted renegotiation: TLS client only"
		return obs, nil
	}
	if c.Role != "client_gm" || c.Ca {
		obs.Skipped = "scripted servers: GMSSL client (all scripts), TLS client (noccs_plainfin)"
		return obs, nil
	}
	f, err := loadFixtures()
	if err != nil {
		return obs, err
	}
	pc, ps := tcpPair()
	if pc == nil {
		return obs, fmt.Errorf("no loopback connection")
	}
	defer pc.Close()
	defer ps.Close()
	ccfg := &gmtls.Config{GMSupport: &gmtls.GMSupport{}, RootCAs: f.sm2CA, ServerName: "localhost"}
	if c.Op.How == "noccs_plainfin" {
		// (a client that allows renegotiation tolerates handshake records where others would not)
		ccfg.Renegotiation = gmtls.RenegotiateFreelyAsClient
		ccfg.CipherSuites = []uint16{gmtls.GMTLS_SM2_WITH_SM4_SM3}
	}
	cli := gmtls.Client(pc, ccfg)
	type res struct {
		err error
		p   interface{}
	}
	done := make(chan res, 1)
	go func() {
		var r res
		defer func() {
			if p := recover(); p != nil {
				buf := make([]byte, 2048)
				r.p = fmt.Sprint(p, " @ ", string(buf[:runtime.Stack(buf, false)]))
				cli.Close()
			}
			done <- r
		}()
		r.err = cli.Handshake()
		if r.err != nil {
			cli.Close()
		}
	}()
	go func() {
		defer ps.Close()
		ps.SetDeadline(time.Now().Add(8 * time.Second))
		r, err := readRecord(ps)
		if err != nil || r.typ() != 22 || len(r.body) < 38 || r.body[0] != 1 {
			return
		}
		cr := r.body[6:38]
		sr := make([]byte, 32)
		rand.Read(sr)
		transcript := append([]byte(nil), r.body...)
		rec := func(body []byte) {
			transcript = append(transcript, body...)
			ps.Write(append([]byte{22, 1, 1, byte(len(body) >> 8), byte(len(body))}, body...))
		}
		if c.Op.How == "noccs_plainfin" {
			// the honest ECC flight, then - after the client's second flight - a correct Finished WITHOUT ChangeCipherSpec
			sh := append([]byte{1, 1}, sr...)
			sh = append(sh, 0, 0xe0, 0x13, 0)
			rec(hsMsg(2, sh))
			var list []byte
			for _, der := range [][]byte{f.sig.Certificate[0], f.enc.Certificate[0]} {
				list = append(list, byte(len(der)>>16), byte(len(der)>>8), byte(len(der)))
				list = append(list, der...)
			}
			rec(hsMsg(11, append([]byte{byte(len(list) >> 16), byte(len(list) >> 8), byte(len(list))}, list...)))
			ed := f.enc.Certificate[0]
			signed := append(append(append([]byte(nil), cr...), sr...), byte(len(ed)>>16), byte(len(ed)>>8), byte(len(ed)))
			signed = append(signed, ed...)
			sig, err := f.sig.PrivateKey.(*sm2.PrivateKey).Sign(rand.Reader, signed, nil)
			if err != nil {
				return
			}
			rec(hsMsg(12, append([]byte{byte(len(sig) >> 8), byte(len(sig))}, sig...)))
			rec(hsMsg(14, nil))
			// ClientKeyExchange in the clear, then ChangeCipherSpec and the protected Finished (not needed)
			var cke []byte
			for cke == nil {
				r, err := readRecord(ps)
				if err != nil {
					return
				}
				if r.typ() == 22 && len(r.body) > 6 && r.body[0] == 16 {
					cke = r.body
				}
			}
			n := int(cke[1])<<16 | int(cke[2])<<8 | int(cke[3])
			cke = cke[:4+n]
			pms, err := f.enc.PrivateKey.(*sm2.PrivateKey).DecryptAsn1(cke[6:])
			if err != nil || len(pms) != 48 {
				return
			}
			transcript = append(transcript, cke...)
			master := prfGM(pms, "master secret", append(append([]byte(nil), cr...), sr...), 48)
			cfin := hsMsg(20, prfGM(master, "client finished", sm3.Sm3Sum(transcript), 12))
			transcript = append(transcript, cfin...)
			for i := 0; i < 2; i++ { // the client's ChangeCipherSpec and Finished
				if _, err := readRecord(ps); err != nil {
					return
				}
			}
			sfin := hsMsg(20, prfGM(master, "server finished", sm3.Sm3Sum(transcript), 12))
			ps.Write(append([]byte{22, 1, 1, 0, byte(len(sfin))}, sfin...))
			for i := 0; i < 4; i++ {
				if _, err := readRecord(ps); err != nil {
					return
				}
			}
			return
		}
		sh := append([]byte{1, 1}, sr...)
		sh = append(sh, 0, 0xe0, 0x11, 0)
		rec(hsMsg(2, sh))
		var list []byte
		for _, der := range [][]byte{f.sig.Certificate[0], f.enc.Certificate[0]} {
			list = append(list, byte(len(der)>>16), byte(len(der)>>8), byte(len(der)))
			list = append(list, der...)
		}
		rec(hsMsg(11, append([]byte{byte(len(list) >> 16), byte(len(list) >> 8), byte(len(list))}, list...)))
		curve := map[string]uint16{"ecdhe_curve99": 99, "ecdhe_curve23": 23, "ecdhe_curve24": 24}[c.Op.How]
		eph, _ := sm2.GenerateKey(rand.Reader)
		pt := append([]byte{4}, append(leftPad32(eph.X.Bytes()), leftPad32(eph.Y.Bytes())...)...)
		params := append([]byte{3, byte(curve >> 8), byte(curve), byte(len(pt))}, pt...)
		h := sha1.New()
		h.Write(cr)
		h.Write(sr)
		h.Write(params)
		sig, err := f.sig.PrivateKey.(*sm2.PrivateKey).Sign(rand.Reader, h.Sum(nil), nil)
		if err != nil {
			return
		}
		rec(hsMsg(12, append(append(params, byte(len(sig)>>8), byte(len(sig))), sig...)))
		rec(hsMsg(14, nil))
		// whatever the client answers is read and dropped
		for i := 0; i < 6; i++ {
			if _, err := readRecord(ps); err != nil {
				return
			}
		}
	}()
	select {
	case r := <-done:
		obs.EutReturned = true
		if r.err != nil {
			obs.EutErr = r.err.Error()
		}
		if r.p != nil {
			obs.EutPanic = fmt.Sprint(r.p)
		} else {
			obs.EutComplete = cli.ConnectionState().HandshakeComplete
		}
	case <-time.After(12 * time.Second):
		obs.Hang = true
	}
	obs.Applied = true
	return obs, nil
}

func leftPad32(b []byte) []byte {
	if len(b) >= 32 {
		return b
	}
	return append(make([]byte, 32-len(b)), b...)
}

// TLS 1.2 (TLS_RSA_WITH_AES_128_GCM_SHA256) scripted server: honest first flight, then - after the client's
// ClientKeyExchange, ChangeCipherSpec and Finished - its own correct Finished in the clear, without ChangeCipherSpec.
func runTLSServerScript(c *c15Case) (c15Obs, error) {
	var obs c15Obs
	f, err := loadFixtures()
	if err != nil {
		return obs, err
	}
	pc, ps := tcpPair()
	if pc == nil {
		return obs, fmt.Errorf("no loopback connection")
	}
	defer pc.Close()
	defer ps.Close()
	cli := gmtls.Client(pc, &gmtls.Config{RootCAs: f.rsaCA, ServerName: "localhost", MinVersion: gmtls.VersionTLS12, MaxVersion: gmtls.VersionTLS12,
		CipherSuites: []uint16{gmtls.TLS_RSA_WITH_AES_128_GCM_SHA256}, Renegotiation: gmtls.RenegotiateFreelyAsClient})
	type res struct {
		err error
		p   interface{}
	}
	done := make(chan res, 1)
	go func() {
		var r res
		defer func() {
			if p := recover(); p != nil {
				buf := make([]byte, 2048)
				r.p = fmt.Sprint(p, " @ ", string(buf[:runtime.Stack(buf, false)]))
				cli.Close()
			}
			done <- r
		}()
		r.err = cli.Handshake()
		if r.err != nil {
			cli.Close()
		}
	}()
	script := make(chan string, 1)
	go func() {
		defer ps.Close()
		ps.SetDeadline(time.Now().Add(8 * time.Second))
		r, err := readRecord(ps)
		if err != nil || r.typ() != 22 || len(r.body) < 38 || r.body[0] != 1 {
			script <- "no ClientHello"
			return
		}
		cr := r.body[6:38]
		sr := make([]byte, 32)
		rand.Read(sr)
		transcript := append([]byte(nil), r.body...)
		rec := func(body []byte) {
			transcript = append(transcript, body...)
			ps.Write(append([]byte{22, 3, 3, byte(len(body) >> 8), byte(len(body))}, body...))
		}
		sh := append([]byte{3, 3}, sr...)
		sh = append(sh, 0, 0x00, 0x9c, 0)
		rec(hsMsg(2, sh))
		var list []byte
		for _, der := range f.rsa.Certificate {
			list = append(list, byte(len(der)>>16), byte(len(der)>>8), byte(len(der)))
			list = append(list, der...)
		}
		rec(hsMsg(11, append([]byte{byte(len(list) >> 16), byte(len(list) >> 8), byte(len(list))}, list...)))
		rec(hsMsg(14, nil))
		var cke []byte
		for cke == nil {
			r, err := readRecord(ps)
			if err != nil {
				script <- "client ended before ClientKeyExchange"
				return
			}
			if r.typ() == 22 && len(r.body) > 6 && r.body[0] == 16 {
				cke = r.body
			}
		}
		n := int(cke[1])<<16 | int(cke[2])<<8 | int(cke[3])
		cke = cke[:4+n]
		pms, err := rsa.DecryptPKCS1v15(rand.Reader, f.rsa.PrivateKey.(*rsa.PrivateKey), cke[6:])
		if err != nil || len(pms) != 48 {
			script <- "pre-master secret does not decrypt"
			return
		}
		transcript = append(transcript, cke...)
		master := prfSHA256(pms, "master secret", append(append([]byte(nil), cr...), sr...), 48)
		th := sha256.Sum256(transcript)
		cfin := hsMsg(20, prfSHA256(master, "client finished", th[:], 12))
		transcript = append(transcript, cfin...)
		for i := 0; i < 2; i++ {
			if _, err := readRecord(ps); err != nil {
				script <- "client ended before its Finished"
				return
			}
		}
		th = sha256.Sum256(transcript)
		sfin := hsMsg(20, prfSHA256(master, "server finished", th[:], 12))
		ps.Write(append([]byte{22, 3, 3, 0, byte(len(sfin))}, sfin...))
		script <- ""
		for i := 0; i < 4; i++ {
			if _, err := readRecord(ps); err != nil {
				return
			}
		}
	}()
	select {
	case r := <-done:
		obs.EutReturned = true
		if r.err != nil {
			obs.EutErr = r.err.Error()
		}
		if r.p != nil {
			obs.EutPanic = fmt.Sprint(r.p)
		} else {
			obs.EutComplete = cli.ConnectionState().HandshakeComplete
		}
	case <-time.After(12 * time.Second):
		obs.Hang = true
	}
	select {
	case e := <-script:
		obs.PeerErr = e
	case <-time.After(time.Second):
	}
	obs.Applied = true
	return obs, nil
}

// ---- a scripted TLS 1.2 server that renegotiates (TLS_RSA_WITH_AES_128_GCM_SHA256) ----
// An honest first handshake; then HelloRequest and a second handshake that is correct in every respect (transcript, master
// secret, verify_data) except one: "reneg_noccs" - the server sends no ChangeCipherSpec, so its Finished and the
// application data behind it still travel under the keys of the first handshake.  "reneg_honest" is the control (the
// second handshake completes and the data arrives).
type gcmHalf struct {
	aead cipher.AEAD
	iv   []byte
	seq  uint64
}

func newGCMHalf(key, iv []byte) *gcmHalf {
	b, _ := aes.NewCipher(key)
	a, _ := cipher.NewGCM(b)
	return &gcmHalf{aead: a, iv: iv}
}

func (h *gcmHalf) aad(typ byte, n int) []byte {
	a := make([]byte, 13)
	binary.BigEndian.PutUint64(a, h.seq)
	a[8], a[9], a[10], a[11], a[12] = typ, 3, 3, byte(n>>8), byte(n)
	return a
}

func (h *gcmHalf) seal(typ byte, pt []byte) []byte {
	explicit := make([]byte, 8)
	binary.BigEndian.PutUint64(explicit, h.seq)
	ct := h.aead.Seal(nil, append(append([]byte(nil), h.iv...), explicit...), pt, h.aad(typ, len(pt)))
	h.seq++
	body := append(explicit, ct...)
	return append([]byte{typ, 3, 3, byte(len(body) >> 8), byte(len(body))}, body...)
}

func (h *gcmHalf) open(r *record) ([]byte, error) {
	if len(r.body) < 24 {
		return nil, fmt.Errorf("short record")
	}
	pt, err := h.aead.Open(nil, append(append([]byte(nil), h.iv...), r.body[:8]...), r.body[8:], h.aad(r.typ(), len(r.body)-24))
	h.seq++
	return pt, err
}

func runTLSRenegScript(c *c15Case) (c15Obs, error) {
	var obs c15Obs
	f, err := loadFixtures()
	if err != nil {
		return obs, err
	}
	pc, ps := tcpPair()
	if pc == nil {
		return obs, fmt.Errorf("no loopback connection")
	}
	defer pc.Close()
	defer ps.Close()
	cli := gmtls.Client(pc, &gmtls.Config{RootCAs: f.rsaCA, ServerName: "localhost", MinVersion: gmtls.VersionTLS12, MaxVersion: gmtls.VersionTLS12,
		CipherSuites: []uint16{gmtls.TLS_RSA_WITH_AES_128_GCM_SHA256}, Renegotiation: gmtls.RenegotiateFreelyAsClient})
	type res struct {
		err error
		n   int
		p   interface{}
	}
	done := make(chan res, 1)
	go func() {
		var r res
		defer func() {
			if p := recover(); p != nil {
				buf := make([]byte, 2048)
				r.p = fmt.Sprint(p, " @ ", string(buf[:runtime.Stack(buf, false)]))
			}
			done <- r
		}()
		if r.err = cli.Handshake(); r.err != nil {
			r.err = fmt.Errorf("first handshake: %v", r.err)
			return
		}
		cli.SetReadDeadline(time.Now().Add(8 * time.Second))
		buf := make([]byte, 64)
		r.n, r.err = cli.Read(buf) // the HelloRequest arrives here: the second handshake runs inside Read
	}()
	script := make(chan string, 1)
	go func() {
		ps.SetDeadline(time.Now().Add(8 * time.Second))
		fail := func(s string) { script <- s; ps.Close() }
		certMsg := func() []byte {
			var list []byte
			for _, der := range f.rsa.Certificate {
				list = append(list, byte(len(der)>>16), byte(len(der)>>8), byte(len(der)))
				list = append(list, der...)
			}
			return hsMsg(11, append([]byte{byte(len(list) >> 16), byte(len(list) >> 8), byte(len(list))}, list...))
		}
		hello := func(sr []byte) []byte {
			sh := append([]byte{3, 3}, sr...)
			if strings.HasPrefix(c.Op.How, "shvers_") {
				// a consistent server that names a version the client did not offer and cannot speak, and otherwise runs
				// the TLS 1.2 handshake correctly (its own transcript and Finished cover the hello as sent)
				var v int
				fmt.Sscanf(c.Op.How, "shvers_%x", &v)
				sh[0], sh[1] = byte(v>>8), byte(v)
			}
			return hsMsg(2, append(sh, 0, 0x00, 0x9c, 0))
		}
		keys := func(master, cr, sr []byte) (cw, sw *gcmHalf) {
			kb := prfSHA256(master, "key expansion", append(append([]byte(nil), sr...), cr...), 40)
			return newGCMHalf(kb[0:16], kb[32:36]), newGCMHalf(kb[16:32], kb[36:40])
		}
		pmsOf := func(cke []byte) ([]byte, bool) {
			pms, err := rsa.DecryptPKCS1v15(rand.Reader, f.rsa.PrivateKey.(*rsa.PrivateKey), cke[6:])
			return pms, err == nil && len(pms) == 48
		}
		// ---- first handshake, in the clear up to ChangeCipherSpec ----
		r, err := readRecord(ps)
		if err != nil || r.typ() != 22 || len(r.body) < 38 || r.body[0] != 1 {
			fail("no ClientHello")
			return
		}
		cr, sr := r.body[6:38], make([]byte, 32)
		rand.Read(sr)
		transcript := append([]byte(nil), r.body...)
		plain := func(body []byte) {
			transcript = append(transcript, body...)
			ps.Write(append([]byte{22, 3, 3, byte(len(body) >> 8), byte(len(body))}, body...))
		}
		plain(hello(sr))
		plain(certMsg())
		plain(hsMsg(14, nil))
		r, err = readRecord(ps)
		if err != nil || r.typ() != 22 || len(r.body) < 7 || r.body[0] != 16 {
			fail("no ClientKeyExchange")
			return
		}
		pms, ok := pmsOf(r.body)
		if !ok {
			fail("pre-master secret does not decrypt")
			return
		}
		transcript = append(transcript, r.body...)
		master := prfSHA256(pms, "master secret", append(append([]byte(nil), cr...), sr...), 48)
		cw, sw := keys(master, cr, sr)
		if r, err = readRecord(ps); err != nil || r.typ() != 20 {
			fail("no ChangeCipherSpec from the client")
			return
		}
		if r, err = readRecord(ps); err != nil {
			fail("no Finished from the client")
			return
		}
		cfin, err := cw.open(r)
		th := sha256.Sum256(transcript)
		if err != nil || !bytes.Equal(cfin, hsMsg(20, prfSHA256(master, "client finished", th[:], 12))) {
			fail("the client's first Finished does not open / verify (script and client disagree)")
			return
		}
		transcript = append(transcript, cfin...)
		th = sha256.Sum256(transcript)
		ps.Write([]byte{20, 3, 3, 0, 1, 1})
		ps.Write(sw.seal(22, hsMsg(20, prfSHA256(master, "server finished", th[:], 12))))
		if strings.HasPrefix(c.Op.How, "shvers_") {
			ps.Write(sw.seal(23, []byte("hello")))
			script <- ""
			for i := 0; i < 4; i++ {
				if _, err := readRecord(ps); err != nil {
					return
				}
			}
			return
		}
		// ---- HelloRequest, second handshake under the first one's keys ----
		ps.Write(sw.seal(22, hsMsg(0, nil)))
		next := func(want byte) []byte {
			r, err := readRecord(ps)
			if err != nil {
				return nil
			}
			pt, err := cw.open(r)
			if err != nil || r.typ() != 22 || len(pt) < 4 || pt[0] != want {
				return nil
			}
			return pt
		}
		ch2 := next(1)
		if ch2 == nil || len(ch2) < 38 {
			fail("no second ClientHello")
			return
		}
		cr2, sr2 := ch2[6:38], make([]byte, 32)
		rand.Read(sr2)
		t2 := append([]byte(nil), ch2...)
		prot := func(body []byte) {
			t2 = append(t2, body...)
			ps.Write(sw.seal(22, body))
		}
		prot(hello(sr2))
		prot(certMsg())
		prot(hsMsg(14, nil))
		cke2 := next(16)
		if cke2 == nil {
			fail("no second ClientKeyExchange")
			return
		}
		pms2, ok := pmsOf(cke2)
		if !ok {
			fail("second pre-master secret does not decrypt")
			return
		}
		t2 = append(t2, cke2...)
		master2 := prfSHA256(pms2, "master secret", append(append([]byte(nil), cr2...), sr2...), 48)
		cw2, sw2 := keys(master2, cr2, sr2)
		if r, err = readRecord(ps); err != nil || r.typ() != 20 { // (protected under the old keys)
			fail("no second ChangeCipherSpec from the client")
			return
		}
		cw.seq++
		if r, err = readRecord(ps); err != nil {
			fail("no second Finished from the client")
			return
		}
		cfin2, err := cw2.open(r)
		th2 := sha256.Sum256(t2)
		if err != nil || !bytes.Equal(cfin2, hsMsg(20, prfSHA256(master2, "client finished", th2[:], 12))) {
			fail("the client's second Finished does not open / verify (script and client disagree)")
			return
		}
		t2 = append(t2, cfin2...)
		th2 = sha256.Sum256(t2)
		sfin2 := hsMsg(20, prfSHA256(master2, "server finished", th2[:], 12))
		if c.Op.How == "reneg_honest" {
			ps.Write(sw.seal(20, []byte{1}))
			ps.Write(sw2.seal(22, sfin2))
			ps.Write(sw2.seal(23, []byte("hello")))
		} else {
			// no ChangeCipherSpec: Finished and data still under the keys of the first handshake
			ps.Write(sw.seal(22, sfin2))
			ps.Write(sw.seal(23, []byte("hello")))
		}
		script <- ""
		for i := 0; i < 4; i++ {
			if _, err := readRecord(ps); err != nil {
				return
			}
		}
	}()
	select {
	case r := <-done:
		obs.EutReturned = true
		if r.err != nil {
			obs.EutErr = r.err.Error()
		}
		if r.p != nil {
			obs.EutPanic = fmt.Sprint(r.p)
		} else {
			// "complete" here: application data was delivered after the second handshake
			obs.EutComplete = r.err == nil && r.n > 0
		}
	case <-time.After(12 * time.Second):
		obs.Hang = true
	}
	select {
	case e := <-script:
		obs.PeerErr = e
	case <-time.After(time.Second):
	}
	obs.Applied = true
	return obs, nil
}
