package main

// C12: sm4.Sm4GCM against TLC's GCM table, against crypto/cipher GCM over sm4.NewCipher (the
// construction of the TLS suites), and single-bit tampering.

import (
	"bufio"
	"bytes"
	"crypto/cipher"
	"encoding/json"
	"fmt"
	"os"

	"github.com/tjfoc/gmsm/sm4"
)

func c12Bytes(f, n, salt int) []byte {
	b := make([]byte, n)
	for i := 1; i <= n; i++ {
		switch f {
		case 0:
			b[i-1] = byte((i*41 + salt*59 + 5) % 256)
		case 1:
			b[i-1] = 255
		case 2:
			b[i-1] = 0
		case 3:
			if i > n-4 {
				b[i-1] = 255
			} else {
				b[i-1] = byte((i*7 + salt) % 256)
			}
		case 6, 7, 8:
			switch {
			case i == n:
				b[i-1] = map[int]byte{6: 1, 7: 0, 8: 2}[f]
			case i > n-4:
				b[i-1] = 0
			default:
				b[i-1] = byte((i*13 + salt) % 256)
			}
		case 5:
			switch {
			case i <= 16:
				b[i-1] = byte(i)
			case i <= 32:
				b[i-1] = 0
			default:
				b[i-1] = byte(i % 251)
			}
		}
	}
	return b
}
func c12Key(k int) []byte {
	b := make([]byte, 16)
	for j := 1; j <= 16; j++ {
		b[j-1] = byte((k*37 + j*101 + j*j*(k+3) + (k/256)*(j*29+11)) % 256)
	}
	return b
}

type c12Case struct {
	K   int `json:"k"`
	Ivf int `json:"ivf"`
	Ivl int `json:"ivl"`
	Af  int `json:"af"`
	Al  int `json:"al"`
	Pf  int `json:"pf"`
	Pl  int `json:"pl"`
	Tam int `json:"tamper"` // 1: also run the exhaustive single-bit tamper clause
}

func c12Call(key, iv, in, a []byte, mode bool) (o1, o2 []byte, errs string, intact bool) {
	// every argument sits in a buffer with canary-filled spare capacity
	mk := func(b []byte) []byte {
		x := make([]byte, len(b), len(b)+24)
		copy(x, b)
		y := x[:cap(x)]
		for i := len(b); i < len(y); i++ {
			y[i] = 0xA5
		}
		return x
	}
	k2, iv2, in2, a2 := mk(key), mk(iv), mk(in), mk(a)
	defer func() {
		if p := recover(); p != nil {
			errs = fmt.Sprint("panic: ", p)
		}
	}()
	o1, o2, err := sm4.Sm4GCM(k2, iv2, in2, a2, mode)
	if err != nil {
		errs = err.Error()
	}
	intact = true
	for _, pr := range [][2][]byte{{k2, key}, {iv2, iv}, {in2, in}, {a2, a}} {
		full := pr[0][:cap(pr[0])]
		if !bytes.Equal(full[:len(pr[1])], pr[1]) {
			intact = false
		}
		for i := len(pr[1]); i < len(full); i++ {
			if full[i] != 0xA5 {
				intact = false
			}
		}
	}
	return
}

func c12table(args []string) error {
	in, err := os.Open(args[0])
	if err != nil {
		return err
	}
	defer in.Close()
	outf, err := os.Create(args[1])
	if err != nil {
		return err
	}
	defer outf.Close()
	w := bufio.NewWriter(outf)
	defer w.Flush()
	sc := bufio.NewScanner(in)
	sc.Buffer(make([]byte, 1<<20), 1<<26)
	for sc.Scan() {
		var row struct {
			Case   c12Case `json:"case"`
			Expect struct {
				Ct  []int `json:"ct"`
				Tag []int `json:"tag"`
				Iv  []int `json:"iv"`
			} `json:"expect"`
		}
		if err := json.Unmarshal(sc.Bytes(), &row); err != nil {
			return err
		}
		c := row.Case
		key, iv, a, p := c12Key(c.K), c12Bytes(c.Ivf, c.Ivl, 1), c12Bytes(c.Af, c.Al, 2), c12Bytes(c.Pf, c.Pl, 3)
		if c.Ivf == 4 {
			iv = toBytes(row.Expect.Iv) // the IV TLC constructed so that the 32-bit counter wraps
		}
		got := map[string]interface{}{}
		ct, tag, e, intact := c12Call(key, iv, p, a, true)
		got["ct"], got["tag"], got["enc_err"], got["enc_intact"] = ints(ct), ints(tag), e, intact
		// decrypt the SPECIFICATION's ciphertext
		sct := toBytes(row.Expect.Ct)
		pt, tag2, e2, intact2 := c12Call(key, iv, sct, a, false)
		got["pt"], got["dec_tag"], got["dec_err"], got["dec_intact"] = ints(pt), ints(tag2), e2, intact2
		// the TLS construction: crypto/cipher GCM over the real sm4 block cipher
		blk, _ := sm4.NewCipher(key)
		var aead cipher.AEAD
		var aerr error
		if len(iv) == 12 {
			aead, aerr = cipher.NewGCM(blk)
		} else {
			aead, aerr = cipher.NewGCMWithNonceSize(blk, len(iv))
		}
		if aerr == nil {
			sealed := aead.Seal(nil, iv, p, a)
			got["std_ct"], got["std_tag"] = ints(sealed[:len(p)]), ints(sealed[len(p):])
		}
		// tamper clause: every single-bit change of IV, AAD, ciphertext changes the recomputed tag
		if c.Tam == 1 && len(row.Expect.Tag) == 16 {
			bad := []string{}
			want := toBytes(row.Expect.Tag)
			try := func(name string, iv, a, ct []byte) {
				_, t, _, _ := c12Call(key, iv, ct, a, false)
				if bytes.Equal(t, want) && len(bad) < 5 {
					bad = append(bad, name)
				}
			}
			flip := func(b []byte, i int) []byte { x := append([]byte(nil), b...); x[i/8] ^= 1 << uint(7-i%8); return x }
			n := 0
			for i := 0; i < len(iv)*8; i++ {
				try(fmt.Sprint("iv bit ", i), flip(iv, i), a, sct)
				n++
			}
			for i := 0; i < len(a)*8; i++ {
				try(fmt.Sprint("aad bit ", i), iv, flip(a, i), sct)
				n++
			}
			for i := 0; i < len(sct)*8; i++ {
				try(fmt.Sprint("ct bit ", i), iv, a, flip(sct, i))
				n++
			}
			// truncation / extension by one byte
			if len(sct) > 0 {
				try("ct truncated", iv, a, sct[:len(sct)-1])
			}
			try("ct extended", iv, a, append(append([]byte(nil), sct...), 0))
			try("aad extended", iv, append(append([]byte(nil), a...), 0), sct)
			got["tamper_tried"], got["tamper_undetected"] = n+3, bad
		}
		b, _ := json.Marshal(map[string]interface{}{"case": c, "got": got})
		w.Write(b)
		w.WriteByte('\n')
	}
	return sc.Err()
}

func init() { cmds["c12-table"] = c12table }
