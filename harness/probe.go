package main

import (
	"fmt"
	"github.com/tjfoc/gmsm/sm3"
)

func init() {
	cmds["probe"] = func(a []string) error { fmt.Printf("%x\n", sm3.Sm3Sum([]byte("abc"))); return nil }
}
