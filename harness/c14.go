package main

// C14: every serialisation the library offers followed by its inverse, on keys / signatures / ciphertexts
// realising each value shape of Codec.tla; wrong passwords; the TLS key-pair loaders.

import (
	"bufio"
	"bytes"
	"crypto/rand"
	"crypto/x509/pkix"
	"encoding/json"
	"encoding/pem"
	"fmt"
	"math/big"
	"os"
	"path/filepath"
	"strings"

	"github.com/tjfoc/gmsm/gmtls"
	"github.com/tjfoc/gmsm/sm2"
	"github.com/tjfoc/gmsm/x509"
)

func shapeOK(v *big.Int, shape string) bool {
	b := v.Bytes()
	switch shape {
	case "plain":
		return len(b) == 32 && b[0] >= 0x10 && b[0] < 0x80
	case "lead0_1":
		return len(b) == 31
	case "lead0_2":
		return len(b) == 30
	case "lead0_nibble":
		return len(b) == 32 && b[0] < 0x10
	case "highbit":
		return len(b) == 32 && b[0] >= 0x80
	case "top80":
		return len(b) == 32 && b[0] == 0x80
	}
	return false
}

func keyWithD(shape string) *sm2.PrivateKey {
	c := sm2.P256Sm2()
	if shape == "d_one" || shape == "d_max" || shape == "v_nm1" {
		d := big.NewInt(1)
		if shape == "d_max" {
			d = new(big.Int).Sub(c.Params().N, big.NewInt(2))
		}
		if shape == "v_nm1" { // n - 1: the largest value r and s of a signature can take (not a private key)
			d = new(big.Int).Sub(c.Params().N, big.NewInt(1))
		}
		x, y := c.ScalarBaseMult(d.Bytes())
		return &sm2.PrivateKey{PublicKey: sm2.PublicKey{Curve: c, X: x, Y: y}, D: d}
	}
	if strings.HasPrefix(shape, "ylow") {
		// the last byte of the key's DER forms (the low byte of the public y) has the value k, the private key has l bytes:
		// every value a block-cipher pad byte can have, next to the data it pads
		var k, l int
		fmt.Sscanf(shape, "ylow%d_%d", &k, &l)
		for {
			b := make([]byte, 32)
			rand.Read(b[32-l:])
			if b[32-l] == 0 {
				continue
			}
			d := new(big.Int).SetBytes(b)
			if d.Cmp(new(big.Int).Sub(c.Params().N, big.NewInt(2))) >= 0 {
				continue
			}
			x, y := c.ScalarBaseMult(d.Bytes())
			if yb := y.Bytes(); int(yb[len(yb)-1]) == k {
				return &sm2.PrivateKey{PublicKey: sm2.PublicKey{Curve: c, X: x, Y: y}, D: d}
			}
		}
	}
	for {
		b := make([]byte, 32)
		rand.Read(b)
		switch shape {
		case "lead0_1":
			b[0] = 0
			b[1] |= 1
		case "lead0_2":
			b[0], b[1] = 0, 0
			b[2] |= 1
		case "lead0_nibble":
			b[0] = b[0]&0x0f | 0x01
			b[0] &= 0x0f
		case "top80":
			b[0] = 0x80
		case "highbit":
			b[0] = b[0]&0x3f | 0x80
		case "plain":
			b[0] = b[0]&0x3f | 0x40
		}
		d := new(big.Int).SetBytes(b)
		if d.Sign() == 0 || !shapeOK(d, shape) || d.Cmp(new(big.Int).Sub(c.Params().N, big.NewInt(2))) >= 0 {
			continue
		}
		x, y := c.ScalarBaseMult(d.Bytes())
		return &sm2.PrivateKey{PublicKey: sm2.PublicKey{Curve: c, X: x, Y: y}, D: d}
	}
}

var shapeCache = map[string]*sm2.PrivateKey{}

// a key whose public x (coord "x") or y has the shape: searched over small private keys
func keyWithCoord(shape, coord string) *sm2.PrivateKey {
	if k, ok := shapeCache[shape+coord]; ok {
		return k
	}
	c := sm2.P256Sm2()
	for d := int64(2); d < 40000000; d++ {
		x, y := c.ScalarBaseMult(big.NewInt(d).Bytes())
		v := x
		if coord == "y" {
			v = y
		}
		if shapeOK(v, shape) {
			k := &sm2.PrivateKey{PublicKey: sm2.PublicKey{Curve: c, X: x, Y: y}, D: big.NewInt(d)}
			shapeCache[shape+coord] = k
			return k
		}
	}
	return nil
}

// the key n-d: its public point is (x, p-y)
func negKey(k *sm2.PrivateKey) *sm2.PrivateKey {
	c := sm2.P256Sm2()
	d := new(big.Int).Sub(c.Params().N, k.D)
	x, y := c.ScalarBaseMult(d.Bytes())
	return &sm2.PrivateKey{PublicKey: sm2.PublicKey{Curve: c, X: x, Y: y}, D: d}
}

func pwdOf(class string) []byte {
	switch class {
	case "empty":
		return []byte{}
	case "ascii":
		return []byte("correct horse battery staple")
	case "utf8":
		return []byte("密码-pässwörd-пароль")
	case "long":
		return bytes.Repeat([]byte("0123456789abcdef"), 64)
	}
	return nil
}

func samePriv(a, b *sm2.PrivateKey) bool {
	return a != nil && b != nil && a.D.Cmp(b.D) == 0 && a.X.Cmp(b.X) == 0 && a.Y.Cmp(b.Y) == 0
}
func samePub(a, b *sm2.PublicKey) bool {
	return a != nil && b != nil && a.X.Cmp(b.X) == 0 && a.Y.Cmp(b.Y) == 0
}

func pemCert(der []byte) []byte {
	return pem.EncodeToMemory(&pem.Block{Type: "CERTIFICATE", Bytes: der})
}

func runC14(c map[string]string, dir string, thorough bool) map[string]interface{} {
	got := map[string]interface{}{}
	pan := recoverStr(func() {
		switch c["kind"] {
		case "key":
			var probs []string
			for _, coord := range []string{"x", "y"} {
				var k *sm2.PrivateKey
				switch c["ser"] {
				case "privhex", "pkcs8":
					if coord == "y" {
						continue
					}
					k = keyWithD(c["shape"])
				default:
					if c["shape"] == "lead0_2" && !thorough {
						continue // needs ~65 000 candidate keys
					}
					k = keyWithCoord(c["shape"], coord)
					if k == nil {
						probs = append(probs, "no key found with shape")
						continue
					}
				}
				if c["par"] != "" && (k.Y.Bit(0) == 1) != (c["par"] == "odd") {
					k = negKey(k) // same x, the other parity of y
				}
				switch c["ser"] {
				case "privhex":
					s := x509.WritePrivateKeyToHex(k)
					k2, err := x509.ReadPrivateKeyFromHex(s)
					if err != nil || !samePriv(k, k2) {
						probs = append(probs, fmt.Sprintf("hex private key %q does not read back: %v", s[:8]+"..", err))
					}
				case "pubhex":
					s := x509.WritePublicKeyToHex(&k.PublicKey)
					p2, err := x509.ReadPublicKeyFromHex(s)
					if err != nil || !samePub(&k.PublicKey, p2) {
						probs = append(probs, fmt.Sprintf("hex public key (%s shape on %s) does not read back: %v", c["shape"], coord, err))
					}
				case "compressed":
					b := sm2.Compress(&k.PublicKey)
					p2 := sm2.Decompress(b)
					if len(b) != 33 || !samePub(&k.PublicKey, p2) {
						probs = append(probs, fmt.Sprintf("compressed point (%s shape on %s, %d bytes) does not decompress to the key", c["shape"], coord, len(b)))
					}
				case "pkix":
					b, err := x509.WritePublicKeyToPem(&k.PublicKey)
					if err != nil {
						probs = append(probs, "WritePublicKeyToPem: "+err.Error())
						break
					}
					p2, err := x509.ReadPublicKeyFromPem(b)
					if err != nil || !samePub(&k.PublicKey, p2) {
						probs = append(probs, fmt.Sprintf("PKIX public key (%s on %s) does not read back: %v", c["shape"], coord, err))
					}
				case "pkcs8":
					pw := pwdOf(c["pwd"])
					b, err := x509.WritePrivateKeyToPem(k, pw)
					if err != nil {
						probs = append(probs, "WritePrivateKeyToPem: "+err.Error())
						break
					}
					k2, err := x509.ReadPrivateKeyFromPem(b, pw)
					if err != nil || !samePriv(k, k2) {
						probs = append(probs, fmt.Sprintf("PKCS#8 key (password class %s) does not read back: %v", c["pwd"], err))
					}
				}
			}
			got["problems"] = probs
		case "sig":
			var probs []string
			for _, pair := range [][2]string{{c["shape"], "plain"}, {"plain", c["shape"]}, {c["shape"], c["shape"]}} {
				r, s := keyWithD(pair[0]).D, keyWithD(pair[1]).D
				b, err := sm2.SignDigitToSignData(r, s)
				if err != nil {
					probs = append(probs, err.Error())
					continue
				}
				r2, s2, err := sm2.SignDataToSignDigit(b)
				if err != nil || r.Cmp(r2) != 0 || s.Cmp(s2) != 0 {
					probs = append(probs, fmt.Sprintf("(r,s) with shapes %v does not survive the ASN.1 form: %v", pair, err))
				}
			}
			got["problems"] = probs
		case "cipher":
			var probs []string
			priv := keyWithD("plain")
			nonce := keyWithCoord(c["shape"], "x") // C1 = [k]G has the shape on x
			for _, kk := range []*sm2.PrivateKey{nonce, keyWithCoord(c["shape"], "y")} {
				msg := []byte("ciphertext with short coordinates")
				raw, err := sm2.Encrypt(&priv.PublicKey, msg, &nonceReader{ks: []*big.Int{kk.D}, size: 40}, sm2.C1C3C2)
				if err != nil {
					probs = append(probs, err.Error())
					continue
				}
				a, err := sm2.CipherMarshal(raw)
				if err != nil {
					probs = append(probs, "CipherMarshal: "+err.Error())
					continue
				}
				back, err := sm2.CipherUnmarshal(a)
				if err != nil || !bytes.Equal(back, raw) {
					probs = append(probs, fmt.Sprintf("ciphertext whose C1 has shape %s does not survive the ASN.1 form: %v", c["shape"], err))
				}
				if pt, err := sm2.DecryptAsn1(priv, a); err != nil || !bytes.Equal(pt, msg) {
					probs = append(probs, "DecryptAsn1 of the marshalled ciphertext fails")
				}
			}
			got["problems"] = probs
		case "wrongpwd":
			k := keyWithD("plain")
			pw := pwdOf(c["pwd"])
			b, err := x509.WritePrivateKeyToPem(k, pw)
			if err != nil {
				got["problems"] = []string{err.Error()}
				return
			}
			var accepted []string
			variants := map[string][]byte{"one character changed": append(append([]byte(nil), pw[:len(pw)-1]...), pw[len(pw)-1]^1),
				"case changed": []byte(strings.ToUpper(string(pw))), "truncated": pw[:len(pw)-1], "extended": append(append([]byte(nil), pw...), 'x'), "empty": []byte{},
				// white space around the password is part of it
				"newline appended": append(append([]byte(nil), pw...), '\n'), "space appended": append(append([]byte(nil), pw...), ' '),
				"space in front": append([]byte{' '}, pw...), "CR LF appended": append(append([]byte(nil), pw...), '\r', '\n')}
			// a history on one file: the right password, every other password, the right password again
			var probs []string
			if k2, err := x509.ReadPrivateKeyFromPem(b, pw); err != nil || !samePriv(k, k2) {
				probs = append(probs, fmt.Sprintf("the right password does not open the key (%v)", err))
			}
			for name, v := range variants {
				if bytes.Equal(v, pw) {
					continue
				}
				if k2, err := x509.ReadPrivateKeyFromPem(b, v); err == nil {
					accepted = append(accepted, fmt.Sprintf("%s (same key: %v)", name, samePriv(k, k2)))
				}
			}
			if k2, err := x509.ReadPrivateKeyFromPem(b, pw); err != nil || !samePriv(k, k2) {
				probs = append(probs, fmt.Sprintf("after attempts with other passwords the right password no longer opens the key (%v)", err))
			}
			// and on a fresh file (new salt) of the same key: other passwords first, then the right one
			b2, err := x509.WritePrivateKeyToPem(k, pw)
			if err != nil {
				probs = append(probs, err.Error())
			} else {
				for name, v := range variants {
					if bytes.Equal(v, pw) {
						continue
					}
					if k2, err := x509.ReadPrivateKeyFromPem(b2, v); err == nil {
						accepted = append(accepted, fmt.Sprintf("%s, on a file not opened before (same key: %v)", name, samePriv(k, k2)))
					}
				}
				if k2, err := x509.ReadPrivateKeyFromPem(b2, pw); err != nil || !samePriv(k, k2) {
					probs = append(probs, fmt.Sprintf("the right password does not open a file on which other passwords were tried first (%v)", err))
				}
			}
			got["problems"] = probs
			got["accepted"] = accepted
		case "loader":
			p, err := loadAdvPKI()
			if err != nil {
				got["problems"] = []string{err.Error()}
				return
			}
			keyPem := func(k interface{}) []byte {
				b, e := x509.WritePrivateKeyToPem(k.(*sm2.PrivateKey), nil)
				if e != nil {
					panic(e)
				}
				return b
			}
			sign, enc := p.sign["good"], p.enc["good"]
			other, _ := sm2.GenerateKey(rand.Reader)
			sk, ek := keyPem(sign.PrivateKey), keyPem(enc.PrivateKey)
			switch c["shape"] {
			case "otherkey":
				sk = keyPem(other)
			case "negated":
				sk = keyPem(negKey(sign.PrivateKey.(*sm2.PrivateKey)))
			case "grafted":
				// another private scalar, written with the CERTIFICATE's public point in the optional publicKey field of
				// the PKCS#8 structure: the file claims the certificate's public key, the key in it is not its private key
				sk = keyPem(&sm2.PrivateKey{PublicKey: sign.PrivateKey.(*sm2.PrivateKey).PublicKey, D: other.D})
			case "swapped":
				sk, ek = ek, sk
			case "match_prefixed":
				// the matching keys, each behind other PEM blocks in its input (an EC PARAMETERS block as openssl writes it,
				// and the certificate itself as in a combined certificate + key file): the key block is the one that counts
				ecp := pem.EncodeToMemory(&pem.Block{Type: "EC PARAMETERS", Bytes: []byte{0x06, 0x08, 0x2a, 0x81, 0x1c, 0xcf, 0x55, 0x01, 0x82, 0x2d}})
				sk = append(append(append([]byte(nil), ecp...), pemCert(sign.Certificate[0])...), sk...)
				ek = append(append([]byte(nil), ecp...), ek...)
			}
			scert, ecert := pemCert(sign.Certificate[0]), pemCert(enc.Certificate[0])
			if c["shape"] == "match_chain" || c["shape"] == "chain_cakey" {
				// leaf first, then the CA that issued it
				scert = append(append([]byte(nil), scert...), pemCert(p.ca.der)...)
				ecert = append(append([]byte(nil), ecert...), pemCert(p.ca.der)...)
				if c["shape"] == "chain_cakey" {
					sk = keyPem(p.ca.key)
				}
			}
			w := func(name string, b []byte) string {
				f := filepath.Join(dir, name)
				os.WriteFile(f, b, 0600)
				return f
			}
			var lerr error
			switch c["ser"] {
			case "X509KeyPair":
				_, lerr = gmtls.X509KeyPair(scert, sk)
			case "GMX509KeyPairsSingle":
				_, lerr = gmtls.GMX509KeyPairsSingle(scert, sk)
			case "GMX509KeyPairs":
				_, lerr = gmtls.GMX509KeyPairs(scert, sk, ecert, ek)
				if (c["shape"] == "otherkey" || c["shape"] == "negated") && lerr != nil {
					// also: right signing key, wrong encryption key
					wrong := other
					if c["shape"] == "negated" {
						wrong = negKey(enc.PrivateKey.(*sm2.PrivateKey))
					}
					_, e2 := gmtls.GMX509KeyPairs(scert, keyPem(sign.PrivateKey), ecert, keyPem(wrong))
					if e2 == nil {
						lerr = nil
						got["note"] = "accepted a wrong encryption key"
					}
				}
			case "LoadX509KeyPair":
				_, lerr = gmtls.LoadX509KeyPair(w("s.cer", scert), w("s.key", sk))
			case "LoadGMX509KeyPair":
				_, lerr = gmtls.LoadGMX509KeyPair(w("s.cer", scert), w("s.key", sk))
			case "LoadGMX509KeyPairs":
				_, lerr = gmtls.LoadGMX509KeyPairs(w("s.cer", scert), w("s.key", sk), w("e.cer", ecert), w("e.key", ek))
			}
			got["accept"] = lerr == nil
			if lerr != nil {
				got["err"] = lerr.Error()
			}
		}
	})
	if pan != "" {
		got["panic"] = pan
	}
	return got
}

var _ = pkix.Name{}

// c14-run <cases.ndjson> <obs.ndjson> <scratch dir> <thorough 0|1>
func c14run(args []string) error {
	in, err := os.Open(args[0])
	if err != nil {
		return err
	}
	defer in.Close()
	outf, err := os.Create(args[1])
	if err != nil {
		return err
	}
	defer outf.Close()
	w := bufio.NewWriter(outf)
	defer w.Flush()
	sc := bufio.NewScanner(in)
	for sc.Scan() {
		var row struct {
			Case map[string]string `json:"case"`
		}
		if err := json.Unmarshal(sc.Bytes(), &row); err != nil {
			return err
		}
		g := runC14(row.Case, args[2], args[3] == "1")
		b, _ := json.Marshal(map[string]interface{}{"case": row.Case, "got": g})
		w.Write(b)
		w.WriteByte('\n')
	}
	return sc.Err()
}

func init() { cmds["c14-run"] = c14run }
