package main

// C09: creates every object of Issue.tla's table with the real x509 package, parses it back,
// verifies it under the issuer, under another key, and after changing bytes.

import (
	"bufio"
	"bytes"
	"crypto"
	"crypto/ecdsa"
	"crypto/elliptic"
	"crypto/rand"
	"crypto/rsa"
	"crypto/x509/pkix"
	"encoding/asn1"
	"encoding/json"
	"fmt"
	"io"
	"math/big"
	"net"
	"net/url"
	"os"
	"reflect"
	"sort"
	"strings"
	"sync"
	"time"

	"github.com/tjfoc/gmsm/sm2"
	"github.com/tjfoc/gmsm/x509"
)

var algByName = map[string]x509.SignatureAlgorithm{
	"unset": 0, "SM2WithSM3": x509.SM2WithSM3, "SM2WithSHA1": x509.SM2WithSHA1, "SM2WithSHA256": x509.SM2WithSHA256,
	"SHA256WithRSA": x509.SHA256WithRSA, "SHA1WithRSA": x509.SHA1WithRSA, "SHA384WithRSA": x509.SHA384WithRSA, "SHA512WithRSA": x509.SHA512WithRSA,
	"SHA256WithRSAPSS": x509.SHA256WithRSAPSS, "SHA384WithRSAPSS": x509.SHA384WithRSAPSS, "SHA512WithRSAPSS": x509.SHA512WithRSAPSS,
	"ECDSAWithSHA256": x509.ECDSAWithSHA256, "ECDSAWithSHA1": x509.ECDSAWithSHA1, "ECDSAWithSHA384": x509.ECDSAWithSHA384, "ECDSAWithSHA512": x509.ECDSAWithSHA512,
}

func algName(a x509.SignatureAlgorithm) string {
	for k, v := range algByName {
		if v == a && k != "unset" {
			return k
		}
	}
	return fmt.Sprint("alg#", int(a))
}

var (
	signerOnce sync.Once
	signers    map[string][2]crypto.Signer // family -> (issuer key, another key of the same family)
)

func getSigners() map[string][2]crypto.Signer {
	signerOnce.Do(func() {
		signers = map[string][2]crypto.Signer{}
		s1, _ := sm2.GenerateKey(rand.Reader)
		s2, _ := sm2.GenerateKey(rand.Reader)
		signers["sm2"] = [2]crypto.Signer{s1, s2}
		o1, _ := sm2.GenerateKey(rand.Reader)
		o2, _ := sm2.GenerateKey(rand.Reader)
		signers["sm2opaque"] = [2]crypto.Signer{opaqueSigner{o1}, opaqueSigner{o2}}
		r1, _ := rsa.GenerateKey(rand.Reader, 2048)
		r2, _ := rsa.GenerateKey(rand.Reader, 2048)
		signers["rsa"] = [2]crypto.Signer{r1, r2}
		e1, _ := ecdsa.GenerateKey(elliptic.P256(), rand.Reader)
		e2, _ := ecdsa.GenerateKey(elliptic.P256(), rand.Reader)
		signers["ecdsa256"] = [2]crypto.Signer{e1, e2}
		f1, _ := ecdsa.GenerateKey(elliptic.P384(), rand.Reader)
		f2, _ := ecdsa.GenerateKey(elliptic.P384(), rand.Reader)
		signers["ecdsa384"] = [2]crypto.Signer{f1, f2}
		g1, _ := ecdsa.GenerateKey(elliptic.P521(), rand.Reader)
		g2, _ := ecdsa.GenerateKey(elliptic.P521(), rand.Reader)
		signers["ecdsa521"] = [2]crypto.Signer{g1, g2}
		h1, _ := ecdsa.GenerateKey(elliptic.P224(), rand.Reader)
		h2, _ := ecdsa.GenerateKey(elliptic.P224(), rand.Reader)
		signers["ecdsa224"] = [2]crypto.Signer{h1, h2}
	})
	return signers
}

// an SM2 key of which only Public() and Sign() are visible (no type assertion on the signer can find the key)
type opaqueSigner struct{ k *sm2.PrivateKey }

func (o opaqueSigner) Public() crypto.PublicKey { return o.k.Public() }
func (o opaqueSigner) Sign(r io.Reader, digest []byte, opts crypto.SignerOpts) ([]byte, error) {
	return o.k.Sign(r, digest, opts)
}

// a holder of a public key, as far as signature checking is concerned
func holder(pub crypto.PublicKey) *x509.Certificate {
	alg := x509.ECDSA
	switch k := pub.(type) {
	case *rsa.PublicKey:
		alg = x509.RSA
	case *sm2.PublicKey:
		// a parsed SM2 certificate carries its key as *ecdsa.PublicKey over the SM2 curve
		pub = &ecdsa.PublicKey{Curve: k.Curve, X: k.X, Y: k.Y}
	}
	return &x509.Certificate{PublicKey: pub, PublicKeyAlgorithm: alg, Version: 3, BasicConstraintsValid: true, IsCA: true,
		KeyUsage: x509.KeyUsageCertSign | x509.KeyUsageCRLSign, Subject: pkix.Name{CommonName: "issuer"}, SubjectKeyId: []byte{1, 2, 3, 4}}
}

func certTemplate(class string) *x509.Certificate {
	t := &x509.Certificate{
		SerialNumber: big.NewInt(4711),
		Subject:      pkix.Name{CommonName: "subject", Organization: []string{"org"}},
		NotBefore:    time.Date(2024, 1, 2, 3, 4, 5, 0, time.UTC),
		NotAfter:     time.Date(2034, 1, 2, 3, 4, 5, 0, time.UTC),
		KeyUsage:     x509.KeyUsageDigitalSignature,
	}
	switch class {
	case "serial20":
		t.SerialNumber = new(big.Int).SetBytes([]byte{0x7f, 2, 3, 4, 5, 6, 7, 8, 9, 10, 11, 12, 13, 14, 15, 16, 17, 18, 19, 20})
	case "names":
		t.Subject = pkix.Name{Country: []string{"CN", "DE"}, Organization: []string{"o1", "o2"}, OrganizationalUnit: []string{"ou"}, Locality: []string{"l"},
			Province: []string{"p"}, StreetAddress: []string{"s"}, PostalCode: []string{"12345"}, SerialNumber: "sn-1", CommonName: "cn",
			ExtraNames: []pkix.AttributeTypeAndValue{{Type: asn1.ObjectIdentifier{2, 5, 4, 42}, Value: "given"}}}
	case "usages":
		t.KeyUsage = x509.KeyUsageDigitalSignature | x509.KeyUsageContentCommitment | x509.KeyUsageKeyEncipherment | x509.KeyUsageDataEncipherment |
			x509.KeyUsageKeyAgreement | x509.KeyUsageCertSign | x509.KeyUsageCRLSign | x509.KeyUsageEncipherOnly | x509.KeyUsageDecipherOnly
	case "ekus":
		t.ExtKeyUsage = []x509.ExtKeyUsage{x509.ExtKeyUsageServerAuth, x509.ExtKeyUsageClientAuth, x509.ExtKeyUsageCodeSigning, x509.ExtKeyUsageEmailProtection,
			x509.ExtKeyUsageTimeStamping, x509.ExtKeyUsageOCSPSigning}
		t.UnknownExtKeyUsage = []asn1.ObjectIdentifier{{1, 2, 3, 4, 5}}
	case "ca_pathlen0":
		t.BasicConstraintsValid, t.IsCA, t.MaxPathLen, t.MaxPathLenZero = true, true, 0, true
		t.KeyUsage = x509.KeyUsageCertSign
	case "ca_pathlen2":
		t.BasicConstraintsValid, t.IsCA, t.MaxPathLen = true, true, 2
		t.KeyUsage = x509.KeyUsageCertSign
	case "sans":
		t.DNSNames = []string{"a.example.com", "*.example.org"}
		t.EmailAddresses = []string{"x@example.com"}
		t.IPAddresses = []net.IP{net.ParseIP("10.1.2.3").To4(), net.ParseIP("2001:db8::1")}
	case "constraints":
		t.BasicConstraintsValid, t.IsCA = true, true
		t.MaxPathLen = -1
		t.PermittedDNSDomainsCritical = true
		t.PermittedDNSDomains = []string{"example.com", ".example.org"}
	case "constraints_extra_policies":
		// name constraints generated from the template, certificatePolicies supplied ready-made: neither replaces the other
		t.BasicConstraintsValid, t.IsCA = true, true
		t.MaxPathLen = -1
		t.PermittedDNSDomainsCritical = true
		t.PermittedDNSDomains = []string{"example.com"}
		t.ExtraExtensions = []pkix.Extension{{Id: asn1.ObjectIdentifier{2, 5, 29, 32}, Value: []byte{0x30, 0x06, 0x30, 0x04, 0x06, 0x02, 0x2a, 0x03}}}
		t.PolicyIdentifiers = []asn1.ObjectIdentifier{{1, 2, 3}} // (what the ready-made extension says)
	case "policies":
		t.PolicyIdentifiers = []asn1.ObjectIdentifier{{1, 2, 3}, {2, 5, 29, 32, 0}}
		t.OCSPServer = []string{"http://ocsp.example.com"}
		t.IssuingCertificateURL = []string{"http://ca.example.com/ca.cer"}
		t.CRLDistributionPoints = []string{"http://crl.example.com/a.crl"}
		t.SubjectKeyId = []byte{9, 8, 7}
	case "extraext":
		t.ExtraExtensions = []pkix.Extension{{Id: asn1.ObjectIdentifier{1, 2, 3, 4, 5, 6}, Critical: false, Value: []byte{4, 2, 0xca, 0xfe}}}
	case "all_fields":
		t.Subject = pkix.Name{Country: []string{"CN"}, Organization: []string{"o1", "o2"}, CommonName: "cn", SerialNumber: "sn"}
		t.KeyUsage = x509.KeyUsageDigitalSignature | x509.KeyUsageCertSign | x509.KeyUsageCRLSign
		t.ExtKeyUsage = []x509.ExtKeyUsage{x509.ExtKeyUsageServerAuth, x509.ExtKeyUsageOCSPSigning}
		t.UnknownExtKeyUsage = []asn1.ObjectIdentifier{{1, 2, 3, 4, 5}}
		t.BasicConstraintsValid, t.IsCA, t.MaxPathLen = true, true, 1
		t.DNSNames = []string{"a.example.com"}
		t.EmailAddresses = []string{"x@example.com"}
		t.IPAddresses = []net.IP{net.ParseIP("10.1.2.3").To4()}
		t.PermittedDNSDomainsCritical = true
		t.PermittedDNSDomains = []string{"example.com"}
		t.PolicyIdentifiers = []asn1.ObjectIdentifier{{1, 2, 3}}
		t.OCSPServer = []string{"http://ocsp.example.com"}
		t.IssuingCertificateURL = []string{"http://ca.example.com/ca.cer"}
		t.CRLDistributionPoints = []string{"http://crl.example.com/a.crl"}
		t.SubjectKeyId = []byte{9, 8, 7}
		t.ExtraExtensions = []pkix.Extension{{Id: asn1.ObjectIdentifier{1, 2, 3, 4, 5, 6}, Value: []byte{4, 2, 0xca, 0xfe}}}
	case "extra_overrides_keyusage":
		// keyUsage given as an extra extension (digitalSignature + keyEncipherment) next to generated extensions
		t.KeyUsage = x509.KeyUsageCertSign
		t.ExtKeyUsage = []x509.ExtKeyUsage{x509.ExtKeyUsageServerAuth, x509.ExtKeyUsageClientAuth}
		t.DNSNames = []string{"a.example.com"}
		t.ExtraExtensions = []pkix.Extension{{Id: asn1.ObjectIdentifier{2, 5, 29, 15}, Critical: true, Value: []byte{0x03, 0x02, 0x05, 0xa0}}}
	case "extra_unknown_then_known":
		t.KeyUsage = 0
		t.ExtraExtensions = []pkix.Extension{{Id: asn1.ObjectIdentifier{1, 2, 3, 4}, Critical: false, Value: []byte{5, 0}},
			{Id: asn1.ObjectIdentifier{2, 5, 29, 15}, Critical: true, Value: []byte{0x03, 0x02, 0x05, 0xa0}}}
	case "extra_overrides_eku":
		t.ExtKeyUsage = []x509.ExtKeyUsage{x509.ExtKeyUsageServerAuth}
		t.DNSNames = []string{"a.example.com"}
		t.ExtraExtensions = []pkix.Extension{{Id: asn1.ObjectIdentifier{2, 5, 29, 37}, Value: []byte{0x30, 0x0a, 0x06, 0x08, 0x2b, 0x06, 0x01, 0x05, 0x05, 0x07, 0x03, 0x02}}}
	case "validity_edges":
		t.NotBefore = time.Date(1950, 1, 1, 0, 0, 0, 0, time.UTC)
		t.NotAfter = time.Date(2049, 12, 31, 23, 59, 59, 0, time.UTC)
	}
	return t
}

// compare the parsed certificate with the template, field by field
func certDiff(t, c *x509.Certificate) []string {
	var d []string
	chk := func(name string, a, b interface{}) {
		if !reflect.DeepEqual(a, b) {
			d = append(d, fmt.Sprintf("%s: %v != %v", name, b, a))
		}
	}
	if t.SerialNumber.Cmp(c.SerialNumber) != 0 {
		d = append(d, "serial")
	}
	attrs := func(seq pkix.RDNSequence) []string {
		var r []string
		for _, rdn := range seq {
			for _, a := range rdn {
				r = append(r, fmt.Sprint(a.Type, "=", a.Value))
			}
		}
		sort.Strings(r)
		return r
	}
	var parsed []string
	for _, a := range c.Subject.Names {
		parsed = append(parsed, fmt.Sprint(a.Type, "=", a.Value))
	}
	sort.Strings(parsed)
	chk("subject", attrs(t.Subject.ToRDNSequence()), parsed)
	chk("notBefore", t.NotBefore.Unix(), c.NotBefore.Unix())
	chk("notAfter", t.NotAfter.Unix(), c.NotAfter.Unix())
	chk("keyUsage", t.KeyUsage, c.KeyUsage)
	chk("extKeyUsage", fmt.Sprint(t.ExtKeyUsage), fmt.Sprint(c.ExtKeyUsage))
	chk("unknownEKU", fmt.Sprint(t.UnknownExtKeyUsage), fmt.Sprint(c.UnknownExtKeyUsage))
	chk("basicConstraintsValid", t.BasicConstraintsValid, c.BasicConstraintsValid)
	chk("isCA", t.IsCA, c.IsCA)
	if t.BasicConstraintsValid && t.IsCA {
		wantLen := t.MaxPathLen
		if t.MaxPathLen == 0 && !t.MaxPathLenZero {
			wantLen = -1
		}
		chk("maxPathLen", wantLen, c.MaxPathLen)
		chk("maxPathLenZero", t.MaxPathLenZero || false, c.MaxPathLenZero)
	}
	chk("dns", fmt.Sprint(t.DNSNames), fmt.Sprint(c.DNSNames))
	chk("email", fmt.Sprint(t.EmailAddresses), fmt.Sprint(c.EmailAddresses))
	chk("ips", fmt.Sprint(t.IPAddresses), fmt.Sprint(c.IPAddresses))
	chk("permitted", fmt.Sprint(t.PermittedDNSDomains), fmt.Sprint(c.PermittedDNSDomains))
	chk("permittedCritical", t.PermittedDNSDomainsCritical, c.PermittedDNSDomainsCritical)
	chk("policies", fmt.Sprint(t.PolicyIdentifiers), fmt.Sprint(c.PolicyIdentifiers))
	chk("ocsp", fmt.Sprint(t.OCSPServer), fmt.Sprint(c.OCSPServer))
	chk("aia", fmt.Sprint(t.IssuingCertificateURL), fmt.Sprint(c.IssuingCertificateURL))
	chk("crldp", fmt.Sprint(t.CRLDistributionPoints), fmt.Sprint(c.CRLDistributionPoints))
	if len(t.SubjectKeyId) > 0 {
		chk("skid", fmt.Sprint(t.SubjectKeyId), fmt.Sprint(c.SubjectKeyId))
	}
	for _, e := range t.ExtraExtensions {
		found := false
		for _, x := range c.Extensions {
			if x.Id.Equal(e.Id) && string(x.Value) == string(e.Value) && x.Critical == e.Critical {
				found = true
			}
		}
		if !found {
			d = append(d, "extra extension lost")
		}
	}
	chk("authorityKeyId", fmt.Sprint([]byte{1, 2, 3, 4}), fmt.Sprint(c.AuthorityKeyId))
	return d
}

type issueObs struct {
	Created   bool     `json:"created"`
	Err       string   `json:"err"`
	Alg       string   `json:"alg"`
	Verifies  bool     `json:"verifies"`
	VerifyErr string   `json:"verify_err"`
	OtherKey  bool     `json:"other_key"`
	Tampered  []string `json:"tampered"` // positions whose change was NOT noticed
	Resigned  []string `json:"resigned"` // re-encoded signature values (s+n, r+n) that still verified
	TamperN   int      `json:"tamper_n"`
	FieldDiff []string `json:"field_diff"`
	Panic     string   `json:"panic"`
}

func runIssue(kind, family, alg, class string, dense bool) (o issueObs) {
	o.Panic = recoverStr(func() {
		ss := getSigners()[family]
		signer, other := ss[0], ss[1]
		issuer := holder(signer.Public())
		otherHolder := holder(other.Public())
		sa := algByName[alg]
		subjKey, _ := sm2.GenerateKey(rand.Reader)
		switch class {
		case "subjkey_shortx":
			subjKey = keyWithCoord("lead0_1", "x")
		case "subjkey_shorty":
			subjKey = keyWithCoord("lead0_1", "y")
		}
		if kind == "csr" && strings.HasPrefix(class, "subjkey_") {
			signer = subjKey // the request's key is its signer's
			issuer = holder(signer.Public())
		}
		var der []byte
		var err error
		// verify returns nil iff the (possibly modified) DER verifies under h
		var verify func(der []byte, h *x509.Certificate) error
		var tbsLen func(der []byte) (tbsStart, tbsEnd, sigStart int)
		switch kind {
		case "cert":
			t := certTemplate(class)
			t.SignatureAlgorithm = sa
			der, err = x509.CreateCertificate(t, issuer, &subjKey.PublicKey, signer)
			verify = func(d []byte, h *x509.Certificate) error {
				c, e := x509.ParseCertificate(d)
				if e != nil {
					return e
				}
				return c.CheckSignatureFrom(h)
			}
			if err == nil {
				c, e := x509.ParseCertificate(der)
				if e != nil {
					err = fmt.Errorf("parse back: %v", e)
				} else {
					o.Alg = algName(c.SignatureAlgorithm)
					want := *t
					switch class { // an extra extension with the OID of a generated one replaces it
					case "extra_unknown_then_known":
						want.KeyUsage = x509.KeyUsageDigitalSignature | x509.KeyUsageKeyEncipherment
					case "extra_overrides_keyusage":
						want.KeyUsage = x509.KeyUsageDigitalSignature | x509.KeyUsageKeyEncipherment
					case "extra_overrides_eku":
						want.ExtKeyUsage = []x509.ExtKeyUsage{x509.ExtKeyUsageClientAuth}
					}
					o.FieldDiff = certDiff(&want, c)
					if len(c.UnhandledCriticalExtensions) != 0 {
						o.FieldDiff = append(o.FieldDiff, fmt.Sprint("critical extensions reported as not handled: ", c.UnhandledCriticalExtensions))
					}
					if class == "ca_pathlen0" || class == "ca_pathlen2" {
						// the same template as a SELF-signed CA certificate: it verifies under its own key (a path length
						// constraint counts the certificates below a CA, not the CA's own self-issued certificate)
						if sm, ok := signer.(interface{ Public() crypto.PublicKey }); ok {
							st := certTemplate(class)
							st.SignatureAlgorithm = sa
							spub, isSM2 := sm.Public().(*sm2.PublicKey)
							if !isSM2 {
								// (the package certifies SM2 subject keys only: a self-signed certificate needs an SM2 signer)
							} else if sder, e := x509.CreateCertificate(st, st, spub, signer); e != nil {
								o.FieldDiff = append(o.FieldDiff, "self-signed certificate of this template: "+e.Error())
							} else if sc, e := x509.ParseCertificate(sder); e != nil {
								o.FieldDiff = append(o.FieldDiff, "self-signed certificate of this template does not parse: "+e.Error())
							} else if e := sc.CheckSignatureFrom(sc); e != nil {
								o.FieldDiff = append(o.FieldDiff, "self-signed certificate of this template does not verify under its own key: "+e.Error())
							}
						}
					}
					if class == "extra_overrides_eku" || class == "extra_overrides_keyusage" || class == "constraints_extra_policies" {
						seen := map[string]int{}
						for _, e := range c.Extensions {
							seen[e.Id.String()]++
							if seen[e.Id.String()] == 2 {
								o.FieldDiff = append(o.FieldDiff, "extension "+e.Id.String()+" appears twice")
							}
						}
					}
				}
			}
		case "csr":
			t := &x509.CertificateRequest{Subject: pkix.Name{CommonName: "req", Organization: []string{"o"}}, DNSNames: []string{"r.example.com"},
				EmailAddresses: []string{"r@example.com"}, IPAddresses: []net.IP{net.ParseIP("10.0.0.9").To4()}, SignatureAlgorithm: sa}
			attrExt := asn1.ObjectIdentifier{1, 2, 3, 4, 5, 7}
			if class == "attrs_sans" {
				// the template already carries an extensionRequest attribute; the names have to be merged into it
				t.Attributes = []pkix.AttributeTypeAndValueSET{{Type: asn1.ObjectIdentifier{1, 2, 840, 113549, 1, 9, 14},
					Value: [][]pkix.AttributeTypeAndValue{{{Type: attrExt, Value: []byte{5, 0}}}}}}
			}
			der, err = x509.CreateCertificateRequest(rand.Reader, t, signer)
			verify = func(d []byte, h *x509.Certificate) error {
				c, e := x509.ParseCertificateRequest(d)
				if e != nil {
					return e
				}
				if h != issuer { // a request is checked against the key it carries; "another key" = swap the carried key
					c.PublicKey = h.PublicKey
				}
				return c.CheckSignature()
			}
			if err == nil {
				c, e := x509.ParseCertificateRequest(der)
				if e != nil {
					err = fmt.Errorf("parse back: %v", e)
				} else {
					o.Alg = algName(c.SignatureAlgorithm)
					if c.Subject.String() != t.Subject.String() || fmt.Sprint(c.DNSNames) != fmt.Sprint(t.DNSNames) || fmt.Sprint(c.EmailAddresses) != fmt.Sprint(t.EmailAddresses) || fmt.Sprint(c.IPAddresses) != fmt.Sprint(t.IPAddresses) {
						o.FieldDiff = []string{"request fields differ"}
					}
					if class == "attrs_sans" {
						found := false
						for _, e := range c.Extensions {
							if e.Id.Equal(attrExt) {
								found = true
							}
						}
						if !found {
							o.FieldDiff = append(o.FieldDiff, "the extension requested through template.Attributes is lost")
						}
					}
				}
			}
		case "crl", "revlist":
			now := time.Date(2025, 2, 3, 4, 5, 6, 0, time.UTC)
			revoked := []pkix.RevokedCertificate{{SerialNumber: big.NewInt(77), RevocationTime: now}, {SerialNumber: big.NewInt(78), RevocationTime: now}}
			if kind == "crl" {
				if sa != 0 {
					err = fmt.Errorf("n/a") // CreateCRL has no algorithm parameter
					o.Err = "n/a"
					return
				}
				der, err = issuer.CreateCRL(rand.Reader, signer, revoked, now, now.Add(24*time.Hour))
			} else {
				// (with an extension of the caller's own: it belongs to the signed part like everything else)
				der, err = x509.CreateRevocationList(rand.Reader, &x509.RevocationList{SignatureAlgorithm: sa, RevokedCertificates: revoked, Number: big.NewInt(5),
					ThisUpdate: now, NextUpdate: now.Add(24 * time.Hour),
					ExtraExtensions: []pkix.Extension{{Id: asn1.ObjectIdentifier{1, 2, 3, 4, 5, 6, 7}, Value: []byte{4, 3, 1, 2, 3}}}}, issuer, signer)
				if err == nil {
					if c, e := x509.ParseDERCRL(der); e == nil {
						found := false
						for _, x := range c.TBSCertList.Extensions {
							found = found || x.Id.Equal(asn1.ObjectIdentifier{1, 2, 3, 4, 5, 6, 7})
						}
						if !found {
							o.FieldDiff = append(o.FieldDiff, "the revocation list's extra extension is lost")
						}
					}
				}
			}
			verify = func(d []byte, h *x509.Certificate) error {
				c, e := x509.ParseDERCRL(d)
				if e != nil {
					return e
				}
				return h.CheckCRLSignature(c)
			}
			if err == nil {
				c, e := x509.ParseDERCRL(der)
				if e != nil {
					err = fmt.Errorf("parse back: %v", e)
				} else {
					if len(c.TBSCertList.RevokedCertificates) != 2 || c.TBSCertList.RevokedCertificates[0].SerialNumber.Int64() != 77 || !c.TBSCertList.ThisUpdate.Equal(now) {
						o.FieldDiff = []string{"CRL fields differ"}
					}
					o.Alg = algNameOID(c.SignatureAlgorithm.Algorithm)
					if o.Alg == "RSAPSS" { // the hash is in the parameters
						for h, n := range map[byte]string{1: "SHA256WithRSAPSS", 2: "SHA384WithRSAPSS", 3: "SHA512WithRSAPSS"} {
							if bytes.Contains(c.SignatureAlgorithm.Parameters.FullBytes, []byte{0x60, 0x86, 0x48, 0x01, 0x65, 0x03, 0x04, 0x02, h}) {
								o.Alg = n
							}
						}
					}
				}
			}
		}
		_ = tbsLen
		if err != nil {
			o.Err = err.Error()
			return
		}
		o.Created = true
		if e := verify(der, issuer); e != nil {
			o.VerifyErr = e.Error()
		} else {
			o.Verifies = true
		}
		o.OtherKey = verify(der, otherHolder) == nil
		// change bytes of the signed part (first element of the outer SEQUENCE) and of the signature value (the
		// BIT STRING's content): must fail to parse or to verify
		var outer, tbs, alg, sig asn1.RawValue
		if _, e := asn1.Unmarshal(der, &outer); e != nil {
			o.Err = "outer: " + e.Error()
			return
		}
		rest, _ := asn1.Unmarshal(outer.Bytes, &tbs)
		rest, _ = asn1.Unmarshal(rest, &alg)
		asn1.Unmarshal(rest, &sig)
		hdr := len(der) - len(outer.Bytes)
		tbsEnd := hdr + len(tbs.FullBytes)
		sigTLV := len(der) - len(sig.FullBytes) // the whole BIT STRING: header, unused-bits octet, value
		var pos []int
		for p := hdr; p < tbsEnd; p++ {
			pos = append(pos, p)
		}
		for p := sigTLV; p < len(der); p++ {
			pos = append(pos, p)
		}
		must := map[int]bool{hdr: true, tbsEnd - 1: true, sigTLV: true, sigTLV + 1: true, len(der) - len(sig.Bytes): true, len(der) - len(sig.Bytes) + 1: true, len(der) - 1: true}
		step := 1
		if !dense {
			step = len(pos)/60 + 1
		}
		for i, p := range pos {
			if i%step != 0 && !must[p] {
				continue
			}
			for _, x := range []byte{0x01, 0x80} {
				m := append([]byte(nil), der...)
				m[p] ^= x
				o.TamperN++
				if verify(m, issuer) == nil {
					// a change that does not alter the DER value semantics of the signed bytes cannot exist: report
					o.Tampered = append(o.Tampered, fmt.Sprintf("%d^%02x", p, x))
				}
			}
		}
		// the same numbers written differently are another signature value: (r, s + n) and (r + n, s) for the elliptic-curve families
		if family != "rsa" {
			var rs struct{ R, S *big.Int }
			if _, e := asn1.Unmarshal(sig.Bytes[1:], &rs); e == nil {
				n := orderOf(signer.Public())
				if n != nil {
					type variant struct {
						name string
						sig  []byte
					}
					var vs []variant
					for name, v := range map[string][2]*big.Int{"s+n": {rs.R, new(big.Int).Add(rs.S, n)}, "r+n": {new(big.Int).Add(rs.R, n), rs.S}} {
						nsig, _ := asn1.Marshal(struct{ R, S *big.Int }{v[0], v[1]})
						vs = append(vs, variant{name, nsig})
					}
					// the same two numbers followed by something else INSIDE the SEQUENCE: not SEQUENCE { r, s } any more
					x3, _ := asn1.Marshal(struct{ R, S, T *big.Int }{rs.R, rs.S, big.NewInt(1)})
					xn, _ := asn1.Marshal(struct {
						R, S *big.Int
						N    asn1.RawValue
					}{rs.R, rs.S, asn1.RawValue{Tag: 5}})
					vs = append(vs, variant{"SEQUENCE { r, s, INTEGER 1 }", x3}, variant{"SEQUENCE { r, s, NULL }", xn})
					for _, v := range vs {
						name, nsig := v.name, v.sig
						bits, _ := asn1.Marshal(asn1.BitString{Bytes: nsig, BitLength: len(nsig) * 8})
						body := append(append(append([]byte(nil), tbs.FullBytes...), alg.FullBytes...), bits...)
						m, _ := asn1.Marshal(asn1.RawValue{Class: 0, Tag: 16, IsCompound: true, Bytes: body})
						o.TamperN++
						if verify(m, issuer) == nil {
							o.Resigned = append(o.Resigned, name)
						}
					}
				}
			}
		}
	})
	return
}

func orderOf(pub crypto.PublicKey) *big.Int {
	switch k := pub.(type) {
	case *sm2.PublicKey:
		return k.Curve.Params().N
	case *ecdsa.PublicKey:
		return k.Curve.Params().N
	}
	return nil
}

var oidAlg = map[string]string{
	"1.2.156.10197.1.501": "SM2WithSM3", "1.2.156.10197.1.502": "SM2WithSHA1", "1.2.156.10197.1.503": "SM2WithSHA256",
	"1.2.840.113549.1.1.10": "RSAPSS", "1.2.840.113549.1.1.11": "SHA256WithRSA", "1.2.840.113549.1.1.5": "SHA1WithRSA", "1.2.840.113549.1.1.12": "SHA384WithRSA", "1.2.840.113549.1.1.13": "SHA512WithRSA",
	"1.2.840.10045.4.3.2": "ECDSAWithSHA256", "1.2.840.10045.4.1": "ECDSAWithSHA1", "1.2.840.10045.4.3.3": "ECDSAWithSHA384", "1.2.840.10045.4.3.4": "ECDSAWithSHA512",
}

func algNameOID(oid asn1.ObjectIdentifier) string {
	if n, ok := oidAlg[oid.String()]; ok {
		return n
	}
	return oid.String()
}

// c09-run <cases.ndjson> <obs.ndjson> <dense 0|1>
func c09run(args []string) error {
	in, err := os.Open(args[0])
	if err != nil {
		return err
	}
	defer in.Close()
	outf, err := os.Create(args[1])
	if err != nil {
		return err
	}
	defer outf.Close()
	w := bufio.NewWriter(outf)
	defer w.Flush()
	sc := bufio.NewScanner(in)
	for sc.Scan() {
		var row struct {
			Case map[string]string `json:"case"`
		}
		if err := json.Unmarshal(sc.Bytes(), &row); err != nil {
			return err
		}
		c := row.Case
		o := runIssue(c["kind"], c["signer"], c["alg"], c["class"], args[2] == "1")
		b, _ := json.Marshal(map[string]interface{}{"case": c, "got": o})
		w.Write(b)
		w.WriteByte('\n')
	}
	return sc.Err()
}

var _ = url.Parse

func init() { cmds["c09-run"] = c09run }
