package main

// C11: the SM4 ECB/CBC/CFB/OFB helpers against TLC's table, and SetIV behaviours.

import (
	"bufio"
	"bytes"
	"encoding/json"
	"fmt"
	"os"

	"github.com/tjfoc/gmsm/sm4"
)

// the key in force (Val(<<"lcg", id>>)); every key is handed to the library in the same caller-owned buffer, refilled
// for each call: the helpers must take the key from its current contents, not from what the buffer held before
var (
	c11KeyID    = 7
	c11KeyStore [16]byte
	assignCtr   int
)

func c11Key() []byte {
	copy(c11KeyStore[:], c05Val([]interface{}{"lcg", float64(c11KeyID)}))
	return c11KeyStore[:]
}
func c11IV(i int) []byte {
	b := make([]byte, 16)
	switch i {
	case 0:
		return b
	case 3:
		return []byte("0123456789abcdef")
	case 4:
		return []byte("0123456789abcdeF")
	case 5:
		return bytes.Repeat([]byte{0xfe}, 16)
	case 6:
		return bytes.Repeat([]byte{0xff}, 16)
	}
	for j := 1; j <= 16; j++ {
		b[j-1] = byte((i*53 + j*17) % 256)
	}
	return b
}
func c11Pt(f, n int) []byte {
	b := make([]byte, n)
	for i := 1; i <= n; i++ {
		switch f {
		case 0:
			b[i-1] = byte((i*29 + 11) % 256)
		case 1:
			b[i-1] = byte(1 + ((n - i) % 16))
		case 2:
			b[i-1] = 16
		}
	}
	return b
}

func c11Fn(mode string) func([]byte, []byte, bool) ([]byte, error) {
	switch mode {
	case "ecb":
		return sm4.Sm4Ecb
	case "cbc":
		return sm4.Sm4Cbc
	case "cfb":
		return sm4.Sm4CFB
	case "ofb":
		return sm4.Sm4OFB
	}
	return nil
}

// encrypt pt (placed in a buffer with or without spare capacity, canary behind it) and report
func c11Enc(mode string, pt []byte, spare bool) (out []byte, errs string, inIntact, spareIntact bool) {
	capn := len(pt)
	if spare {
		capn += 40
	}
	buf := make([]byte, capn)
	copy(buf, pt)
	for i := len(pt); i < capn; i++ {
		buf[i] = 0xA5
	}
	key := c11Key()
	korig := append([]byte(nil), key...)
	defer func() {
		if p := recover(); p != nil {
			errs = fmt.Sprint("panic: ", p)
		}
	}()
	o, err := c11Fn(mode)(key, buf[:len(pt)], true)
	if err != nil {
		errs = err.Error()
	}
	inIntact = string(buf[:len(pt)]) == string(pt) && string(key) == string(korig)
	spareIntact = true
	for i := len(pt); i < capn; i++ {
		if buf[i] != 0xA5 {
			spareIntact = false
		}
	}
	return o, errs, inIntact, spareIntact
}

func c11Dec(mode string, ct []byte) (out []byte, errs string, inIntact bool) {
	in := append([]byte(nil), ct...)
	defer func() {
		if p := recover(); p != nil {
			errs = fmt.Sprint("panic: ", p)
		}
	}()
	o, err := c11Fn(mode)(c11Key(), in, false)
	if err != nil {
		errs = err.Error()
	}
	return o, errs, string(in) == string(ct)
}

type c11Row struct {
	Case struct {
		Mode string `json:"mode"`
		Iv   int    `json:"iv"`
		Fam  int    `json:"fam"`
		Len  int    `json:"len"`
		Key  int    `json:"key"`
	} `json:"case"`
	Expect []int `json:"expect"`
}

func toBytes(a []int) []byte {
	b := make([]byte, len(a))
	for i, v := range a {
		b[i] = byte(v)
	}
	return b
}

// c11-table <cases-with-expect.ndjson> <obs.ndjson>
func c11table(args []string) error {
	in, err := os.Open(args[0])
	if err != nil {
		return err
	}
	defer in.Close()
	outf, err := os.Create(args[1])
	if err != nil {
		return err
	}
	defer outf.Close()
	w := bufio.NewWriter(outf)
	defer w.Flush()
	sc := bufio.NewScanner(in)
	sc.Buffer(make([]byte, 1<<20), 1<<26)
	for sc.Scan() {
		var row c11Row
		if err := json.Unmarshal(sc.Bytes(), &row); err != nil {
			return err
		}
		c := row.Case
		c11KeyID = 7
		if c.Key != 0 {
			c11KeyID = c.Key
		}
		if err := sm4.SetIV(c11IV(c.Iv)); err != nil {
			return err
		}
		pt := c11Pt(c.Fam, c.Len)
		got := map[string]interface{}{}
		for _, spare := range []bool{false, true} {
			o, e, ii, si := c11Enc(c.Mode, pt, spare)
			tag := "nospare"
			if spare {
				tag = "spare"
			}
			got["ct_"+tag] = ints(o)
			got["err_"+tag] = e
			got["in_intact_"+tag] = ii
			got["spare_intact_"+tag] = si
		}
		// decrypt the SPECIFICATION's ciphertext
		o, e, ii := c11Dec(c.Mode, toBytes(row.Expect))
		got["dec"] = ints(o)
		got["dec_err"] = e
		got["dec_in_intact"] = ii
		b, _ := json.Marshal(map[string]interface{}{"case": c, "got": got})
		w.Write(b)
		w.WriteByte('\n')
	}
	return sc.Err()
}

// c11-beh <behaviours.ndjson> <table.ndjson> <trace.ndjson>
func c11beh(args []string) error {
	tab := map[string][]int{}
	tf, err := os.Open(args[1])
	if err != nil {
		return err
	}
	tsc := bufio.NewScanner(tf)
	tsc.Buffer(make([]byte, 1<<20), 1<<26)
	for tsc.Scan() {
		var r struct {
			Mode string `json:"mode"`
			Iv   int    `json:"iv"`
			Fam  int    `json:"fam"`
			Len  int    `json:"len"`
			Ct   []int  `json:"ct"`
		}
		if err := json.Unmarshal(tsc.Bytes(), &r); err != nil {
			return err
		}
		if r.Fam == 0 {
			tab[fmt.Sprint(r.Mode, r.Iv, r.Len)] = r.Ct
		}
	}
	tf.Close()
	in, err := os.Open(args[0])
	if err != nil {
		return err
	}
	defer in.Close()
	outf, err := os.Create(args[2])
	if err != nil {
		return err
	}
	defer outf.Close()
	ev := &evw{w: bufio.NewWriterSize(outf, 1<<20)}
	defer ev.w.Flush()
	sc := bufio.NewScanner(in)
	sc.Buffer(make([]byte, 1<<20), 1<<26)
	for sc.Scan() {
		var ops []struct {
			Op   string `json:"op"`
			Mode string `json:"mode"`
			Iv   int    `json:"iv"`
			Len  int    `json:"len"`
			Cap  bool   `json:"cap"`
			N    int    `json:"n"`
		}
		if err := json.Unmarshal(sc.Bytes(), &ops); err != nil {
			return err
		}
		sm4.SetIV(c11IV(0))
		ev.emit(map[string]interface{}{"ev": "start"})
		for _, o := range ops {
			switch o.Op {
			case "setiv":
				// the IV is installed in one of the two ways the package offers: SetIV, or (every other time) an assignment
				// to the exported variable sm4.IV, the interface that predates SetIV - OpSetIV of Modes.tla is either
				var err error
				if assignCtr++; assignCtr%2 == 0 {
					sm4.IV = append([]byte(nil), c11IV(o.Iv)...)
				} else {
					err = sm4.SetIV(c11IV(o.Iv))
				}
				ev.emit(map[string]interface{}{"ev": "setiv", "iv": o.Iv, "err": err != nil})
			case "setiv_bad":
				bad := make([]byte, o.N)
				for i := range bad {
					bad[i] = byte(0xe0 + i) // unlike every IV of the catalogue
				}
				err := sm4.SetIV(bad)
				ev.emit(map[string]interface{}{"ev": "setiv_bad", "n": o.N, "err": err != nil})
			case "enc":
				out, e, ii, si := c11Enc(o.Mode, c11Pt(0, o.Len), o.Cap)
				ev.emit(map[string]interface{}{"ev": "enc", "mode": o.Mode, "len": o.Len, "cap": o.Cap, "out": ints(out),
					"err": e != "", "errmsg": e, "in_intact": ii, "spare_intact": si})
			case "dec":
				// the op carries the IV the SPECIFICATION holds; the ciphertext is the table's
				ivk := o.Iv
				if o.Mode == "ecb" {
					ivk = 0
				}
				ct, ok := tab[fmt.Sprint(o.Mode, ivk, o.Len)]
				if !ok {
					return fmt.Errorf("no table row for %v %v %v", o.Mode, ivk, o.Len)
				}
				out, e, ii := c11Dec(o.Mode, toBytes(ct))
				ev.emit(map[string]interface{}{"ev": "dec", "mode": o.Mode, "len": o.Len, "out": ints(out), "err": e != "", "errmsg": e, "in_intact": ii})
			}
		}
	}
	return sc.Err()
}

func init() {
	cmds["c11-table"] = c11table
	cmds["c11-beh"] = c11beh
}
