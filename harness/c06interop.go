package main

// C06: gmtls <-> Go standard library crypto/tls, each direction, one version and one suite at a time.
// The standard library is the independent implementation that must accept and decode gmtls' bytes.

import (
	"bufio"
	"bytes"
	stdtls "crypto/tls"
	"encoding/json"
	"fmt"
	"io"
	"net"
	"os"
	"runtime"
	"sync"
	"time"

	"github.com/tjfoc/gmsm/gmtls"
)

var stdSuiteIDs = map[string]uint16{
	"RSA_AES128_GCM": stdtls.TLS_RSA_WITH_AES_128_GCM_SHA256, "RSA_AES128_CBC": stdtls.TLS_RSA_WITH_AES_128_CBC_SHA,
	"ECDHE_RSA_AES128_GCM": stdtls.TLS_ECDHE_RSA_WITH_AES_128_GCM_SHA256, "ECDHE_RSA_AES256_CBC": stdtls.TLS_ECDHE_RSA_WITH_AES_256_CBC_SHA,
	"ECDHE_RSA_CHACHA": stdtls.TLS_ECDHE_RSA_WITH_CHACHA20_POLY1305_SHA256,
}

type interopCase struct {
	Kind  string `json:"kind"`
	Role  string `json:"role"`
	Vers  int    `json:"vers"`
	Suite string `json:"suite"`
}

type interopObs struct {
	GmErr, StdErr   string
	GmPanic         string
	GmComplete      bool
	StdComplete     bool
	GmVers, StdVers int
	GmSuite         string
	StdSuite        string
	DataOK          bool
	DataErr         string
	Timeout         bool
}

type rw interface {
	io.Reader
	io.Writer
}

func pump(w, r rw, total, seed int, chunk int) error {
	data := make([]byte, total)
	for i := range data {
		data[i] = byte((i*37 + seed) % 253)
	}
	errc := make(chan error, 1)
	go func() {
		for pos := 0; pos < len(data); {
			n := chunk
			if n > len(data)-pos {
				n = len(data) - pos
			}
			if _, e := w.Write(data[pos : pos+n]); e != nil {
				errc <- e
				return
			}
			pos += n
		}
		errc <- nil
	}()
	got := make([]byte, total)
	if _, e := io.ReadFull(r, got); e != nil {
		return fmt.Errorf("read: %v", e)
	}
	if e := <-errc; e != nil {
		return fmt.Errorf("write: %v", e)
	}
	if !bytes.Equal(got, data) {
		return fmt.Errorf("stream differs")
	}
	return nil
}

func runInterop(c *interopCase) (interopObs, error) {
	var o interopObs
	f, err := loadFixtures()
	if err != nil {
		return o, err
	}
	stdCert, err := stdtls.LoadX509KeyPair(certPath("rsa_sign.cer"), certPath("rsa_sign_key.pem"))
	if err != nil {
		return o, err
	}
	a, b := net.Pipe()
	defer a.Close()
	defer b.Close()
	var gm *gmtls.Conn
	var std *stdtls.Conn
	v := uint16(c.Vers)
	if c.Role == "gmtls_client" {
		gm = gmtls.Client(a, &gmtls.Config{RootCAs: f.rsaCA, ServerName: "localhost", MaxVersion: gmtls.VersionTLS12,
			CipherSuites: []uint16{suiteIDs[c.Suite]}})
		std = stdtls.Server(b, &stdtls.Config{Certificates: []stdtls.Certificate{stdCert}, MinVersion: v, MaxVersion: v,
			CipherSuites: []uint16{stdSuiteIDs[c.Suite]}})
	} else {
		var sc *gmtls.Config
		if c.Role == "gmtls_server_auto" {
			sig, enc, rsaC := f.sig, f.enc, f.rsa
			sc, err = gmtls.NewBasicAutoSwitchConfig(&sig, &enc, &rsaC)
			if err != nil {
				return o, err
			}
		} else {
			sc = &gmtls.Config{Certificates: []gmtls.Certificate{f.rsa}}
		}
		sc.CipherSuites = []uint16{suiteIDs[c.Suite]}
		gm = gmtls.Server(a, sc)
		std = stdtls.Client(b, &stdtls.Config{InsecureSkipVerify: true, ServerName: "localhost", MinVersion: v, MaxVersion: v,
			CipherSuites: []uint16{stdSuiteIDs[c.Suite]}})
	}
	var wg sync.WaitGroup
	var gmErr, stdErr error
	wg.Add(2)
	go func() {
		defer wg.Done()
		defer func() {
			if p := recover(); p != nil {
				o.GmPanic = fmt.Sprint(p) + "\n" + string(debugStack())
				a.Close()
			}
		}()
		gmErr = gm.Handshake()
		if gmErr != nil {
			a.Close()
		}
	}()
	go func() {
		defer wg.Done()
		stdErr = std.Handshake()
		if stdErr != nil {
			b.Close()
		}
	}()
	done := make(chan struct{})
	go func() { wg.Wait(); close(done) }()
	select {
	case <-done:
	case <-time.After(10 * time.Second):
		o.Timeout = true
		a.Close()
		b.Close()
		<-done
	}
	if gmErr != nil {
		o.GmErr = gmErr.Error()
	}
	if stdErr != nil {
		o.StdErr = stdErr.Error()
	}
	if o.GmPanic == "" {
		gs := gm.ConnectionState()
		o.GmComplete, o.GmVers, o.GmSuite = gs.HandshakeComplete, int(gs.Version), suiteName(gs.CipherSuite)
	}
	ss := std.ConnectionState()
	o.StdComplete, o.StdVers = ss.HandshakeComplete, int(ss.Version)
	for k, id := range stdSuiteIDs {
		if id == ss.CipherSuite {
			o.StdSuite = k
		}
	}
	if o.GmComplete && o.StdComplete && !o.Timeout {
		a.SetDeadline(time.Now().Add(10 * time.Second))
		b.SetDeadline(time.Now().Add(10 * time.Second))
		e1 := pump(gm, std, 70000, 3, 16385)
		var e2 error
		if e1 == nil {
			e2 = pump(std, gm, 70000, 4, 1207)
		}
		o.DataOK = e1 == nil && e2 == nil
		if e1 != nil {
			o.DataErr = "gmtls->std: " + e1.Error()
		} else if e2 != nil {
			o.DataErr = "std->gmtls: " + e2.Error()
		}
	}
	return o, nil
}

func c06interop(args []string) error {
	in, err := os.Open(args[0])
	if err != nil {
		return err
	}
	defer in.Close()
	outf, err := os.Create(args[1])
	if err != nil {
		return err
	}
	defer outf.Close()
	w := bufio.NewWriter(outf)
	defer w.Flush()
	sc := bufio.NewScanner(in)
	for sc.Scan() {
		var row struct {
			Case interopCase `json:"case"`
		}
		if err := json.Unmarshal(sc.Bytes(), &row); err != nil {
			return err
		}
		o, err := runInterop(&row.Case)
		if err != nil {
			return err
		}
		b, _ := json.Marshal(map[string]interface{}{"case": row.Case, "got": o})
		w.Write(b)
		w.WriteByte('\n')
	}
	return sc.Err()
}

func init() { cmds["c06-interop"] = c06interop }

func debugStack() []byte {
	buf := make([]byte, 4096)
	n := runtime.Stack(buf, false)
	return buf[:n]
}
