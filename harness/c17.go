package main

// C17: realises the cases of Containers.tla (make -> tamper -> use) with the real x509 (PKCS#7) and pkcs12
// packages, and sweeps single-byte corruptions over signed-data objects, GCM envelopes and PKCS#12 bundles.

import (
	"bufio"
	"bytes"
	"crypto"
	"crypto/ecdsa"
	"crypto/hmac"
	"crypto/rand"
	"crypto/rsa"
	"crypto/sha1"
	stdx509 "crypto/x509"
	"crypto/x509/pkix"
	"encoding/asn1"
	"encoding/json"
	"fmt"
	"math/big"
	"os"
	"strings"
	"time"
	"unicode"
	"unicode/utf16"
	"unicode/utf8"

	"github.com/tjfoc/gmsm/pkcs12"
	"github.com/tjfoc/gmsm/sm2"
	"github.com/tjfoc/gmsm/sm3"
	"github.com/tjfoc/gmsm/x509"
)

type holder17 struct {
	sm2Key  *sm2.PrivateKey
	sm2Cert *x509.Certificate
	rsaKey  *rsa.PrivateKey
	rsaCert *x509.Certificate
}

var h17 map[string]*holder17

// All holders carry the SAME subject name: a recipient or signer is identified by issuer and serial number, never by subject.
// issuer / serial assignment of Containers.tla: a,b under CA1, c,x under CA2; serials a=77 b=-77 c=77 x=-77
func setup17() error {
	if h17 != nil {
		return nil
	}
	h17 = map[string]*holder17{}
	ca1, err := newSM2CA(pkix.Name{CommonName: "C17 CA1"})
	if err != nil {
		return err
	}
	ca2, err := newSM2CA(pkix.Name{CommonName: "C17 CA2"})
	if err != nil {
		return err
	}
	// RSA certificates: signed by an RSA CA key with crypto/x509, parsed with the library
	rsaCA := map[string]*rsa.PrivateKey{}
	rsaCACert := map[string]*stdx509.Certificate{}
	for _, n := range []string{"CA1", "CA2"} {
		k, _ := rsa.GenerateKey(rand.Reader, 1024)
		t := &stdx509.Certificate{SerialNumber: big.NewInt(99), Subject: pkix.Name{CommonName: "C17 RSA " + n}, NotBefore: pkiEpoch.Add(-time.Hour),
			NotAfter: pkiEpoch.Add(20 * 365 * 24 * time.Hour), IsCA: true, BasicConstraintsValid: true, KeyUsage: stdx509.KeyUsageCertSign}
		der, err := stdx509.CreateCertificate(rand.Reader, t, t, &k.PublicKey, k)
		if err != nil {
			return err
		}
		c, _ := stdx509.ParseCertificate(der)
		rsaCA[n], rsaCACert[n] = k, c
	}
	for _, a := range []struct {
		name, ca string
		serial   int64
	}{{"a", "CA1", 77}, {"b", "CA1", -77}, {"c", "CA2", 77}, {"x", "CA2", -77}} {
		h := &holder17{}
		ca := ca1
		if a.ca == "CA2" {
			ca = ca2
		}
		h.sm2Key, _ = sm2.GenerateKey(rand.Reader)
		t := &x509.Certificate{SerialNumber: big.NewInt(a.serial), Subject: pkix.Name{CommonName: "holder"}, NotBefore: pkiEpoch.Add(-time.Hour),
			NotAfter: pkiEpoch.Add(10 * 365 * 24 * time.Hour), KeyUsage: x509.KeyUsageDigitalSignature | x509.KeyUsageKeyEncipherment | x509.KeyUsageDataEncipherment,
			SignatureAlgorithm: x509.SM2WithSM3}
		der, err := x509.CreateCertificate(t, ca.cert, &h.sm2Key.PublicKey, ca.key)
		if err != nil {
			return err
		}
		if h.sm2Cert, err = x509.ParseCertificate(der); err != nil {
			return err
		}
		h.rsaKey, _ = rsa.GenerateKey(rand.Reader, 1024)
		// (the standard library, which issues the RSA certificates, refuses negative serial numbers: 77 / 78 there)
		rserial := a.serial
		if rserial < 0 {
			rserial = 1 - rserial
		}
		rt := &stdx509.Certificate{SerialNumber: big.NewInt(rserial), Subject: pkix.Name{CommonName: "rsa holder"}, NotBefore: pkiEpoch.Add(-time.Hour),
			NotAfter: pkiEpoch.Add(10 * 365 * 24 * time.Hour), KeyUsage: stdx509.KeyUsageDigitalSignature | stdx509.KeyUsageKeyEncipherment}
		rder, err := stdx509.CreateCertificate(rand.Reader, rt, rsaCACert[a.ca], &h.rsaKey.PublicKey, rsaCA[a.ca])
		if err != nil {
			return err
		}
		if h.rsaCert, err = x509.ParseCertificate(rder); err != nil {
			return err
		}
		h17[a.name] = h
	}
	return nil
}

func content17(n int) []byte {
	b := make([]byte, n)
	for i := range b {
		b[i] = byte(i*7 + 3 + i>>8)
	}
	return b
}

// ---- mirrors of the unexported PKCS#7 structures (for building what AddSigner cannot, and for field-level changes) ----
type m7ContentInfo struct {
	ContentType asn1.ObjectIdentifier
	Content     asn1.RawValue `asn1:"explicit,optional,tag:0"`
}
type m7IAS struct {
	IssuerName   asn1.RawValue
	SerialNumber *big.Int
}
type m7Attr struct {
	Type  asn1.ObjectIdentifier
	Value asn1.RawValue `asn1:"set"`
}
type m7Signer struct {
	Version                   int `asn1:"default:1"`
	IssuerAndSerialNumber     m7IAS
	DigestAlgorithm           pkix.AlgorithmIdentifier
	AuthenticatedAttributes   []m7Attr `asn1:"optional,tag:0"`
	DigestEncryptionAlgorithm pkix.AlgorithmIdentifier
	EncryptedDigest           []byte
}
type m7RawCerts struct {
	Raw asn1.RawContent
}
type m7Signed struct {
	Version                    int                        `asn1:"default:1"`
	DigestAlgorithmIdentifiers []pkix.AlgorithmIdentifier `asn1:"set"`
	ContentInfo                m7ContentInfo
	Certificates               m7RawCerts `asn1:"optional,tag:0"`
	SignerInfos                []m7Signer `asn1:"set"`
}
type m7Recipient struct {
	Version                int
	IssuerAndSerialNumber  m7IAS
	KeyEncryptionAlgorithm pkix.AlgorithmIdentifier
	EncryptedKey           []byte
}
type m7EncContent struct {
	ContentType                asn1.ObjectIdentifier
	ContentEncryptionAlgorithm pkix.AlgorithmIdentifier
	EncryptedContent           asn1.RawValue `asn1:"tag:0,optional"`
}
type m7Enveloped struct {
	Version              int
	RecipientInfos       []m7Recipient `asn1:"set"`
	EncryptedContentInfo m7EncContent
}

var (
	o7Data       = asn1.ObjectIdentifier{1, 2, 840, 113549, 1, 7, 1}
	o7Signed     = asn1.ObjectIdentifier{1, 2, 840, 113549, 1, 7, 2}
	o7Enveloped  = asn1.ObjectIdentifier{1, 2, 840, 113549, 1, 7, 3}
	o7AttrCT     = asn1.ObjectIdentifier{1, 2, 840, 113549, 1, 9, 3}
	o7AttrMD     = asn1.ObjectIdentifier{1, 2, 840, 113549, 1, 9, 4}
	o7AttrTime   = asn1.ObjectIdentifier{1, 2, 840, 113549, 1, 9, 5}
	o7SM3        = asn1.ObjectIdentifier{1, 2, 156, 10197, 1, 401}
	o7SM3b       = asn1.ObjectIdentifier{1, 2, 156, 10197, 1, 401, 1}
	o7SM2SM3     = asn1.ObjectIdentifier{1, 2, 156, 10197, 1, 501}
	o7SHA1       = asn1.ObjectIdentifier{1, 3, 14, 3, 2, 26}
	o7SHA1RSA    = asn1.ObjectIdentifier{1, 2, 840, 113549, 1, 1, 5}
	signingTime0 = time.Date(2024, 5, 6, 7, 8, 9, 0, time.UTC)
)

type signed17 struct {
	sd      m7Signed
	kind    string
	content []byte
	second  string
	signer  string
}

func attrOf(t asn1.ObjectIdentifier, v interface{}) m7Attr {
	b, err := asn1.Marshal(v)
	if err != nil {
		panic(err)
	}
	return m7Attr{Type: t, Value: asn1.RawValue{Tag: 17, IsCompound: true, Bytes: b}}
}

// DER of the SET OF attributes (tag 0x31), the signed input when attributes are present
func attrsDER(attrs []m7Attr) []byte {
	enc, err := asn1.Marshal(struct {
		A []m7Attr `asn1:"set"`
	}{attrs})
	if err != nil {
		panic(err)
	}
	var raw asn1.RawValue
	asn1.Unmarshal(enc, &raw)
	return raw.Bytes
}

// sorted as DER requires (the library re-marshals the parsed attributes as a SET OF, which sorts them)
func sortedAttrs(attrs []m7Attr) []m7Attr {
	der := attrsDER(attrs)
	var out []m7Attr
	rest := der
	var set asn1.RawValue
	asn1.Unmarshal(der, &set)
	rest = set.Bytes
	for len(rest) > 0 {
		var a m7Attr
		var err error
		rest, err = asn1.Unmarshal(rest, &a)
		if err != nil {
			panic(err)
		}
		out = append(out, a)
	}
	return out
}

func digest17(kind string, b []byte) []byte {
	if kind == "sm2" {
		return sm3.Sm3Sum(b)
	}
	s := sha1.Sum(b)
	return s[:]
}

func sign17(kind string, h *holder17, data []byte) []byte {
	if kind == "sm2" {
		sig, err := h.sm2Key.Sign(rand.Reader, data, nil)
		if err != nil {
			panic(err)
		}
		return sig
	}
	d := sha1.Sum(data)
	sig, err := rsa.SignPKCS1v15(rand.Reader, h.rsaKey, crypto.SHA1, d[:])
	if err != nil {
		panic(err)
	}
	return sig
}

func certOf(kind string, h *holder17) *x509.Certificate {
	if kind == "sm2" {
		return h.sm2Cert
	}
	return h.rsaCert
}

func makeSigned(kind string, attrs, detached bool, signer string, content []byte, second string) *signed17 {
	h := h17[signer]
	cert := certOf(kind, h)
	digAlg, sigAlg := pkix.AlgorithmIdentifier{Algorithm: o7SHA1}, pkix.AlgorithmIdentifier{Algorithm: o7SHA1RSA}
	if kind == "sm2" {
		digAlg, sigAlg = pkix.AlgorithmIdentifier{Algorithm: o7SM3}, pkix.AlgorithmIdentifier{Algorithm: o7SM2SM3}
		if signer == "b" || signer == "x" {
			digAlg.Algorithm = o7SM3b // the other identifier the package lists for SM3
		}
	}
	if kind == "rsa" && attrs && (signer == "a" || signer == "c") && (second == "" || second == "none") {
		// the package's own producer
		if s := librarySigned(h, detached, content, signer == "c"); s != nil {
			return s
		}
	}
	si := m7Signer{Version: 1, IssuerAndSerialNumber: m7IAS{asn1.RawValue{FullBytes: cert.RawIssuer}, cert.SerialNumber}, DigestAlgorithm: digAlg, DigestEncryptionAlgorithm: sigAlg}
	if attrs {
		list := []m7Attr{attrOf(o7AttrCT, o7Data), attrOf(o7AttrMD, digest17(kind, content)), attrOf(o7AttrTime, signingTime0)}
		if signer == "b" || signer == "x" {
			// one more signed attribute (100 bytes): the SET the signature covers is longer than 127 bytes, its length two octets
			list = append(list, attrOf(asn1.ObjectIdentifier{1, 2, 3, 4, 5, 6, 7, 8}, bytes.Repeat([]byte{0x5a}, 100)))
		}
		si.AuthenticatedAttributes = sortedAttrs(list)
		si.EncryptedDigest = sign17(kind, h, attrsDER(si.AuthenticatedAttributes))
	} else {
		si.EncryptedDigest = sign17(kind, h, content)
	}
	sd := m7Signed{Version: 1, DigestAlgorithmIdentifiers: []pkix.AlgorithmIdentifier{digAlg}, SignerInfos: []m7Signer{si}}
	sd.ContentInfo.ContentType = o7Data
	if !detached {
		oct, _ := asn1.Marshal(content)
		sd.ContentInfo.Content = asn1.RawValue{Class: 2, Tag: 0, IsCompound: true, Bytes: oct}
	}
	sd.Certificates = certsRaw(cert.Raw)
	if second == "attrs" || second == "noattrs" {
		// a second signer: the first other holder, with its own attributes (another signing time) or none
		o := other17(signer)
		oc := certOf(kind, h17[o])
		si2 := m7Signer{Version: 1, IssuerAndSerialNumber: m7IAS{asn1.RawValue{FullBytes: oc.RawIssuer}, oc.SerialNumber}, DigestAlgorithm: digAlg, DigestEncryptionAlgorithm: sigAlg}
		if second == "attrs" {
			si2.AuthenticatedAttributes = sortedAttrs([]m7Attr{attrOf(o7AttrCT, o7Data), attrOf(o7AttrMD, digest17(kind, content)), attrOf(o7AttrTime, signingTime0.Add(2*time.Hour))})
			si2.EncryptedDigest = sign17(kind, h17[o], attrsDER(si2.AuthenticatedAttributes))
		} else {
			si2.EncryptedDigest = sign17(kind, h17[o], content)
		}
		sd.SignerInfos = append(sd.SignerInfos, si2)
		sd.Certificates = certsRaw(cert.Raw, oc.Raw)
	}
	if second != "attrs" && second != "noattrs" {
		signer = ""
	}
	return &signed17{sd: sd, kind: kind, content: content, second: second, signer: signer}
}

// the holder Containers.tla's OtherHolder picks is any other one; here: the next in the list
func other17(signer string) string {
	names := []string{"a", "b", "c", "x"}
	for i, n := range names {
		if n == signer {
			return names[(i+1)%len(names)]
		}
	}
	return "a"
}

// NewSignedData / AddSigner / Detach / Finish, read back into the mirror structures so that the same changes apply
// (for signer c with an extra signed attribute of 100 bytes: the SET of attributes then needs a two-octet length)
func librarySigned(h *holder17, detached bool, content []byte, extra bool) *signed17 {
	sd, err := x509.NewSignedData(content)
	if err != nil {
		panic(err)
	}
	cfg := x509.SignerInfoConfig{}
	if extra {
		cfg.ExtraSignedAttributes = []x509.Attribute{{Type: asn1.ObjectIdentifier{1, 2, 3, 4, 5, 6, 7, 8}, Value: bytes.Repeat([]byte{0x5a}, 100)}}
	}
	if err := sd.AddSigner(h.rsaCert, h.rsaKey, cfg); err != nil {
		panic(err)
	}
	if detached {
		sd.Detach()
	}
	der, err := sd.Finish()
	if err != nil {
		panic(err)
	}
	var ci m7ContentInfo
	if _, err := asn1.Unmarshal(der, &ci); err != nil {
		panic(err)
	}
	var m m7Signed
	if _, err := asn1.Unmarshal(ci.Content.Bytes, &m); err != nil {
		panic(err)
	}
	m.ContentInfo.Content.FullBytes = nil
	return &signed17{sd: m, kind: "rsa", content: content}
}

func certsRaw(ders ...[]byte) m7RawCerts {
	b, _ := asn1.Marshal(asn1.RawValue{Class: 2, Tag: 0, IsCompound: true, Bytes: bytes.Join(ders, nil)})
	return m7RawCerts{Raw: b}
}

// the same structure with the SET OF SignerInfo given as raw bytes: encoding/asn1 sorts the elements of a SET OF, which
// would always put the shorter signer (the one without attributes) first; with two signers the order on the wire is the
// order of the list (BER allows any order, and the parser reads them as they come)
type m7SignedRawSigners struct {
	Version                    int                        `asn1:"default:1"`
	DigestAlgorithmIdentifiers []pkix.AlgorithmIdentifier `asn1:"set"`
	ContentInfo                m7ContentInfo
	Certificates               m7RawCerts `asn1:"optional,tag:0"`
	SignerInfos                asn1.RawValue
}

func (s *signed17) marshal() []byte {
	var inner []byte
	var err error
	if len(s.sd.SignerInfos) == 2 {
		var list []byte
		for _, si := range s.sd.SignerInfos {
			b, e := asn1.Marshal(si)
			if e != nil {
				panic(e)
			}
			list = append(list, b...)
		}
		inner, err = asn1.Marshal(m7SignedRawSigners{s.sd.Version, s.sd.DigestAlgorithmIdentifiers, s.sd.ContentInfo, s.sd.Certificates,
			asn1.RawValue{Class: 0, Tag: 17, IsCompound: true, Bytes: list}})
	} else {
		inner, err = asn1.Marshal(s.sd)
	}
	if err != nil {
		panic(err)
	}
	out, err := asn1.Marshal(m7ContentInfo{ContentType: o7Signed, Content: asn1.RawValue{Class: 2, Tag: 0, IsCompound: true, Bytes: inner}})
	if err != nil {
		panic(err)
	}
	return out
}

func changed17(b []byte) []byte {
	if len(b) == 0 {
		return []byte{0x55}
	}
	c := append([]byte(nil), b...)
	c[len(c)/2] ^= 0x01
	return c
}

func (s *signed17) tamper(t string, attrs bool) error {
	si := &s.sd.SignerInfos[0]
	other := func() *holder17 {
		if s.signer != "" { // two signers: a holder that is neither of them
			for _, n := range []string{"a", "b", "c", "x"} {
				if n != s.signer && n != other17(s.signer) {
					return h17[n]
				}
			}
		}
		for _, n := range []string{"a", "b", "c", "x"} {
			if !bytes.Equal(certOf(s.kind, h17[n]).Raw, certDER(s.sd.Certificates)) {
				return h17[n]
			}
		}
		return nil
	}
	switch t {
	case "none":
	case "content":
		oct, _ := asn1.Marshal(changed17(s.content))
		s.sd.ContentInfo.Content = asn1.RawValue{Class: 2, Tag: 0, IsCompound: true, Bytes: oct}
	case "digest_attr", "other_attr":
		var na []m7Attr
		for _, a := range si.AuthenticatedAttributes {
			if t == "digest_attr" && a.Type.Equal(o7AttrMD) {
				a = attrOf(o7AttrMD, digest17(s.kind, changed17(s.content)))
			}
			if t == "other_attr" && a.Type.Equal(o7AttrTime) {
				a = attrOf(o7AttrTime, signingTime0.Add(time.Hour))
			}
			na = append(na, a)
		}
		si.AuthenticatedAttributes = sortedAttrs(na)
	case "signature":
		si.EncryptedDigest = append([]byte(nil), si.EncryptedDigest...)
		si.EncryptedDigest[len(si.EncryptedDigest)-3] ^= 0x04
	case "resign_other_key":
		data := s.content
		if attrs {
			data = attrsDER(si.AuthenticatedAttributes)
		}
		si.EncryptedDigest = sign17(s.kind, other(), data)
	case "second_over_attrs":
		if len(s.sd.SignerInfos) != 2 || len(s.sd.SignerInfos[1].AuthenticatedAttributes) != 0 {
			return fmt.Errorf("second_over_attrs needs a second signer without attributes")
		}
		s.sd.SignerInfos[1].EncryptedDigest = sign17(s.kind, h17[other17(s.signer)], attrsDER(si.AuthenticatedAttributes))
	case "swap_cert":
		s.sd.Certificates = certsRaw(certOf(s.kind, other()).Raw)
	default:
		return fmt.Errorf("unknown tamper %q", t)
	}
	return nil
}

func samePublicKey(a, b interface{}) bool {
	switch x := a.(type) {
	case *rsa.PublicKey:
		y, ok := b.(*rsa.PublicKey)
		return ok && x.N.Cmp(y.N) == 0 && x.E == y.E
	case *ecdsa.PublicKey:
		y, ok := b.(*ecdsa.PublicKey)
		return ok && x.X.Cmp(y.X) == 0 && x.Y.Cmp(y.Y) == 0
	case *sm2.PublicKey:
		y, ok := b.(*sm2.PublicKey)
		return ok && x.X.Cmp(y.X) == 0 && x.Y.Cmp(y.Y) == 0
	}
	return false
}

func certDER(rc m7RawCerts) []byte {
	var v asn1.RawValue
	asn1.Unmarshal(rc.Raw, &v)
	return v.Bytes
}

// ---- envelopes ----
func makeEnvelope(kind, alg string, mode int, recips []string, content []byte) ([]byte, error) {
	if alg == "gcm" {
		x509.ContentEncryptionAlgorithm = x509.EncryptionAlgorithmAES128GCM
	} else {
		x509.ContentEncryptionAlgorithm = x509.EncryptionAlgorithmDESCBC
	}
	defer func() { x509.ContentEncryptionAlgorithm = x509.EncryptionAlgorithmDESCBC }()
	var certs []*x509.Certificate
	for _, r := range recips {
		certs = append(certs, certOf(kind, h17[r]))
	}
	if kind == "sm2" {
		return x509.PKCS7EncryptSM2(content, certs, mode)
	}
	return x509.PKCS7Encrypt(content, certs)
}

// first is the certificate of the first listed recipient (the model's infos[1]; the package sorts the SET on output)
func tamperEnvelope(der []byte, t string, first *x509.Certificate) ([]byte, error) {
	if t == "none" {
		return der, nil
	}
	var ci m7ContentInfo
	if _, err := asn1.Unmarshal(der, &ci); err != nil {
		return nil, err
	}
	var ed m7Enveloped
	if _, err := asn1.Unmarshal(ci.Content.Bytes, &ed); err != nil {
		return nil, err
	}
	fi := -1
	for i, r := range ed.RecipientInfos {
		if r.IssuerAndSerialNumber.SerialNumber.Cmp(first.SerialNumber) == 0 && bytes.Equal(r.IssuerAndSerialNumber.IssuerName.FullBytes, first.RawIssuer) {
			fi = i
		}
	}
	if fi < 0 {
		return nil, fmt.Errorf("recipient info of the first recipient not found")
	}
	switch t {
	case "body":
		b := append([]byte(nil), ed.EncryptedContentInfo.EncryptedContent.Bytes...)
		if len(b) < 3 {
			return nil, fmt.Errorf("no encrypted content")
		}
		b[len(b)-2] ^= 0x10 // inside the last block / the GCM tag
		ed.EncryptedContentInfo.EncryptedContent.Bytes = b
		// as it is marshalled back the RawValue must not keep the original full encoding
		ed.EncryptedContentInfo.EncryptedContent.FullBytes = nil
	case "wrapped_key":
		k := append([]byte(nil), ed.RecipientInfos[fi].EncryptedKey...)
		k[len(k)/2] ^= 0x20
		ed.RecipientInfos[fi].EncryptedKey = k
	case "drop_recipient":
		ed.RecipientInfos = append(append([]m7Recipient(nil), ed.RecipientInfos[:fi]...), ed.RecipientInfos[fi+1:]...)
	case "reorder":
		n := len(ed.RecipientInfos)
		r := make([]m7Recipient, n)
		for i := range r {
			r[i] = ed.RecipientInfos[n-1-i]
		}
		ed.RecipientInfos = r
	default:
		return nil, fmt.Errorf("unknown tamper %q", t)
	}
	if t == "reorder" || t == "drop_recipient" || t == "wrapped_key" {
		ed.EncryptedContentInfo.EncryptedContent.FullBytes = nil
	}
	// encoding/asn1 sorts SET OF on output; "reorder" must survive, so the set is assembled by hand
	inner, err := marshalEnveloped(&ed)
	if err != nil {
		return nil, err
	}
	return asn1.Marshal(m7ContentInfo{ContentType: o7Enveloped, Content: asn1.RawValue{Class: 2, Tag: 0, IsCompound: true, Bytes: inner}})
}

func marshalEnveloped(ed *m7Enveloped) ([]byte, error) {
	v, _ := asn1.Marshal(ed.Version)
	var set []byte
	for _, r := range ed.RecipientInfos {
		b, err := asn1.Marshal(r)
		if err != nil {
			return nil, err
		}
		set = append(set, b...)
	}
	setDER, _ := asn1.Marshal(asn1.RawValue{Class: 0, Tag: 17, IsCompound: true, Bytes: set})
	eci, err := asn1.Marshal(ed.EncryptedContentInfo)
	if err != nil {
		return nil, err
	}
	body := append(append(v, setDER...), eci...)
	return asn1.Marshal(asn1.RawValue{Class: 0, Tag: 16, IsCompound: true, Bytes: body})
}

// ---- PKCS#12 ----
func pwd17(class string) string {
	switch class {
	case "empty":
		return ""
	case "ascii":
		return "Passw0rd-Abc!"
	case "utf8":
		return "päss中文-пар"
	case "long":
		return strings.Repeat("LongPassword0123", 20)
	case "badutf8":
		return "a\xffb" // not text: the package may refuse it, but must not treat it like another string
	case "bmp_edge":
		return "ＡŁ一z" // fullwidth A, L with stroke, CJK one: high bytes ff, 01, 4e
	}
	return class
}

func wrongPwd17(pw, how string) string {
	r := []rune(pw)
	switch how {
	case "badbyte":
		return strings.Replace(pw, "\xff", "\xfe", 1)
	case "char":
		if !utf8.ValidString(pw) {
			return pw + "\x00"[:0] + "Z" + pw
		}
		r[len(r)/2]++
		return string(r)
	case "case":
		for i, c := range r {
			if unicode.IsLetter(c) && unicode.ToUpper(c) != unicode.ToLower(c) {
				if unicode.IsUpper(c) {
					r[i] = unicode.ToLower(c)
				} else {
					r[i] = unicode.ToUpper(c)
				}
				return string(r)
			}
		}
		return pw + "?"
	case "nulsuffix":
		return pw + "\x00"
	case "nulpad":
		return pw + strings.Repeat("\x00", len(pw)-len(r))
	case "longer":
		return pw + "x"
	case "shorter":
		return string(r[:len(r)-1])
	case "empty":
		return ""
	case "lowbyte":
		for i := range r {
			r[i] &= 0xff
			if r[i] == 0 {
				r[i] = 0x100 // keep it a different, valid character
			}
		}
		return string(r)
	}
	return "completely different"
}

type bundle17 struct {
	der   []byte
	key   interface{}
	certs [][]byte // leaf first
	pw    string
}

func makeBundle(pwClass, keykind string, ncas int) (*bundle17, error) {
	h := h17["a"]
	b := &bundle17{pw: pwd17(pwClass)}
	var leaf *x509.Certificate
	if keykind == "sm2" {
		b.key, leaf = h.sm2Key, h.sm2Cert
	} else {
		b.key, leaf = h.rsaKey, h.rsaCert
	}
	b.certs = append(b.certs, leaf.Raw)
	var cas []*stdx509.Certificate
	for i := 0; i < ncas; i++ {
		c := certOf(keykind, h17[[]string{"b", "c"}[i]])
		cas = append(cas, &stdx509.Certificate{Raw: c.Raw}) // Encode only reads Raw
		b.certs = append(b.certs, c.Raw)
	}
	var err error
	b.der, err = pkcs12.Encode(b.key, leaf, cas, b.pw)
	return b, err
}

func sameKey17(want interface{}, got interface{}) bool {
	switch w := want.(type) {
	case *sm2.PrivateKey:
		switch g := got.(type) {
		case *sm2.PrivateKey:
			return g.D.Cmp(w.D) == 0
		case *ecdsa.PrivateKey: // what the pkcs12 package returns for SM2 keys
			return g.D.Cmp(w.D) == 0 && g.X.Cmp(w.X) == 0 && g.Y.Cmp(w.Y) == 0
		}
	case *rsa.PrivateKey:
		g, ok := got.(*rsa.PrivateKey)
		return ok && g.D.Cmp(w.D) == 0 && g.N.Cmp(w.N) == 0
	}
	return false
}

// decode through one API; returns "key+N" when the key and the N certificates are the bundle's, "error", or a description
func (b *bundle17) decode(der []byte, api, pw string) string {
	switch api {
	case "StdVerify":
		if !stdMacOK(der, pw) {
			return "error"
		}
		return fmt.Sprintf("key+%d", len(b.certs))
	case "DecodeAll":
		k, certs, err := pkcs12.DecodeAll(der, pw)
		if err != nil {
			return "error"
		}
		if !sameKey17(b.key, k) {
			return "other: a different private key"
		}
		if len(certs) != len(b.certs) {
			return fmt.Sprintf("other: %d certificates instead of %d", len(certs), len(b.certs))
		}
		for i, c := range certs {
			if !bytes.Equal(c.Raw, b.certs[i]) {
				return fmt.Sprintf("other: certificate %d differs", i)
			}
		}
		return fmt.Sprintf("key+%d", len(certs))
	case "Decode":
		k, c, err := pkcs12.Decode(der, pw)
		if err != nil {
			return "error"
		}
		if !sameKey17(b.key, k) {
			return "other: a different private key"
		}
		if c == nil || !bytes.Equal(c.Raw, b.certs[0]) {
			return "other: a different certificate"
		}
		return "key+1"
	case "ToPEM":
		blocks, err := pkcs12.ToPEM(der, pw)
		if err != nil {
			return "error"
		}
		nc, nk := 0, 0
		for _, bl := range blocks {
			switch bl.Type {
			case "CERTIFICATE":
				if nc >= len(b.certs) || !bytes.Equal(bl.Bytes, b.certs[nc]) {
					return "other: a different certificate block"
				}
				nc++
			case "PRIVATE KEY":
				nk++
				if !b.pemKeyMatches(bl.Bytes) {
					return "other: a different private key block"
				}
			}
		}
		if nk != 1 || nc != len(b.certs) {
			return fmt.Sprintf("other: %d key and %d certificate blocks without an error", nk, nc)
		}
		return fmt.Sprintf("key+%d", nc)
	}
	return "other: unknown api"
}

func (b *bundle17) pemKeyMatches(der []byte) bool {
	switch w := b.key.(type) {
	case *rsa.PrivateKey:
		k, err := x509.ParsePKCS1PrivateKey(der)
		return err == nil && k.D.Cmp(w.D) == 0
	case *sm2.PrivateKey:
		// SEC1 ECPrivateKey: the private scalar is the OCTET STRING after the version
		var ec struct {
			Version    int
			PrivateKey []byte
			Rest       asn1.RawValue `asn1:"optional"`
			Rest2      asn1.RawValue `asn1:"optional"`
		}
		if _, err := asn1.Unmarshal(der, &ec); err != nil {
			return false
		}
		return new(big.Int).SetBytes(ec.PrivateKey).Cmp(w.D) == 0
	}
	return false
}

// the PFX without its macData
func stripMac(der []byte) ([]byte, error) {
	var pfx struct {
		Version  int
		AuthSafe asn1.RawValue
		MacData  asn1.RawValue `asn1:"optional"`
	}
	if _, err := asn1.Unmarshal(der, &pfx); err != nil {
		return nil, err
	}
	return asn1.Marshal(struct {
		Version  int
		AuthSafe asn1.RawValue
	}{pfx.Version, pfx.AuthSafe})
}

// An independent reader of the integrity protection of a PFX, written from RFC 7292 and sharing nothing with the package:
// the password as a BMPString (appendix B.1: UTF-16 big endian code units followed by a 00 00 terminator), the MAC key from
// the key derivation of appendix B.2 (SHA-1, ID 3), HMAC-SHA-1 over the content of the authenticated safe.  "With that
// password" in the statement means the password in this encoding: a bundle the package writes must pass this reader with
// the password and with no other, or no other implementation could open it (and near-miss passwords might).
func stdBMP(pw string) ([]byte, bool) {
	if !utf8.ValidString(pw) {
		return nil, false
	}
	var out []byte
	for _, u := range utf16.Encode([]rune(pw)) {
		out = append(out, byte(u>>8), byte(u))
	}
	return append(out, 0, 0), true
}

func stdP12KDF(pw, salt []byte, id byte, iter, n int) []byte {
	const u, v = 20, 64
	fill := func(x []byte) []byte {
		if len(x) == 0 {
			return nil
		}
		out := make([]byte, v*((len(x)+v-1)/v))
		for i := range out {
			out[i] = x[i%len(x)]
		}
		return out
	}
	I := append(fill(salt), fill(pw)...)
	D := bytes.Repeat([]byte{id}, v)
	var out []byte
	for len(out) < n {
		a := sha1.Sum(append(append([]byte(nil), D...), I...))
		A := a[:]
		for i := 1; i < iter; i++ {
			t := sha1.Sum(A)
			A = t[:]
		}
		out = append(out, A...)
		B := make([]byte, v)
		for i := range B {
			B[i] = A[i%u]
		}
		for j := 0; j+v <= len(I); j += v {
			carry := 1
			for k := v - 1; k >= 0; k-- {
				x := int(I[j+k]) + int(B[k]) + carry
				I[j+k], carry = byte(x), x>>8
			}
		}
	}
	return out[:n]
}

func stdMacOK(der []byte, pw string) bool {
	var pfx struct {
		Version  int
		AuthSafe struct {
			Type    asn1.ObjectIdentifier
			Content asn1.RawValue `asn1:"tag:0,explicit"`
		}
		MacData struct {
			Mac struct {
				Alg    pkix.AlgorithmIdentifier
				Digest []byte
			}
			Salt []byte
			Iter int `asn1:"optional,default:1"`
		} `asn1:"optional"`
	}
	if rest, err := asn1.Unmarshal(der, &pfx); err != nil || len(rest) != 0 || len(pfx.MacData.Mac.Digest) == 0 {
		return false
	}
	if !pfx.MacData.Mac.Alg.Algorithm.Equal(asn1.ObjectIdentifier{1, 3, 14, 3, 2, 26}) || pfx.MacData.Iter < 1 || pfx.MacData.Iter > 1<<20 {
		return false
	}
	var data []byte
	if _, err := asn1.Unmarshal(pfx.AuthSafe.Content.Bytes, &data); err != nil {
		return false
	}
	bmp, ok := stdBMP(pw)
	if !ok {
		return false
	}
	key := stdP12KDF(bmp, pfx.MacData.Salt, 3, pfx.MacData.Iter, 20)
	m := hmac.New(sha1.New, key)
	m.Write(data)
	return hmac.Equal(m.Sum(nil), pfx.MacData.Mac.Digest)
}

// ---- case runner ----
type case17 struct {
	Make struct {
		What     string   `json:"what"`
		Kind     string   `json:"kind"`
		Alg      string   `json:"alg"`
		Mode     int      `json:"mode"`
		Recips   []string `json:"recips"`
		Len      int      `json:"len"`
		Attrs    bool     `json:"attrs"`
		Detached bool     `json:"detached"`
		Signer   string   `json:"signer"`
		Second   string   `json:"second"`
		Pw       string   `json:"pw"`
		Keykind  string   `json:"keykind"`
		Ncas     int      `json:"ncas"`
	} `json:"make"`
	Tamper string `json:"tamper"`
	Use    struct {
		Cert     string `json:"cert"`
		Key      string `json:"key"`
		Api      string `json:"api"`
		Mode     int    `json:"mode"`
		Supplied string `json:"supplied"`
		Pwd      string `json:"pwd"`
	} `json:"use"`
	Expect string `json:"expect"`
}

var cache17 = map[string][]byte{}
var bundleCache17 = map[string]*bundle17{}

func runCase17(c *case17) (got string, detail string) {
	p := recoverStr(func() {
		switch c.Make.What {
		case "env":
			key := fmt.Sprint("env", c.Make.Kind, c.Make.Alg, c.Make.Mode, c.Make.Recips, c.Make.Len, c.Tamper)
			content := content17(c.Make.Len)
			der, ok := cache17[key]
			if !ok {
				e, err := makeEnvelope(c.Make.Kind, c.Make.Alg, c.Make.Mode, c.Make.Recips, content)
				if err != nil {
					got, detail = "make-error", err.Error()
					return
				}
				der, err = tamperEnvelope(e, c.Tamper, certOf(c.Make.Kind, h17[c.Make.Recips[0]]))
				if err != nil {
					got, detail = "make-error", "tamper: "+err.Error()
					return
				}
				cache17[key] = der
			}
			p7, err := x509.ParsePKCS7(der)
			if err != nil {
				got, detail = "error", "parse: "+err.Error()
				return
			}
			var out []byte
			if c.Use.Api == "sm2" {
				out, err = p7.DecryptSM2(h17[c.Use.Cert].sm2Cert, h17[c.Use.Key].sm2Key, c.Use.Mode)
			} else {
				out, err = p7.Decrypt(h17[c.Use.Cert].rsaCert, h17[c.Use.Key].rsaKey)
			}
			switch {
			case err != nil:
				got, detail = "error", err.Error()
			case bytes.Equal(out, content):
				got = "content"
			default:
				got, detail = "other", fmt.Sprintf("%d bytes that are not the content, no error", len(out))
			}
		case "signed":
			content := content17(c.Make.Len)
			s := makeSigned(c.Make.Kind, c.Make.Attrs, c.Make.Detached, c.Make.Signer, content, c.Make.Second)
			if err := s.tamper(c.Tamper, c.Make.Attrs); err != nil {
				got, detail = "make-error", err.Error()
				return
			}
			got, detail = verify17(s.marshal(), c.Make.Detached, map[string][]byte{"content": content, "changed": changed17(content)}[c.Use.Supplied])
		case "p12":
			key := fmt.Sprint(c.Make.Pw, c.Make.Keykind, c.Make.Ncas)
			b, ok := bundleCache17[key]
			if !ok {
				var err error
				b, err = makeBundle(c.Make.Pw, c.Make.Keykind, c.Make.Ncas)
				if err != nil {
					got, detail = "make-error", err.Error()
					if c.Make.Pw == "badutf8" {
						got = "refused"
					}
					return
				}
				bundleCache17[key] = b
			}
			pw := b.pw
			if c.Use.Pwd != "right" {
				pw = wrongPwd17(b.pw, c.Use.Pwd)
				if pw == b.pw {
					got, detail = "make-error", "the wrong password equals the right one"
					return
				}
			}
			der := b.der
			if c.Tamper == "byte" {
				der = append([]byte(nil), der...)
				der[len(der)/3] ^= 0x01
			}
			if c.Tamper == "strip_mac" {
				var err error
				if der, err = stripMac(der); err != nil {
					got, detail = "make-error", err.Error()
					return
				}
			}
			got = b.decode(der, c.Use.Api, pw)
			if strings.HasPrefix(got, "other") {
				got, detail = "other", got
			}
		}
	})
	if p != "" {
		return "panic", p
	}
	return
}

func verify17(der []byte, detached bool, supplied []byte) (string, string) {
	p7, err := x509.ParsePKCS7(der)
	if err != nil {
		return "error", "parse: " + err.Error()
	}
	if detached {
		p7.Content = supplied
	}
	if err := p7.Verify(); err != nil {
		return "error", err.Error()
	}
	return "verified", ""
}

// c17-run <cases.ndjson> <obs.ndjson>
func c17run(args []string) error {
	if err := setup17(); err != nil {
		return err
	}
	f, err := os.Open(args[0])
	if err != nil {
		return err
	}
	defer f.Close()
	o, err := os.Create(args[1])
	if err != nil {
		return err
	}
	defer o.Close()
	w := bufio.NewWriter(o)
	defer w.Flush()
	sc := bufio.NewScanner(f)
	sc.Buffer(make([]byte, 1<<20), 1<<26)
	for sc.Scan() {
		var c case17
		if err := json.Unmarshal(sc.Bytes(), &c); err != nil {
			return err
		}
		got, detail := runCase17(&c)
		b, _ := json.Marshal(map[string]string{"got": got, "detail": detail})
		w.Write(b)
		w.WriteByte('\n')
	}
	return nil
}

// c17-sweep <out.json> <stride> <seed>: single-byte corruption of every container kind.
// The oracle is the statement's "exactly when": whatever still verifies / decrypts / decodes must carry the original fields.
func c17sweep(args []string) error {
	if err := setup17(); err != nil {
		return err
	}
	stride, seed := 1, 0
	fmt.Sscan(args[1], &stride)
	fmt.Sscan(args[2], &seed)
	type finding struct {
		Container string `json:"container"`
		Pos       int    `json:"pos"`
		Val       int    `json:"val"`
		What      string `json:"what"`
	}
	var finds []finding
	tried := map[string]int{}
	content := content17(100)
	vals := func(b byte) []byte { return []byte{b ^ 0x01, b ^ 0x80, 0x00, 0xff} }
	// an RSA envelope with DES-CBC content (the default: no integrity of its own) opened 2000 times with a certificate of
	// the recipient list and the key of ANOTHER holder: an error every time.  (An unwrap that turns a failure into a random
	// content key - a countermeasure against padding oracles - leaves only the block padding in the way: one in 256.)
	if env, err := makeEnvelope("rsa", "des", 0, []string{"a"}, content); err != nil {
		finds = append(finds, finding{"envelope des rsa", -1, 0, "PKCS7Encrypt: " + err.Error()})
	} else if p7, err := x509.ParsePKCS7(env); err != nil {
		finds = append(finds, finding{"envelope des rsa", -1, 0, "ParsePKCS7: " + err.Error()})
	} else {
		name := "envelope des rsa, another holder's key"
		for i := 0; i < 2000; i++ {
			tried[name]++
			var out []byte
			var derr error
			if pan := recoverStr(func() { out, derr = p7.Decrypt(h17["a"].rsaCert, h17["b"].rsaKey) }); pan != "" {
				finds = append(finds, finding{name, -1, i, "panic: " + pan})
				break
			}
			if derr == nil {
				finds = append(finds, finding{name, -1, i, fmt.Sprintf("attempt %d returned %d bytes and no error to a holder who is not a recipient", i+1, len(out))})
				break
			}
		}
		if out, derr := p7.Decrypt(h17["a"].rsaCert, h17["a"].rsaKey); derr != nil || !bytes.Equal(out, content) {
			finds = append(finds, finding{name, -1, 0, fmt.Sprintf("the recipient's own key does not open it: %v", derr)})
		}
	}
	// signed data
	for _, kind := range []string{"sm2", "rsa"} {
		for _, attrs := range []bool{true, false} {
			for _, det := range []bool{false, true} {
				s := makeSigned(kind, attrs, det, "a", content, "none")
				der := s.marshal()
				name := fmt.Sprintf("signed %s attrs=%v detached=%v", kind, attrs, det)
				if g, d := verify17(der, det, content); g != "verified" {
					finds = append(finds, finding{name, -1, 0, "the genuine object does not verify: " + d})
					continue
				}
				si := s.sd.SignerInfos[0]
				for pos := seed % stride; pos < len(der); pos += stride {
					for _, v := range vals(der[pos]) {
						if v == der[pos] {
							continue
						}
						m := append([]byte(nil), der...)
						m[pos] = v
						tried[name]++
						pan := recoverStr(func() {
							p7, err := x509.ParsePKCS7(m)
							if err != nil {
								return
							}
							if det {
								p7.Content = content
							}
							if p7.Verify() != nil {
								return
							}
							// it verifies: content, attributes, signature and signer key must be the genuine ones
							var probs []string
							if !bytes.Equal(p7.Content, content) {
								probs = append(probs, "content differs")
							}
							if len(p7.Signers) != 1 {
								probs = append(probs, fmt.Sprintf("%d signers", len(p7.Signers)))
							} else {
								if !bytes.Equal(p7.Signers[0].EncryptedDigest, si.EncryptedDigest) {
									probs = append(probs, "signature value differs")
								}
								if len(p7.Signers[0].AuthenticatedAttributes) != len(si.AuthenticatedAttributes) {
									probs = append(probs, "number of signed attributes differs")
								} else {
									for i, a := range p7.Signers[0].AuthenticatedAttributes {
										if !a.Type.Equal(si.AuthenticatedAttributes[i].Type) || !bytes.Equal(a.Value.Bytes, si.AuthenticatedAttributes[i].Value.Bytes) {
											probs = append(probs, "a signed attribute differs")
										}
									}
								}
							}
							sc := p7.GetOnlySigner()
							if sc == nil || !samePublicKey(sc.PublicKey, certOf(kind, h17["a"]).PublicKey) { // (the key, not its encoding: a changed NULL parameter leaves the key alone)
								probs = append(probs, "signer key differs")
							}
							if len(probs) > 0 {
								finds = append(finds, finding{name, pos, int(v), "verifies although " + strings.Join(probs, ", ")})
							}
						})
						if pan != "" {
							finds = append(finds, finding{name, pos, int(v), "panic: " + strings.SplitN(pan, "\n", 2)[0]})
						}
					}
				}
			}
		}
	}
	// GCM envelopes: error or the content, for the recipient
	for _, kind := range []string{"sm2", "rsa"} {
		der, err := makeEnvelope(kind, "gcm", 0, []string{"a", "b"}, content)
		if err != nil {
			return err
		}
		name := "envelope gcm " + kind
		for pos := seed % stride; pos < len(der); pos += stride {
			for _, v := range vals(der[pos]) {
				if v == der[pos] {
					continue
				}
				m := append([]byte(nil), der...)
				m[pos] = v
				tried[name]++
				pan := recoverStr(func() {
					p7, err := x509.ParsePKCS7(m)
					if err != nil {
						return
					}
					for _, who := range []string{"a", "b", "x"} {
						var out []byte
						if kind == "sm2" {
							out, err = p7.DecryptSM2(h17[who].sm2Cert, h17[who].sm2Key, 0)
						} else {
							out, err = p7.Decrypt(h17[who].rsaCert, h17[who].rsaKey)
						}
						if err == nil && (who == "x" || !bytes.Equal(out, content)) {
							finds = append(finds, finding{name, pos, int(v), fmt.Sprintf("holder %s got %d bytes without an error", who, len(out))})
						}
					}
				})
				if pan != "" {
					finds = append(finds, finding{name, pos, int(v), "panic: " + strings.SplitN(pan, "\n", 2)[0]})
				}
			}
		}
	}
	// PKCS#12: error or the same key and certificates
	for _, kk := range []string{"sm2", "rsa"} {
		b, err := makeBundle("ascii", kk, 1)
		if err != nil {
			finds = append(finds, finding{"pkcs12 " + kk, -1, 0, "Encode: " + err.Error()})
			continue
		}
		name := "pkcs12 " + kk
		if g := b.decode(b.der, "DecodeAll", b.pw); g != "key+2" {
			finds = append(finds, finding{name, -1, 0, "the genuine bundle decodes to: " + g})
			continue
		}
		for _, nomac := range []bool{false, true} {
			base := b.der
			if nomac {
				name += " without macData"
				if base, err = stripMac(b.der); err != nil {
					return err
				}
			}
			for pos := seed % stride; pos < len(base); pos += stride {
				for _, v := range vals(base[pos]) {
					if v == base[pos] {
						continue
					}
					m := append([]byte(nil), base...)
					m[pos] = v
					tried[name]++
					done := make(chan string, 1)
					go func() {
						var g string
						pan := recoverStr(func() { g = b.decode(m, "DecodeAll", b.pw) })
						if pan != "" {
							g = "panic: " + strings.SplitN(pan, "\n", 2)[0]
						}
						done <- g
					}()
					select {
					case g := <-done:
						if g != "error" && g != "key+2" {
							finds = append(finds, finding{name, pos, int(v), g})
						}
					case <-time.After(20 * time.Second):
						// an iteration count was hit: not a verdict of this property
					}
				}
			}
		}
	}
	out, _ := json.Marshal(map[string]interface{}{"tried": tried, "findings": finds})
	return os.WriteFile(args[0], out, 0644)
}

func init() {
	cmds["c17-run"] = c17run
	cmds["c17-sweep"] = c17sweep
}
