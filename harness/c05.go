package main

// C05: dumps the SM4 tables of the code, evaluates TLC's vector cases with the real cipher,
// replays TLC-generated call sequences on one cipher object.

import (
	"bufio"
	"bytes"
	"crypto/cipher"
	"encoding/json"
	"fmt"
	"os"

	"github.com/tjfoc/gmsm/sm4"
)

func hl(v uint32) []int { return []int{int(v >> 16), int(v & 0xffff)} }

func c05tables(args []string) error {
	s, t, f, c := sm4.VerifTables()
	out := map[string]interface{}{}
	sb := make([]int, 256)
	for i, v := range s {
		sb[i] = int(v)
	}
	out["sbox"] = sb
	tt := make([][][]int, 4)
	for j := 0; j < 4; j++ {
		tt[j] = make([][]int, 256)
		for i := 0; i < 256; i++ {
			tt[j][i] = hl(t[j][i])
		}
	}
	out["t"] = tt
	ff := make([][]int, 4)
	for i, v := range f {
		ff[i] = hl(v)
	}
	out["fk"] = ff
	cc := make([][]int, 32)
	for i, v := range c {
		cc[i] = hl(v)
	}
	out["ck"] = cc
	b, _ := json.Marshal(out)
	return os.WriteFile(args[0], b, 0644)
}

// descriptor [family, parameter] -> 16 bytes (same as Val in SM4Tab.tla)
func c05Val(d []interface{}) []byte {
	fam := d[0].(string)
	p := int(d[1].(float64))
	b := make([]byte, 16)
	switch fam {
	case "std":
		copy(b, []byte{1, 35, 69, 103, 137, 171, 205, 239, 254, 220, 186, 152, 118, 84, 50, 16})
	case "bit":
		b[p/8] = 1 << uint(7-p%8)
	case "fill":
		for i := range b {
			b[i] = byte(p)
		}
	case "lcg":
		for j := 1; j <= 16; j++ {
			b[j-1] = byte((p*37 + j*101 + j*j*(p+3) + (p/256)*(j*29+11)) % 256)
		}
	}
	return b
}

func c05vec(args []string) error {
	in, err := os.Open(args[0])
	if err != nil {
		return err
	}
	defer in.Close()
	outf, err := os.Create(args[1])
	if err != nil {
		return err
	}
	defer outf.Close()
	w := bufio.NewWriter(outf)
	defer w.Flush()
	sc := bufio.NewScanner(in)
	sc.Buffer(make([]byte, 1<<20), 1<<26)
	for sc.Scan() {
		var row struct {
			Case map[string]interface{} `json:"case"`
		}
		if err := json.Unmarshal(sc.Bytes(), &row); err != nil {
			return err
		}
		c := row.Case
		var got interface{}
		switch c["kind"] {
		case "vec":
			blk, err := c05NewCipher(c05Val(c["k"].([]interface{})))
			if err != nil {
				got = map[string]interface{}{"error": err.Error()}
				break
			}
			// destination and source at every alignment within a word (disjoint buffers)
			vecCtr++
			src := c05At(vecCtr/4, c05Val(c["b"].([]interface{})))
			e := c05At(vecCtr, nil)
			d := c05At(vecCtr+1, nil)
			blk.Encrypt(e, src)
			blk.Decrypt(d, src)
			got = map[string]interface{}{"enc": ints(e), "dec": ints(d)}
			// source and destination as neighbouring, non-overlapping blocks of ONE array with spare capacity behind them (the
			// way a mode of operation walks a buffer), in both orders, and exactly the same block (in place)
			func() {
				defer func() {
					if p := recover(); p != nil {
						got = map[string]interface{}{"error": fmt.Sprint("panic with source and destination in one array: ", p)}
					}
				}()
				arr := make([]byte, 64)
				copy(arr[16:32], src)
				blk.Encrypt(arr[32:48], arr[16:32])
				blk.Encrypt(arr[0:16], arr[16:32])
				blk.Decrypt(arr[48:64], arr[16:32])
				// (and with slices that are LONGER than a block and reach over the other argument's block: only their first
				// 16 bytes are the operands)
				arr2 := make([]byte, 64)
				copy(arr2[0:16], src)
				blk.Encrypt(arr2[16:32], arr2)       // source open-ended from 0, destination inside it
				blk.Decrypt(arr2[32:], arr2[0:16:64]) // destination open-ended
				if !bytes.Equal(arr2[16:32], e) || !bytes.Equal(arr2[32:48], d) || !bytes.Equal(arr2[0:16], src) {
					got = map[string]interface{}{"error": "another result with open-ended slices of one array"}
					return
				}
				inpl := append(make([]byte, 0, 40), src...)
				blk.Encrypt(inpl, inpl)
				if !bytes.Equal(arr[32:48], e) || !bytes.Equal(arr[0:16], e) || !bytes.Equal(arr[48:64], d) || !bytes.Equal(inpl, e) || !bytes.Equal(arr[16:32], src) {
					got = map[string]interface{}{"error": "another result with source and destination in one array"}
				}
			}()
		case "keylen":
			n := int(c["n"].(float64))
			key := make([]byte, n)
			for i := range key {
				switch c["fill"] {
				case "ff":
					key[i] = 0xff
				case "hexdigits":
					key[i] = "0123456789abcdefFEDCBA9876543210"[i%32]
				case "text":
					key[i] = byte('A' + i%26)
				}
			}
			_, err := sm4.NewCipher(key)
			got = map[string]interface{}{"err": err != nil}
		}
		b, _ := json.Marshal(map[string]interface{}{"case": c, "got": got})
		w.Write(b)
		w.WriteByte('\n')
	}
	return sc.Err()
}

// Every key reaches NewCipher in the same caller-owned buffer, which is overwritten as soon as NewCipher has returned
// (a caller may wipe or reuse its key material): the cipher object must not depend on that memory afterwards, and a
// later NewCipher must not mistake the buffer for the key it held before.
var c05KeyStore [16]byte

func c05NewCipher(k []byte) (cipher.Block, error) {
	if len(k) != len(c05KeyStore) {
		return sm4.NewCipher(k)
	}
	buf := c05KeyStore[:]
	copy(buf, k)
	blk, err := sm4.NewCipher(buf)
	for i := range buf {
		buf[i] = 0xa5
	}
	return blk, err
}

var vecCtr int

// a 16-byte slice that starts off bytes into its backing array (off mod 8), filled with v if given
func c05At(off int, v []byte) []byte {
	buf := make([]byte, 16+8)
	b := buf[off%8 : off%8+16 : off%8+16]
	copy(b, v)
	return b
}

type cipherBeh struct {
	Key int `json:"key"`
	Ops []struct {
		Op    string `json:"op"`
		B     int    `json:"b"`
		Alias bool   `json:"alias"`
	} `json:"ops"`
}

func c05beh(args []string) error {
	in, err := os.Open(args[0])
	if err != nil {
		return err
	}
	defer in.Close()
	outf, err := os.Create(args[1])
	if err != nil {
		return err
	}
	defer outf.Close()
	ev := &evw{w: bufio.NewWriterSize(outf, 1<<20)}
	defer ev.w.Flush()
	sc := bufio.NewScanner(in)
	sc.Buffer(make([]byte, 1<<20), 1<<26)
	for sc.Scan() {
		var beh cipherBeh
		if err := json.Unmarshal(sc.Bytes(), &beh); err != nil {
			return err
		}
		blk, err := c05NewCipher(c05Val([]interface{}{"lcg", float64(100 + beh.Key)}))
		bs := 0
		if err == nil {
			bs = blk.BlockSize()
		}
		ev.emit(map[string]interface{}{"ev": "new", "key": beh.Key, "err": err != nil, "bs": bs})
		if err != nil {
			continue
		}
		for _, o := range beh.Ops {
			if o.Op == "encshort" || o.Op == "decshort" {
				// half a block as source: refused one way or another (a panic is recovered, as an application might)
				func() {
					defer func() { recover() }()
					short, dst := c05At(vecCtr, c05Val([]interface{}{"lcg", float64(1)}))[:8], c05At(vecCtr+1, nil)
					if o.Op == "encshort" {
						blk.Encrypt(dst, short)
					} else {
						blk.Decrypt(dst, short)
					}
				}()
				ev.emit(map[string]interface{}{"ev": "short", "op": o.Op})
				continue
			}
			vecCtr++
			src := c05At(vecCtr/3, c05Val([]interface{}{"lcg", float64(o.B)}))
			orig := append([]byte(nil), src...)
			// every third destination is longer than a block (cipher.Block allows it: only the first 16 bytes are written)
			tail := 0
			if vecCtr%3 == 0 && !o.Alias {
				tail = 16 + vecCtr%5
			}
			dstBuf := make([]byte, 8+16+tail)
			for i := range dstBuf {
				dstBuf[i] = 0xC3
			}
			dst := dstBuf[vecCtr%8 : vecCtr%8+16+tail]
			if o.Alias {
				dst = src
			}
			pan := recoverStr(func() {
				if o.Op == "enc" {
					blk.Encrypt(dst, src)
				} else {
					blk.Decrypt(dst, src)
				}
			})
			if pan != "" {
				// a legal call must not panic: an event the specification has no action for
				ev.emit(map[string]interface{}{"ev": "panic", "op": o.Op, "b": o.B, "alias": o.Alias, "dst_len": len(dst), "what": pan})
				break
			}
			tailIntact := true
			for _, v := range dst[16:] {
				if v != 0xC3 {
					tailIntact = false
				}
			}
			ev.emit(map[string]interface{}{"ev": "call", "op": o.Op, "b": o.B, "alias": o.Alias, "out": ints(dst[:16]),
				"src_intact": string(src) == string(orig), "tail_intact": tailIntact})
		}
	}
	return sc.Err()
}

func init() {
	cmds["c05-tables"] = c05tables
	cmds["c05-vec"] = c05vec
	cmds["c05-beh"] = c05beh
}
