package main

// C16: executes TLC-generated histories of TLCPResume.tla (connections, ticket-key rotations, suite /
// client-auth / ticket-switch changes, ticket tampering) against real gmtls endpoints sharing one client
// session cache.

import (
	"bufio"
	"bytes"
	"encoding/hex"
	"encoding/json"
	"fmt"
	"github.com/tjfoc/gmsm/x509"
	"os"
	"strings"
	"time"

	"github.com/tjfoc/gmsm/gmtls"
)

type resOp struct {
	Op        string   `json:"op"`
	Name      string   `json:"name"`
	Expect    string   `json:"expect"`
	Sid       int      `json:"sid"`
	Suite     string   `json:"suite"`
	Hascert   bool     `json:"hascert"`
	Offered   bool     `json:"offered"`
	Keep      bool     `json:"keep"`
	S         []string `json:"s"`
	A         string   `json:"a"`
	Ccert     bool     `json:"ccert"`
	Untrusted bool     `json:"untrusted"` // auth: the client's certificate is issued by a CA the server does not trust
	B         bool     `json:"b"`
	V         int      `json:"v"`
	Region    string   `json:"region"`
	Byte      int      `json:"byte"` // driver-side: which byte of the region (-1: middle)
	Vers      int      `json:"vers"` // connect: the version in force according to the specification
}

type resObs struct {
	Step       int    `json:"step"`
	CliErr     string `json:"cli_err"`
	SrvErr     string `json:"srv_err"`
	Panic      string `json:"panic"`
	CliResumed bool   `json:"cli_resumed"`
	SrvResumed bool   `json:"srv_resumed"`
	Complete   bool   `json:"complete"`
	Suite      string `json:"suite"`
	EkmEqual   bool   `json:"ekm_equal"`
	MsKnown    bool   `json:"ms_known"`    // the client cache holds a session after this connection
	MsSameSid  bool   `json:"ms_same_sid"` // ... whose master secret is the one of the full handshake with this sid
	SrvSawCert bool   `json:"srv_saw_cert"`
	CliPeers   int    `json:"cli_peers"` // certificates of the server as the client reports them
	DataOK     bool   `json:"data_ok"`
}

func tlsOrGM(proto string) map[string]uint16 {
	if proto == "tls" || proto == "auto_tls" {
		return map[string]uint16{"CBC": gmtls.TLS_RSA_WITH_AES_128_CBC_SHA, "GCM": gmtls.TLS_RSA_WITH_AES_128_GCM_SHA256}
	}
	return map[string]uint16{"CBC": gmtls.GMTLS_SM2_WITH_SM4_SM3, "GCM": gmtls.GMTLS_ECC_SM4_GCM_SM3}
}

func runHistory(ops []resOp, proto string, capN int) ([]resObs, error) {
	gcfc := strings.HasSuffix(proto, "+gcfc")
	proto = strings.TrimSuffix(proto, "+gcfc")
	// "+clone": one long-lived server Config receives the key rotations; every connection is served by a Clone of it
	cloned := strings.HasSuffix(proto, "+clone")
	proto = strings.TrimSuffix(proto, "+clone")
	var front *gmtls.Config
	f, err := loadFixtures()
	if err != nil {
		return nil, err
	}
	sm := tlsOrGM(proto)
	prefOrder := []string{"CBC", "GCM"}
	pick := func(set map[string]bool) []uint16 {
		var r []uint16
		for _, n := range prefOrder {
			if set[n] {
				r = append(r, sm[n])
			}
		}
		return r
	}
	keyBytes := func(id int) [32]byte {
		var k [32]byte
		for i := range k {
			k[i] = byte(id*37 + i*11 + 1)
		}
		return k
	}
	keys := []int{1}
	nextKey := 2
	ssuites := map[string]bool{"CBC": true, "GCM": true}
	csuites := map[string]bool{"CBC": true, "GCM": true}
	cauth, ccert, disabled := "none", false, false
	cuntrusted := false
	cvers := uint16(gmtls.VersionTLS12)
	cache := gmtls.NewLRUClientSessionCache(capN)
	msOfSid := map[int][]byte{}
	var out []resObs
	for step, op := range ops {
		switch op.Op {
		case "rotate":
			if op.Keep {
				keys = []int{nextKey, keys[0]}
			} else {
				keys = []int{nextKey}
			}
			nextKey++
		case "ssuites":
			ssuites = map[string]bool{}
			for _, s := range op.S {
				ssuites[s] = true
			}
		case "csuites":
			csuites = map[string]bool{}
			for _, s := range op.S {
				csuites[s] = true
			}
		case "auth":
			cauth, ccert, cuntrusted = op.A, op.Ccert, op.Untrusted
		case "disabled":
			disabled = op.B
		case "vers":
			cvers = gmtls.VersionTLS12
			if op.V == 11 {
				cvers = gmtls.VersionTLS11
			}
		case "tamper":
			cs, ok := cache.Get(op.Name)
			if !ok || cs == nil {
				return nil, fmt.Errorf("step %d: no cached session for %q to tamper with", step, op.Name)
			}
			t := gmtls.VerifSessionTicket(cs)
			lo, hi := 0, len(t)
			switch op.Region {
			case "keyname":
				lo, hi = 0, 16
			case "iv":
				lo, hi = 16, 32
			case "state":
				lo, hi = 32, len(t)-32
			case "mac":
				lo, hi = len(t)-32, len(t)
			case "state_tail": // counted backwards from the byte in front of the MAC
				lo, hi = 32, len(t)-32
			}
			switch op.Region {
			case "truncate":
				t = t[:len(t)-1]
			case "extend":
				t = append(t, 0)
			default:
				pos := lo + (hi-lo)/2
				if op.Byte >= 0 && lo+op.Byte < hi {
					pos = lo + op.Byte
				}
				if op.Region == "state_tail" {
					b := op.Byte
					if b < 0 {
						b = 0
					}
					pos = hi - 1 - b
				}
				t[pos] ^= 1
			}
			cache.Put(op.Name, gmtls.VerifWithTicket(cs, t))
		case "connect":
			var o resObs
			o.Step = step
			if op.Vers == 11 {
				cvers = gmtls.VersionTLS11
			} else if op.Vers == 12 {
				cvers = gmtls.VersionTLS12
			}
			authSM2, authRSA := f.auth, f.rsaAuth
			if cuntrusted {
				rg, err := loadRogue()
				if err != nil {
					return nil, err
				}
				authSM2, authRSA = rg.sm2, rg.rsa
			} else if capN == 2 {
				// in the histories with a cache of two entries the client's (trusted) certificate comes as a chain: leaf and
				// an intermediate CA under the root the server trusts - the ticket then carries both
				rg, err := loadRogue()
				if err != nil {
					return nil, err
				}
				authSM2, authRSA = rg.chainSM2, rg.chainRSA
			}
			build := func() (sc, cc *gmtls.Config, err error) {
				if proto == "auto_gm" || proto == "auto_tls" {
					// the auto-switch server of the documentation, serving whichever protocol the client speaks
					sig, enc, rsaC := f.sig, f.enc, f.rsa
					var err error
					if sc, err = gmtls.NewBasicAutoSwitchConfig(&sig, &enc, &rsaC); err != nil {
						return nil, nil, err
					}
					if proto == "auto_gm" {
						cc = &gmtls.Config{GMSupport: &gmtls.GMSupport{}, InsecureSkipVerify: true}
						if ccert {
							cc.Certificates = []gmtls.Certificate{authSM2}
						}
					} else {
						cc = &gmtls.Config{InsecureSkipVerify: true, MaxVersion: cvers}
						if ccert {
							cc.Certificates = []gmtls.Certificate{authRSA}
						}
					}
					both := x509.NewCertPool()
					for _, n := range []string{"SM2_CA.cer", "RSA_CA.cer"} {
						b, _ := os.ReadFile(certPath(n))
						both.AppendCertsFromPEM(b)
					}
					sc.ClientCAs = both
				} else if proto == "gm" {
					sc = &gmtls.Config{GMSupport: &gmtls.GMSupport{}, Certificates: []gmtls.Certificate{f.sig, f.enc}}
					cc = &gmtls.Config{GMSupport: &gmtls.GMSupport{}, InsecureSkipVerify: true}
					if ccert {
						cc.Certificates = []gmtls.Certificate{authSM2}
					}
					sc.ClientCAs = f.sm2CA
				} else {
					sc = &gmtls.Config{Certificates: []gmtls.Certificate{f.rsa}}
					cc = &gmtls.Config{InsecureSkipVerify: true, MaxVersion: cvers}
					if ccert {
						cc.Certificates = []gmtls.Certificate{authRSA}
					}
					sc.ClientCAs = f.rsaCA
				}
				sc.CipherSuites = pick(ssuites)
				sc.SessionTicketsDisabled = disabled
				switch cauth {
				case "request":
					sc.ClientAuth = gmtls.RequestClientCert
				case "requireany":
					sc.ClientAuth = gmtls.RequireAnyClientCert
				case "verifyifgiven":
					sc.ClientAuth = gmtls.VerifyClientCertIfGiven
				case "require":
					sc.ClientAuth = gmtls.RequireAndVerifyClientCert
				}
				return sc, cc, nil
			}
			sc, cc, err := build()
			if err != nil {
				return nil, err
			}
			var kk [][32]byte
			for _, id := range keys {
				kk = append(kk, keyBytes(id))
			}
			if gcfc {
				// every connection is served by a fresh Config handed out by GetConfigForClient; it has no ticket keys of
				// its own and must follow the front configuration's (rotations included)
				sc.GetConfigForClient = func(*gmtls.ClientHelloInfo) (*gmtls.Config, error) {
					inner, _, err := build()
					return inner, err
				}
			}
			if cloned {
				if front == nil {
					front = sc
				}
				front.SetSessionTicketKeys(kk)
				cl := front.Clone()
				cl.CipherSuites, cl.SessionTicketsDisabled, cl.ClientAuth, cl.ClientCAs = sc.CipherSuites, sc.SessionTicketsDisabled, sc.ClientAuth, sc.ClientCAs
				sc = cl
			} else {
				sc.SetSessionTicketKeys(kk)
			}
			cc.CipherSuites = pick(csuites)
			cc.ServerName = op.Name
			cc.ClientSessionCache = cache
			var keylog bytes.Buffer
			cc.KeyLogWriter = &keylog
			ce, se, m := newMitm()
			cli := gmtls.Client(ce, cc)
			srv := gmtls.Server(se, sc)
			r := runHandshake(cli, srv, 10*time.Second)
			if r.cliErr != nil {
				o.CliErr = r.cliErr.Error()
			}
			if r.srvErr != nil {
				o.SrvErr = r.srvErr.Error()
			}
			if r.cliPanic != nil || r.srvPanic != nil {
				o.Panic = fmt.Sprint(r.cliPanic, " / ", r.srvPanic)
			} else if !r.timedOut {
				cs, ss := cli.ConnectionState(), srv.ConnectionState()
				o.Complete = cs.HandshakeComplete && ss.HandshakeComplete && r.cliErr == nil && r.srvErr == nil
				o.CliResumed, o.SrvResumed = cs.DidResume, ss.DidResume
				for n, id := range sm {
					if id == cs.CipherSuite && cs.CipherSuite == ss.CipherSuite {
						o.Suite = n
					}
				}
				o.SrvSawCert = len(ss.PeerCertificates) > 0
				o.CliPeers = len(cs.PeerCertificates)
				if o.Complete {
					if p := recoverStr(func() {
						e1, x1 := cs.ExportKeyingMaterial("verif", nil, 32)
						e2, x2 := ss.ExportKeyingMaterial("verif", nil, 32)
						o.EkmEqual = x1 == nil && x2 == nil && bytes.Equal(e1, e2)
					}); p != "" {
						o.Panic = "ExportKeyingMaterial: " + p
					}
					_, e := transfer(cli, srv, 3000, step)
					o.DataOK = e == nil
				}
				// session identity: the master secret in the client's cache after this connection
				if parts := strings.Fields(keylog.String()); len(parts) >= 3 && op.Expect == "full" {
					ms, _ := hex.DecodeString(parts[2])
					msOfSid[op.Sid] = ms
				}
				if c2, ok := cache.Get(op.Name); ok && c2 != nil {
					_, _, ms := gmtls.VerifSessionInfo(c2)
					o.MsKnown = true
					o.MsSameSid = msOfSid[op.Sid] != nil && bytes.Equal(ms, msOfSid[op.Sid])
				}
			}
			m.close()
			out = append(out, o)
		}
	}
	return out, nil
}

// c16-run <histories.ndjson> <obs.ndjson> ; each line {"proto":..,"cap":..,"ops":[..]}
func c16run(args []string) error {
	in, err := os.Open(args[0])
	if err != nil {
		return err
	}
	defer in.Close()
	outf, err := os.Create(args[1])
	if err != nil {
		return err
	}
	defer outf.Close()
	w := bufio.NewWriter(outf)
	defer w.Flush()
	sc := bufio.NewScanner(in)
	sc.Buffer(make([]byte, 1<<20), 1<<26)
	for sc.Scan() {
		var h struct {
			Proto string  `json:"proto"`
			Cap   int     `json:"cap"`
			Ops   []resOp `json:"ops"`
		}
		if err := json.Unmarshal(sc.Bytes(), &h); err != nil {
			return err
		}
		for i := range h.Ops {
			if h.Ops[i].Op == "tamper" && h.Ops[i].Byte == 0 {
				h.Ops[i].Byte = -1
			}
		}
		obs, err := runHistory(h.Ops, h.Proto, h.Cap)
		if err != nil {
			return err
		}
		b, _ := json.Marshal(obs)
		w.Write(b)
		w.WriteByte('\n')
	}
	return sc.Err()
}

// c16-foreign <out.json>: tickets issued by ANOTHER server whose ticket key is guessable (32 zero bytes) or simply different,
// to a client that presented a certificate, offered to servers configured in the ways the documentation lists.  The rule
// of TLCPResume - a ticket is accepted only under a key in force on this server - leaves one outcome: a full handshake.
func c16foreign(args []string) error {
	f, err := loadFixtures()
	if err != nil {
		return err
	}
	type obsF struct {
		Proto, Target, Forger string
		Resumed, Complete     bool
		PeerCerts             int
		CliErr, SrvErr, Panic string
	}
	var out []obsF
	for _, proto := range []string{"gm", "tls"} {
		mk := func() (sc, cc *gmtls.Config) {
			if proto == "gm" {
				suites := []uint16{gmtls.GMTLS_SM2_WITH_SM4_SM3}
				return &gmtls.Config{GMSupport: &gmtls.GMSupport{}, Certificates: []gmtls.Certificate{f.sig, f.enc}, CipherSuites: suites, ClientAuth: gmtls.RequireAndVerifyClientCert, ClientCAs: f.sm2CA},
					&gmtls.Config{GMSupport: &gmtls.GMSupport{}, InsecureSkipVerify: true, CipherSuites: suites, ServerName: "foreign", Certificates: []gmtls.Certificate{f.auth}}
			}
			suites := []uint16{gmtls.TLS_RSA_WITH_AES_128_GCM_SHA256}
			return &gmtls.Config{Certificates: []gmtls.Certificate{f.rsa}, CipherSuites: suites, ClientAuth: gmtls.RequireAndVerifyClientCert, ClientCAs: f.rsaCA, MaxVersion: gmtls.VersionTLS12},
				&gmtls.Config{InsecureSkipVerify: true, CipherSuites: suites, ServerName: "foreign", Certificates: []gmtls.Certificate{f.rsaAuth}, MaxVersion: gmtls.VersionTLS12}
		}
		for _, forger := range []string{"zero key", "other key"} {
			var fk [32]byte
			if forger == "other key" {
				for i := range fk {
					fk[i] = byte(i*7 + 3)
				}
			}
			for _, target := range []string{"default keys", "explicit keys", "clone", "GetConfigForClient", "GetConfigForClient, listener without tickets", "GetConfigForClient, inner config cloned"} {
				fs, cc := mk()
				fs.SetSessionTicketKeys([][32]byte{fk})
				cache := gmtls.NewLRUClientSessionCache(2)
				cc.ClientSessionCache = cache
				o := obsF{Proto: proto, Target: target, Forger: forger}
				run := func(sc *gmtls.Config) (r hsResult, cli, srv *gmtls.Conn) {
					ce, se := tcpPair()
					cli, srv = gmtls.Client(ce, cc), gmtls.Server(se, sc)
					r = runHandshake(cli, srv, 15*time.Second)
					cli.Close()
					srv.Close()
					return
				}
				if r, _, _ := run(fs); r.cliErr != nil || r.srvErr != nil || r.timedOut {
					return fmt.Errorf("foreign: handshake with the issuing server: %v %v", r.cliErr, r.srvErr)
				}
				if _, ok := cache.Get("foreign"); !ok {
					return fmt.Errorf("foreign: the issuing server gave no ticket")
				}
				ts, _ := mk()
				switch target {
				case "explicit keys":
					var k [32]byte
					k[0] = 1
					ts.SetSessionTicketKeys([][32]byte{k})
				case "clone":
					ts = ts.Clone()
				case "GetConfigForClient", "GetConfigForClient, listener without tickets", "GetConfigForClient, inner config cloned":
					inner := ts
					if target == "GetConfigForClient, inner config cloned" {
						inner = ts.Clone()
					}
					outer, _ := mk()
					outer.SessionTicketsDisabled = target == "GetConfigForClient, listener without tickets"
					outer.GetConfigForClient = func(*gmtls.ClientHelloInfo) (*gmtls.Config, error) { return inner, nil }
					ts = outer
				}
				r, _, srv := run(ts)
				o.Complete = r.cliErr == nil && r.srvErr == nil && !r.timedOut && r.cliPanic == nil && r.srvPanic == nil
				o.Resumed = srv.ConnectionState().DidResume
				o.PeerCerts = len(srv.ConnectionState().PeerCertificates)
				if r.cliErr != nil {
					o.CliErr = r.cliErr.Error()
				}
				if r.srvErr != nil {
					o.SrvErr = r.srvErr.Error()
				}
				if r.srvPanic != nil {
					o.Panic = fmt.Sprint("server: ", r.srvPanic)
				} else if r.cliPanic != nil {
					o.Panic = fmt.Sprint("client: ", r.cliPanic)
				}
				out = append(out, o)
			}
		}
	}
	b, _ := json.Marshal(out)
	return os.WriteFile(args[0], b, 0644)
}

func init() { cmds["c16-run"] = c16run; cmds["c16-foreign"] = c16foreign }
