package main

// PKI factory: SM2 CAs and leaves issued with the library (SignatureAlgorithm always explicit).

import (
	"crypto/rand"
	"crypto/x509/pkix"
	"fmt"
	"math/big"
	"net"
	"time"

	"github.com/tjfoc/gmsm/gmtls"
	"github.com/tjfoc/gmsm/sm2"
	"github.com/tjfoc/gmsm/x509"
)

type caT struct {
	cert *x509.Certificate
	key  *sm2.PrivateKey
	der  []byte
}

var serialCtr int64 = 1000

func nextSerial() *big.Int { serialCtr++; return big.NewInt(serialCtr) }

var pkiEpoch = time.Date(2024, 1, 1, 0, 0, 0, 0, time.UTC)

func newSM2CA(name pkix.Name) (*caT, error) {
	key, err := sm2.GenerateKey(rand.Reader)
	if err != nil {
		return nil, err
	}
	t := &x509.Certificate{
		SerialNumber:          nextSerial(),
		Subject:               name,
		NotBefore:             pkiEpoch.Add(-24 * time.Hour),
		NotAfter:              pkiEpoch.Add(20 * 365 * 24 * time.Hour),
		KeyUsage:              x509.KeyUsageCertSign | x509.KeyUsageCRLSign,
		BasicConstraintsValid: true,
		IsCA:                  true,
		SignatureAlgorithm:    x509.SM2WithSM3,
		SubjectKeyId:          []byte{1, 2, 3, byte(serialCtr)},
	}
	der, err := x509.CreateCertificate(t, t, &key.PublicKey, key)
	if err != nil {
		return nil, err
	}
	c, err := x509.ParseCertificate(der)
	if err != nil {
		return nil, err
	}
	return &caT{c, key, der}, nil
}

type leafOpt struct {
	cn        string
	dns       []string
	ips       []net.IP
	usage     x509.KeyUsage
	eku       []x509.ExtKeyUsage
	notBefore time.Time
	notAfter  time.Time
}

func (ca *caT) issue(o leafOpt) (gmtls.Certificate, *x509.Certificate, error) {
	key, err := sm2.GenerateKey(rand.Reader)
	if err != nil {
		return gmtls.Certificate{}, nil, err
	}
	nb, na := o.notBefore, o.notAfter
	if nb.IsZero() {
		nb = pkiEpoch.Add(-time.Hour)
	}
	if na.IsZero() {
		na = pkiEpoch.Add(10 * 365 * 24 * time.Hour)
	}
	t := &x509.Certificate{
		SerialNumber:       nextSerial(),
		Subject:            pkix.Name{CommonName: o.cn, Organization: []string{"verif"}},
		NotBefore:          nb,
		NotAfter:           na,
		KeyUsage:           o.usage,
		ExtKeyUsage:        o.eku,
		DNSNames:           o.dns,
		IPAddresses:        o.ips,
		SignatureAlgorithm: x509.SM2WithSM3,
	}
	der, err := x509.CreateCertificate(t, ca.cert, &key.PublicKey, ca.key)
	if err != nil {
		return gmtls.Certificate{}, nil, err
	}
	c, err := x509.ParseCertificate(der)
	if err != nil {
		return gmtls.Certificate{}, nil, err
	}
	if err := c.CheckSignatureFrom(ca.cert); err != nil {
		return gmtls.Certificate{}, nil, fmt.Errorf("issued certificate does not verify: %v", err)
	}
	return gmtls.Certificate{Certificate: [][]byte{der}, PrivateKey: key, Leaf: c}, c, nil
}

func poolOf(cs ...*x509.Certificate) *x509.CertPool {
	p := x509.NewCertPool()
	for _, c := range cs {
		p.AddCert(c)
	}
	return p
}
