package main

// C20: (R) schedules of ConcSm4.tla replayed through the gates of the SM4 block function;
// stress drivers whose results are compared with their sequential counterparts and which run under the race
// detector (the sensor for the "no data race" clause).

import (
	"bufio"
	"bytes"
	"crypto/cipher"
	"crypto/hmac"
	"crypto/rand"
	"crypto/x509/pkix"
	"encoding/hex"
	"encoding/json"
	"fmt"
	"io"
	"net"
	"os"
	"runtime"
	"sort"
	"strings"
	"sync"
	"sync/atomic"
	"time"
	"unsafe"

	"github.com/tjfoc/gmsm/gmtls"
	"github.com/tjfoc/gmsm/sm2"
	"github.com/tjfoc/gmsm/sm3"
	"github.com/tjfoc/gmsm/sm4"
	"github.com/tjfoc/gmsm/x509"
)

// ---------------------------------------------------------------- gated replay of ConcSm4 schedules
type gateProc struct {
	resume  chan struct{}
	arrived chan string
	dst     []byte
}

// c20-sm4 <scheds.ndjson> <out.json>
func c20sm4(args []string) error {
	f, err := os.Open(args[0])
	if err != nil {
		return err
	}
	defer f.Close()
	key := []byte("0123456789abcdef")
	inputs := map[string][]byte{"p1": bytes.Repeat([]byte{0x11}, 16), "p2": []byte("ABCDEFGHIJKLMNOP"), "p3": bytes.Repeat([]byte{0xfe, 0x01}, 8)}
	decrypts := map[string]bool{"p2": true}
	want := map[string][]byte{}
	for p, in := range inputs {
		c, _ := sm4.NewCipher(key) // a private object: the sequential result
		o := make([]byte, 16)
		if decrypts[p] {
			c.Decrypt(o, in)
		} else {
			c.Encrypt(o, in)
		}
		want[p] = o
	}
	var mu sync.Mutex
	byDst := map[uintptr]*gateProc{}
	sm4.VerifGate = func(site string, call uintptr) {
		mu.Lock()
		g := byDst[call]
		mu.Unlock()
		if g == nil {
			return
		}
		g.arrived <- site
		<-g.resume
	}
	defer func() { sm4.VerifGate = nil }()
	type bad struct {
		Sched [][]string `json:"sched"`
		Proc  string     `json:"proc"`
		Got   string     `json:"got"`
		Want  string     `json:"want"`
	}
	var bads []bad
	n := 0
	sc := bufio.NewScanner(f)
	sc.Buffer(make([]byte, 1<<20), 1<<26)
	for sc.Scan() {
		var s struct {
			Sched [][]string `json:"sched"`
		}
		if err := json.Unmarshal(sc.Bytes(), &s); err != nil {
			return err
		}
		n++
		shared, _ := sm4.NewCipher(key)
		procs := map[string]*gateProc{}
		for _, st := range s.Sched {
			if procs[st[0]] == nil {
				g := &gateProc{resume: make(chan struct{}), arrived: make(chan string, 1), dst: make([]byte, 16)}
				procs[st[0]] = g
				mu.Lock()
				byDst[uintptr(unsafe.Pointer(&g.dst[0]))] = g
				mu.Unlock()
				go func(p string, g *gateProc) {
					<-g.resume
					if decrypts[p] {
						shared.Decrypt(g.dst, inputs[p])
					} else {
						shared.Encrypt(g.dst, inputs[p])
					}
					g.arrived <- "done"
				}(st[0], g)
			}
		}
		next := map[string]string{"load": "load", "rounds": "rounds", "final": "final", "store": "done"}
		for _, st := range s.Sched {
			g := procs[st[0]]
			g.resume <- struct{}{}
			select {
			case at := <-g.arrived:
				if at != next[st[1]] {
					return fmt.Errorf("schedule step %v: the call stopped at %q", st, at)
				}
			case <-time.After(5 * time.Second):
				return fmt.Errorf("schedule step %v: the call did not reach its next gate", st)
			}
		}
		for p, g := range procs {
			if !bytes.Equal(g.dst, want[p]) {
				bads = append(bads, bad{s.Sched, p, hex.EncodeToString(g.dst), hex.EncodeToString(want[p])})
			}
			mu.Lock()
			delete(byDst, uintptr(unsafe.Pointer(&g.dst[0])))
			mu.Unlock()
		}
	}
	out, _ := json.Marshal(map[string]interface{}{"schedules": n, "bad": bads})
	return os.WriteFile(args[1], out, 0644)
}

// ---------------------------------------------------------------- stress drivers
type stressRes struct {
	mu       sync.Mutex
	Ops      int64    `json:"ops"`
	Mismatch []string `json:"mismatch"`
}

func (r *stressRes) bad(format string, a ...interface{}) {
	r.mu.Lock()
	if len(r.Mismatch) < 20 {
		r.Mismatch = append(r.Mismatch, fmt.Sprintf(format, a...))
	}
	r.mu.Unlock()
}

func parallel(n int, fn func(g int)) {
	var wg sync.WaitGroup
	start := make(chan struct{})
	for g := 0; g < n; g++ {
		wg.Add(1)
		go func(g int) {
			defer wg.Done()
			<-start
			fn(g)
		}(g)
	}
	close(start)
	wg.Wait()
}

func guard(r *stressRes, what string, fn func()) {
	if p := recoverStr(fn); p != "" {
		r.bad("%s: panic: %.300s", what, p)
	}
}

// package-level operations on separate data
func stressPkg(n, iters int, r *stressRes) {
	type job struct {
		key  *sm2.PrivateKey
		msg  []byte
		hash []byte
		ecb  []byte
		cert []byte
	}
	p, err := loadAdvPKI()
	if err != nil {
		r.bad("pki: %v", err)
		return
	}
	jobs := make([]*job, n)
	for g := range jobs { // sequential reference results
		k, _ := sm2.GenerateKey(rand.Reader)
		j := &job{key: k, msg: bytes.Repeat([]byte{byte(g + 1)}, 100+g*37)}
		j.hash = sm3.Sm3Sum(j.msg)
		j.ecb, _ = sm4.Sm4Ecb([]byte("0123456789abcdef"), j.msg, true)
		j.cert = p.sign["good"].Certificate[0]
		jobs[g] = j
	}
	parallel(n, func(g int) {
		j := jobs[g]
		for i := 0; i < iters; i++ {
			guard(r, "package-level operations", func() {
				if !bytes.Equal(sm3.Sm3Sum(j.msg), j.hash) {
					r.bad("Sm3Sum differs from its sequential value (goroutine %d)", g)
				}
				h := sm3.New()
				h.Write(j.msg[:50])
				h.Write(j.msg[50:])
				if !bytes.Equal(h.Sum(nil), j.hash) {
					r.bad("sm3.New().Sum differs (goroutine %d)", g)
				}
				if e, err := sm4.Sm4Ecb([]byte("0123456789abcdef"), j.msg, true); err != nil || !bytes.Equal(e, j.ecb) {
					r.bad("Sm4Ecb differs (goroutine %d): %v", g, err)
				}
				if d, err := sm4.Sm4Ecb([]byte("0123456789abcdef"), j.ecb, false); err != nil || !bytes.Equal(d, j.msg) {
					r.bad("Sm4Ecb decrypt differs (goroutine %d): %v", g, err)
				}
				sig, err := j.key.Sign(rand.Reader, j.msg, nil)
				if err != nil || !j.key.PublicKey.Verify(j.msg, sig) {
					r.bad("sign/verify fails (goroutine %d): %v", g, err)
				}
				ct, err := sm2.Encrypt(&j.key.PublicKey, j.msg, rand.Reader, sm2.C1C3C2)
				if err != nil {
					r.bad("Encrypt: %v", err)
				} else if pt, err := sm2.Decrypt(j.key, ct, sm2.C1C3C2); err != nil || !bytes.Equal(pt, j.msg) {
					r.bad("Decrypt does not return the plaintext (goroutine %d): %v", g, err)
				}
				// the degenerate message (no key stream at all) takes the early-exit paths of the key derivation; it must leave
				// nothing behind that a concurrent or later call could trip over
				if ct0, err := sm2.Encrypt(&j.key.PublicKey, nil, rand.Reader, sm2.C1C3C2); err != nil {
					r.bad("Encrypt of the empty message: %v", err)
				} else if pt0, err := sm2.Decrypt(j.key, ct0, sm2.C1C3C2); err != nil || len(pt0) != 0 {
					r.bad("Decrypt of the empty message (goroutine %d): %v", g, err)
				}
				big := bytes.Repeat(j.msg, 40)
				if ctb, err := sm2.Encrypt(&j.key.PublicKey, big, rand.Reader, sm2.C1C2C3); err != nil {
					r.bad("Encrypt (4 to 27 KiB): %v", err)
				} else if ptb, err := sm2.Decrypt(j.key, ctb, sm2.C1C2C3); err != nil || !bytes.Equal(ptb, big) {
					r.bad("Decrypt of 4 to 27 KiB does not return the plaintext (goroutine %d): %v", g, err)
				}
				c, err := x509.ParseCertificate(j.cert)
				if err != nil || !bytes.Equal(c.Raw, j.cert) {
					r.bad("ParseCertificate: %v", err)
				} else if _, err := c.Verify(x509.VerifyOptions{Roots: p.roots, KeyUsages: []x509.ExtKeyUsage{x509.ExtKeyUsageAny}}); err != nil {
					r.bad("Verify (own options, shared roots): %v", err)
				}
				atomic.AddInt64(&r.Ops, 8)
			})
		}
	})
}

// one cipher.Block shared by all goroutines (directly, and under CBC / GCM wrappers created per goroutine)
func stressSm4Obj(n, iters int, r *stressRes) {
	key := []byte("fedcba9876543210")
	shared, _ := sm4.NewCipher(key)
	type vec struct{ in, enc, dec, cbc []byte }
	vs := make([]vec, n)
	for g := range vs {
		ref, _ := sm4.NewCipher(key)
		v := vec{in: bytes.Repeat([]byte{byte(0x30 + g)}, 16), enc: make([]byte, 16), dec: make([]byte, 16), cbc: make([]byte, 64)}
		v.in[g%16] ^= 0xa5
		ref.Encrypt(v.enc, v.in)
		ref.Decrypt(v.dec, v.in)
		cipher.NewCBCEncrypter(ref, bytes.Repeat([]byte{byte(g)}, 16)).CryptBlocks(v.cbc, bytes.Repeat(v.in, 4))
		vs[g] = v
	}
	parallel(n, func(g int) {
		v := vs[g]
		o := make([]byte, 16)
		o4 := make([]byte, 64)
		for i := 0; i < iters; i++ {
			guard(r, "shared sm4 cipher", func() {
				shared.Encrypt(o, v.in)
				if !bytes.Equal(o, v.enc) {
					r.bad("Encrypt on the shared cipher object returned %x instead of %x (goroutine %d)", o, v.enc, g)
				}
				shared.Decrypt(o, v.in)
				if !bytes.Equal(o, v.dec) {
					r.bad("Decrypt on the shared cipher object returned %x instead of %x (goroutine %d)", o, v.dec, g)
				}
				cipher.NewCBCEncrypter(shared, bytes.Repeat([]byte{byte(g)}, 16)).CryptBlocks(o4, bytes.Repeat(v.in, 4))
				if !bytes.Equal(o4, v.cbc) {
					r.bad("CBC over the shared cipher object differs (goroutine %d)", g)
				}
				atomic.AddInt64(&r.Ops, 3)
			})
		}
	})
}

// one hash constructor shared: hmac.New(sm3.New, key) and sm3.New from many goroutines
func stressHashCtor(n, iters int, r *stressRes) {
	ctor := sm3.New
	key := []byte("shared hmac key")
	msgs := make([][]byte, n)
	want := make([][]byte, n)
	for g := range msgs {
		msgs[g] = bytes.Repeat([]byte{byte(g)}, 10+g*13)
		m := hmac.New(ctor, key)
		m.Write(msgs[g])
		want[g] = m.Sum(nil)
	}
	parallel(n, func(g int) {
		for i := 0; i < iters; i++ {
			guard(r, "shared hash constructor", func() {
				m := hmac.New(ctor, key)
				m.Write(msgs[g])
				if !bytes.Equal(m.Sum(nil), want[g]) {
					r.bad("HMAC-SM3 through the shared constructor differs (goroutine %d)", g)
				}
				atomic.AddInt64(&r.Ops, 1)
			})
		}
	})
}

// one certificate pool (roots and intermediates) used by concurrent verifications
func stressPool(n, iters int, r *stressRes) {
	root, err := newSM2CA(pkix.Name{CommonName: "C20 root"})
	if err != nil {
		r.bad("%v", err)
		return
	}
	// an intermediate signed by the root
	ikey, _ := sm2.GenerateKey(rand.Reader)
	it := &x509.Certificate{SerialNumber: nextSerial(), Subject: pkix.Name{CommonName: "C20 intermediate"}, NotBefore: pkiEpoch.Add(-time.Hour), NotAfter: pkiEpoch.Add(9 * 365 * 24 * time.Hour),
		IsCA: true, BasicConstraintsValid: true, KeyUsage: x509.KeyUsageCertSign, SignatureAlgorithm: x509.SM2WithSM3, SubjectKeyId: []byte{9, 9}}
	ider, err := x509.CreateCertificate(it, root.cert, &ikey.PublicKey, root.key)
	if err != nil {
		r.bad("%v", err)
		return
	}
	icert, _ := x509.ParseCertificate(ider)
	inter := &caT{icert, ikey, ider}
	roots, inters := poolOf(root.cert), poolOf(icert)
	// decoys in the shared pool: two more CA certificates with the SAME subject key identifier as the real intermediate and
	// two with its subject NAME but no key identifier - every verification has to look at several candidate issuers, found
	// through both of the pool's indexes, and only one of them signed the leaf
	for k, dc := range []struct {
		cn  string
		ski []byte
	}{{"C20 decoy 1", []byte{9, 9}}, {"C20 decoy 2", []byte{9, 9}}, {"C20 intermediate", nil}, {"C20 intermediate", nil}} {
		dkey, _ := sm2.GenerateKey(rand.Reader)
		dt := &x509.Certificate{SerialNumber: nextSerial(), Subject: pkix.Name{CommonName: dc.cn}, NotBefore: pkiEpoch.Add(-time.Hour), NotAfter: pkiEpoch.Add(9 * 365 * 24 * time.Hour),
			IsCA: true, BasicConstraintsValid: true, KeyUsage: x509.KeyUsageCertSign, SignatureAlgorithm: x509.SM2WithSM3, SubjectKeyId: dc.ski}
		dder, err := x509.CreateCertificate(dt, root.cert, &dkey.PublicKey, root.key)
		if err != nil {
			r.bad("decoy %d: %v", k, err)
			return
		}
		dcert, _ := x509.ParseCertificate(dder)
		inters.AddCert(dcert)
	}
	// and two RE-ISSUED copies of the real intermediate (same name, key and key identifier, other serial numbers): every leaf
	// has three valid chains, and the list a concurrent Verify returns must be the list the sequential one returns, in
	// the same order
	for k := 0; k < 2; k++ {
		rt := *it
		rt.SerialNumber = nextSerial()
		rder, err := x509.CreateCertificate(&rt, root.cert, &ikey.PublicKey, root.key)
		if err != nil {
			r.bad("re-issued intermediate %d: %v", k, err)
			return
		}
		rcert, _ := x509.ParseCertificate(rder)
		inters.AddCert(rcert)
	}
	chainsOf := func(ch [][]*x509.Certificate) string {
		var sb strings.Builder
		for _, c := range ch {
			for _, x := range c {
				sb.WriteString(x.SerialNumber.String() + ",")
			}
			sb.WriteString(";")
		}
		return sb.String()
	}
	leaves := make([]*x509.Certificate, n)
	want := make([]string, n)
	for g := range leaves {
		_, lc, err := inter.issue(leafOpt{cn: fmt.Sprintf("leaf %d", g), dns: []string{fmt.Sprintf("l%d.example.com", g)}, usage: x509.KeyUsageDigitalSignature})
		if err != nil {
			r.bad("%v", err)
			return
		}
		leaves[g] = lc
	}
	other, _ := newSM2CA(pkix.Name{CommonName: "C20 other root"})
	_, foreign, _ := other.issue(leafOpt{cn: "foreign", dns: []string{"f.example.com"}, usage: x509.KeyUsageDigitalSignature})
	opts := func() x509.VerifyOptions {
		return x509.VerifyOptions{Roots: roots, Intermediates: inters, CurrentTime: pkiEpoch, KeyUsages: []x509.ExtKeyUsage{x509.ExtKeyUsageAny}}
	}
	for g := range leaves {
		ch, err := leaves[g].Verify(opts())
		if err != nil || len(ch) != 3 || len(ch[0]) != 3 {
			r.bad("sequential verification of leaf %d: %v (%d chains)", g, err, len(ch))
			return
		}
		want[g] = chainsOf(ch)
		if ch2, _ := leaves[g].Verify(opts()); chainsOf(ch2) != want[g] {
			r.bad("sequential verification of leaf %d is not deterministic", g)
			return
		}
	}
	parallel(n, func(g int) {
		for i := 0; i < iters; i++ {
			guard(r, "shared certificate pool", func() {
				ch, err := leaves[g].Verify(opts())
				if err != nil || len(ch) != 3 || len(ch[0]) != 3 || !bytes.Equal(ch[0][0].Raw, leaves[g].Raw) {
					r.bad("concurrent Verify of leaf %d: %v (%d chains)", g, err, len(ch))
				} else if got := chainsOf(ch); got != want[g] {
					r.bad("concurrent Verify of leaf %d returned its chains (leaf, intermediate, root serial numbers) as %s, the sequential call as %s", g, got, want[g])
				}
				if _, err := foreign.Verify(opts()); err == nil {
					r.bad("a certificate of another root verified against the shared pool")
				}
				atomic.AddInt64(&r.Ops, 2)
			})
		}
	})
}

// PKCS#7: concurrent parsing (BER transcoder) and SM2 enveloping on separate data
func stressPkcs7(n, iters int, r *stressRes) {
	if err := setup17(); err != nil {
		r.bad("%v", err)
		return
	}
	envs := make([][]byte, n)
	for g := range envs {
		e, err := x509.PKCS7EncryptSM2(content17(40+g), []*x509.Certificate{h17["a"].sm2Cert}, sm2.C1C3C2)
		if err != nil {
			r.bad("%v", err)
			return
		}
		envs[g] = e
	}
	// a legal BER value nested 100 levels deep (indefinite lengths), and what the transcoder makes of it when it runs alone
	deep := append(bytes.Repeat([]byte{0x30, 0x80}, 100), 0x04, 0x01, 0x55)
	deep = append(deep, bytes.Repeat([]byte{0x00, 0x00}, 100)...)
	deepDER, deepErr := x509.VerifBer2Der(deep)
	parallel(n, func(g int) {
		for i := 0; i < iters; i++ {
			guard(r, "pkcs7", func() {
				for k := 0; k < 20; k++ {
					if d, err := x509.VerifBer2Der(deep); (err == nil) != (deepErr == nil) || !bytes.Equal(d, deepDER) {
						r.bad("BER transcoding of a 100-level value differs from the single-threaded result (goroutine %d): %v", g, err)
						break
					}
				}
				p7, err := x509.ParsePKCS7(envs[g])
				if err != nil {
					r.bad("ParsePKCS7: %v", err)
					return
				}
				out, err := p7.DecryptSM2(h17["a"].sm2Cert, h17["a"].sm2Key, sm2.C1C3C2)
				if err != nil || !bytes.Equal(out, content17(40+g)) {
					r.bad("DecryptSM2 (goroutine %d): %v", g, err)
				}
				e, err := x509.PKCS7EncryptSM2(content17(10+g), []*x509.Certificate{h17["b"].sm2Cert}, sm2.C1C3C2)
				if err != nil {
					r.bad("PKCS7EncryptSM2: %v", err)
				} else if p, err := x509.ParsePKCS7(e); err != nil {
					r.bad("ParsePKCS7 of a fresh envelope: %v", err)
				} else if o, err := p.DecryptSM2(h17["b"].sm2Cert, h17["b"].sm2Key, sm2.C1C3C2); err != nil || !bytes.Equal(o, content17(10+g)) {
					r.bad("fresh envelope does not open (goroutine %d): %v", g, err)
				}
				atomic.AddInt64(&r.Ops, 4)
			})
		}
	})
}

// first use of the curve from many goroutines at once (must be the first thing this process does with sm2)
func stressFirstUse(n, iters int, r *stressRes) {
	type res struct{ gx, n string }
	out := make([]res, n)
	parallel(n, func(g int) {
		guard(r, "first use of the curve", func() {
			c := sm2.P256Sm2()
			p := c.Params()
			out[g] = res{p.Gx.Text(16), p.N.Text(16)}
			k, err := sm2.GenerateKey(rand.Reader)
			if err != nil {
				r.bad("GenerateKey: %v", err)
				return
			}
			sig, err := k.Sign(rand.Reader, []byte("first use"), nil)
			if err != nil || !k.PublicKey.Verify([]byte("first use"), sig) {
				r.bad("sign/verify right after the first use fails (goroutine %d): %v", g, err)
			}
			if !c.IsOnCurve(k.X, k.Y) {
				r.bad("generated key is not on the curve (goroutine %d)", g)
			}
			atomic.AddInt64(&r.Ops, 3)
		})
	})
	for g := range out {
		if out[g].gx != "32c4ae2c1f1981195f9904466a39c9948fe30bbff2660be1715a4589334c74c7" || out[g].n != "fffffffeffffffffffffffffffffffff7203df6b21c6052b53bbf40939d54123" {
			r.bad("goroutine %d saw curve parameters Gx=%s n=%s", g, out[g].gx, out[g].n)
		}
	}
}

// the documented package-level IV: SetIV in one goroutine while another uses the CBC helper with its own data
func stressSetIV(n, iters int, r *stressRes) {
	key := []byte("0123456789abcdef")
	defer sm4.SetIV(make([]byte, 16))
	parallel(n, func(g int) {
		iv := bytes.Repeat([]byte{byte(g + 1)}, 16)
		msg := bytes.Repeat([]byte{byte(0x40 + g)}, 48)
		ref, _ := sm4.NewCipher(key)
		// some sequential order of all the calls puts any goroutine's SetIV last before this Sm4Cbc: the result must be
		// the CBC encryption under one of the installed IVs (or the initial one), whole
		want := map[string]bool{}
		padded := append(append([]byte(nil), msg...), bytes.Repeat([]byte{16}, 16)...)
		for h := 0; h <= n; h++ {
			w := make([]byte, 64)
			cipher.NewCBCEncrypter(ref, bytes.Repeat([]byte{byte(h)}, 16)).CryptBlocks(w, padded)
			want[string(w)] = true
		}
		for i := 0; i < iters; i++ {
			guard(r, "SetIV + Sm4Cbc", func() {
				sm4.SetIV(append([]byte(nil), iv...))
				got, err := sm4.Sm4Cbc(key, msg, true)
				if err != nil || !want[string(got)] {
					r.bad("Sm4Cbc concurrent with SetIV is not the CBC encryption under any installed iv (goroutine %d): %v", g, err)
				}
				atomic.AddInt64(&r.Ops, 1)
			})
		}
	})
}

// handshakes sharing one server Config (session tickets, key rotation) and one client session cache
func stressConfig(n, iters int, r *stressRes) {
	f, err := loadFixtures()
	if err != nil {
		r.bad("%v", err)
		return
	}
	gmSuites := []uint16{gmtls.GMTLS_SM2_WITH_SM4_SM3}
	srvGM := &gmtls.Config{GMSupport: &gmtls.GMSupport{}, Certificates: []gmtls.Certificate{f.sig, f.enc}, CipherSuites: gmSuites}
	srvTLS := &gmtls.Config{Certificates: []gmtls.Certificate{f.rsa}, MinVersion: gmtls.VersionTLS12, MaxVersion: gmtls.VersionTLS12}
	cacheGM, cacheTLS := gmtls.NewLRUClientSessionCache(8), gmtls.NewLRUClientSessionCache(8)
	cliGM := &gmtls.Config{GMSupport: &gmtls.GMSupport{}, InsecureSkipVerify: true, CipherSuites: gmSuites, ClientSessionCache: cacheGM, ServerName: "s"}
	cliTLS := &gmtls.Config{InsecureSkipVerify: true, ClientSessionCache: cacheTLS, ServerName: "s", MinVersion: gmtls.VersionTLS12, MaxVersion: gmtls.VersionTLS12}
	var keyCtr int32
	newKeys := func() [][32]byte {
		var k, old [32]byte
		c := atomic.AddInt32(&keyCtr, 1)
		k[0], k[1] = byte(c), byte(c>>8)
		old[0], old[1] = byte(c-1), byte((c-1)>>8)
		return [][32]byte{k, old}
	}
	k0 := newKeys()
	srvGM.SetSessionTicketKeys(k0)
	srvTLS.SetSessionTicketKeys(k0)
	stop := make(chan struct{})
	var rot sync.WaitGroup
	rot.Add(1)
	go func() {
		defer rot.Done()
		var lastRot int64
		for {
			select {
			case <-stop:
				return
			case <-time.After(300 * time.Microsecond):
				// one rotation per round of handshakes (however slow they are): most tickets are then sealed under the key in
				// force or the one before it, so that resumption - and re-issue through an old key - really happens
				if done := atomic.LoadInt64(&r.Ops); done-lastRot >= int64(n) {
					lastRot = done
					k := newKeys() // <<new, previous first>>: the same list for both servers
					srvGM.SetSessionTicketKeys(k)
					srvTLS.SetSessionTicketKeys(k)
				}
			}
		}
	}()
	var resumed int64
	parallel(n, func(g int) {
		for i := 0; i < iters; i++ {
			guard(r, "handshakes on one Config", func() {
				sc, cc := srvGM, cliGM
				if (g+i)%2 == 1 {
					sc, cc = srvTLS, cliTLS
				}
				ce, se := tcpPair()
				if ce == nil {
					r.bad("no loopback connection")
					return
				}
				cli, srv := gmtls.Client(ce, cc), gmtls.Server(se, sc)
				res := runHandshake(cli, srv, 20*time.Second)
				if res.cliErr != nil || res.srvErr != nil || res.timedOut || res.cliPanic != nil || res.srvPanic != nil {
					r.bad("handshake %d/%d on the shared Config: client %v, server %v, timeout %v, panics %v %v", g, i, res.cliErr, res.srvErr, res.timedOut, res.cliPanic, res.srvPanic)
				} else {
					cs, ss := cli.ConnectionState(), srv.ConnectionState()
					if cs.DidResume != ss.DidResume || cs.CipherSuite != ss.CipherSuite {
						r.bad("the two ends disagree: resumed %v/%v suite %x/%x", cs.DidResume, ss.DidResume, cs.CipherSuite, ss.CipherSuite)
					}
					if cs.DidResume {
						atomic.AddInt64(&resumed, 1)
					}
					// a round trip proves both ends hold the same keys
					msg := []byte(fmt.Sprintf("hello %d %d", g, i))
					go func() { cli.Write(msg) }()
					buf := make([]byte, 64)
					srv.SetReadDeadline(time.Now().Add(10 * time.Second))
					if k, err := io.ReadFull(srv, buf[:len(msg)]); err != nil || !bytes.Equal(buf[:k], msg) { // (CBC suites split the first record 1/n-1)
						r.bad("application data after handshake %d/%d: %v", g, i, err)
					}
				}
				cli.Close()
				srv.Close()
				atomic.AddInt64(&r.Ops, 1)
			})
		}
	})
	close(stop)
	rot.Wait()
	r.mu.Lock()
	r.Mismatch = append(r.Mismatch[:len(r.Mismatch):len(r.Mismatch)], []string{}...)
	r.mu.Unlock()
	if atomic.LoadInt64(&resumed) < int64(n*iters)/4 {
		r.bad("the driver is vacuous: only %d of %d handshakes resumed", resumed, n*iters)
	}
}

// one LRU client session cache (what a Config shares between all its connections) used from many goroutines
func stressLRU(n, iters int, r *stressRes) {
	cache := gmtls.NewLRUClientSessionCache(6)
	keys := []string{"k0", "k1", "k2", "k3", "k4", "k5", "k6", "k7"}
	vals := map[string]*gmtls.ClientSessionState{}
	for _, k := range keys {
		vals[k] = &gmtls.ClientSessionState{}
	}
	for _, k := range keys[:6] {
		cache.Put(k, vals[k])
	}
	parallel(n, func(g int) {
		for i := 0; i < iters; i++ {
			guard(r, "LRU session cache", func() {
				k := keys[(g+i)%len(keys)]
				if cs, ok := cache.Get(k); ok && cs != vals[k] {
					r.bad("Get(%s) returned the session stored under another key", k)
				}
				if i%7 == 3 {
					cache.Put(k, vals[k])
				}
				atomic.AddInt64(&r.Ops, 1)
			})
		}
	})
	// afterwards the cache still answers consistently and holds at most its capacity
	held := 0
	for _, k := range keys {
		if cs, ok := cache.Get(k); ok {
			held++
			if cs != vals[k] {
				r.bad("after the run Get(%s) returns another key's session", k)
			}
		}
	}
	if held > 6 {
		r.bad("the cache of capacity 6 holds %d sessions", held)
	}
}

func stressRun(what string, n, iters int) *stressRes { return stressRunInto(what, n, iters, &stressRes{}) }

func stressRunInto(what string, n, iters int, r *stressRes) *stressRes {
	switch what {
	case "pkg":
		stressPkg(n, iters, r)
	case "sm4obj":
		stressSm4Obj(n, iters, r)
	case "hashctor":
		stressHashCtor(n, iters, r)
	case "pool":
		stressPool(n, iters, r)
	case "pkcs7":
		stressPkcs7(n, iters, r)
	case "firstuse":
		stressFirstUse(n, iters, r)
	case "setiv":
		stressSetIV(n, iters, r)
	case "config":
		stressConfig(n, iters, r)
	case "lru":
		stressLRU(n, iters, r)
	default:
		r.bad("unknown driver %s", what)
	}
	return r
}

// c20-stress <driver> <goroutines> <iterations> <out.json>
func c20stress(args []string) error {
	var n, iters int
	fmt.Sscan(args[1], &n)
	fmt.Sscan(args[2], &iters)
	// the driver runs under a watchdog: when no call has returned for 90 s and the goroutine dump shows callers parked on a
	// lock or channel inside the library, the calls deadlocked - no sequential order of them does that
	var r *stressRes
	res := make(chan *stressRes, 1)
	live := &stressRes{}
	go func() { res <- stressRunInto(args[0], n, iters, live) }()
	last, lastChange := int64(-1), time.Now()
wait:
	for {
		select {
		case r = <-res:
			break wait
		case <-time.After(time.Second):
			if o := atomic.LoadInt64(&live.Ops); o != last {
				last, lastChange = o, time.Now()
			} else if time.Since(lastChange) > 90*time.Second {
				buf := make([]byte, 1<<20)
				dump := string(buf[:runtime.Stack(buf, true)])
				parked := 0
				for _, g := range strings.Split(dump, "\n\n") {
					if strings.Contains(g, "github.com/tjfoc/gmsm/") && !strings.Contains(g, "verif/harness.c20stress") &&
						(strings.Contains(g, "[sync.") || strings.Contains(g, "[semacquire") || strings.Contains(g, "[chan ") || strings.Contains(g, "[select")) {
						parked++
						if parked == 1 {
							lines := strings.Split(g, "\n")
							if len(lines) > 12 {
								lines = lines[:12]
							}
							live.bad("no call returned for 90 s; %d-goroutine driver stuck, e.g. %s", n, strings.Join(lines, " | "))
						}
					}
				}
				if parked == 0 {
					return fmt.Errorf("driver %s made no progress for 90 s, no goroutine is parked inside the library", args[0])
				}
				r = live
				break wait
			}
		}
	}
	out, _ := json.Marshal(map[string]interface{}{"driver": args[0], "goroutines": n, "ops": atomic.LoadInt64(&r.Ops), "mismatch": r.Mismatch})
	return os.WriteFile(args[3], out, 0644)
}

func init() {
	cmds["c20-sm4"] = c20sm4
	cmds["c20-stress"] = c20stress
}

var lnOnce sync.Once
var ln net.Listener
var lnMu sync.Mutex

// a connected TCP pair over the loopback interface (kernel buffering: no rendezvous between Write and Read)
func tcpPair() (cli, srv net.Conn) {
	lnOnce.Do(func() { ln, _ = net.Listen("tcp", "127.0.0.1:0") })
	if ln == nil {
		return nil, nil
	}
	lnMu.Lock() // one dial/accept at a time so that the two ends belong together
	defer lnMu.Unlock()
	ch := make(chan net.Conn, 1)
	go func() {
		c, err := ln.Accept()
		if err != nil {
			ch <- nil
			return
		}
		ch <- c
	}()
	c, err := net.Dial("tcp", ln.Addr().String())
	if err != nil {
		return nil, nil
	}
	s := <-ch
	if s == nil {
		c.Close()
		return nil, nil
	}
	return c, s
}

// ---------------------------------------------------------------- histories of one connection (ConcConnTrace)
type seg20 struct {
	ID   []interface{} `json:"id"`
	From int           `json:"from"`
	To   int           `json:"to"`
	N    int           `json:"-"` // length of the whole message
}
type ev20 struct {
	Stamp int64         `json:"-"`
	Ev    string        `json:"ev"`
	Op    int           `json:"op"`
	Kind  string        `json:"kind,omitempty"`
	E     string        `json:"e,omitempty"`
	ID    []interface{} `json:"id,omitempty"`
	N     int           `json:"n"`
	Ok    bool          `json:"ok"`
	Segs  []seg20       `json:"segs"`
	Err   string        `json:"err,omitempty"`
}

// message (e, w, k) of L cells of 8 bytes; every cell names the message, its length and its own index
func msg20(e, w, k, cells int) []byte {
	b := make([]byte, cells*8)
	for j := 0; j < cells; j++ {
		c := b[j*8 : j*8+8]
		c[0], c[1], c[2], c[3], c[4], c[5], c[6] = 0xA5, byte(e*16+w), byte(k), byte(cells>>8), byte(cells), byte(j>>8), byte(j)
		c[7] = c[0] ^ c[1] ^ c[2] ^ c[3] ^ c[4] ^ c[5] ^ c[6] ^ 0x3c
	}
	return b
}

// decode a cell-aligned byte string into segments; nil if it is not made of consecutive genuine cells
func decodeCells(b []byte, startOff int) []seg20 {
	if len(b) == 0 || (len(b)+startOff)%8 != 0 && false {
		return nil
	}
	var segs []seg20
	pos := 0
	for pos < len(b) {
		if len(b)-pos < 8 {
			return nil
		}
		c := b[pos : pos+8]
		if c[0] != 0xA5 || c[7] != c[0]^c[1]^c[2]^c[3]^c[4]^c[5]^c[6]^0x3c {
			return nil
		}
		e, w, k, cells, j := int(c[1])/16, int(c[1])%16, int(c[2]), int(c[3])<<8|int(c[4]), int(c[5])<<8|int(c[6])
		if j >= cells {
			return nil
		}
		id := []interface{}{[]string{"A", "B"}[e%2], w, k}
		if n := len(segs); n > 0 && fmt.Sprint(segs[n-1].ID) == fmt.Sprint(id) && segs[n-1].To == j*8 {
			segs[n-1].To = j*8 + 8
		} else {
			segs = append(segs, seg20{ID: id, From: j * 8, To: j*8 + 8, N: cells * 8})
		}
		pos += 8
	}
	return segs
}

type conn20 struct {
	ctr  int64
	ops  int64
	mu   sync.Mutex
	evs  []ev20
	raws map[int][]byte // op -> bytes a Read returned
}

func (h *conn20) stamp() int64 { return atomic.AddInt64(&h.ctr, 1) }
func (h *conn20) log(e ...ev20) {
	h.mu.Lock()
	h.evs = append(h.evs, e...)
	h.mu.Unlock()
}

// c20-conn <gm|tls> <writersA> <readersA> <writersB> <msgs> <close: after|during|never-B> <seed> <out.ndjson>
func c20conn(args []string) error {
	var nwA, nrA, nwB, K int
	var seed int64
	fmt.Sscan(args[1], &nwA)
	fmt.Sscan(args[2], &nrA)
	fmt.Sscan(args[3], &nwB)
	fmt.Sscan(args[4], &K)
	fmt.Sscan(args[6], &seed)
	closeMode := args[5]
	f, err := loadFixtures()
	if err != nil {
		return err
	}
	ce, se := tcpPair()
	if ce == nil {
		return fmt.Errorf("no loopback connection")
	}
	// "badrec": A and B talk through a relay that can hold back the direction A -> B (so that a Write on A stays blocked in
	// its transport, holding the sending half) and put a record that does not authenticate into the direction B -> A
	var gate sync.Mutex
	var inject func(rec []byte)
	if closeMode == "badrec" {
		if nwB != 0 {
			return fmt.Errorf("badrec: B does not write")
		}
		ce.Close()
		se.Close()
		pa1, pa2 := net.Pipe()
		pb1, pb2 := net.Pipe()
		ce, se = pa1, pb1
		go func() { // A -> B
			buf := make([]byte, 1<<16)
			for {
				n, err := pa2.Read(buf)
				if n > 0 {
					gate.Lock()
					gate.Unlock()
					if _, e := pb2.Write(buf[:n]); e != nil {
						pa2.Close()
						return
					}
				}
				if err != nil {
					pb2.Close()
					return
				}
			}
		}()
		go func() { // B -> A
			buf := make([]byte, 1<<16)
			for {
				n, err := pb2.Read(buf)
				if n > 0 {
					if _, e := pa2.Write(buf[:n]); e != nil {
						pb2.Close()
						return
					}
				}
				if err != nil {
					pa2.Close()
					return
				}
			}
		}()
		inject = func(rec []byte) { pa2.Write(rec) }
	}
	var cc, sc *gmtls.Config
	if args[0] == "gm" {
		suites := []uint16{gmtls.GMTLS_SM2_WITH_SM4_SM3}
		sc = &gmtls.Config{GMSupport: &gmtls.GMSupport{}, Certificates: []gmtls.Certificate{f.sig, f.enc}, CipherSuites: suites, DynamicRecordSizingDisabled: true}
		cc = &gmtls.Config{GMSupport: &gmtls.GMSupport{}, InsecureSkipVerify: true, CipherSuites: suites, DynamicRecordSizingDisabled: true}
	} else {
		suites := []uint16{gmtls.TLS_ECDHE_RSA_WITH_AES_128_GCM_SHA256}
		sc = &gmtls.Config{Certificates: []gmtls.Certificate{f.rsa}, CipherSuites: suites, MinVersion: gmtls.VersionTLS12, MaxVersion: gmtls.VersionTLS12, DynamicRecordSizingDisabled: true}
		cc = &gmtls.Config{InsecureSkipVerify: true, CipherSuites: suites, MinVersion: gmtls.VersionTLS12, MaxVersion: gmtls.VersionTLS12, DynamicRecordSizingDisabled: true}
	}
	A, B := gmtls.Client(ce, cc), gmtls.Server(se, sc)
	if r := runHandshake(A, B, 20*time.Second); r.cliErr != nil || r.srvErr != nil || r.timedOut {
		return fmt.Errorf("handshake: %v %v", r.cliErr, r.srvErr)
	}
	A.SetDeadline(time.Now().Add(40 * time.Second))
	B.SetDeadline(time.Now().Add(40 * time.Second))
	h := &conn20{raws: map[int][]byte{}}
	sizes := []int{8, 128, 2048, 2049, 5000} // cells: 64 B .. 40 000 B (multi-record)
	conns := map[string]*gmtls.Conn{"A": A, "B": B}
	var sentA, sentB int64 // bytes of successful writes
	var wg, wwg sync.WaitGroup
	var halfway sync.WaitGroup
	halfway.Add(1)
	var halfOnce sync.Once
	total := int64((nwA + nwB) * K)
	var writesDone int64
	writer := func(e string, ei, w int, sent *int64) {
		defer wg.Done()
		defer wwg.Done()
		rnd := newLCG(seed*31 + int64(ei*16+w)) // one generator per writer
		for k := 1; k <= K; k++ {
			cells := sizes[int(rnd.next())%len(sizes)]
			m := msg20(ei, w, k, cells)
			op := int(atomic.AddInt64(&h.ops, 1))
			id := []interface{}{e, w, k}
			inv := ev20{Stamp: h.stamp(), Ev: "inv", Op: op, Kind: "write", E: e, ID: id, N: len(m)}
			n, err := conns[e].Write(m)
			res := ev20{Stamp: h.stamp(), Ev: "res", Op: op}
			inv.Ok = err == nil && n == len(m)
			if err != nil {
				inv.Err = err.Error()
			}
			h.log(inv, res)
			if atomic.AddInt64(&writesDone, 1) >= total/2 {
				halfOnce.Do(halfway.Done)
			}
			if err != nil {
				return
			}
			atomic.AddInt64(sent, int64(len(m)))
		}
	}
	var gotA, gotB int64
	reader := func(e string, bufSize int, got *int64) {
		defer wg.Done()
		buf := make([]byte, bufSize)
		for {
			op := int(atomic.AddInt64(&h.ops, 1))
			inv := ev20{Stamp: h.stamp(), Ev: "inv", Op: op, Kind: "read", E: e}
			n, err := conns[e].Read(buf)
			res := ev20{Stamp: h.stamp(), Ev: "res", Op: op}
			if n > 0 { // bytes count even when an error comes with them
				inv.Ok, inv.N = true, n
				h.mu.Lock()
				h.raws[op] = append([]byte(nil), buf[:n]...)
				h.mu.Unlock()
				atomic.AddInt64(got, int64(n))
			} else if err != nil {
				inv.Err = err.Error()
				if closeMode == "badrec" && e == "A" && strings.Contains(inv.Err, "local error") {
					// this Read met the record that does not authenticate: it fails, and as part of the same call the
					// endpoint tells its peer so (fatal alert), which ends the stream it sends
					inv.Kind = "faultread"
				}
			} else {
				continue // (0, nil): nothing happened
			}
			h.log(inv, res)
			if err != nil {
				return
			}
		}
	}
	for w := 1; w <= nwA; w++ {
		wg.Add(1)
		wwg.Add(1)
		go writer("A", 0, w, &sentA)
	}
	for w := 1; w <= nwB; w++ {
		wg.Add(1)
		wwg.Add(1)
		go writer("B", 1, w, &sentB)
	}
	for r := 0; r < nrA; r++ {
		wg.Add(1)
		go reader("A", 4096, &gotA)
	}
	wg.Add(1)
	go reader("B", 32768, &gotB)
	closeOp := func(e string) {
		op := int(atomic.AddInt64(&h.ops, 1))
		inv := ev20{Stamp: h.stamp(), Ev: "inv", Op: op, Kind: "close", E: e, Ok: true}
		conns[e].Close()
		h.log(inv, ev20{Stamp: h.stamp(), Ev: "res", Op: op})
	}
	if closeMode == "badrec" {
		gate.Lock()
	}
	if closeMode == "badrec" {
		// the writers on A are under way, the first of them blocked in its transport; now the forged record arrives
		time.Sleep(40 * time.Millisecond)
		rec := make([]byte, 5+64)
		copy(rec, []byte{23, 3, 3, 0, 64})
		if args[0] == "gm" {
			rec[1], rec[2] = 1, 1
		}
		for i := 5; i < len(rec); i++ {
			rec[i] = byte(i*37 + 11)
		}
		inject(rec)
		time.Sleep(40 * time.Millisecond) // A's reader is answering with its alert, the writer still blocked
		gate.Unlock()
		wwg.Wait()
		for i := 0; i < 400 && atomic.LoadInt64(&gotB) < atomic.LoadInt64(&sentA); i++ {
			time.Sleep(5 * time.Millisecond)
		}
		time.Sleep(30 * time.Millisecond)
	} else if closeMode == "half" {
		// A half-closes in the middle of the traffic: its own writers fail from then on, B's reader sees the end of A's
		// stream, but B goes on writing and A goes on reading until everything has arrived
		halfway.Wait()
		op := int(atomic.AddInt64(&h.ops, 1))
		inv := ev20{Stamp: h.stamp(), Ev: "inv", Op: op, Kind: "closewrite", E: "A", Ok: true}
		A.CloseWrite()
		h.log(inv, ev20{Stamp: h.stamp(), Ev: "res", Op: op})
		wwg.Wait()
		for i := 0; i < 2000 && atomic.LoadInt64(&gotA) < atomic.LoadInt64(&sentB); i++ {
			time.Sleep(5 * time.Millisecond)
		}
	} else if closeMode == "during" {
		halfway.Wait()
	} else {
		wwg.Wait()
		// let the readers drain what was written
		for i := 0; i < 2000 && (atomic.LoadInt64(&gotB) < atomic.LoadInt64(&sentA) || atomic.LoadInt64(&gotA) < atomic.LoadInt64(&sentB)); i++ {
			time.Sleep(5 * time.Millisecond)
		}
	}
	closeOp("A")
	// B's reader sees the end of the stream; then B closes too, which ends everything else
	time.Sleep(20 * time.Millisecond)
	closeOp("B")
	done := make(chan struct{})
	go func() { wg.Wait(); close(done) }()
	select {
	case <-done:
	case <-time.After(60 * time.Second):
		return fmt.Errorf("goroutines still blocked 60 s after both ends were closed")
	}
	// segments of what each Read returned
	h.mu.Lock()
	defer h.mu.Unlock()
	dropOps := map[int]bool{}
	byReader := map[string][]int{} // endpoint -> read ops in stamp order
	for i := range h.evs {
		if h.evs[i].Ev == "inv" && h.evs[i].Kind == "read" && h.evs[i].Ok {
			byReader[h.evs[i].E] = append(byReader[h.evs[i].E], i)
		}
	}
	for e, idxs := range byReader {
		single := e == "B" || nrA == 1
		if !single {
			for _, i := range idxs {
				h.evs[i].Segs = decodeCells(h.raws[h.evs[i].Op], 0)
			}
			continue
		}
		// one reader: its chunks in order are the stream; map each chunk through absolute positions
		sortEv := append([]int(nil), idxs...)
		sort.Slice(sortEv, func(a, b int) bool { return h.evs[sortEv[a]].Stamp < h.evs[sortEv[b]].Stamp })
		var all []byte
		for _, i := range sortEv {
			all = append(all, h.raws[h.evs[i].Op]...)
		}
		whole := len(all) - len(all)%8
		segsAll := decodeCells(all[:whole], 0)
		// (a final partial cell can only be the tail of an interrupted message; it is attributed to the message it continues)
		pos := 0
		si, soff := 0, 0 // current segment of segsAll and bytes consumed of it
		for _, i := range sortEv {
			n := len(h.raws[h.evs[i].Op])
			var out []seg20
			need := n
			for need > 0 && segsAll != nil && si < len(segsAll) {
				s := segsAll[si]
				avail := s.To - s.From - soff
				take := need
				if take > avail {
					take = avail
				}
				out = append(out, seg20{ID: s.ID, From: s.From + soff, To: s.From + soff + take, N: s.N})
				soff += take
				need -= take
				if soff == s.To-s.From {
					si, soff = si+1, 0
				}
			}
			if need > 0 && segsAll != nil && pos+n > whole {
				// bytes of the unfinished last cell of this reader's stream
				if last := lastSeg(out, segsAll, si); last != nil && last.To < last.N {
					// they continue the message the previous cell belongs to
					if len(out) > 0 {
						out[len(out)-1].To += need
					} else {
						out = append(out, seg20{ID: last.ID, From: last.To, To: last.To + need, N: last.N})
					}
				} else if len(out) == 0 {
					// the first bytes of a message whose name never arrived: nothing can be said about them
					dropOps[h.evs[i].Op] = true
				}
				need = 0
			}
			if need > 0 {
				out = nil
			}
			h.evs[i].Segs = mergeSegs(out)
			pos += n
		}
	}
	sort.Slice(h.evs, func(a, b int) bool { return h.evs[a].Stamp < h.evs[b].Stamp })
	fo, err := os.Create(args[7])
	if err != nil {
		return err
	}
	defer fo.Close()
	w := bufio.NewWriter(fo)
	defer w.Flush()
	for _, e := range h.evs {
		if dropOps[e.Op] {
			continue
		}
		if e.Segs == nil {
			e.Segs = []seg20{}
		}
		if e.ID == nil {
			e.ID = []interface{}{}
		}
		b, _ := json.Marshal(e)
		w.Write(b)
		w.WriteByte('\n')
	}
	return nil
}

// the segment that precedes the current position: the last of out, or the one before segsAll[si]
func lastSeg(out, all []seg20, si int) *seg20 {
	if len(out) > 0 {
		return &out[len(out)-1]
	}
	if si > 0 && si <= len(all) {
		return &all[si-1]
	}
	return nil
}

func mergeSegs(s []seg20) []seg20 {
	var out []seg20
	for _, x := range s {
		if n := len(out); n > 0 && fmt.Sprint(out[n-1].ID) == fmt.Sprint(x.ID) && out[n-1].To == x.From {
			out[n-1].To = x.To
		} else {
			out = append(out, x)
		}
	}
	return out
}

func init() { cmds["c20-conn"] = c20conn }

// ---------------------------------------------------------------- histories of one shared Config (ConcConfigTrace)
type evCfg struct {
	Stamp   int64  `json:"-"`
	Ev      string `json:"ev"`
	Op      int    `json:"op"`
	Kind    string `json:"kind,omitempty"`
	Keys    []int  `json:"keys,omitempty"`
	Off     int    `json:"off"`
	Resumed bool   `json:"resumed"`
	NewKey  int    `json:"newkey"`
}

func cfgKey(id int) [32]byte {
	var k [32]byte
	k[0], k[1], k[2] = byte(id), byte(id>>8), 0x5c
	return k
}

// c20-config <gm|tls> <workers> <handshakes per worker> <rotations> <seed> <out.ndjson>
// Workers reconnect to one server Config, each with its own client session cache, while another goroutine installs
// <<new key, previous first key>> with SetSessionTicketKeys.  Every call is logged as invocation + response (one atomic
// counter); the handshake's line carries the key of the ticket that was offered, whether the server resumed and the key
// of the ticket the client holds afterwards if it changed.
func c20config(args []string) error {
	var workers, iters, rots int
	var seed int64
	fmt.Sscan(args[1], &workers)
	fmt.Sscan(args[2], &iters)
	fmt.Sscan(args[3], &rots)
	fmt.Sscan(args[4], &seed)
	f, err := loadFixtures()
	if err != nil {
		return err
	}
	// "<mode>+rand": no rotator goroutine; the rotations happen INSIDE handshakes, at the instant the server draws the 16-byte
	// IV of a new ticket from Config.Rand (every (total/rots)-th such draw): the one place where a handshake that reads the
	// key list more than once sees two different lists
	viaRand := strings.HasSuffix(args[0], "+rand")
	args[0] = strings.TrimSuffix(args[0], "+rand")
	mk := func() (sc *gmtls.Config, cc func(cache gmtls.ClientSessionCache, name string) *gmtls.Config) {
		if args[0] == "gm" {
			suites := []uint16{gmtls.GMTLS_SM2_WITH_SM4_SM3}
			return &gmtls.Config{GMSupport: &gmtls.GMSupport{}, Certificates: []gmtls.Certificate{f.sig, f.enc}, CipherSuites: suites},
				func(cache gmtls.ClientSessionCache, name string) *gmtls.Config {
					return &gmtls.Config{GMSupport: &gmtls.GMSupport{}, InsecureSkipVerify: true, CipherSuites: suites, ClientSessionCache: cache, ServerName: name}
				}
		}
		suites := []uint16{gmtls.TLS_ECDHE_RSA_WITH_AES_128_GCM_SHA256}
		return &gmtls.Config{Certificates: []gmtls.Certificate{f.rsa}, CipherSuites: suites, MinVersion: gmtls.VersionTLS12, MaxVersion: gmtls.VersionTLS12},
			func(cache gmtls.ClientSessionCache, name string) *gmtls.Config {
				return &gmtls.Config{InsecureSkipVerify: true, CipherSuites: suites, ClientSessionCache: cache, ServerName: name, MinVersion: gmtls.VersionTLS12, MaxVersion: gmtls.VersionTLS12}
			}
	}
	ticketOf := func(cache gmtls.ClientSessionCache, name string) []byte {
		cs, ok := cache.Get(name)
		if !ok || cs == nil {
			return nil
		}
		return append([]byte(nil), gmtls.VerifSessionTicket(cs)...)
	}
	connect := func(sc, cc *gmtls.Config) (resumed bool, err error) {
		ce, se := tcpPair()
		if ce == nil {
			return false, fmt.Errorf("no loopback connection")
		}
		cli, srv := gmtls.Client(ce, cc), gmtls.Server(se, sc)
		defer cli.Close()
		defer srv.Close()
		r := runHandshake(cli, srv, 20*time.Second)
		if r.cliErr != nil || r.srvErr != nil || r.timedOut || r.cliPanic != nil || r.srvPanic != nil {
			return false, fmt.Errorf("handshake on the shared Config failed: client %v, server %v, timeout %v, panics %v %v", r.cliErr, r.srvErr, r.timedOut, r.cliPanic, r.srvPanic)
		}
		if cli.ConnectionState().DidResume != srv.ConnectionState().DidResume {
			return false, fmt.Errorf("the two ends disagree about resumption")
		}
		return srv.ConnectionState().DidResume, nil
	}
	// calibration (sequential): the 16-byte name in front of a ticket sealed under each key that will be in force
	names := map[string]int{}
	for id := 1; id <= rots+1; id++ {
		sc, ccf := mk()
		sc.SetSessionTicketKeys([][32]byte{cfgKey(id)})
		cache := gmtls.NewLRUClientSessionCache(1)
		if _, err := connect(sc, ccf(cache, "cal")); err != nil {
			return err
		}
		t := ticketOf(cache, "cal")
		if len(t) < 16 {
			return fmt.Errorf("calibration: no ticket under key %d", id)
		}
		if old, dup := names[string(t[:16])]; dup {
			return fmt.Errorf("calibration: keys %d and %d have the same name", old, id)
		}
		names[string(t[:16])] = id
	}
	keyOf := func(t []byte) int {
		if len(t) < 16 {
			return 0
		}
		return names[string(t[:16])] // 0: a name no key of this run has
	}
	sc, ccf := mk()
	sc.SetSessionTicketKeys([][32]byte{cfgKey(1)})
	var ctr, ops int64
	var mu sync.Mutex
	var evs []evCfg
	var firstErr error
	stamp := func() int64 { return atomic.AddInt64(&ctr, 1) }
	logEv := func(e ...evCfg) { mu.Lock(); evs = append(evs, e...); mu.Unlock() }
	fail := func(e error) {
		mu.Lock()
		if firstErr == nil {
			firstErr = e
		}
		mu.Unlock()
	}
	var wg sync.WaitGroup
	var hsDone int64
	total := int64(workers * iters)
	if viaRand {
		// every second rotation is made by a rotator goroutine (spread over the run); it arms the hook, and the next draw of a
		// ticket IV - the re-issue of a ticket for a client that reconnects with its old one - makes the following rotation
		var rot int
		var armed int32
		var rmu sync.Mutex
		doRotate := func() bool {
			rmu.Lock()
			defer rmu.Unlock()
			if rot >= rots {
				return false
			}
			rot++
			op := int(atomic.AddInt64(&ops, 1))
			inv := evCfg{Stamp: stamp(), Ev: "inv", Op: op, Kind: "rotate", Keys: []int{rot + 1, rot}}
			sc.SetSessionTicketKeys([][32]byte{cfgKey(rot + 1), cfgKey(rot)})
			logEv(inv, evCfg{Stamp: stamp(), Ev: "res", Op: op})
			return true
		}
		sc.Rand = readerFunc(func(p []byte) (int, error) {
			if len(p) == 16 && atomic.CompareAndSwapInt32(&armed, 1, 0) {
				doRotate()
			}
			return rand.Read(p)
		})
		phases := (rots + 1) / 2
		wg.Add(1)
		go func() {
			defer wg.Done()
			for ph := 1; ph <= phases; ph++ {
				for atomic.LoadInt64(&hsDone) < total*int64(ph)/int64(phases+1) {
					time.Sleep(time.Millisecond)
				}
				if !doRotate() {
					return
				}
				atomic.StoreInt32(&armed, 1)
			}
		}()
	}
	wg.Add(1)
	go func() { // the rotator: spread over the run
		defer wg.Done()
		if viaRand {
			return
		}
		// Between two rotations the rotator keeps re-installing the list that is already in force.  Those calls do not
		// change the abstract state (stuttering steps: they are not logged), but they keep SetSessionTicketKeys running
		// all the time, so that an installation that is not atomic shows its intermediate lists to the handshakes.
		cur := [][32]byte{cfgKey(1)}
		for r := 1; r <= rots+1; r++ {
			for atomic.LoadInt64(&hsDone) < total*int64(r)/int64(rots+1) {
				sc.SetSessionTicketKeys(cur)
				runtime.Gosched()
			}
			if r > rots {
				break
			}
			op := int(atomic.AddInt64(&ops, 1))
			inv := evCfg{Stamp: stamp(), Ev: "inv", Op: op, Kind: "rotate", Keys: []int{r + 1, r}}
			cur = [][32]byte{cfgKey(r + 1), cfgKey(r)}
			sc.SetSessionTicketKeys(cur)
			logEv(inv, evCfg{Stamp: stamp(), Ev: "res", Op: op})
		}
	}()
	for w := 0; w < workers; w++ {
		wg.Add(1)
		go func(w int) {
			defer wg.Done()
			cache := gmtls.NewLRUClientSessionCache(1)
			name := fmt.Sprint("w", w)
			cc := ccf(cache, name)
			for i := 0; i < iters; i++ {
				before := ticketOf(cache, name)
				op := int(atomic.AddInt64(&ops, 1))
				inv := evCfg{Stamp: stamp(), Ev: "inv", Op: op, Kind: "hs", Off: keyOf(before)}
				if before != nil && inv.Off == 0 {
					fail(fmt.Errorf("worker %d holds a ticket whose key name belongs to no key of this run", w))
				}
				resumed, err := connect(sc, cc)
				if err != nil {
					fail(err)
				}
				after := ticketOf(cache, name)
				inv.Resumed = resumed
				if !bytes.Equal(after, before) {
					inv.NewKey = keyOf(after)
					if inv.NewKey == 0 {
						inv.NewKey = -1 // sealed under something that is no key of this run (e.g. a torn key)
					}
				}
				logEv(inv, evCfg{Stamp: stamp(), Ev: "res", Op: op})
				atomic.AddInt64(&hsDone, 1)
			}
		}(w)
	}
	wg.Wait()
	sort.Slice(evs, func(i, j int) bool { return evs[i].Stamp < evs[j].Stamp })
	out, err := os.Create(args[5])
	if err != nil {
		return err
	}
	defer out.Close()
	bw := bufio.NewWriter(out)
	defer bw.Flush()
	if firstErr != nil {
		b, _ := json.Marshal(map[string]interface{}{"ev": "error", "text": firstErr.Error()})
		bw.Write(append(b, '\n'))
	}
	for _, e := range evs {
		var b []byte
		if e.Ev == "res" {
			b, _ = json.Marshal(map[string]interface{}{"ev": "res", "op": e.Op})
		} else if e.Kind == "rotate" {
			b, _ = json.Marshal(map[string]interface{}{"ev": "inv", "op": e.Op, "kind": "rotate", "keys": e.Keys})
		} else {
			b, _ = json.Marshal(map[string]interface{}{"ev": "inv", "op": e.Op, "kind": "hs", "off": e.Off, "resumed": e.Resumed, "newkey": e.NewKey})
		}
		bw.Write(append(b, '\n'))
	}
	return nil
}

type readerFunc func(p []byte) (int, error)

func (f readerFunc) Read(p []byte) (int, error) { return f(p) }

func init() { cmds["c20-config"] = c20config }
