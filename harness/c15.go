package main

// C15: the scripted misbehaving peer.  An honest gmtls endpoint supplies context-correct messages;
// a message-level interposer on the direction towards the endpoint under test (EUT) applies the
// deviation TLC chose (TLCPPeer.tla): drop / duplicate / swap / inject a message of any type /
// truncate or perturb length fields / CCS, application data, alerts at the wrong moment / close.

import (
	"bufio"
	"crypto/ecdsa"
	"crypto/rand"
	"encoding/json"
	"errors"
	"fmt"
	"github.com/tjfoc/gmsm/sm2"
	"github.com/tjfoc/gmsm/x509"
	"net"
	"os"
	"runtime"
	"strings"
	"sync"
	"sync/atomic"
	"time"

	"github.com/tjfoc/gmsm/gmtls"
)

type peerOp struct {
	Op     string `json:"op"`
	K      int    `json:"k"`
	T      string `json:"t"`
	How    string `json:"how"`
	Policy string `json:"policy"`
	V      int    `json:"v"`
}

type c15Case struct {
	Role string `json:"role"`
	Ca   bool   `json:"ca"`
	Op   peerOp `json:"op"`
}

type c15Obs struct {
	EutErr      string `json:"eut_err"`
	EutPanic    string `json:"eut_panic"`
	EutComplete bool   `json:"eut_complete"`
	EutReturned bool   `json:"eut_returned"`
	Hang        bool   `json:"hang"`         // did not return although its input had ended
	ClosedByUs  bool   `json:"closed_by_us"` // we ended the EUT's input because nothing moved any more
	PeerErr     string `json:"peer_err"`
	Applied     bool   `json:"applied"` // the op's position was reached
	Skipped     string `json:"skipped"`
}

func c15Configs(role string, ca bool) (cc, sc *gmtls.Config, eutIsClient bool, err error) {
	f, err := loadFixtures()
	if err != nil {
		return nil, nil, false, err
	}
	gm := role == "client_gm" || role == "server_gm" || role == "server_auto_gm" || role == "client_gm_gcm" || role == "server_gm_gcm"
	eutIsClient = strings.HasPrefix(role, "client_")
	if gm {
		cc = &gmtls.Config{GMSupport: &gmtls.GMSupport{}, RootCAs: f.sm2CA, ServerName: "localhost"}
		if strings.HasSuffix(role, "_gcm") {
			cc.CipherSuites = []uint16{gmtls.GMTLS_ECC_SM4_GCM_SM3}
		}
		if ca {
			cc.Certificates = []gmtls.Certificate{f.auth}
		}
	} else {
		both := x509.NewCertPool() // both CAs: a certificate of the other key family then passes chain verification
		for _, n := range []string{"SM2_CA.cer", "RSA_CA.cer"} {
			b, _ := os.ReadFile(certPath(n))
			both.AppendCertsFromPEM(b)
		}
		cc = &gmtls.Config{RootCAs: both, ServerName: "localhost", MaxVersion: gmtls.VersionTLS12,
			CipherSuites: []uint16{gmtls.TLS_RSA_WITH_AES_128_GCM_SHA256}}
		switch {
		case strings.HasSuffix(role, "_ecdhe"):
			cc.CipherSuites = []uint16{gmtls.TLS_ECDHE_RSA_WITH_AES_128_GCM_SHA256}
		case strings.HasSuffix(role, "_tls10"):
			cc.MaxVersion = gmtls.VersionTLS10
			cc.CipherSuites = []uint16{gmtls.TLS_RSA_WITH_AES_128_CBC_SHA}
		}
		if ca {
			cc.Certificates = []gmtls.Certificate{f.rsaAuth}
		}
	}
	switch role {
	case "client_gm", "server_gm", "client_gm_gcm", "server_gm_gcm":
		sc = &gmtls.Config{GMSupport: &gmtls.GMSupport{}, Certificates: []gmtls.Certificate{f.sig, f.enc}}
	case "server_auto_gm", "server_auto_tls", "server_auto_tls10":
		sig, enc, rsaC := f.sig, f.enc, f.rsa
		sc, err = gmtls.NewBasicAutoSwitchConfig(&sig, &enc, &rsaC)
		if err != nil {
			return
		}
	default:
		sc = &gmtls.Config{Certificates: []gmtls.Certificate{f.rsa}}
	}
	sc.SessionTicketsDisabled = true
	if ca {
		// (the servers that ask for a client certificate also go through the per-connection hook, here one that keeps the
		// listener's configuration: the hello is then inspected - ClientHelloInfo - before any of it has been checked)
		sc.GetConfigForClient = func(*gmtls.ClientHelloInfo) (*gmtls.Config, error) { return nil, nil }
		sc.ClientAuth = gmtls.RequireAndVerifyClientCert
		if gm {
			sc.ClientCAs = f.sm2CA
		} else {
			sc.ClientCAs = f.rsaCA
		}
	}
	return
}

// message kinds by handshake type byte
var kindOf = map[byte]string{0: "HREQ", 1: "CH", 2: "SH", 4: "NST", 11: "CERT", 12: "SKE", 13: "CREQ", 14: "SHD", 15: "CV", 16: "CKE", 20: "FIN", 22: "CSTATUS", 67: "NPN"}

type msgLib struct {
	mu sync.Mutex
	m  map[string][]byte // role-config + kind -> full message (header + body)
}

var lib = &msgLib{m: map[string][]byte{}}

func hsMsg(t byte, body []byte) []byte {
	n := len(body)
	return append([]byte{t, byte(n >> 16), byte(n >> 8), byte(n)}, body...)
}

func synth(kind string) []byte {
	switch kind {
	case "HREQ":
		return hsMsg(0, nil)
	case "FIN":
		return hsMsg(20, []byte{1, 2, 3, 4, 5, 6, 7, 8, 9, 10, 11, 12})
	case "CSTATUS":
		return hsMsg(22, []byte{1, 0, 0, 1, 0})
	case "NPN":
		return hsMsg(67, []byte{0, 0})
	case "UNK":
		return hsMsg(99, []byte{0})
	case "NST":
		return hsMsg(4, []byte{0, 0, 0, 60, 0, 4, 1, 2, 3, 4})
	case "SHD":
		return hsMsg(14, nil)
	case "CERT_RSA2":
		// two RSA certificates where GM/T 0024 expects the SM2 signing and encryption certificates
		f, _ := loadFixtures()
		der := f.rsa.Certificate[0]
		l := len(der)
		one := append([]byte{byte(l >> 16), byte(l >> 8), byte(l)}, der...)
		list := append(append([]byte(nil), one...), one...)
		ll := len(list)
		return hsMsg(11, append([]byte{byte(ll >> 16), byte(ll >> 8), byte(ll)}, list...))
	case "CERT_SM2":
		// one SM2 certificate (trusted by the client) where a TLS RSA suite expects an RSA one
		f, _ := loadFixtures()
		der := f.sig.Certificate[0]
		l := len(der)
		body := []byte{byte((l + 3) >> 16), byte((l + 3) >> 8), byte(l + 3), byte(l >> 16), byte(l >> 8), byte(l)}
		return hsMsg(11, append(body, der...))
	case "CERT_RSA":
		f, _ := loadFixtures()
		der := f.rsa.Certificate[0]
		l := len(der)
		body := []byte{byte((l + 3) >> 16), byte((l + 3) >> 8), byte(l + 3), byte(l >> 16), byte(l >> 8), byte(l)}
		return hsMsg(11, append(body, der...))
	}
	return nil
}

// msgFilter sits on the direction towards the EUT
type msgFilter struct {
	op       peerOp
	libKey   string
	buf      []byte
	idx      int // messages seen so far
	hdr      [5]byte
	plain    bool
	applied  bool
	failW    *failWriteConn
	held     []byte // swap: message k waiting for k+1
	closeNow bool
	record   bool // baseline run: record the message library
	identity bool // the rewrite did not change anything
}

// a transport whose Write fails once told so
type failWriteConn struct {
	net.Conn
	fail int32
}

func (c *failWriteConn) Write(p []byte) (int, error) {
	if atomic.LoadInt32(&c.fail) != 0 {
		return 0, errors.New("verif: write on a connection the peer has left (EPIPE)")
	}
	return c.Conn.Write(p)
}

// rewriteHello rebuilds a ClientHello with another client_version / cipher suite list / compression list
func rewriteHello(msg []byte, op peerOp) (out []byte, same bool) {
	b := msg[4:]
	if len(b) < 35 {
		return msg, true
	}
	p := 34
	sid := b[p : p+1+int(b[p])]
	p += len(sid)
	sl := int(b[p])<<8 | int(b[p+1])
	suites := b[p+2 : p+2+sl]
	p += 2 + sl
	cl := int(b[p])
	comp := b[p+1 : p+1+cl]
	rest := b[p+1+cl:]
	vers := b[:2]
	switch op.Op {
	case "chvers":
		vers = []byte{byte(op.V >> 8), byte(op.V)}
	case "chsuites":
		switch op.How {
		case "empty":
			suites = nil
		case "unknown":
			suites = []byte{0xfa, 0xfa, 0x12, 0x34}
		case "unknown_first":
			suites = append([]byte{0xfa, 0xfa}, suites...)
		case "odd":
			suites = append(append([]byte(nil), suites...), 0x00)
		case "ecdhe_only":
			suites = []byte{0xe0, 0x11, 0xe0, 0x51}
		case "scsv":
			suites = append(append([]byte(nil), suites...), 0x56, 0x00)
		}
	case "chcomp":
		comp = []byte{1}
	}
	nb := append([]byte(nil), vers...)
	nb = append(nb, b[2:34]...)
	nb = append(nb, sid...)
	nb = append(nb, byte(len(suites)>>8), byte(len(suites)))
	nb = append(nb, suites...)
	nb = append(nb, byte(len(comp)))
	nb = append(nb, comp...)
	nb = append(nb, rest...)
	out = hsMsg(msg[0], nb)
	return out, string(out) == string(msg)
}

// rewriteHelloExt replaces (or adds) one extension of a ClientHello / ServerHello: type op.V, data of the shape op.How.
// All outer length fields stay consistent; what varies is the extension's own content (no data, an empty list, a list
// with one empty item, a list length that overruns / underruns the data, all-ones).
func rewriteHelloExt(msg []byte, op peerOp) (out []byte, same bool) {
	b := msg[4:]
	if len(b) < 35 {
		return msg, true
	}
	p := 34
	p += 1 + int(b[p])
	if msg[0] == 1 {
		p += 2 + (int(b[p])<<8 | int(b[p+1]))
		p += 1 + int(b[p])
	} else {
		p += 3
	}
	if p > len(b) {
		return msg, true
	}
	head, rest := b[:p], b[p:]
	var exts []byte
	if len(rest) >= 2 {
		e := rest[2:]
		for len(e) >= 4 {
			l := int(e[2])<<8 | int(e[3])
			if len(e) < 4+l {
				break
			}
			if int(e[0])<<8|int(e[1]) != op.V {
				exts = append(exts, e[:4+l]...)
			}
			e = e[4+l:]
		}
	}
	var data []byte
	switch op.How {
	case "nodata":
	case "list0_8":
		data = []byte{0}
	case "list0_16":
		data = []byte{0, 0}
	case "item0":
		data = []byte{0, 1, 0}
	case "item0_16":
		data = []byte{0, 3, 0, 0, 0}
	case "over":
		data = []byte{0, 9, 0}
	case "under":
		data = []byte{0, 1, 1, 65, 1, 66}
	case "ones":
		data = []byte{0xff, 0xff, 0xff}
	case "twice": // the extension twice, each with a well-formed one-item list
		exts = append(exts, byte(op.V>>8), byte(op.V), 0, 4, 0, 2, 1, 65)
		data = []byte{0, 2, 1, 66}
	}
	exts = append(append(exts, byte(op.V>>8), byte(op.V), byte(len(data)>>8), byte(len(data))), data...)
	nb := append(append([]byte(nil), head...), byte(len(exts)>>8), byte(len(exts)))
	nb = append(nb, exts...)
	out = hsMsg(msg[0], nb)
	return out, string(out) == string(msg)
}

func frame(hdr [5]byte, typ byte, payload []byte) *record {
	r := &record{hdr: hdr, body: append([]byte(nil), payload...)}
	r.hdr[0] = typ
	setLen(r)
	return r
}

func innerOffset(t byte) int {
	switch t {
	case 1, 2: // hello: version(2) random(32) then session id length
		return 34
	}
	return 0
}

func (f *msgFilter) mutate(msg []byte) []byte {
	m := append([]byte(nil), msg...)
	body := m[4:]
	setL := func(n int) { m[1], m[2], m[3] = byte(n>>16), byte(n>>8), byte(n) }
	if len(body) == 0 && (f.op.How == "body1" || f.op.How == "bodyhalf" || f.op.How == "bodyminus1") {
		// nothing to cut from an empty body: malform it the other way (a byte too many)
		m = append(m, 0)
		setL(1)
		return m
	}
	if strings.HasPrefix(f.op.How, "cut") {
		// a well-framed message whose body stops after N bytes (cutN) or N bytes before its end (cutendN)
		var n int
		if strings.HasPrefix(f.op.How, "cutend") {
			fmt.Sscan(f.op.How[6:], &n)
			n = len(body) - n
		} else {
			fmt.Sscan(f.op.How[3:], &n)
		}
		if n < 0 || n >= len(body) {
			f.identity = true // nothing to cut there
			return m
		}
		m = m[:4+n]
		setL(n)
		return m
	}
	switch f.op.How {
	case "body1":
		if len(body) > 1 {
			m = m[:5]
		} else {
			m = m[:4]
		}
		setL(len(m) - 4)
	case "bodyhalf":
		m = m[:4+len(body)/2]
		setL(len(m) - 4)
	case "bodyminus1":
		if len(body) > 0 {
			m = m[:len(m)-1]
		}
		setL(len(m) - 4)
	case "len+1":
		setL(len(body) + 1)
	case "len-1":
		if len(body) > 0 {
			setL(len(body) - 1)
		} else {
			setL(1)
		}
	case "len0":
		if len(body) == 0 {
			setL(3)
		} else {
			setL(0)
		}
	case "lenmax":
		setL(0xffffff)
	case "inner+", "inner-":
		off := 4 + innerOffset(m[0])
		if off < len(m) {
			if f.op.How == "inner+" {
				m[off]++
			} else {
				m[off]--
			}
		} else {
			m = append(m, 7) // empty body: grow it instead
		}
	}
	return m
}

// process one incoming record towards the EUT; returns the records to forward
func (f *msgFilter) filter(r *record) []*record {
	if !f.plain || r.typ() != 22 {
		if r.typ() == 20 && f.plain {
			// end of the plaintext phase in this direction
			var out []*record
			if !f.applied && (f.op.Op == "inject" || f.op.Op == "close") && f.op.K == f.idx+1 {
				out = append(out, f.special()...)
			}
			f.plain = false
			if f.closeNow {
				return out
			}
			return append(out, r)
		}
		if !f.plain && r.typ() == 22 && f.op.Op == "wfail_fin" && !f.applied && f.failW != nil {
			// the peer's (protected) Finished is about to be handed over: from now on the endpoint's transport refuses to
			// send, as if the peer had gone away right behind its Finished - the endpoint's own last flight cannot leave
			atomic.StoreInt32(&f.failW.fail, 1)
			f.applied = true
		}
		return []*record{r}
	}
	f.hdr = r.hdr
	if f.op.Op == "none" && !f.record {
		return []*record{r}
	}
	f.buf = append(f.buf, r.body...)
	var out []*record
	for len(f.buf) >= 4 {
		n := int(f.buf[1])<<16 | int(f.buf[2])<<8 | int(f.buf[3])
		if len(f.buf) < 4+n {
			break
		}
		msg := append([]byte(nil), f.buf[:4+n]...)
		f.buf = f.buf[4+n:]
		f.idx++
		if f.record {
			if k, ok := kindOf[msg[0]]; ok {
				lib.mu.Lock()
				if _, have := lib.m[f.libKey+k]; !have {
					lib.m[f.libKey+k] = msg
				}
				lib.mu.Unlock()
			}
		}
		out = append(out, f.onMessage(msg)...)
		if f.closeNow {
			break
		}
	}
	return out
}

func (f *msgFilter) special() []*record {
	f.applied = true
	switch f.op.Op {
	case "inject":
		lib.mu.Lock()
		b := lib.m[f.libKey+f.op.T]
		lib.mu.Unlock()
		if b == nil {
			b = synth(f.op.T)
		}
		if b == nil {
			b = hsMsg(99, []byte{1})
		}
		return []*record{frame(f.hdr, 22, b)}
	case "close":
		f.closeNow = true
	}
	return nil
}

func (f *msgFilter) onMessage(msg []byte) []*record {
	one := func(m []byte) []*record { return []*record{frame(f.hdr, 22, m)} }
	if f.op.Op == "refrag" {
		// every message split over several records: 1 byte, then the rest in two halves
		if len(msg) < 3 {
			return one(msg)
		}
		h := 1 + (len(msg)-1)/2
		return []*record{frame(f.hdr, 22, msg[:1]), frame(f.hdr, 22, msg[1:h]), frame(f.hdr, 22, msg[h:])}
	}
	if f.held != nil { // swap: this is message k+1
		h := f.held
		f.held = nil
		return append(one(msg), one(h)...)
	}
	if f.idx != f.op.K || f.applied {
		return one(msg)
	}
	f.applied = true
	switch f.op.Op {
	case "drop":
		return nil
	case "dup":
		return append(one(msg), one(msg)...)
	case "swap":
		f.held = msg
		return nil
	case "inject":
		return append(f.special(), one(msg)...)
	case "replace":
		f.op.Op = "inject"
		r := f.special()
		f.op.Op = "replace"
		if len(r) == 1 && string(r[0].body) == string(msg) {
			f.identity = true // the substitute is byte-identical to the genuine message
		}
		return r
	case "chvers", "chsuites", "chcomp":
		m, same := rewriteHello(msg, f.op)
		if same {
			f.identity = true
		}
		return one(m)
	case "helloext":
		m, same := rewriteHelloExt(msg, f.op)
		if same {
			f.identity = true
		}
		return one(m)
	case "trunc":
		return one(f.mutate(msg))
	case "close":
		f.closeNow = true
		return nil
	case "ccs":
		return append([]*record{frame(f.hdr, 20, []byte{1})}, one(msg)...)
	case "appdata":
		return append([]*record{frame(f.hdr, 23, []byte("GET / HTTP/1.0\r\n\r\n"))}, one(msg)...)
	case "appdata_empty":
		return append([]*record{frame(f.hdr, 23, nil)}, one(msg)...)
	case "fatalalert":
		f.closeNow = true
		return []*record{frame(f.hdr, 21, []byte{2, 40})}
	case "warnalert":
		return append([]*record{frame(f.hdr, 21, []byte{1, 90})}, one(msg)...)
	}
	return one(msg)
}

// a scripted GMSSL client that offers another client_version and then carries on consistently: it answers the server's
// flight with a well-formed ClientKeyExchange (a 48-byte secret under the server's encryption certificate), sends
// ChangeCipherSpec and an unreadable Finished, and goes away.  The server must end with an error.
func runSelfVers(c *c15Case) (c15Obs, error) {
	var obs c15Obs
	_, sc, eutIsClient, err := c15Configs(c.Role, c.Ca)
	if err != nil {
		return obs, err
	}
	if eutIsClient || !strings.Contains(c.Role, "gm") {
		obs.Skipped = "scripted peer is a GMSSL client"
		return obs, nil
	}
	pc, ps := net.Pipe()
	defer pc.Close()
	defer ps.Close()
	srv := gmtls.Server(ps, sc)
	type res struct {
		err error
		p   interface{}
	}
	done := make(chan res, 1)
	go func() {
		var r res
		defer func() {
			if p := recover(); p != nil {
				buf := make([]byte, 2048)
				r.p = fmt.Sprint(p, " @ ", string(buf[:runtime.Stack(buf, false)]))
				srv.Close()
			}
			done <- r
		}()
		r.err = srv.Handshake()
		if r.err != nil {
			srv.Close()
		}
	}()
	recVers := []byte{1, 1} // record-layer version: GMSSL 1.1 until the server names another one
	rec := func(typ byte, body []byte) []byte {
		return append([]byte{typ, recVers[0], recVers[1], byte(len(body) >> 8), byte(len(body))}, body...)
	}
	go func() {
		defer pc.Close()
		hello := []byte{byte(c.Op.V >> 8), byte(c.Op.V)}
		rnd := make([]byte, 32)
		rand.Read(rnd)
		hello = append(hello, rnd...)
		hello = append(hello, 0, 0, 4, 0xe0, 0x13, 0xe0, 0x53, 1, 0)
		pc.SetDeadline(time.Now().Add(8 * time.Second))
		if _, err := pc.Write(rec(22, hsMsg(1, hello))); err != nil {
			return
		}
		var buf []byte
		var certs [][]byte
		for {
			r, err := readRecord(pc)
			if err != nil || r.typ() != 22 {
				return // alert or end of stream: the server refused, which is fine
			}
			buf = append(buf, r.body...)
			doneFlight := false
			for len(buf) >= 4 {
				n := int(buf[1])<<16 | int(buf[2])<<8 | int(buf[3])
				if len(buf) < 4+n {
					break
				}
				m := buf[:4+n]
				buf = buf[4+n:]
				if m[0] == 2 && len(m) >= 6 {
					recVers = []byte{m[4], m[5]} // a consistent peer speaks the version the server chose
				}
				if m[0] == 11 {
					b := m[7:]
					for len(b) >= 3 {
						l := int(b[0])<<16 | int(b[1])<<8 | int(b[2])
						if len(b) < 3+l {
							break
						}
						certs = append(certs, b[3:3+l])
						b = b[3+l:]
					}
				}
				if m[0] == 14 {
					doneFlight = true
				}
			}
			if doneFlight {
				break
			}
		}
		if len(certs) < 2 {
			return
		}
		ec, err := x509.ParseCertificate(certs[1])
		if err != nil {
			return
		}
		pk, ok := ec.PublicKey.(*ecdsa.PublicKey)
		if !ok {
			return
		}
		pms := make([]byte, 48)
		rand.Read(pms)
		pms[0], pms[1] = 1, 1
		ct, err := sm2.EncryptAsn1(&sm2.PublicKey{Curve: pk.Curve, X: pk.X, Y: pk.Y}, pms, rand.Reader)
		if err != nil {
			return
		}
		cke := append([]byte{byte(len(ct) >> 8), byte(len(ct))}, ct...)
		pc.Write(rec(22, hsMsg(16, cke)))
		pc.Write(rec(20, []byte{1}))
		pc.Write(rec(22, make([]byte, 64)))
		time.Sleep(300 * time.Millisecond)
	}()
	select {
	case r := <-done:
		obs.EutReturned = true
		if r.err != nil {
			obs.EutErr = r.err.Error()
		}
		if r.p != nil {
			obs.EutPanic = fmt.Sprint(r.p)
		} else {
			obs.EutComplete = srv.ConnectionState().HandshakeComplete
		}
	case <-time.After(12 * time.Second):
		obs.Hang = true
	}
	obs.Applied = true
	return obs, nil
}

func runC15(c *c15Case, baseline bool) (c15Obs, error) {
	var obs c15Obs
	if c.Op.Op == "selfvers" {
		return runSelfVers(c)
	}
	if c.Op.Op == "script" {
		return runScript(c)
	}
	if c.Op.Op == "srvscript" {
		return runServerScript(c)
	}
	cc, sc, eutIsClient, err := c15Configs(c.Role, c.Ca)
	if err != nil {
		return obs, err
	}
	// swapping the only message of a flight with the next one means withholding it: not a peer deviation
	if c.Op.Op == "swap" && !eutIsClient && c.Op.K == 1 {
		obs.Skipped = "swap across flights"
		return obs, nil
	}
	c1, c2 := net.Pipe()
	s1, s2 := net.Pipe()
	cli := gmtls.Client(c1, cc)
	var srvConn net.Conn = s2
	failW := &failWriteConn{Conn: s2}
	if c.Op.Op == "wfail_fin" {
		srvConn = failW
	}
	srv := gmtls.Server(srvConn, sc)
	var last int64
	touch := func() { atomic.StoreInt64(&last, time.Now().UnixNano()) }
	touch()
	flt := &msgFilter{op: c.Op, libKey: fmt.Sprint(c.Role, c.Ca, "/"), plain: true, record: baseline}
	flt.failW = failW
	var fltOther *msgFilter
	if baseline {
		fltOther = &msgFilter{op: peerOp{Op: "none"}, libKey: flt.libKey, plain: true, record: true}
	}
	closeAll := func() { c1.Close(); c2.Close(); s1.Close(); s2.Close() }
	defer closeAll()
	// pumps: from -> to with optional filter
	pumpDir := func(from, to net.Conn, f *msgFilter, toEUT bool) {
		for {
			r, err := readRecord(from)
			if err != nil {
				to.Close()
				return
			}
			touch()
			out := []*record{r}
			if f != nil {
				out = f.filter(r)
			}
			for _, o := range out {
				if _, err := to.Write(o.bytes()); err != nil {
					from.Close()
					return
				}
			}
			if f != nil && f.closeNow {
				// the peer ends the stream here
				to.Close()
				from.Close()
				return
			}
		}
	}
	if eutIsClient {
		go pumpDir(c2, s1, fltOther, false)
		go pumpDir(s1, c2, flt, true)
	} else {
		go pumpDir(c2, s1, flt, true)
		go pumpDir(s1, c2, fltOther, false)
	}
	eut, peer := srv, cli
	if eutIsClient {
		eut, peer = cli, srv
	}
	if c.Op.Op == "selfmal" {
		// the honest peer is made to produce the malformed key-exchange message itself (GMSSL only: the fault points are there)
		if !strings.Contains(c.Role, "gm") {
			obs.Skipped = "self-produced malformation needs the GMSSL fault points"
			return obs, nil
		}
		site := "cke"
		if eutIsClient {
			site = "ske"
		}
		how := c.Op.How
		faultMu.Lock()
		faultTable[peer] = func(s string, honest []byte) ([]byte, bool) {
			if s != site || len(honest) < 2 {
				return nil, false
			}
			b := append([]byte(nil), honest...)
			switch how {
			case "hi01":
				b[0] ^= 0x01
			case "hi80":
				b[0] ^= 0x80
			case "hiff":
				b[0] = 0xff
			case "lo+1":
				b[1]++
			case "lo-1":
				b[1]--
			case "zero":
				b[0], b[1] = 0, 0
			}
			return b, true
		}
		faultMu.Unlock()
		gmtls.VerifFault = faultDispatch
		defer func() { faultMu.Lock(); delete(faultTable, peer); faultMu.Unlock() }()
	}
	type res struct {
		err error
		p   interface{}
	}
	eutCh, peerCh := make(chan res, 1), make(chan res, 1)
	hs := func(c *gmtls.Conn, ch chan res) {
		var r res
		defer func() {
			if p := recover(); p != nil {
				buf := make([]byte, 2048)
				r.p = fmt.Sprint(p, " @ ", string(buf[:runtime.Stack(buf, false)]))
				c.Close()
			}
			ch <- r
		}()
		r.err = c.Handshake()
		if r.err != nil {
			c.Close()
		}
	}
	go hs(eut, eutCh)
	go hs(peer, peerCh)
	var er, pr *res
	deadline := time.After(12 * time.Second)
	tick := time.NewTicker(5 * time.Millisecond)
	defer tick.Stop()
	closedAt := time.Time{}
	for er == nil {
		select {
		case r := <-eutCh:
			er = &r
		case r := <-peerCh:
			pr = &r
		case <-tick.C:
			idle := time.Since(time.Unix(0, atomic.LoadInt64(&last)))
			if closedAt.IsZero() && idle > 600*time.Millisecond {
				// nothing moves any more: end the EUT's input, as a peer that goes away would
				obs.ClosedByUs = true
				closedAt = time.Now()
				if eutIsClient {
					c2.Close()
				} else {
					s1.Close()
				}
			}
			if !closedAt.IsZero() && time.Since(closedAt) > 3*time.Second {
				obs.Hang = true
				er = &res{}
				obs.EutReturned = false
				goto done
			}
		case <-deadline:
			obs.Hang = true
			er = &res{}
			goto done
		}
	}
	obs.EutReturned = true
done:
	if er.err != nil {
		obs.EutErr = er.err.Error()
	}
	if er.p != nil {
		obs.EutPanic = fmt.Sprint(er.p)
	}
	if obs.EutReturned && er.p == nil {
		obs.EutComplete = eut.ConnectionState().HandshakeComplete
	}
	if pr == nil {
		select {
		case r := <-peerCh:
			pr = &r
		case <-time.After(300 * time.Millisecond):
		}
	}
	if pr != nil && pr.err != nil {
		obs.PeerErr = pr.err.Error()
	}
	obs.Applied = flt.applied || c.Op.Op == "none" || c.Op.Op == "refrag"
	if flt.identity {
		obs.Skipped = "rewrite is the identity"
	}
	return obs, nil
}

// c15-run <cases.ndjson> <obs.ndjson>
func c15run(args []string) error {
	in, err := os.Open(args[0])
	if err != nil {
		return err
	}
	defer in.Close()
	var cases []c15Case
	var raws []json.RawMessage
	sc := bufio.NewScanner(in)
	sc.Buffer(make([]byte, 1<<20), 1<<26)
	for sc.Scan() {
		var row struct {
			Case json.RawMessage `json:"case"`
		}
		if err := json.Unmarshal(sc.Bytes(), &row); err != nil {
			return err
		}
		var c c15Case
		if err := json.Unmarshal(row.Case, &c); err != nil {
			return err
		}
		cases = append(cases, c)
		raws = append(raws, row.Case)
	}
	// baselines: one honest run per (role, ca) fills the message library
	seen := map[string]bool{}
	for _, c := range cases {
		k := fmt.Sprint(c.Role, c.Ca)
		if seen[k] {
			continue
		}
		seen[k] = true
		b := c15Case{Role: c.Role, Ca: c.Ca, Op: peerOp{Op: "none"}}
		o, err := runC15(&b, true)
		if err != nil {
			return err
		}
		if !o.EutComplete {
			return fmt.Errorf("baseline %s did not complete: %+v", k, o)
		}
	}
	out := make([]c15Obs, len(cases))
	errs := make([]error, len(cases))
	var wg sync.WaitGroup
	sem := make(chan struct{}, (runtime.NumCPU()+1)/2)
	for i := range cases {
		wg.Add(1)
		sem <- struct{}{}
		go func(i int) {
			defer wg.Done()
			defer func() { <-sem }()
			out[i], errs[i] = runC15(&cases[i], false)
		}(i)
	}
	wg.Wait()
	outf, err := os.Create(args[1])
	if err != nil {
		return err
	}
	defer outf.Close()
	w := bufio.NewWriter(outf)
	defer w.Flush()
	for i := range cases {
		if errs[i] != nil {
			return fmt.Errorf("case %d: %v", i, errs[i])
		}
		b, _ := json.Marshal(map[string]interface{}{"case": raws[i], "got": out[i]})
		w.Write(b)
		w.WriteByte('\n')
	}
	return nil
}

func init() { cmds["c15-run"] = c15run }
