SPECIFICATION Spec
CONSTANT Pairs = FALSE
INVARIANTS ChainsUseSupplied HonestAccepts
