------------------------------- MODULE Record -------------------------------
(***************************************************************************)
(* C07.  One protected direction of an established connection, with an     *)
(* active adversary on the wire.  A record carries the implicit sequence   *)
(* number it was sealed under and is `good` as long as no byte of it was   *)
(* changed and it was sealed under this direction's keys; the receiver     *)
(* accepts the head of the wire iff it is good and its sequence number is  *)
(* the one the receiver expects; anything else is a fatal error after      *)
(* which nothing is delivered.  The adversary may flip / truncate / extend *)
(* / rewrite header fields (all: good := FALSE, `how` names the concrete   *)
(* instance), drop, duplicate, swap adjacent records, and inject records   *)
(* that are forged or were sealed for the other direction or another       *)
(* connection.                                                             *)
(***************************************************************************)
EXTENDS Integers, Sequences, FiniteSets, TLC, Json
CONSTANTS NRec,        \* records the sender sends
          Budget,      \* adversary actions
          Hows,        \* concrete instances of "change the bytes of a record"
          Aliens,      \* kinds of injected records
          Canonical    \* TRUE: all sends, then the adversary, then the receiver (replay form)

VARIABLES sndSeq, wire, rcvSeq, delivered, err, budget, hist, phase
vars == <<sndSeq, wire, rcvSeq, delivered, err, budget, hist, phase>>

Rec(id, s, g) == [id |-> id, seq |-> s, good |-> g]
Init == /\ sndSeq = 0 /\ wire = <<>> /\ rcvSeq = 0 /\ delivered = <<>> /\ err = FALSE
        /\ budget = Budget /\ hist = <<>> /\ phase = "send"

Send == /\ sndSeq < NRec /\ (Canonical => phase = "send")
        /\ wire' = Append(wire, Rec(sndSeq + 1, sndSeq, TRUE)) /\ sndSeq' = sndSeq + 1
        /\ UNCHANGED <<rcvSeq, delivered, err, budget, hist, phase>>
SendDone == /\ Canonical /\ phase = "send" /\ sndSeq = NRec /\ phase' = "adv"
            /\ UNCHANGED <<sndSeq, wire, rcvSeq, delivered, err, budget, hist>>
AdvDone == /\ Canonical /\ phase = "adv" /\ phase' = "recv"
           /\ UNCHANGED <<sndSeq, wire, rcvSeq, delivered, err, budget, hist>>

Recv == /\ wire # <<>> /\ ~err /\ (Canonical => phase = "recv")
        /\ LET r == Head(wire) IN
           IF r.good /\ r.seq = rcvSeq
             THEN delivered' = Append(delivered, r.id) /\ rcvSeq' = rcvSeq + 1 /\ UNCHANGED err
             ELSE err' = TRUE /\ UNCHANGED <<delivered, rcvSeq>>
        /\ wire' = Tail(wire)
        /\ UNCHANGED <<sndSeq, budget, hist, phase>>

Replace(s, i, x) == [s EXCEPT ![i] = x]
InsertAt(s, i, x) == SubSeq(s, 1, i - 1) \o <<x>> \o SubSeq(s, i, Len(s))     \* x becomes element i
RemoveAt(s, i) == SubSeq(s, 1, i - 1) \o SubSeq(s, i + 1, Len(s))

Adv(op) == /\ budget > 0 /\ (Canonical => phase = "adv")
           /\ budget' = budget - 1 /\ hist' = Append(hist, op)
           /\ UNCHANGED <<sndSeq, rcvSeq, delivered, err, phase>>
\* (only a record that is still intact: a second change could restore the original bytes)
Flip(i, how) == /\ i \in 1..Len(wire) /\ wire[i].id # 0 /\ wire[i].good
                /\ wire' = Replace(wire, i, [wire[i] EXCEPT !.good = FALSE])
                /\ Adv([op |-> "flip", i |-> i, how |-> how])
Drop(i) == i \in 1..Len(wire) /\ wire' = RemoveAt(wire, i) /\ Adv([op |-> "drop", i |-> i])
Dup(i)  == i \in 1..Len(wire) /\ wire' = InsertAt(wire, i + 1, wire[i]) /\ Adv([op |-> "dup", i |-> i])
Swap(i) == /\ i \in 1..(Len(wire) - 1)
           /\ wire' = [wire EXCEPT ![i] = wire[i + 1], ![i + 1] = wire[i]]
           /\ Adv([op |-> "swap", i |-> i])
\* an alien record carries whatever sequence number helps the adversary most: the expected one
Inject(i, kind) == /\ i \in 1..(Len(wire) + 1)
                   /\ wire' = InsertAt(wire, i, Rec(0, i - 1, FALSE))
                   /\ Adv([op |-> "inject", i |-> i, kind |-> kind])

Next == \/ Send \/ SendDone \/ AdvDone \/ Recv
        \/ \E i \in 1..(NRec + Budget) :
             \/ \E h \in Hows : Flip(i, h)
             \/ Drop(i) \/ Dup(i) \/ Swap(i)
             \/ \E k \in Aliens : Inject(i, k)
Spec == Init /\ [][Next]_vars

(* ---- the property ---- *)
Ids(n) == [i \in 1..n |-> i]
Prefix    == delivered = Ids(Len(delivered)) /\ Len(delivered) <= sndSeq     \* delivered is a prefix of sent
SeqByOne  == rcvSeq = Len(delivered)
Sticky    == [][err => delivered' = delivered /\ err']_vars
TypeOK    == sndSeq \in 0..NRec /\ budget \in 0..Budget /\ err \in BOOLEAN

View == <<sndSeq, wire, rcvSeq, delivered, err, budget, phase>>
\* canonical behaviours, printed when the receiver has consumed everything it will consume
Terminal == Canonical /\ phase = "recv" /\ (wire = <<>> \/ err)
Emit == Terminal => PrintT(<<"BEH", ToJson([ops |-> hist, delivered |-> Len(delivered), err |-> err])>>)
=============================================================================
