-------------------------------- MODULE HSFrame --------------------------------
(***************************************************************************)
(* C18, TLS part.  The wire framing of handshake messages (RFC 5246 7.4 /  *)
(* GM/T 0024 6.4): a one-byte type, a 24-bit length and a body; the hello  *)
(* messages end in a 16-bit-length block of extensions, each a 16-bit      *)
(* type, a 16-bit length and data.  For every message kind and every       *)
(* extension type the gmtls parsers know, and every data length up to      *)
(* MaxLen, the specification yields the prefix P such that P \o data is a  *)
(* correctly framed message whose innermost body is data.  The harness     *)
(* appends every short string TLC enumerated (TLV.tla, EmitStr) to every   *)
(* prefix of the matching length: the parsers of the innermost structures  *)
(* (ALPN lists, SNI lists, OCSP responses, certificate lists, ...) then    *)
(* see every short byte string in a frame the outer layers accept.         *)
(***************************************************************************)
EXTENDS Integers, Sequences, TLC, Json
CONSTANTS MaxLen

U8(n) == <<n % 256>>
U16(n) == <<(n \div 256) % 256, n % 256>>
U24(n) == <<(n \div 65536) % 256, (n \div 256) % 256, n % 256>>
Zeros(n) == [i \in 1..n |-> 0]
Frame(type, bodyPrefix, n) == <<type>> \o U24(Len(bodyPrefix) + n) \o bodyPrefix      \* n more bytes follow

\* bodies of the bare message kinds: type |-> fixed part in front of the free data
Bare == [hello_request |-> 0, new_session_ticket |-> 4, certificate |-> 11, server_key_exchange |-> 12,
         certificate_request |-> 13, server_hello_done |-> 14, certificate_verify |-> 15, client_key_exchange |-> 16,
         finished |-> 20, certificate_status |-> 22, next_protocol |-> 67]
\* extension types handled in handshake_messages.go
ExtTypes == {0, 5, 10, 11, 13, 16, 18, 35, 13172, 65281, 23, 9999}

HelloFixed(server) == <<3, 3>> \o Zeros(32) \o <<0>> \o
                      (IF server THEN <<224, 19, 0>> ELSE <<0, 2, 224, 19, 1, 0>>)    \* suite e013, null compression
\* a hello whose only extension is (t, data of n bytes)
HelloPrefix(server, t, n) == Frame(IF server THEN 2 ELSE 1, HelloFixed(server) \o U16(4 + n) \o U16(t) \o U16(n), n)
\* a hello with two extensions: a well-formed server_name / ALPN first, then (t, data)
HelloPrefix2(server, t, n) ==
  LET first == U16(16) \o U16(5) \o <<0, 3, 2, 104, 50>> IN      \* ALPN ["h2"]
  Frame(IF server THEN 2 ELSE 1, HelloFixed(server) \o U16(Len(first) + 4 + n) \o first \o U16(t) \o U16(n), n)
\* hello bodies that stop inside the fixed part: data replaces everything after the random
HelloTail(server, n) == Frame(IF server THEN 2 ELSE 1, <<3, 3>> \o Zeros(32), n)
\* certificate list with one entry of n bytes; certificate_request with a CA list entry of n bytes
CertOne(n) == Frame(11, U24(3 + n) \o U24(n), n)
CReqCA(n) == Frame(13, <<1, 1>> \o U16(2 + n) \o U16(n), n)
CReqCA12(n) == Frame(13, <<1, 1>> \o <<0, 2, 4, 1>> \o U16(2 + n) \o U16(n), n)
TicketBody(n) == Frame(4, <<0, 0, 0, 0>> \o U16(n), n)
StatusBody(n) == Frame(22, <<1>> \o U24(n), n)

Templates(n) ==
  {[kind |-> k, n |-> n, prefix |-> Frame(Bare[k], <<>>, n)] : k \in DOMAIN Bare} \cup
  {[kind |-> "client_hello ext " \o ToString(t), n |-> n, prefix |-> HelloPrefix(FALSE, t, n)] : t \in ExtTypes} \cup
  {[kind |-> "server_hello ext " \o ToString(t), n |-> n, prefix |-> HelloPrefix(TRUE, t, n)] : t \in ExtTypes} \cup
  {[kind |-> "client_hello ext alpn+" \o ToString(t), n |-> n, prefix |-> HelloPrefix2(FALSE, t, n)] : t \in ExtTypes} \cup
  {[kind |-> "server_hello ext alpn+" \o ToString(t), n |-> n, prefix |-> HelloPrefix2(TRUE, t, n)] : t \in ExtTypes} \cup
  {[kind |-> "client_hello tail", n |-> n, prefix |-> HelloTail(FALSE, n)], [kind |-> "server_hello tail", n |-> n, prefix |-> HelloTail(TRUE, n)],
   [kind |-> "certificate entry", n |-> n, prefix |-> CertOne(n)], [kind |-> "certificate_request ca", n |-> n, prefix |-> CReqCA(n)],
   [kind |-> "certificate_request(1.2) ca", n |-> n, prefix |-> CReqCA12(n)], [kind |-> "new_session_ticket body", n |-> n, prefix |-> TicketBody(n)],
   [kind |-> "certificate_status body", n |-> n, prefix |-> StatusBody(n)]}

\* the framing is consistent: the 24-bit length is the number of bytes that follow the header once data is appended
WellFramed(tp) == LET p == tp.prefix IN Len(p) >= 4 /\ p[2] * 65536 + p[3] * 256 + p[4] = Len(p) - 4 + tp.n
ASSUME \A n \in 0..MaxLen : \A tp \in Templates(n) : WellFramed(tp)

VARIABLES n, done
Init == n \in 0..MaxLen /\ done = FALSE
Next == ~done /\ done' = TRUE /\ n' = n /\ \A tp \in Templates(n) : PrintT(<<"TEMPLATE", ToJson(tp)>>)
Spec == Init /\ [][Next]_<<n, done>>
=============================================================================
