------------------------------- MODULE ECurve -------------------------------
(***************************************************************************)
(* Short-Weierstrass curves y^2 = x^3 + ax + b over GF(p) in affine        *)
(* coordinates, as mathematics defines them (explicit case analysis), over *)
(* BigNat.  A curve is a record [p, a, b, n, gx, gy] of hex strings; a     *)
(* point is [inf |-> TRUE] or [inf |-> FALSE, x, y].                       *)
(***************************************************************************)
EXTENDS BigNat, SequencesExt

SM2Curve == [p  |-> "fffffffeffffffffffffffffffffffffffffffff00000000ffffffffffffffff",
             a  |-> "fffffffeffffffffffffffffffffffffffffffff00000000fffffffffffffffc",
             b  |-> "28e9fa9e9d9f5e344d5a9e4bcf6509a7f39789f515ab8f92ddbcbd414d940e93",
             n  |-> "fffffffeffffffffffffffffffffffff7203df6b21c6052b53bbf40939d54123",
             gx |-> "32c4ae2c1f1981195f9904466a39c9948fe30bbff2660be1715a4589334c74c7",
             gy |-> "bc3736a2f4f6779c59bdcee36b692153d0a9877cc62a474002df32e52139f0a0"]

Inf == [inf |-> TRUE, x |-> "0", y |-> "0"]
Pt(x, y) == [inf |-> FALSE, x |-> x, y |-> y]
G(c) == Pt(c.gx, c.gy)

\* membership among coordinate pairs in [0,p): y^2 = x^3 + ax + b
OnCurve(c, x, y) ==
  /\ BLt(x, c.p) /\ BLt(y, c.p)
  /\ BMulMod(y, y, c.p) = BAddMod(BAddMod(BMulMod(BMulMod(x, x, c.p), x, c.p), BMulMod(c.a, x, c.p), c.p), c.b, c.p)

PNeg(c, P) == IF P.inf \/ P.y = "0" THEN P ELSE Pt(P.x, BSub(c.p, P.y))

PDouble(c, P) ==
  IF P.inf \/ P.y = "0" THEN Inf
  ELSE LET num == BAddMod(BMulMod("3", BMulMod(P.x, P.x, c.p), c.p), c.a, c.p)
           lam == BMulMod(num, BInvMod(BMulMod("2", P.y, c.p), c.p), c.p)
           x3 == BSubMod(BSubMod(BMulMod(lam, lam, c.p), P.x, c.p), P.x, c.p)
           y3 == BSubMod(BMulMod(lam, BSubMod(P.x, x3, c.p), c.p), P.y, c.p)
       IN Pt(x3, y3)

PAdd(c, P, Q) ==
  IF P.inf THEN Q
  ELSE IF Q.inf THEN P
  ELSE IF P.x = Q.x THEN (IF P.y = Q.y THEN PDouble(c, P) ELSE Inf)       \* equal, or opposite
  ELSE LET lam == BMulMod(BSubMod(Q.y, P.y, c.p), BInvMod(BSubMod(Q.x, P.x, c.p), c.p), c.p)
           x3 == BSubMod(BSubMod(BMulMod(lam, lam, c.p), P.x, c.p), Q.x, c.p)
           y3 == BSubMod(BMulMod(lam, BSubMod(P.x, x3, c.p), c.p), P.y, c.p)
       IN Pt(x3, y3)

\* [k]P by left-to-right double-and-add over the bits of k (k a BigNat, any size)
PMul(c, k, P) ==
  LET nb == BBitLen(k) IN
  IF nb = 0 THEN Inf
  ELSE FoldLeft(LAMBDA acc, i : LET d == PDouble(c, acc) IN IF BBit(k, nb - i) THEN PAdd(c, d, P) ELSE d,
                Inf, [i \in 1..nb |-> i])
\* scalar given as big-endian bytes, any length (leading zeros allowed), reduced mod n as the group demands
PMulBytes(c, bytes, P) == PMul(c, BMod(BFromBytes(bytes), c.n), P)

\* the affine pair an elliptic.Curve method returns: (0,0) for the point at infinity
Affine(P) == IF P.inf THEN <<"0", "0">> ELSE <<P.x, P.y>>
=============================================================================
