---------------------------- MODULE HalfConnTrace ----------------------------
(***************************************************************************)
(* C07 (V).  Every record operation of every half connection observed in   *)
(* the real code (hooks in halfConn.encrypt / decrypt / changeCipherSpec / *)
(* setErrorLocked, emitted under the half connection's lock) is checked    *)
(* against the record-layer state machine:                                 *)
(*   - the implicit sequence number advances by exactly one per record and *)
(*     restarts at zero only at ChangeCipherSpec;                          *)
(*   - an AEAD explicit nonce (8 bytes) is the sequence number; a CBC      *)
(*     explicit IV (16 bytes) never repeats within an epoch and is not the *)
(*     previous record's last ciphertext block;                            *)
(*   - a rejected record is followed by the sticky error, and no record is *)
(*     accepted by that half connection afterwards.                        *)
(***************************************************************************)
EXTENDS Integers, Sequences, FiniteSets, TLC, Json
CONSTANT TraceFile
Trace == ndJsonDeserialize(TraceFile)
ASSUME TLCSet(1, 0)

VARIABLES l, hc     \* hc: function from half-connection id to its state
T == Trace[l]
IsEvent(e) == l <= Len(Trace) /\ Trace[l].ev = e /\ l' = l + 1
\* sequence numbers are 8-byte big-endian strings (TLC's integers are 32-bit; the counter is watched across 2^32 as well)
Zero8 == <<0, 0, 0, 0, 0, 0, 0, 0>>
RECURSIVE IncAt(_, _)
IncAt(b, i) == IF i = 0 THEN <<256, 256, 256, 256, 256, 256, 256, 256>>   \* all sequence numbers are used up: no record may follow
               ELSE IF b[i] = 255 THEN IncAt([b EXCEPT ![i] = 0], i - 1) ELSE [b EXCEPT ![i] = b[i] + 1]
Inc8(b) == IncAt(b, 8)
RECURSIVE LeqFrom(_, _, _)
LeqFrom(a, b, i) == IF i > 8 THEN TRUE ELSE IF a[i] < b[i] THEN TRUE ELSE IF a[i] > b[i] THEN FALSE ELSE LeqFrom(a, b, i + 1)
Leq8(a, b) == LeqFrom(a, b, 1)
Fresh == [seq |-> Zero8, epoch |-> 0, err |-> FALSE, pend |-> FALSE, ivs |-> {}]
St(i) == IF i \in DOMAIN hc THEN hc[i] ELSE Fresh
Put(i, s) == hc' = [j \in (DOMAIN hc) \cup {i} |-> IF j = i THEN s ELSE hc[j]]


\* next run: all half connections are new; nothing of the previous run may be left pending
\* (a rejected record whose sticky error was never set)
TReset == IsEvent("reset") /\ (\A i \in DOMAIN hc : ~hc[i].pend) /\ hc' = <<>>
TEnd == IsEvent("end") /\ (\A i \in DOMAIN hc : ~hc[i].pend) /\ UNCHANGED hc
TEnc == /\ IsEvent("enc")
        /\ LET s == St(T.hc) IN
           /\ T.seq = s.seq /\ ~s.pend
           /\ (Len(T.iv) = 8 => T.iv = s.seq)
           /\ (Len(T.iv) = 16 => T.iv \notin s.ivs)
           /\ Put(T.hc, [s EXCEPT !.seq = Inc8(s.seq), !.ivs = IF Len(T.iv) = 16 THEN s.ivs \cup {T.iv} ELSE s.ivs])
TDec == /\ IsEvent("dec")
        /\ LET s == St(T.hc) IN
           /\ T.seq = s.seq /\ ~s.err /\ ~s.pend
           /\ Put(T.hc, IF T.ok THEN [s EXCEPT !.seq = Inc8(s.seq)] ELSE [s EXCEPT !.pend = TRUE])
TCCS == /\ IsEvent("ccs")
        /\ LET s == St(T.hc) IN ~s.pend /\ Put(T.hc, [s EXCEPT !.seq = Zero8, !.epoch = s.epoch + 1, !.ivs = {}])
\* (harness) the counter of a half connection is moved forward, to watch the record layer where it carries into the upper bytes
TSetSeq == /\ IsEvent("setseq")
           /\ LET s == St(T.hc) IN ~s.pend /\ Leq8(s.seq, T.seq) /\ Put(T.hc, [s EXCEPT !.seq = T.seq])
TErr == /\ IsEvent("seterr")
        /\ LET s == St(T.hc) IN Put(T.hc, [s EXCEPT !.err = TRUE, !.pend = FALSE])

TraceInit == l = 1 /\ hc = <<>>
TraceNext == TReset \/ TEnd \/ TEnc \/ TDec \/ TCCS \/ TErr \/ TSetSeq
TraceSpec == TraceInit /\ [][TraceNext]_<<l, hc>>
HighWater == TLCSet(1, IF l > TLCGet(1) THEN l ELSE TLCGet(1))
Accepted == PrintT(<<"HWM", TLCGet(1), Len(Trace)>>) /\ TLCGet(1) = Len(Trace) + 1
=============================================================================
