---------------------------- MODULE HalfConnTrace ----------------------------
(***************************************************************************)
(* C07 (V).  Every record operation of every half connection observed in   *)
(* the real code (hooks in halfConn.encrypt / decrypt / changeCipherSpec / *)
(* setErrorLocked, emitted under the half connection's lock) is checked    *)
(* against the record-layer state machine:                                 *)
(*   - the implicit sequence number advances by exactly one per record and *)
(*     restarts at zero only at ChangeCipherSpec;                          *)
(*   - an AEAD explicit nonce (8 bytes) is the sequence number; a CBC      *)
(*     explicit IV (16 bytes) never repeats within an epoch and is not the *)
(*     previous record's last ciphertext block;                            *)
(*   - a rejected record is followed by the sticky error, and no record is *)
(*     accepted by that half connection afterwards.                        *)
(***************************************************************************)
EXTENDS Integers, Sequences, FiniteSets, TLC, Json
CONSTANT TraceFile
Trace == ndJsonDeserialize(TraceFile)
ASSUME TLCSet(1, 0)

VARIABLES l, hc     \* hc: function from half-connection id to its state
T == Trace[l]
IsEvent(e) == l <= Len(Trace) /\ Trace[l].ev = e /\ l' = l + 1
Fresh == [seq |-> 0, epoch |-> 0, err |-> FALSE, pend |-> FALSE, ivs |-> {}]
St(i) == IF i \in DOMAIN hc THEN hc[i] ELSE Fresh
Put(i, s) == hc' = [j \in (DOMAIN hc) \cup {i} |-> IF j = i THEN s ELSE hc[j]]

\* big-endian 8-byte encoding of a small sequence number
Seq8(n) == <<0, 0, 0, 0, (n \div 16777216) % 256, (n \div 65536) % 256, (n \div 256) % 256, n % 256>>

\* next run: all half connections are new; nothing of the previous run may be left pending
\* (a rejected record whose sticky error was never set)
TReset == IsEvent("reset") /\ (\A i \in DOMAIN hc : ~hc[i].pend) /\ hc' = <<>>
TEnd == IsEvent("end") /\ (\A i \in DOMAIN hc : ~hc[i].pend) /\ UNCHANGED hc
TEnc == /\ IsEvent("enc")
        /\ LET s == St(T.hc) IN
           /\ T.seq = s.seq /\ ~s.pend
           /\ (Len(T.iv) = 8 => T.iv = Seq8(s.seq))
           /\ (Len(T.iv) = 16 => T.iv \notin s.ivs)
           /\ Put(T.hc, [s EXCEPT !.seq = s.seq + 1, !.ivs = IF Len(T.iv) = 16 THEN s.ivs \cup {T.iv} ELSE s.ivs])
TDec == /\ IsEvent("dec")
        /\ LET s == St(T.hc) IN
           /\ T.seq = s.seq /\ ~s.err /\ ~s.pend
           /\ Put(T.hc, IF T.ok THEN [s EXCEPT !.seq = s.seq + 1] ELSE [s EXCEPT !.pend = TRUE])
TCCS == /\ IsEvent("ccs")
        /\ LET s == St(T.hc) IN ~s.pend /\ Put(T.hc, [s EXCEPT !.seq = 0, !.epoch = s.epoch + 1, !.ivs = {}])
TErr == /\ IsEvent("seterr")
        /\ LET s == St(T.hc) IN Put(T.hc, [s EXCEPT !.err = TRUE, !.pend = FALSE])

TraceInit == l = 1 /\ hc = <<>>
TraceNext == TReset \/ TEnd \/ TEnc \/ TDec \/ TCCS \/ TErr
TraceSpec == TraceInit /\ [][TraceNext]_<<l, hc>>
HighWater == TLCSet(1, IF l > TLCGet(1) THEN l ELSE TLCGet(1))
Accepted == PrintT(<<"HWM", TLCGet(1), Len(Trace)>>) /\ TLCGet(1) = Len(Trace) + 1
=============================================================================
