SPECIFICATION Spec
CONSTANTS
  P = 23
  A = 1
  B = 4
  N = 29
  GX = 0
  GY = 2
INVARIANTS Complete Sound NonceR EveryBranch
