------------------------------ MODULE SM4Tab ------------------------------
(***************************************************************************)
(* C05.  Table spec: one state per case.                                   *)
(*  - "sbox"/"ttab"/"fk"/"ck": an entry of a table dumped from the code    *)
(*    (verif accessor) is compared with the formula of the standard;       *)
(*  - "vec": TLC computes Enc/Dec for a (key, block) pair, printed as the  *)
(*    expected value for the replay harness;                               *)
(*  - "keylen": NewCipher must fail exactly when the key is not 16 bytes,  *)
(*    whatever the bytes are (zeros, 0xff, ASCII hex digits, text);        *)
(*  - "findhw": does the input of the S-box layer in some round of the key *)
(*    schedule / of the encryption have a 16-bit half equal to 0000 or     *)
(*    ffff (an implementation may look the S-box up two bytes at a time).  *)
(***************************************************************************)
EXTENDS SM4, TLC, Json
CONSTANTS TablesFile, BitStep, FillStep, NLcg,
          FindLcg,      \* > 0: search mode - report which (key, block) pairs lcg 0..FindLcg-1 put a half-word 0000 / ffff into a round
          ExtraLcg      \* further lcg pairs to tabulate (those the search found)
Dump == JsonDeserialize(TablesFile)   \* [sbox: seq, t: seq of 4 seqs of <<hi,lo>>, fk: seq, ck: seq]

VARIABLES c, done

\* materialise a 16-byte value from a descriptor <<family, parameter>>
Val(d) == CASE d[1] = "std"  -> <<1, 35, 69, 103, 137, 171, 205, 239, 254, 220, 186, 152, 118, 84, 50, 16>>
            [] d[1] = "bit"  -> [j \in 1..16 |-> IF (d[2] \div 8) + 1 = j THEN Pow2(7 - (d[2] % 8)) ELSE 0]
            [] d[1] = "fill" -> [j \in 1..16 |-> d[2]]
            [] d[1] = "lcg"  -> [j \in 1..16 |-> (d[2] * 37 + j * 101 + j * j * (d[2] + 3) + (d[2] \div 256) * (j * 29 + 11)) % 256]

VecCases ==
  {[kind |-> "vec", k |-> <<"std", 0>>, b |-> <<"std", 0>>]} \cup
  {[kind |-> "vec", k |-> <<"bit", i>>, b |-> <<"fill", 0>>] : i \in {x \in 0..127 : x % BitStep = 0}} \cup
  {[kind |-> "vec", k |-> <<"fill", 0>>, b |-> <<"bit", i>>] : i \in {x \in 0..127 : x % BitStep = 0}} \cup
  {[kind |-> "vec", k |-> <<"fill", 255 - v>>, b |-> <<"fill", v>>] : v \in {x \in 0..255 : x % FillStep = 0}} \cup
  {[kind |-> "vec", k |-> <<"lcg", 1000 + s>>, b |-> <<"lcg", s>>] : s \in 0..(NLcg - 1)} \cup
  {[kind |-> "vec", k |-> <<"lcg", 100 + k>>, b |-> <<"lcg", b>>] : k \in 1..2, b \in 1..3}   \* CipherObj's keys/blocks
TabCases == {[kind |-> "sbox", x |-> x] : x \in 0..255} \cup
            {[kind |-> "ttab", j |-> j, x |-> x] : j \in 0..3, x \in 0..255} \cup
            {[kind |-> "fk", i |-> i] : i \in 0..3} \cup {[kind |-> "ck", i |-> i] : i \in 0..31}
LenCases == {[kind |-> "keylen", n |-> n, fill |-> f] : n \in 0..64, f \in {"zero", "ff", "hexdigits", "text"}}
ExtraCases == {[kind |-> "vec", k |-> <<"lcg", 1000 + s>>, b |-> <<"lcg", s>>] : s \in ExtraLcg}
FindCases == {[kind |-> "findhw", s |-> s] : s \in 0..(FindLcg - 1)}
Cases == IF FindLcg > 0 THEN FindCases ELSE VecCases \cup ExtraCases \cup TabCases \cup LenCases

\* inputs of the S-box layer, round by round
Edge(w) == w[1] \in {0, 65535} \/ w[2] \in {0, 65535}
EdgeF(w) == w[1] = 65535 \/ w[2] = 65535
KeyTauInputs(key) == LET mk == BytesToWords(key)
                         k == <<WXor(mk[1], FK[1]), WXor(mk[2], FK[2]), WXor(mk[3], FK[3]), WXor(mk[4], FK[4])>> \o RoundKeys(key)
                     IN [i \in 1..32 |-> WXor(WXor(WXor(k[i + 1], k[i + 2]), k[i + 3]), CKw(i - 1))]
EncTauInputs(key, blk) == LET rk == RoundKeys(key)
                              xs == FoldLeft(LAMBDA x, i : Append(x, WXor(x[i], TT(WXor(WXor(WXor(x[i + 1], x[i + 2]), x[i + 3]), rk[i])))),
                                             BytesToWords(blk), Range1(32))
                          IN [i \in 1..32 |-> WXor(WXor(WXor(xs[i + 1], xs[i + 2]), xs[i + 3]), rk[i])]

Formula(x) == CASE x.kind = "sbox" -> SBox(x.x)
                [] x.kind = "ttab" -> TTab(x.j, x.x)
                [] x.kind = "fk"   -> FK[x.i + 1]
                [] x.kind = "ck"   -> CKw(x.i)
InCode(x) == CASE x.kind = "sbox" -> Dump.sbox[x.x + 1]
               [] x.kind = "ttab" -> Dump.t[x.j + 1][x.x + 1]
               [] x.kind = "fk"   -> Dump.fk[x.i + 1]
               [] x.kind = "ck"   -> Dump.ck[x.i + 1]

Init == c \in Cases /\ done = FALSE
Next == /\ ~done /\ done' = TRUE /\ c' = c
        /\ CASE c.kind = "vec" ->
                  PrintT(<<"CASE", ToJson([case |-> c, expect |-> [enc |-> Enc(Val(c.k), Val(c.b)),
                                                                   dec |-> Dec(Val(c.k), Val(c.b))]])>>)
             [] c.kind = "findhw" ->
                  LET key == Val(<<"lcg", 1000 + c.s>>) blk == Val(<<"lcg", c.s>>)
                      ki == KeyTauInputs(key) ei == EncTauInputs(key, blk)
                  IN PrintT(<<"HW", ToJson([s |-> c.s, khit |-> \E i \in 1..32 : Edge(ki[i]), ehit |-> \E i \in 1..32 : Edge(ei[i]),
                                                khitf |-> \E i \in 1..32 : EdgeF(ki[i]), ehitf |-> \E i \in 1..32 : EdgeF(ei[i])])>>)
             [] c.kind = "keylen" ->
                  PrintT(<<"CASE", ToJson([case |-> c, expect |-> [err |-> c.n # 16]])>>)
             [] OTHER ->
                  IF Formula(c) = InCode(c) THEN PrintT(<<"TABOK", ToJson(c)>>)
                  ELSE PrintT(<<"TABBAD", ToJson([case |-> c, formula |-> Formula(c), code |-> InCode(c)])>>)
Spec == Init /\ [][Next]_<<c, done>>
=============================================================================
