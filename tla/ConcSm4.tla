-------------------------------- MODULE ConcSm4 --------------------------------
(***************************************************************************)
(* C20, block cipher object shared by goroutines.  One call of Encrypt or  *)
(* Decrypt is four steps on scratch storage: Load the input block into the *)
(* scratch words, run the Rounds on them, serialise them into the scratch  *)
(* bytes (Final), copy those to the destination (Store).  The gates of the *)
(* real block function sit between these steps.  Shared = TRUE is the      *)
(* design in which the scratch belongs to the cipher object, Shared = FALSE*)
(* the one in which it belongs to the call.  The property: every call      *)
(* returns what it would return alone.  TLC refutes it for Shared = TRUE   *)
(* (and prints the interleaving) and proves it for Shared = FALSE, where   *)
(* every terminal state carries its schedule; each schedule is replayed    *)
(* through the gates on one real cipher object.                            *)
(***************************************************************************)
EXTENDS Integers, Sequences, FiniteSets, TLC, Json
CONSTANTS Procs, Shared

VARIABLES pc, words, bytes, out, sched
vars == <<pc, words, bytes, out, sched>>
\* scratch owner: the object ("obj") or the call
Slot(p) == IF Shared THEN "obj" ELSE p
Slots == IF Shared THEN {"obj"} ELSE Procs
Empty == [x |-> "none", n |-> 0]

Init == /\ pc = [p \in Procs |-> "load"]
        /\ words = [s \in Slots |-> Empty] /\ bytes = [s \in Slots |-> Empty]
        /\ out = [p \in Procs |-> Empty] /\ sched = <<>>

Step(p, from, to) == pc[p] = from /\ pc' = [pc EXCEPT ![p] = to] /\ sched' = Append(sched, <<p, from>>)
Load(p)   == Step(p, "load", "rounds") /\ words' = [words EXCEPT ![Slot(p)] = [x |-> p, n |-> 0]] /\ UNCHANGED <<bytes, out>>
Rounds(p) == Step(p, "rounds", "final") /\ words' = [words EXCEPT ![Slot(p)].n = @ + 1] /\ UNCHANGED <<bytes, out>>
Final(p)  == Step(p, "final", "store") /\ bytes' = [bytes EXCEPT ![Slot(p)] = words[Slot(p)]] /\ UNCHANGED <<words, out>>
Store(p)  == Step(p, "store", "done") /\ out' = [out EXCEPT ![p] = bytes[Slot(p)]] /\ UNCHANGED <<words, bytes>>
Next == \E p \in Procs : Load(p) \/ Rounds(p) \/ Final(p) \/ Store(p)
Spec == Init /\ [][Next]_vars

\* every finished call produced the one-round-group image of ITS OWN input
AsIfAlone == \A p \in Procs : pc[p] = "done" => out[p] = [x |-> p, n |-> 1]
AllDone == \A p \in Procs : pc[p] = "done"
Emit == AllDone => PrintT(<<"SCHED", ToJson([sched |-> sched])>>)
=============================================================================
