------------------------------ MODULE TLCPResume ------------------------------
(***************************************************************************)
(* C16.  Session resumption with tickets over a HISTORY of connections     *)
(* between one client (LRU session cache of capacity Cap, two server       *)
(* names) and a server whose ticket keys, suite list, client-auth policy   *)
(* and ticket switch change between connections.  A ticket is sealed under *)
(* the first configured key and names that key; the server resumes iff the *)
(* gate of the statement holds, and otherwise silently performs a full     *)
(* handshake - never an error.                                             *)
(***************************************************************************)
EXTENDS Integers, Sequences, FiniteSets, TLC, Json
CONSTANTS Cap,          \* client cache capacity
          MaxOps,       \* history length
          Suites,       \* e.g. {"CBC", "GCM"}
          Names,        \* server names the client connects to (cache keys)
          Versions,     \* versions the client may switch between ({} : single-version protocol)
          ShapeName     \* "free", or the name of a history shape (ShapeOf)

VARIABLES keys,      \* server: sequence of ticket key ids, first seals
          nextKey,   \* fresh key ids
          ssuites,   \* server: explicitly configured suites (set)
          csuites,   \* client: offered suites (set)
          cauth,     \* server: "none" | "request" | "requireany" | "verifyifgiven" | "require" (= require and verify)
          disabled,  \* server: SessionTicketsDisabled
          ccert,     \* client presents a certificate when asked
          cuntrusted, \* ... and that certificate is issued by a CA the server does not trust
          cvers,     \* highest version the client offers (the server supports all): the negotiated version
          cache,     \* client: sequence of [name, ticket] most recent LAST; ticket = [key, suite, hascert, sid, bad]
          nextSid,   \* fresh session identities (= distinct master secrets)
          hist
vars == <<keys, nextKey, ssuites, csuites, cauth, disabled, ccert, cuntrusted, cvers, cache, nextSid, hist>>

Init == /\ keys = <<1>> /\ nextKey = 2 /\ ssuites = Suites /\ csuites = Suites /\ cauth = "none"
        /\ disabled = FALSE /\ ccert = FALSE /\ cuntrusted = FALSE /\ cvers \in (Versions \cup {12}) /\ cache = <<>> /\ nextSid = 1 /\ hist = <<>>

InSeq(s, x) == \E i \in 1..Len(s) : s[i] = x
Lookup(n) == LET idx == {i \in 1..Len(cache) : cache[i].name = n} IN
             IF idx = {} THEN [found |-> FALSE] ELSE [found |-> TRUE, t |-> cache[CHOOSE i \in idx : TRUE].ticket]
Without(n) == SelectSeq(cache, LAMBDA e : e.name # n)
Put(n, t) == LET c2 == Append(Without(n), [name |-> n, ticket |-> t]) IN
             IF Len(c2) > Cap THEN Tail(c2) ELSE c2            \* LRU: least recently used is evicted

\* the suite a full handshake negotiates (client preference order = a fixed order over Suites)
Pref == <<"CBC", "GCM">>
\* (the AEAD suite needs the newest version)
Common == SelectSeq(Pref, LAMBDA x : x \in csuites /\ x \in ssuites /\ (x # "GCM" \/ cvers = 12))

Verifying == {"verifyifgiven", "require"}     \* policies under which a presented certificate must chain to the client CAs
NeedCert == {"requireany", "require"}        \* policies under which a session without a client certificate is forbidden
\* the resumption gate of the statement
Gate(t) == /\ ~disabled /\ ~t.bad
           /\ InSeq(keys, t.key)
           /\ t.vers = cvers                          \* never across protocol versions
           /\ t.suite \in csuites /\ t.suite \in ssuites
           /\ ~(cauth \in NeedCert /\ ~t.hascert)
           /\ ~(cauth = "none" /\ t.hascert)
           /\ ~(cauth \in Verifying /\ t.hascert /\ t.untrusted)     \* a certificate the current policy would not accept

\* one connection to server name n
Connect(n) ==
  /\ Common # <<>>                                   \* (no common suite is C06's subject)
  /\ LET l == Lookup(n)
         offered == l.found
         resume == offered /\ Gate(l.t)
         hc == ccert /\ cauth # "none"                 \* a full handshake would carry the client's certificate
         \* would a full handshake satisfy the server's client-certificate policy?
         fullOK == (cauth \in NeedCert => ccert) /\ ~(cauth \in Verifying /\ hc /\ cuntrusted)
     IN IF resume
          THEN \* abbreviated handshake: same session; a ticket sealed under an old key is refreshed
               /\ cache' = Put(n, [l.t EXCEPT !.key = keys[1]])
               /\ UNCHANGED nextSid
               /\ hist' = Append(hist, [op |-> "connect", name |-> n, vers |-> cvers, offered |-> TRUE, expect |-> "resume", sid |-> l.t.sid,
                                        suite |-> l.t.suite, hascert |-> l.t.hascert])
          ELSE IF fullOK
          THEN \* full handshake; a new ticket iff tickets are enabled
               LET t == [key |-> keys[1], suite |-> Common[1], hascert |-> hc, untrusted |-> hc /\ cuntrusted, sid |-> nextSid, bad |-> FALSE, vers |-> cvers] IN
               /\ cache' = IF disabled THEN cache ELSE Put(n, t)
               /\ nextSid' = nextSid + 1
               /\ hist' = Append(hist, [op |-> "connect", name |-> n, vers |-> cvers, offered |-> offered, expect |-> "full", sid |-> nextSid,
                                        suite |-> Common[1], hascert |-> hc])
          ELSE \* the full handshake the server falls back to fails on the client-certificate policy: nobody completes
               /\ UNCHANGED <<cache, nextSid>>
               /\ hist' = Append(hist, [op |-> "connect", name |-> n, vers |-> cvers, offered |-> offered, expect |-> "fail", sid |-> 0,
                                        suite |-> Common[1], hascert |-> hc])
  /\ UNCHANGED <<keys, nextKey, ssuites, csuites, cauth, disabled, ccert, cuntrusted, cvers>>

\* SetSessionTicketKeys: a new first key, keeping the previous first key (keep) or none of the old ones
Rotate(keep) == /\ keys' = IF keep THEN <<nextKey, keys[1]>> ELSE <<nextKey>>
                /\ nextKey' = nextKey + 1
                /\ hist' = Append(hist, [op |-> "rotate", keep |-> keep])
                /\ UNCHANGED <<ssuites, csuites, cauth, disabled, ccert, cuntrusted, cvers, cache, nextSid>>
SetSSuites(x) == /\ x # ssuites /\ ssuites' = x /\ hist' = Append(hist, [op |-> "ssuites", s |-> x])
                 /\ UNCHANGED <<keys, nextKey, csuites, cauth, disabled, ccert, cuntrusted, cvers, cache, nextSid>>
SetCSuites(x) == /\ x # csuites /\ csuites' = x /\ hist' = Append(hist, [op |-> "csuites", s |-> x])
                 /\ UNCHANGED <<keys, nextKey, ssuites, cauth, disabled, ccert, cuntrusted, cvers, cache, nextSid>>
SetAuth(a, cc, un) == /\ (a # cauth \/ cc # ccert \/ un # cuntrusted) /\ (un => cc) /\ cauth' = a /\ ccert' = cc /\ cuntrusted' = un
                  /\ hist' = Append(hist, [op |-> "auth", a |-> a, ccert |-> cc, untrusted |-> un])
                  /\ UNCHANGED <<keys, nextKey, ssuites, csuites, disabled, cvers, cache, nextSid>>
SetDisabled(b) == /\ b # disabled /\ disabled' = b /\ hist' = Append(hist, [op |-> "disabled", b |-> b])
                  /\ UNCHANGED <<keys, nextKey, ssuites, csuites, cauth, ccert, cuntrusted, cvers, cache, nextSid>>
\* the cached ticket for n is changed in one byte of region r, or truncated
Tamper(n, r) == /\ Lookup(n).found /\ ~Lookup(n).t.bad
                /\ cache' = [i \in 1..Len(cache) |-> IF cache[i].name = n THEN [cache[i] EXCEPT !.ticket.bad = TRUE] ELSE cache[i]]
                /\ hist' = Append(hist, [op |-> "tamper", name |-> n, region |-> r])
                /\ UNCHANGED <<keys, nextKey, ssuites, csuites, cauth, disabled, ccert, cuntrusted, cvers, nextSid>>

\* the client raises / lowers the highest version it offers (TLS 1.1 = 11, TLS 1.2 = 12); GMSSL has a single version
SetVers(v) == /\ Versions # {} /\ v # cvers /\ cvers' = v /\ hist' = Append(hist, [op |-> "vers", v |-> v])
              /\ UNCHANGED <<keys, nextKey, ssuites, csuites, cauth, disabled, ccert, cuntrusted, cache, nextSid>>
NonEmpty == {x \in SUBSET Suites : x # {}}
\* an optional shape restricts which operation may come at which position (used to enumerate families of histories
\* exhaustively, e.g. "set the client-certificate policy, connect, any change, connect, connect")
AnyOp == {"rotate", "ssuites", "csuites", "auth", "disabled", "vers", "tamper", "connect"}
ShapeOf == CASE ShapeName = "cert_x_cc" -> <<{"auth"}, {"connect"}, AnyOp, {"connect"}, {"connect"}>>
             \* connect, two arbitrary operations, connect / connect, one operation, connect
             [] ShapeName = "c_xx_c" -> <<{"connect"}, AnyOp, AnyOp, {"connect"}>>
             [] ShapeName = "c_x_c" -> <<{"connect"}, AnyOp, {"connect"}>>
             [] OTHER -> <<>>
Allowed(name) == IF Len(hist) >= Len(ShapeOf) THEN TRUE ELSE name \in ShapeOf[Len(hist) + 1]
Next == /\ Len(hist) < MaxOps
        /\ \/ Allowed("connect") /\ \E n \in Names : Connect(n)
           \/ Allowed("rotate") /\ \E k \in BOOLEAN : Rotate(k)
           \/ Allowed("ssuites") /\ \E x \in NonEmpty : SetSSuites(x)
           \/ Allowed("csuites") /\ \E x \in NonEmpty : SetCSuites(x)
           \/ Allowed("auth") /\ \E a \in {"none", "request", "requireany", "verifyifgiven", "require"}, cc \in BOOLEAN, un \in BOOLEAN : SetAuth(a, cc, un)
           \/ Allowed("disabled") /\ \E b \in BOOLEAN : SetDisabled(b)
           \/ Allowed("vers") /\ \E v \in Versions : SetVers(v)
           \/ Allowed("tamper") /\ \E n \in Names, r \in {"keyname", "iv", "state", "mac", "truncate", "extend"} : Tamper(n, r)
Spec == Init /\ [][Next]_vars

\* ---- properties (history-level) ----
Conn(i) == hist[i].op = "connect"
\* a resumed connection continues an earlier full handshake's session: same identity, suite and client-certificate status
ResumeContinues == \A i \in 1..Len(hist) : (Conn(i) /\ hist[i].expect = "resume") =>
                     \E j \in 1..(i - 1) : Conn(j) /\ hist[j].expect = "full" /\ hist[j].sid = hist[i].sid
                                            /\ hist[j].suite = hist[i].suite /\ hist[j].hascert = hist[i].hascert
\* every cached ticket was sealed under a key that was first at the time, and names an existing session
CacheSane == \A i \in 1..Len(cache) : cache[i].ticket.sid < nextSid /\ cache[i].ticket.key < nextKey
CacheBound == Len(cache) <= Cap
View == <<keys, ssuites, csuites, cauth, disabled, ccert, cuntrusted, cvers, cache, Len(hist)>>
Emit == Len(hist) = MaxOps => PrintT(<<"BEH", ToJson(hist)>>)
=============================================================================
