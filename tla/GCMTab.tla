------------------------------- MODULE GCMTab -------------------------------
(* C12 table spec: one state per (key, iv, aad, plaintext) descriptor read from a file; *)
(* TLC computes ciphertext and tag with GCM.tla.                                        *)
EXTENDS GCM, TLC, Json
CONSTANTS CasesFile
CaseSeq == ndJsonDeserialize(CasesFile)
VARIABLES c, done
\* byte strings by descriptor: family f, length n
Bytes(f, n, salt) == CASE f = 0 -> [i \in 1..n |-> (i * 41 + salt * 59 + 5) % 256]
                       [] f = 1 -> [i \in 1..n |-> 255]
                       [] f = 2 -> [i \in 1..n |-> 0]
                       [] f = 3 -> [i \in 1..n |-> IF i > n - 4 THEN 255 ELSE (i * 7 + salt) % 256]  \* ends ff ff ff ff
                       [] f = 5 -> [i \in 1..n |-> IF i <= 16 THEN i ELSE IF i <= 32 THEN 0 ELSE i % 251]  \* 01..10, then a block of zeros, then more
                       \* IVs that look like a ready-made counter block: ending 00 00 00 01 / 00 00 00 00 / 00 00 00 02
                       [] f \in {6, 7, 8} -> [i \in 1..n |-> IF i > n - 4 THEN (IF i = n THEN (CASE f = 6 -> 1 [] f = 7 -> 0 [] f = 8 -> 2) ELSE 0) ELSE (i * 13 + salt) % 256]
KeyB(k) == [j \in 1..16 |-> (k * 37 + j * 101 + j * j * (k + 3) + (k \div 256) * (j * 29 + 11)) % 256]
\* an IV (16 bytes, so J0 = GHASH(IV)) chosen such that J0 = ff..ff fffffffe: the 32-bit counter wraps
\* after two blocks.  J0 = ((IV.H) + L).H  =>  IV = ((J0.H^-1) + L).H^-1, H^-1 = H^(2^128-2).
GFInvH(h) == FoldLeft(LAMBDA s, i : LET sq == GFMulH(s[2], s[2]) IN <<GFMulH(s[1], sq), sq>>,
                      << <<32768, 0, 0, 0, 0, 0, 0, 0>>, h >>, [i \in 1..127 |-> i])[1]     \* 0x80.. is the field's 1
WrapIV(key) == LET h == ToH(EncRK(RoundKeys(key), Zero16))
                   hi == GFInvH(h)
                   t == <<65535, 65535, 65535, 65535, 65535, 65535, 65535, 65534>>
                   l == ToH(<<0, 0, 0, 0, 0, 0, 0, 0>> \o Len64(16))
               IN FromH(GFMulH(HX(GFMulH(t, hi), l), hi))
IvOf(x) == IF x.ivf = 4 THEN WrapIV(KeyB(x.k)) ELSE Bytes(x.ivf, x.ivl, 1)
Init == c \in 1..Len(CaseSeq) /\ done = FALSE
Next == /\ ~done /\ done' = TRUE /\ c' = c
        /\ LET x == CaseSeq[c]
               iv == IvOf(x) a == Bytes(x.af, x.al, 2) p == Bytes(x.pf, x.pl, 3)
               r == Seal(KeyB(x.k), iv, p, a)
           IN PrintT(<<"CASE", ToJson([case |-> x, expect |-> [ct |-> r[1], tag |-> r[2], iv |-> iv,
                                                                 j0 |-> J0(EncRK(RoundKeys(KeyB(x.k)), Zero16), iv)]])>>)
Spec == Init /\ [][Next]_<<c, done>>
=============================================================================
