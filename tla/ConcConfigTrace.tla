---------------------------- MODULE ConcConfigTrace ----------------------------
(***************************************************************************)
(* Validates histories recorded from real servers that share one Config    *)
(* (GMSSL and TLS 1.2) against ConcConfig.  Events are invocations and      *)
(* responses stamped by one atomic counter: SetSessionTicketKeys calls and  *)
(* whole handshakes (offered ticket's key at the invocation; whether the    *)
(* server resumed and the key of the ticket the client holds afterwards at  *)
(* the response - attached to the invocation line by the recorder).  The    *)
(* instants at which a handshake opens the offered ticket and seals the new *)
(* one, and at which a rotation takes effect, are not logged: TLC searches  *)
(* for them between the two events of each call.                            *)
(***************************************************************************)
EXTENDS ConcConfig, Json
CONSTANTS TraceFile
Trace == ndJsonDeserialize(TraceFile)
ASSUME TLCSet(1, 0)
VARIABLES l, pend       \* pend: sequence of [op, st, line]; st: "inv" -> ("open" ->) "lin"
tvars == <<keys, hs, l, pend>>
T == Trace[l]

TReset == /\ l <= Len(Trace) /\ T.ev = "reset" /\ l' = l + 1 /\ pend = <<>>
          /\ keys' = T.keys /\ hs' = <<>> /\ pend' = <<>>
TInv == /\ l <= Len(Trace) /\ T.ev = "inv" /\ l' = l + 1
        /\ pend' = Append(pend, [op |-> T.op, st |-> "inv", line |-> l])
        /\ IF T.kind = "hs" THEN Begin(T.op, T.off) ELSE UNCHANGED cvars
\* effects are delayed until just before some response (as in ConcConnTrace)
LinRotate == \E i \in 1..Len(pend) :
               /\ l <= Len(Trace) /\ T.ev = "res" /\ pend[i].st = "inv"
               /\ LET o == Trace[pend[i].line] IN o.kind = "rotate" /\ Rotate(o.keys)
               /\ pend' = [pend EXCEPT ![i].st = "lin"] /\ UNCHANGED l
LinOpen == \E i \in 1..Len(pend) :
             /\ l <= Len(Trace) /\ T.ev = "res" /\ pend[i].st = "inv"
             /\ LET o == Trace[pend[i].line] IN
                  /\ o.kind = "hs" /\ Open(o.op)
                  /\ hs'[o.op].resumed = o.resumed                       \* the logged outcome
                  /\ pend' = [pend EXCEPT ![i].st = IF hs'[o.op].phase = "sealed" THEN "lin" ELSE "open"]
             /\ UNCHANGED l
LinSeal == \E i \in 1..Len(pend) :
             /\ l <= Len(Trace) /\ T.ev = "res" /\ pend[i].st = "open"
             /\ LET o == Trace[pend[i].line] IN Seal(o.op) /\ hs'[o.op].newkey = o.newkey      \* the logged outcome
             /\ pend' = [pend EXCEPT ![i].st = "lin"] /\ UNCHANGED l
TRes == /\ l <= Len(Trace) /\ T.ev = "res" /\ l' = l + 1
        /\ \E i \in 1..Len(pend) :
             /\ pend[i].op = T.op /\ pend[i].st = "lin"
             /\ LET o == Trace[pend[i].line] IN
                  IF o.kind = "hs" THEN /\ hs[o.op].newkey = o.newkey /\ Forget(o.op)
                                   ELSE UNCHANGED cvars
        /\ pend' = SelectSeq(pend, LAMBDA p : p.op # T.op)

TraceInit == l = 1 /\ pend = <<>> /\ CInit(<<1>>)
TraceNext == TReset \/ TInv \/ LinRotate \/ LinOpen \/ LinSeal \/ TRes
TraceSpec == TraceInit /\ [][TraceNext]_tvars
HighWater == TLCSet(1, IF l > TLCGet(1) THEN l ELSE TLCGet(1))
Accepted == PrintT(<<"HWM", TLCGet(1), Len(Trace)>>) /\ TLCGet(1) = Len(Trace) + 1
\* pend is a sequence only for convenience: its order carries no information
View == <<keys, hs, l, {<<pend[i].op, pend[i].st>> : i \in 1..Len(pend)}>>
=============================================================================
