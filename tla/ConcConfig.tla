------------------------------ MODULE ConcConfig ------------------------------
(***************************************************************************)
(* C20, the Config clause: one server configuration shared by simultaneous *)
(* handshakes while SetSessionTicketKeys rotates its ticket keys.  The     *)
(* shared state is the ordered key list (the first key seals, every key    *)
(* opens).  A handshake touches it at two separate instants, as the code   *)
(* does: Open (look the offered ticket's key up in the list in force, which *)
(* decides resumption and whether the ticket must be re-issued because an  *)
(* OLD key opened it) and Seal (a new ticket under the first key in force  *)
(* THEN).  A rotation replaces the list in one atomic step.  Keys are      *)
(* numbered; 0 stands for "no ticket".  Every other resumption condition   *)
(* (suite, version, client certificates) holds in the driver, so a ticket  *)
(* is refused only because its key is not in force.                        *)
(***************************************************************************)
EXTENDS Integers, Sequences, FiniteSets, TLC

VARIABLES keys,      \* the ticket keys in force
          hs         \* handshake id |-> [off, phase, resumed, newkey]
cvars == <<keys, hs>>
InSeq(s, x) == \E i \in 1..Len(s) : s[i] = x

CInit(k0) == keys = k0 /\ hs = <<>>

Rotate(ks) == /\ Len(ks) > 0 /\ keys' = ks /\ UNCHANGED hs
Begin(id, off) == /\ id \notin DOMAIN hs
                  /\ hs' = (id :> [off |-> off, phase |-> "begun", resumed |-> FALSE, newkey |-> 0]) @@ hs
                  /\ UNCHANGED keys
\* the server opens the offered ticket: resumption iff its key is in force now; a ticket opened by the first key is kept
Open(id) == /\ id \in DOMAIN hs /\ hs[id].phase = "begun"
            /\ LET off == hs[id].off
                   res == off # 0 /\ InSeq(keys, off)
                   old == res /\ off # keys[1]
               IN hs' = [hs EXCEPT ![id].resumed = res,
                                   ![id].phase = IF res /\ ~old THEN "sealed" ELSE "opened"]
            /\ UNCHANGED keys
\* a new ticket (full handshake, or resumption through an old key) is sealed under the first key in force now
Seal(id) == /\ id \in DOMAIN hs /\ hs[id].phase = "opened"
            /\ hs' = [hs EXCEPT ![id].newkey = keys[1], ![id].phase = "sealed"]
            /\ UNCHANGED keys
End(id) == /\ id \in DOMAIN hs /\ hs[id].phase = "sealed"
           /\ hs' = [hs EXCEPT ![id].phase = "done"]
           /\ UNCHANGED keys
\* (a finished handshake no longer matters to the shared state: trace validation forgets it)
Forget(id) == /\ id \in DOMAIN hs /\ hs[id].phase = "sealed"
              /\ hs' = [i \in DOMAIN hs \ {id} |-> hs[i]]
              /\ UNCHANGED keys
=============================================================================
