------------------------------- MODULE GCMKeys -------------------------------
(* C12: a search over keys.  GHASH multiplies by the hash subkey H = SM4_K(0^128); *)
(* an implementation of that multiplication may treat special bytes of H wrongly   *)
(* (a zero byte, 0xff, the top or bottom bit).  TLC tabulates H for the keys       *)
(* Val(<<"lcg", k>>), k = 1..NKeys, and the check picks keys by the shape of H.     *)
EXTENDS GCM, TLC, Json
CONSTANTS NKeys
VARIABLES k, done
KeyB(i) == [j \in 1..16 |-> (i * 37 + j * 101 + j * j * (i + 3) + (i \div 256) * (j * 29 + 11)) % 256]
Init == k \in 1..NKeys /\ done = FALSE
Next == /\ ~done /\ done' = TRUE /\ k' = k
        /\ PrintT(<<"HKEY", ToJson([k |-> k, h |-> EncRK(RoundKeys(KeyB(k)), Zero16)])>>)
Spec == Init /\ [][Next]_<<k, done>>
=============================================================================
