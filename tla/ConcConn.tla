-------------------------------- MODULE ConcConn --------------------------------
(***************************************************************************)
(* C20, one established connection used by several goroutines.  Two        *)
(* endpoints A and B, one byte stream per direction.  The operations are   *)
(* atomic here - that is the property: whatever the goroutines of the real *)
(* Conn do concurrently must look as if each call took effect at one       *)
(* instant between its invocation and its return.                          *)
(*   Write(e, id, n)  appends message id (n bytes) to the stream leaving e *)
(*                    and returns ok; it may fail only if e or its peer    *)
(*                    has closed by the time it returns, and then leaves   *)
(*                    at most an unfinished tail.                          *)
(*   Read(e)          takes the next bytes of the stream arriving at e, in *)
(*                    order, without gaps; it fails only once e or its     *)
(*                    peer has closed.                                     *)
(*   Close(e)         from then on every Write on e fails, and Read on e   *)
(*                    fails once the bytes that had arrived are used up.   *)
(*   CloseWrite(e)    half close: ends the stream LEAVING e (every later   *)
(*                    Write on e fails; the peer's Read reports the end    *)
(*                    only after everything written before it has been     *)
(*                    delivered).  The other direction is untouched: the   *)
(*                    peer goes on writing and e goes on reading.          *)
(* TLC checks the consequences the statement names (per-writer order,      *)
(* contiguous payloads, nothing written after Close) on all histories of   *)
(* a small configuration; ConcConnTrace validates histories of real        *)
(* connections against the same actions.                                   *)
(***************************************************************************)
EXTENDS Integers, Sequences, FiniteSets, TLC
CONSTANTS Ends              \* {"A", "B"}
Peer(e) == CHOOSE x \in Ends : x # e

VARIABLES stream,   \* stream[e]: sequence of [id, n] appended by endpoint e
          rd,       \* rd[e] = <<index, offset>>: next unread byte of the stream ARRIVING at e
          closed,   \* set of endpoints that have closed
          broken,   \* endpoints whose outgoing stream ends in an unfinished message
          half,     \* endpoints that have closed their outgoing direction only (CloseWrite)
          faulted   \* endpoints that met an arriving record that does not authenticate
cvars == <<stream, rd, closed, broken, half, faulted>>

CInit == /\ stream = [e \in Ends |-> <<>>] /\ rd = [e \in Ends |-> <<1, 0>>]
         /\ closed = {} /\ broken = {} /\ half = {} /\ faulted = {}

WriteOK(e, id, n) == /\ e \notin closed /\ e \notin broken /\ e \notin half
                     /\ stream' = [stream EXCEPT ![e] = Append(@, [id |-> id, n |-> n])]
                     /\ UNCHANGED <<rd, closed, broken, half, faulted>>
\* A failed Write is the one operation that is not atomic: a payload of several records may be partly on the wire (and
\* read by the peer) before the connection ends under it.  Its effect is either nothing, or the message as the LAST thing
\* of that stream (no later Write on e succeeds); that it fails must be justified by a Close when it returns (WriteErrReturn).
WriteErr(e, id, n) == /\ \/ ((e \in closed \/ Peer(e) \in closed \/ e \in broken \/ e \in half) /\ UNCHANGED <<stream, broken>>)
                         \/ (e \notin broken /\ e \notin half /\ stream' = [stream EXCEPT ![e] = Append(@, [id |-> id, n |-> n])] /\ broken' = broken \cup {e})
                      /\ UNCHANGED <<rd, closed, half, faulted>>
\* (the peer's half close is no reason for a Write on e to fail)
WriteErrReturn(e) == e \in closed \/ Peer(e) \in closed \/ e \in half
\* a successful Read returns the segments segs = << [id, from, to], ... >>: exactly the next bytes
RECURSIVE Walk(_, _, _)
Walk(s, pos, segs) ==      \* position after consuming segs from stream s starting at pos, or <<0, 0>> if they are not the next bytes
  IF segs = <<>> THEN pos
  ELSE LET g == Head(segs) i == pos[1] off == pos[2] IN
       IF i > Len(s) \/ s[i].id # g.id \/ off # g.from \/ g.to > s[i].n \/ g.to <= g.from THEN <<0, 0>>
       ELSE Walk(s, IF g.to = s[i].n THEN <<i + 1, 0>> ELSE <<i, g.to>>, Tail(segs))
\* (a Read after the endpoint's own Close may still hand out bytes that had already arrived: the sequential object does the same)
ReadOK(e, segs) == /\ segs # <<>>
                   /\ LET p == Walk(stream[Peer(e)], rd[e], segs) IN p # <<0, 0>> /\ rd' = [rd EXCEPT ![e] = p]
                   /\ UNCHANGED <<stream, closed, broken, half, faulted>>
\* end of the arriving stream: at once after a full Close of either end; after the peer's half close only when every
\* byte it wrote before has been read
AtEnd(e) == rd[e][1] > Len(stream[Peer(e)])
ReadErr(e) == (e \in closed \/ Peer(e) \in closed \/ (Peer(e) \in half /\ AtEnd(e)) \/ e \in faulted) /\ UNCHANGED cvars
\* the Read on e that meets a record which does not authenticate (forged or damaged on the way): it fails, the direction
\* arriving at e is over (every later Read fails too), and as part of the same call e tells its peer so with a fatal alert.
\* For the stream LEAVING e that alert is one more atomic operation of the sending half: like CloseWrite it comes after
\* every Write that succeeded and in the middle of none, every later Write on e fails, and the peer meets the end (as an
\* error) only when everything written before has been delivered.
FaultRead(e) == faulted' = faulted \cup {e} /\ half' = half \cup {e} /\ UNCHANGED <<stream, rd, closed, broken>>
CloseOp(e) == closed' = closed \cup {e} /\ UNCHANGED <<stream, rd, broken, half, faulted>>
CloseWriteOp(e) == e \notin closed /\ half' = half \cup {e} /\ UNCHANGED <<stream, rd, closed, broken, faulted>>
=============================================================================
