------------------------------ MODULE TLCPPeer ------------------------------
(***************************************************************************)
(* C15.  An endpoint under test (client, or server in one of three modes)  *)
(* reads handshake-phase input from a peer that may deviate.  The endpoint *)
(* is the flight grammar of GM/T 0024 / TLS 1.2 as a state machine: in     *)
(* every state exactly the listed message types are acceptable; anything   *)
(* else, end of input, or an acceptable message whose content cannot be    *)
(* right (the honest peer did not produce it at this point, so the         *)
(* transcripts diverge and Finished cannot verify) leads to Abort.         *)
(* The peer is the honest flight transformed by ONE deviation op at        *)
(* position k; TLC explores every (role, k, op) to the end and emits the   *)
(* verdict.  Benign ops (re-fragmentation, a warning alert) must still     *)
(* complete.  The statement's demand: never Complete after a deviation,    *)
(* never a panic, never waiting on input that has ended.                   *)
(***************************************************************************)
EXTENDS Integers, Sequences, FiniteSets, TLC, Json

CONSTANTS Roles,     \* endpoint under test: "client_gm", "server_gm", "server_auto_gm", "client_tls", "server_tls", "server_auto_tls"
          InjTypes,  \* message kinds the peer can inject
          Truncs,    \* how a message body is cut / which length field is perturbed
          Versions,  \* client_version values written into the ClientHello
          SuiteRewrites,
          Scripts,   \* consistent deviations of the scripted GMSSL client ("none" = honest)
          Policies,  \* the server's client-certificate policy in the scripted cases
          CutMax,    \* bodies are cut at every position 0..CutMax (positions beyond the body are skipped by the driver)
          ExtTypes,  \* hello extension types rewritten in transit
          ExtShapes, \* the content the rewritten extension gets (all outer lengths consistent)
          SelfMals,  \* how the inner 16-bit length of a self-produced key-exchange message is wrong
          ClientAuth \* BOOLEAN: the honest flight includes CertificateRequest / client Certificate / CertificateVerify

\* the honest sequence of plaintext handshake messages the endpoint under test RECEIVES
ToClient(gm, ca) == <<"SH", "CERT">> \o (IF gm THEN <<"SKE">> ELSE <<>>) \o (IF ca THEN <<"CREQ">> ELSE <<>>) \o <<"SHD">>
ToServer(ca) == <<"CH">> \o (IF ca THEN <<"CERT">> ELSE <<>>) \o <<"CKE">> \o (IF ca THEN <<"CV">> ELSE <<>>)
\* further roles (thorough tier): the other GMSSL suite, TLS 1.2 with an ECDHE suite (the server sends a
\* ServerKeyExchange as in GMSSL), TLS 1.0 with a CBC suite
IsClient(r) == r \in {"client_gm", "client_tls", "client_gm_gcm", "client_tls_ecdhe", "client_tls10"}
IsGM(r) == r \in {"client_gm", "server_gm", "server_auto_gm", "client_gm_gcm", "server_gm_gcm"}
HasSKE(r) == IsGM(r) \/ r \in {"client_tls_ecdhe", "server_tls_ecdhe"}
Honest(r, ca) == IF IsClient(r) THEN ToClient(HasSKE(r), ca) ELSE ToServer(ca)

\* grammar of the endpoint: set of message kinds acceptable after having accepted the honest prefix of length k
Accept(r, ca, k) == LET h == Honest(r, ca) IN IF k < Len(h) THEN {h[k + 1]} ELSE {"CCS"}

VARIABLES role, ca, k, op, pc, input, pos, hist
vars == <<role, ca, k, op, pc, input, pos, hist>>

Benign(o) == o.op \in {"none", "refrag", "warnalert"} \/ (o.op = "script" /\ o.how \in {"none", "npn_offered"}) \/ (o.op = "srvscript" /\ o.how = "reneg_honest")

\* the input stream the peer produces: honest flight with the op applied at message index k (1-based)
Apply(h, kk, o) ==
  CASE o.op \in {"none", "refrag"} -> h
    [] o.op = "warnalert" -> h          \* alerts are not handshake messages
    [] o.op = "drop"   -> SubSeq(h, 1, kk - 1) \o SubSeq(h, kk + 1, Len(h))
    [] o.op = "dup"    -> SubSeq(h, 1, kk) \o <<h[kk]>> \o SubSeq(h, kk + 1, Len(h))
    [] o.op = "swap"   -> SubSeq(h, 1, kk - 1) \o <<h[kk + 1], h[kk]>> \o SubSeq(h, kk + 2, Len(h))
    [] o.op = "inject" -> SubSeq(h, 1, kk - 1) \o <<"X:" \o o.t>> \o SubSeq(h, kk, Len(h))
    [] o.op = "trunc"  -> SubSeq(h, 1, kk - 1) \o <<"BAD">> \o SubSeq(h, kk + 1, Len(h))   \* malformed body / lengths
    [] o.op = "replace" -> SubSeq(h, 1, kk - 1) \o <<"X:" \o o.t>> \o SubSeq(h, kk + 1, Len(h))
    \* ClientHello rewritten in transit: other version, other suite list, no null compression
    [] o.op \in {"chvers", "chsuites", "chcomp"} -> <<"MOD">> \o SubSeq(h, 2, Len(h))
    \* one extension of the hello (ClientHello towards a server, ServerHello towards a client) replaced or added in transit,
    \* its own content empty / an empty list / a list with an empty item / a list length beyond or short of the data / twice
    [] o.op = "helloext" -> <<"MOD">> \o SubSeq(h, 2, Len(h))
    \* the peer itself produces (and hashes into its own transcript) a key-exchange message whose inner length prefix
    \* is wrong: no transcript divergence will save the endpoint, its parser has to notice
    [] o.op = "selfmal" -> SubSeq(h, 1, kk - 1) \o <<"BAD">> \o SubSeq(h, kk + 1, Len(h))
    \* the peer itself offers another client_version, answers the server's flight with a well-formed key exchange and
    \* then produces no valid Finished: whatever version the server settled on, it ends with an error
    [] o.op = "selfvers" -> <<"MOD">> \o SubSeq(h, 2, Len(h))
    \* a scripted GMSSL client (own transcript and key schedule) that deviates consistently: "none" is the honest script
    \* ("npn_offered": the hello offers next-protocol negotiation, which a server without protocols ignores - benign;
    \* "npn_unsolicited": the client then sends a NextProtocol message although the server did not take the offer up)
    [] o.op = "script" -> IF o.how \in {"none", "npn_offered"} THEN h ELSE <<"BAD">>
    \* a scripted server that holds the genuine keys: selects an ECDHE-SM2 suite and names another curve; or runs the
    \* honest ECC flight and then sends its (correct) Finished in the clear without ChangeCipherSpec
    \* "reneg_*": after an honest first handshake the scripted TLS server asks for a second one (HelloRequest) and runs it
    \* correctly ("reneg_honest": it completes and application data follows) or without its ChangeCipherSpec
    \* ("reneg_noccs": Finished and data still under the first handshake's keys - the client must not accept them)
    [] o.op = "srvscript" -> IF o.how = "reneg_honest" THEN h ELSE <<"SH", "CERT", "BAD">>
    [] o.op = "close"  -> SubSeq(h, 1, kk - 1) \o <<"EOF">>
    \* the peer sends its whole flight, ChangeCipherSpec and a correct Finished and is gone right behind it: the endpoint's
    \* own last flight (ChangeCipherSpec, Finished) cannot be sent - a handshake whose last flight never left is not complete
    [] o.op = "wfail_fin" -> h
    [] o.op = "ccs"    -> SubSeq(h, 1, kk - 1) \o <<"X:CCS">> \o SubSeq(h, kk, Len(h))
    [] o.op \in {"appdata", "appdata_empty"} -> SubSeq(h, 1, kk - 1) \o <<"X:APP">> \o SubSeq(h, kk, Len(h))
    [] o.op = "fatalalert" -> SubSeq(h, 1, kk - 1) \o <<"X:ALERT">>

Ops(h) == {[op |-> "none"], [op |-> "refrag"]} \cup
          {[op |-> "warnalert", k |-> i] : i \in 1..Len(h)} \cup
          {[op |-> o, k |-> i] : o \in {"drop", "dup", "close", "ccs", "appdata", "appdata_empty", "fatalalert"}, i \in 1..Len(h)} \cup
          {[op |-> "close", k |-> Len(h) + 1]} \cup
          (IF h[1] = "CH" THEN {[op |-> "wfail_fin", k |-> Len(h) + 1]} ELSE {}) \cup
          {[op |-> "swap", k |-> i] : i \in 1..(Len(h) - 1)} \cup
          {[op |-> "inject", k |-> i, t |-> t] : i \in 1..(Len(h) + 1), t \in InjTypes} \cup
          {[op |-> "trunc", k |-> i, how |-> w] : i \in 1..Len(h), w \in Truncs} \cup
          UNION {{[op |-> "replace", k |-> i, t |-> t] : t \in InjTypes \ {h[i]}} : i \in 1..Len(h)} \cup
          \* every cut position of the short structured messages (hello, key exchange, certificate request / verify)
          {[op |-> "trunc", k |-> i, how |-> "cut" \o ToString(n)] : i \in {j \in 1..Len(h) : h[j] \in {"CH", "SH", "SKE", "CREQ", "CKE", "CV"}}, n \in 0..CutMax} \cup
          {[op |-> "helloext", k |-> 1, v |-> t, how |-> w] : t \in ExtTypes, w \in ExtShapes} \cup
          {[op |-> "selfmal", k |-> i, how |-> w] : i \in {j \in 1..Len(h) : h[j] \in {"CKE", "SKE"}}, w \in SelfMals} \cup
          (IF h[1] = "SH" THEN {[op |-> "srvscript", k |-> 3, how |-> w] : w \in {"ecdhe_curve99", "ecdhe_curve23", "ecdhe_curve24", "noccs_plainfin", "reneg_honest", "reneg_noccs",
                                                                                    \* a consistent server whose ServerHello names a version the client did not offer
                                                                                    "shvers_0304", "shvers_0305", "shvers_7f1c", "shvers_0302", "shvers_0300", "shvers_0101"}} ELSE {}) \cup
          (IF h[1] = "CH" THEN UNION {{[op |-> "script", k |-> 1, how |-> w, policy |-> p] : p \in {q \in Policies : w \in {"omit_cv", "dup_cv"} => q # "none"}} : w \in Scripts} \cup
                               {[op |-> "chvers", k |-> 1, v |-> v] : v \in Versions} \cup
                               {[op |-> "selfvers", k |-> 1, v |-> v] : v \in Versions \cup {258, 511, 767}} \cup
                               {[op |-> "chsuites", k |-> 1, how |-> w] : w \in SuiteRewrites} \cup
                               {[op |-> "chcomp", k |-> 1]}
           ELSE {})

Init == /\ role \in Roles /\ ca \in ClientAuth
        /\ op \in Ops(Honest(role, ca))
        /\ k = 0 /\ pc = "run" /\ pos = 1 /\ hist = <<>>
        /\ input = Apply(Honest(role, ca), IF "k" \in DOMAIN op THEN op.k ELSE 1, op)

\* the endpoint consumes the next input element
Step ==
  /\ pc = "run"
  /\ IF pos > Len(input)
       THEN \* the whole plaintext flight was consumed; the rest (CCS, Finished) comes from the honest peer.
            \* It verifies only if nothing deviated.
            pc' = (IF Benign(op) THEN "complete" ELSE "abort") /\ UNCHANGED <<k, pos>>
       ELSE LET m == input[pos] IN
            IF m \in Accept(role, ca, k) /\ m = Honest(role, ca)[k + 1]
              THEN k' = k + 1 /\ pos' = pos + 1 /\ UNCHANGED pc       \* accepted
              ELSE pc' = "abort" /\ UNCHANGED <<k, pos>>              \* unexpected type, malformed, EOF, alert
  /\ hist' = Append(hist, pc') /\ UNCHANGED <<role, ca, op, input>>
Next == Step
Spec == Init /\ [][Next]_vars

\* the property on the model: a deviation never ends in Complete; benign ops do
NeverCompleteAfterDeviation == pc = "complete" => Benign(op)
BenignCompletes == (Benign(op) /\ pc # "run") => pc = "complete"
Emit == pc # "run" => PrintT(<<"CASE", ToJson([case |-> [role |-> role, ca |-> ca, op |-> op], expect |-> pc])>>)
=============================================================================
