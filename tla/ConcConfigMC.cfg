SPECIFICATION Spec
CONSTANTS
  NC = 2
  MaxRot = 3
  MaxConn = 4
  DevTwoStepRotate = FALSE
INVARIANTS AcceptedIffInForce RecentTicketResumes SealedUnderAFirstKey ReissueIffOldKey TicketsExist
