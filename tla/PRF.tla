--------------------------------- MODULE PRF ---------------------------------
(* The GM/T 0024 / TLS 1.2 pseudo-random function over HMAC-SM3 (P_SM3), executable. *)
EXTENDS HMAC
\* P_hash(secret, seed) truncated to n bytes: A(0) = seed, A(i) = HMAC(secret, A(i-1)),
\* output = HMAC(secret, A(1) || seed) || HMAC(secret, A(2) || seed) || ...
PHash(secret, seed, n) ==
  LET nb == (n + 31) \div 32
      r == FoldLeft(LAMBDA s, i : LET a == HMAC(secret, s[1]) IN <<a, s[2] \o HMAC(secret, a \o seed)>>,
                    <<seed, <<>>>>, [i \in 1..nb |-> i])
  IN SubSeq(r[2], 1, n)
PRF(secret, label, seed, n) == PHash(secret, label \o seed, n)
\* ASCII labels
LblMaster == <<109, 97, 115, 116, 101, 114, 32, 115, 101, 99, 114, 101, 116>>                      \* "master secret"
LblKeyExp == <<107, 101, 121, 32, 101, 120, 112, 97, 110, 115, 105, 111, 110>>                     \* "key expansion"
LblCliFin == <<99, 108, 105, 101, 110, 116, 32, 102, 105, 110, 105, 115, 104, 101, 100>>           \* "client finished"
LblSrvFin == <<115, 101, 114, 118, 101, 114, 32, 102, 105, 110, 105, 115, 104, 101, 100>>          \* "server finished"
=============================================================================
