------------------------------ MODULE ConcConnMC ------------------------------
(* All histories of a small configuration of ConcConn: W writers per endpoint, K messages each of N bytes,  *)
(* readers taking the next message whole or in two parts, Close on either side at any time.                *)
EXTENDS ConcConn
CONSTANTS Writers, K, N
VARIABLES wnext, delivered
vars == <<stream, rd, closed, broken, half, faulted, wnext, delivered>>
Init == CInit /\ wnext = [e \in Ends |-> [w \in Writers |-> 1]] /\ delivered = [e \in Ends |-> <<>>]
DoWrite(e, w) == /\ wnext[e][w] <= K
                 /\ (WriteOK(e, <<e, w, wnext[e][w]>>, N) \/ (WriteErr(e, <<e, w, wnext[e][w]>>, N) /\ WriteErrReturn(e)))
                 /\ wnext' = [wnext EXCEPT ![e][w] = @ + 1] /\ UNCHANGED delivered
DoWriteOK(e, w) == /\ wnext[e][w] <= K /\ WriteOK(e, <<e, w, wnext[e][w]>>, N)
                   /\ wnext' = [wnext EXCEPT ![e][w] = @ + 1] /\ UNCHANGED delivered
\* the segments a Read may return: the rest of the current message, or half of it
NextSegs(e) == LET s == stream[Peer(e)] i == rd[e][1] off == rd[e][2] IN
               IF i > Len(s) THEN {}
               ELSE {<<[id |-> s[i].id, from |-> off, to |-> s[i].n]>>} \cup
                    (IF off = 0 /\ s[i].n > 1 THEN {<<[id |-> s[i].id, from |-> 0, to |-> s[i].n \div 2]>>} ELSE {})
DoRead(e) == \/ \E segs \in NextSegs(e) : ReadOK(e, segs) /\ delivered' = [delivered EXCEPT ![e] = @ \o segs] /\ UNCHANGED wnext
             \/ ReadErr(e) /\ UNCHANGED <<wnext, delivered>>
DoClose(e) == e \notin closed /\ CloseOp(e) /\ UNCHANGED <<wnext, delivered>>
DoCloseWrite(e) == e \notin half /\ CloseWriteOp(e) /\ UNCHANGED <<wnext, delivered>>
DoFaultRead(e) == e \notin faulted /\ e \notin closed /\ FaultRead(e) /\ UNCHANGED <<wnext, delivered>>
Next == \E e \in Ends : (\E w \in Writers : DoWrite(e, w)) \/ DoRead(e) \/ DoClose(e) \/ DoCloseWrite(e) \/ DoFaultRead(e)
Spec == Init /\ [][Next]_vars

\* consequences named by the statement
PerWriterOrder == \A e \in Ends : \A i, j \in 1..Len(stream[e]) :
                    (i < j /\ stream[e][i].id[2] = stream[e][j].id[2]) => stream[e][i].id[3] < stream[e][j].id[3]
\* what was delivered is a gap-free prefix of what was written, message by message
DeliveredIsPrefix == \A e \in Ends : Walk(stream[Peer(e)], <<1, 0>>, delivered[e]) = rd[e]
NothingAfterClose == [][\A e \in Ends : (e \in closed \/ e \in half) => (stream'[e] = stream[e] \/ (e \in broken' /\ e \notin broken /\ e \notin half))]_vars
\* a half close never takes anything away from the other direction: the peer can still write, and what it writes can be read
HalfCloseLeavesPeerWriting == \A e \in Ends : (e \in half /\ closed = {} /\ Peer(e) \notin half /\ Peer(e) \notin broken) =>
                                 \A w \in Writers : wnext[Peer(e)][w] <= K => ENABLED DoWriteOK(Peer(e), w)
=============================================================================
