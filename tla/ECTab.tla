-------------------------------- MODULE ECTab --------------------------------
(* C03 table cases: every catalogue scalar through ScalarBaseMult and through ScalarMult on a few points, *)
(* key generation for chosen reader contents, the published parameters.                                  *)
EXTENDS ECWalk, Bits
VARIABLES c, done
Readers == {<<"zero">>, <<"ff">>, <<"one">>, <<"nm2">>, <<"nm3">>, <<"lcg", 1>>, <<"lcg", 2>>, <<"lcg", 3>>}
ReaderBytes(r) == CASE r[1] = "zero" -> Rep(0, 40) [] r[1] = "ff" -> Rep(255, 40) [] r[1] = "one" -> Rep(0, 39) \o <<1>>
                    [] r[1] = "nm2" -> Rep(0, 8) \o BToBytes(BSub(C.n, "2"), 32)
                    [] r[1] = "nm3" -> Rep(0, 8) \o BToBytes(BSub(C.n, "3"), 32)
                    [] r[1] = "lcg" -> [i \in 1..40 |-> (r[2] * 91 + i * 57 + i * i) % 256]
Bases == {1, 2, 3, 7}
\* --- white box: the 9-limb representation (limbs of 29,28,29,28,... bits, Montgomery factor R = 2^257) ---
CONSTANT NField
LimbBits(i) == IF i % 2 = 1 THEN 29 ELSE 28            \* i = 1..9
LimbMax(i) == IF i % 2 = 1 THEN 536870911 ELSE 268435455
LimbOff(i) == ((i - 1) \div 2) * 57 + (IF i % 2 = 0 THEN 29 ELSE 0)
Pow2N(k) == BFromBytes(<<Pow2(k % 8)>> \o Rep(0, k \div 8))
R257 == Pow2N(257)
RInv == BInvMod(BMod(R257, C.p), C.p)
\* limb pattern number s (digits base 4 choose among 0, 1, max-1, max) -> the field element whose internal limbs are that
LimbChoice(i, d) == CASE d = 0 -> 0 [] d = 1 -> 1 [] d = 2 -> LimbMax(i) - 1 [] d = 3 -> LimbMax(i)
Digit4(s, i) == (s \div Pow2(2 * ((i - 1) % 9))) % 4
PatternVal(s) == FoldLeft(LAMBDA acc, i : BAdd(acc, BMul(BFromInt(LimbChoice(i, Digit4(s, i))), Pow2N(LimbOff(i)))), "0", Range1(9))
Elem(s) == BMulMod(BMod(PatternVal(s), C.p), RInv, C.p)
FieldSeeds == {(k * 7919 + 13) % 262144 : k \in 1..NField} \cup {0, 1, 262143, 87381, 174762}
CombCases == {[kind |-> "comb", t |-> t, i |-> i] : t \in {0, 1}, i \in 1..15}
\* --- pairs of DISTINCT points with the same y coordinate: the three roots of x^3 + ax + b - y^2 (when they lie in the field).
\* Their sum is a finite point - (x1, y) + (x2, y) = (-x1 - x2, -y) - although the numerators of the addition formulas vanish.
PowMod(a, e, m) == LET nb == BBitLen(e) IN
                   FoldLeft(LAMBDA acc, i : LET sq == BMulMod(acc, acc, m) IN IF BBit(e, nb - i) THEN BMulMod(sq, a, m) ELSE sq, "1", [i \in 1..nb |-> i])
SqrtP(a) == PowMod(a, BDiv(BAdd(C.p, "1"), "4"), C.p)          \* p = 3 mod 4; a root of a if a is a square
SameY(k) == LET A == PMul(C, BFromInt(k), G(C))
                disc == BSubMod(BSubMod("0", BMulMod("3", BMulMod(A.x, A.x, C.p), C.p), C.p), BMulMod("4", C.a, C.p), C.p)   \* -3 x1^2 - 4a
                r == SqrtP(disc)
                ok == BMulMod(r, r, C.p) = disc
                x2 == BMulMod(BSubMod(r, A.x, C.p), BInvMod("2", C.p), C.p)
                B == Pt(x2, A.y)
            IN [ok |-> ok /\ OnCurve(C, x2, A.y) /\ x2 # A.x, p |-> Aff(A), q |-> [x |-> x2, y |-> A.y],
                expect |-> IF ok THEN Aff(PAdd(C, A, B)) ELSE Aff(A),
                \* what the shape of the sum must be, whatever formulas computed it
                shape |-> ok => LET S == PAdd(C, A, B) IN ~S.inf /\ S.x = BSubMod(BSubMod("0", A.x, C.p), x2, C.p) /\ S.y = BSubMod("0", A.y, C.p)]
SameYCases == {[kind |-> "addsamey", k |-> k] : k \in 2..40}
Cases == {[kind |-> "basemul", d |-> d] : d \in ScalarSet} \cup
         {[kind |-> "mul", j |-> j, d |-> d] : j \in Bases, d \in ScalarSet} \cup
         {[kind |-> "genkey", r |-> r] : r \in Readers} \cup {[kind |-> "params"]} \cup
         {[kind |-> "field", s |-> s, t |-> (s * 31 + 7) % 262144] : s \in FieldSeeds} \cup CombCases \cup SameYCases
TInit == c \in Cases /\ done = FALSE /\ P = Inf /\ dl = "0" /\ hist = <<>>
Eval(x) == CASE x.kind = "basemul" -> [k |-> ScalarBytes(x.d), expect |-> Aff(PMulBytes(C, ScalarBytes(x.d), G(C)))]
             [] x.kind = "mul" -> LET B == PMul(C, BFromInt(x.j), G(C)) IN
                                  [p |-> Aff(B), k |-> ScalarBytes(x.d), expect |-> Aff(PMulBytes(C, ScalarBytes(x.d), B))]
             [] x.kind = "genkey" -> [reader |-> ReaderBytes(x.r), expect |-> KeyOf(ReaderBytes(x.r))]
             [] x.kind = "field" -> LET a == Elem(x.s) b == Elem(x.t) IN
                  [a |-> a, b |-> b, expect |-> [mul |-> BMulMod(a, b, C.p), square |-> BMulMod(a, a, C.p), add |-> BAddMod(a, b, C.p),
                                                 sub |-> BSubMod(a, b, C.p), roundtrip |-> a]]
             \* comb table entry (t, i): the sum over the set bits j of i of [2^(64j + 32t)]G
             [] x.kind = "comb" -> LET k == FoldLeft(LAMBDA acc, j : IF (x.i \div Pow2(j - 1)) % 2 = 1 THEN BAdd(acc, Pow2N(64 * (j - 1) + 32 * x.t)) ELSE acc,
                                                     "0", <<1, 2, 3, 4>>) IN
                                   [expect |-> Aff(PMul(C, k, G(C)))]
             [] x.kind = "addsamey" -> SameY(x.k)
             [] x.kind = "params" -> [expect |-> [p |-> C.p, n |-> C.n, b |-> C.b, gx |-> C.gx, gy |-> C.gy, a |-> C.a, bits |-> 256]]
TNext == /\ ~done /\ done' = TRUE /\ UNCHANGED <<c, P, dl, hist>>
         /\ PrintT(<<"CASE", ToJson([case |-> c, data |-> Eval(c)])>>)
TSpec == TInit /\ [][TNext]_<<c, done, P, dl, hist>>
=============================================================================
