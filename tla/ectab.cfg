SPECIFICATION TSpec
CONSTANTS
 MaxOps = 0
 AddSet = {1}
 NLcg = 5
 NField = 20
