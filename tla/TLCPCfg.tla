------------------------------- MODULE TLCPCfg -------------------------------
(***************************************************************************)
(* C06.  Configuration-level specification of GMSSL (GM/T 0024) / TLS      *)
(* handshakes: for every configuration of server mode, client kind, suite  *)
(* lists and preference, client-authentication policy, client-certificate  *)
(* situation and certificate source, what the configured policy demands:   *)
(* both ends complete with the same version / suite / identities, or both  *)
(* ends fail.  One state per configuration (table spec); Outcome is the    *)
(* standard's verdict, not derived from the code.                          *)
(***************************************************************************)
EXTENDS Integers, Sequences, FiniteSets, TLC, Json

\* suite names; the GMSSL ECDHE suites have no server-side implementation in this library
GMImpl == {"ECC_CBC", "ECC_GCM"}
GMAll  == {"ECC_CBC", "ECC_GCM", "ECDHE_CBC", "ECDHE_GCM"}
GMDefault == <<"ECC_CBC", "ECC_GCM", "ECDHE_CBC", "ECDHE_GCM">>
TLSAll == {"RSA_AES128_GCM", "RSA_AES128_CBC", "ECDHE_RSA_AES128_GCM", "ECDHE_RSA_AES256_CBC", "ECDHE_RSA_CHACHA"}

GMLists == { <<>>, <<"ECC_CBC">>, <<"ECC_GCM">>, <<"ECC_CBC", "ECC_GCM">>, <<"ECC_GCM", "ECC_CBC">>,
             <<"ECDHE_CBC", "ECC_GCM">>, <<"ECDHE_GCM">> }
TLSLists == { <<"RSA_AES128_GCM">>, <<"ECDHE_RSA_AES128_GCM", "RSA_AES128_CBC">>,
              <<"RSA_AES128_CBC", "ECDHE_RSA_AES256_CBC", "ECDHE_RSA_CHACHA">>, <<"ECDHE_RSA_CHACHA", "RSA_AES128_GCM">> }

Auths == {"none", "request", "requireany", "verifyifgiven", "requireandverify"}
CCerts == {"none", "good", "untrusted", "chain", "chain_leaf"}   \* (chain_leaf: the same chain, given with its parsed leaf - Certificate.Leaf - filled in)   \* chain: issued by an intermediate CA under a trusted root, sent with that intermediate      \* client certificate: absent / issued by a CA the server trusts /
                                             \* same issuer NAME but signed by another key (so it is sent, and fails verification)
VARIABLES c, done

Range(s) == {s[i] : i \in 1..Len(s)}
Eff(l, proto) == IF l = <<>> /\ proto = "gm" THEN GMDefault ELSE l
FilterSeq(s, P(_)) == LET F[i \in 0..Len(s)] == IF i = 0 THEN <<>> ELSE IF P(s[i]) THEN Append(F[i - 1], s[i]) ELSE F[i - 1] IN F[Len(s)]

Proto(x) == CASE x.smode = "gm" /\ x.ckind = "gm" -> "gm"
              [] x.smode = "auto" /\ x.ckind = "gm" -> "gm"
              [] x.smode = "auto" /\ x.ckind = "tls" -> "tls"
              [] x.smode = "tls" /\ x.ckind = "tls" -> "tls"
              [] OTHER -> "none"

\* the suites both sides list, in the order of whoever's preference counts
Common(x) == LET p == Proto(x)
                 cl == Eff(x.csuites, p) sl == Eff(x.ssuites, p)
                 pref == IF x.prefer THEN sl ELSE cl
                 other == IF x.prefer THEN Range(cl) ELSE Range(sl)
             IN FilterSeq(pref, LAMBDA s : s \in other)
Usable(x) == FilterSeq(Common(x), LAMBDA s : Proto(x) = "tls" \/ s \in GMImpl)

\* does the client send a certificate, and can the server verify it?
Sent(x) == x.auth # "none" /\ x.ccert # "none"
Verifiable(x) == x.ccert \in {"good", "chain", "chain_leaf"}
AuthOK(x) == CASE x.auth = "none" -> TRUE
               [] x.auth = "request" -> TRUE
               [] x.auth = "requireany" -> Sent(x)
               [] x.auth = "verifyifgiven" -> ~Sent(x) \/ Verifiable(x)
               [] x.auth = "requireandverify" -> Sent(x) /\ Verifiable(x)

Outcome(x) ==
  IF Proto(x) = "none" THEN [result |-> "fail", why |-> "mode"]
  ELSE IF Common(x) = <<>> THEN [result |-> "fail", why |-> "suite"]
  ELSE IF Usable(x) = <<>> THEN [result |-> "fail", why |-> "unimplemented"]
  ELSE IF ~AuthOK(x) THEN [result |-> "fail", why |-> "clientauth"]
  ELSE [result |-> "complete", proto |-> Proto(x),
        \* an unimplemented suite ahead of an implemented one: the statement accepts either choosing the
        \* implemented one or failing on both sides (never a crash)
        suite |-> Usable(x)[1], mayfail |-> (Common(x)[1] # Usable(x)[1]),
        clientcert |-> IF Sent(x) THEN x.ccert ELSE "none"]

GMConfigs == [smode : {"gm", "auto"}, ckind : {"gm"}, csuites : GMLists, ssuites : GMLists, prefer : BOOLEAN,
              auth : Auths, ccert : CCerts, source : {"static", "callbacks", "mixed", "opaque"}, tickets : BOOLEAN]
TLSConfigs == [smode : {"auto", "tls"}, ckind : {"tls"}, csuites : TLSLists, ssuites : TLSLists, prefer : BOOLEAN,
               auth : Auths, ccert : CCerts, source : {"static", "callbacks", "mixed"}, tickets : BOOLEAN]
Mismatch == [smode : {"gm"}, ckind : {"tls"}, csuites : {<<"RSA_AES128_GCM">>}, ssuites : {<<>>}, prefer : {FALSE},
             auth : {"none"}, ccert : {"none"}, source : {"static"}, tickets : {TRUE}] \cup
            [smode : {"tls"}, ckind : {"gm"}, csuites : {<<>>}, ssuites : {<<"RSA_AES128_GCM">>}, prefer : {FALSE},
             auth : {"none"}, ccert : {"none"}, source : {"static"}, tickets : {TRUE}]
\* certificate sources as documented: the GMSSL-only server takes static dual certificates, the auto-switch
\* server is built by NewBasicAutoSwitchConfig (GetCertificate + GetKECertificate callbacks), the TLS server both
\* (an auto-switch server configured by hand with the static certificate pair can only serve GMSSL clients: the
\* static list has one slot for the signing certificate; that half is part of the table)
\* "mixed": an auto-switch server with the RSA certificate in the static list (for TLS clients) and the two SM2 certificates
\* behind the GetCertificate / GetKECertificate callbacks (for GMSSL clients)
\* "opaque": the SM2 private keys are opaque crypto.Signer / crypto.Decrypter handles (GMSSL-only server: static pair;
\* auto-switch server: behind the callbacks)
Valid(x) == /\ (x.smode = "gm" => x.source \in {"static", "opaque"})
            /\ (x.smode = "auto" => (x.source \in {"callbacks", "mixed", "opaque"} \/ x.ckind = "gm"))
            /\ (x.source = "opaque" => x.ckind = "gm")
            /\ (x.source = "mixed" => x.smode = "auto")
Configs == {x \in GMConfigs \cup TLSConfigs \cup Mismatch : Valid(x)}

\* Interoperability with an independent TLS 1.0-1.2 implementation (the Go standard library crypto/tls):
\* the gmtls endpoint in each TLS-capable role against the standard peer, one suite and one version offered.
AEAD == {"RSA_AES128_GCM", "ECDHE_RSA_AES128_GCM", "ECDHE_RSA_CHACHA"}
Interop == [kind : {"interop"}, role : {"gmtls_client", "gmtls_server_tls", "gmtls_server_auto"},
            vers : {769, 770, 771}, suite : TLSAll]
InteropOutcome(x) == IF x.suite \in AEAD /\ x.vers < 771 THEN [result |-> "fail", why |-> "aead needs TLS 1.2"]
                     ELSE [result |-> "complete", vers |-> x.vers, suite |-> x.suite]

Init == c \in Configs \cup Interop /\ done = FALSE
Next == /\ ~done /\ done' = TRUE /\ c' = c
        /\ IF "kind" \in DOMAIN c
             THEN PrintT(<<"INTEROP", ToJson([case |-> c, expect |-> InteropOutcome(c)])>>)
             ELSE PrintT(<<"CASE", ToJson([case |-> c, expect |-> Outcome(c)])>>)
Spec == Init /\ [][Next]_<<c, done>>

\* sanity of the table itself
Sane == "kind" \in DOMAIN c \/ LET o == Outcome(c) IN
        /\ (o.result = "complete" => o.suite \in Range(Eff(c.csuites, o.proto)) \cap Range(Eff(c.ssuites, o.proto)))
        /\ (c.auth = "requireandverify" /\ o.result = "complete" => c.ccert \in {"good", "chain", "chain_leaf"})
=============================================================================
