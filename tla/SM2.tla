--------------------------------- MODULE SM2 ---------------------------------
(***************************************************************************)
(* GM/T 0003.2 (signature) and GM/T 0003.4 (public-key encryption) over    *)
(* the SM2 curve, executable: ECurve/BigNat for the group, SM3.tla for the *)
(* hash.  Byte strings are sequences of 0..255, integers are BigNat.       *)
(***************************************************************************)
EXTENDS ECurve, SM3
C == SM2Curve
B32(v) == BToBytes(v, 32)
DefaultID == <<49, 50, 51, 52, 53, 54, 55, 56, 49, 50, 51, 52, 53, 54, 55, 56>>      \* "1234567812345678"

\* Z_A = SM3(ENTL || ID || a || b || xG || yG || xA || yA), ENTL = bit length of ID on two bytes
ZA(id, px, py) == LET bits == 8 * Len(id) IN
  Digest(<<bits \div 256, bits % 256>> \o id \o B32(C.a) \o B32(C.b) \o B32(C.gx) \o B32(C.gy) \o B32(px) \o B32(py))
EOf(id, px, py, msg) == BFromBytes(Digest(ZA(id, px, py) \o msg))

\* one signing attempt with nonce k (1 <= k <= n-1): a signature, or the reason for drawing again
SignTry(d, k, e) ==
  LET x1 == PMul(C, k, G(C)).x
      r == BAddMod(e, x1, C.n)
  IN IF r = "0" THEN [ok |-> FALSE, why |-> "r=0"]
     ELSE IF BAdd(r, k) = C.n THEN [ok |-> FALSE, why |-> "r+k=n"]
     ELSE LET s == BMulMod(BInvMod(BAddMod("1", d, C.n), C.n), BSubMod(k, BMulMod(r, d, C.n), C.n), C.n)
          IN IF s = "0" THEN [ok |-> FALSE, why |-> "s=0"] ELSE [ok |-> TRUE, r |-> r, s |-> s]
\* signing with a stream of nonces: the first acceptable one; draws = how many were consumed
Sign(d, ks, e) ==
  FoldLeft(LAMBDA acc, i : IF acc.ok THEN acc
                           ELSE LET t == SignTry(d, ks[i], e) IN
                                IF t.ok THEN [ok |-> TRUE, r |-> t.r, s |-> t.s, draws |-> i]
                                ELSE [ok |-> FALSE, r |-> "0", s |-> "0", draws |-> i],
           [ok |-> FALSE, r |-> "0", s |-> "0", draws |-> 0], Range1(Len(ks)))

InRange(v) == BCmp(v, "1") >= 0 /\ BLt(v, C.n)
Verify(px, py, e, r, s) ==
  /\ InRange(r) /\ InRange(s)
  /\ LET t == BAddMod(r, s, C.n) IN
     /\ t # "0"
     /\ LET Q == PAdd(C, PMul(C, s, G(C)), PMul(C, t, Pt(px, py))) IN
        ~Q.inf /\ BAddMod(e, Q.x, C.n) = r

\* KDF(Z, klen): SM3(Z || ct) for ct = 1, 2, ... (32-bit big-endian), truncated
Ct4(i) == <<0, 0, i \div 256, i % 256>>
KDF(z, klen) == SubSeq(FoldLeft(LAMBDA acc, i : acc \o Digest(z \o Ct4(i)), <<>>, Range1((klen + 31) \div 32)), 1, klen)
AllZero(s) == \A i \in 1..Len(s) : s[i] = 0

\* one encryption attempt with nonce k
EncTry(px, py, k, msg) ==
  LET c1 == PMul(C, k, G(C))
      kp == PMul(C, k, Pt(px, py))
      t == KDF(B32(kp.x) \o B32(kp.y), Len(msg))
  IN IF Len(msg) > 0 /\ AllZero(t) THEN [ok |-> FALSE]
     ELSE [ok |-> TRUE, x1 |-> B32(c1.x), y1 |-> B32(c1.y),
           c2 |-> [i \in 1..Len(msg) |-> msg[i] ^^ t[i]],
           c3 |-> Digest(B32(kp.x) \o msg \o B32(kp.y))]
Enc(px, py, ks, msg) ==
  FoldLeft(LAMBDA acc, i : IF acc.ok THEN acc
                           ELSE LET t == EncTry(px, py, ks[i], msg) IN
                                IF t.ok THEN [ok |-> TRUE, x1 |-> t.x1, y1 |-> t.y1, c2 |-> t.c2, c3 |-> t.c3, draws |-> i]
                                ELSE [ok |-> FALSE, x1 |-> <<>>, y1 |-> <<>>, c2 |-> <<>>, c3 |-> <<>>, draws |-> i],
           [ok |-> FALSE, x1 |-> <<>>, y1 |-> <<>>, c2 |-> <<>>, c3 |-> <<>>, draws |-> 0], Range1(Len(ks)))
\* raw ciphertext 04 || x1 || y1 || C3 || C2 (mode C1C3C2) or 04 || x1 || y1 || C2 || C3
Raw(ct, c1c3c2) == <<4>> \o ct.x1 \o ct.y1 \o (IF c1c3c2 THEN ct.c3 \o ct.c2 ELSE ct.c2 \o ct.c3)

\* decryption of components: the plaintext, or the reason for the error the standard demands
Dec(d, x1, y1, c2, c3) ==
  IF ~OnCurve(C, x1, y1) THEN [ok |-> FALSE, why |-> "C1 not on the curve"]
  ELSE LET dp == PMul(C, d, Pt(x1, y1))
           t == KDF(B32(dp.x) \o B32(dp.y), Len(c2))
           m == [i \in 1..Len(c2) |-> c2[i] ^^ t[i]]
       IN IF Len(c2) > 0 /\ AllZero(t) THEN [ok |-> FALSE, why |-> "t is zero"]
          ELSE IF Digest(B32(dp.x) \o m \o B32(dp.y)) # c3 THEN [ok |-> FALSE, why |-> "C3 mismatch"]
          ELSE [ok |-> TRUE, m |-> m]
=============================================================================
