------------------------------ MODULE HashObj ------------------------------
(***************************************************************************)
(* C04.  The hash.Hash object returned by sm3.New() as a state machine.    *)
(* The message written since the last Reset is determined by its length    *)
(* (byte i of the stream is MsgByte(i)), so the abstract state is `len`;   *)
(* `blocks`/`tail` mirror the implementation's split into compressed       *)
(* blocks and unprocessed tail.  Sum never changes the state and returns   *)
(* caller prefix \o digest; Reset returns to the initial state.            *)
(* DigestOf is the oracle: SM3!Digest (PrimKAT-checked) tabulated by TLC.  *)
(***************************************************************************)
EXTENDS Integers, Sequences, TLC, Json

CONSTANTS WriteLens,     \* sizes of Write calls
          PrefixLens,    \* lengths of the Sum argument
          MaxOps         \* bound on history length (generation only)

MsgByte(i) == (i * 13 + 7) % 256
Msg(n) == [i \in 1..n |-> MsgByte(i)]
PrefixByte(i) == 200 + (i % 50)
Prefix(n) == [i \in 1..n |-> PrefixByte(i)]

VARIABLES len, blocks, tail, hist
vars == <<len, blocks, tail, hist>>

Init == len = 0 /\ blocks = 0 /\ tail = 0 /\ hist = <<>>

Write(n) == /\ len' = len + n
            /\ blocks' = blocks + ((tail + n) \div 64)
            /\ tail' = (tail + n) % 64
            /\ hist' = Append(hist, [op |-> "write", n |-> n])
\* Sum(b) with len(b) = p and spare capacity c (0 = none, 1 = enough for the digest)
Sum(p, c) == /\ UNCHANGED <<len, blocks, tail>>
             /\ hist' = Append(hist, [op |-> "sum", p |-> p, c |-> c])
Reset == /\ len' = 0 /\ blocks' = 0 /\ tail' = 0
         /\ hist' = Append(hist, [op |-> "reset"])

Next == /\ Len(hist) < MaxOps
        /\ \/ \E n \in WriteLens : Write(n)
           \/ \E p \in PrefixLens, c \in {0, 1} : Sum(p, c)
           \/ Reset
Spec == Init /\ [][Next]_vars

\* blocks finalisation adds when Sum is taken (1, or 2 when the tail leaves no room for the length)
PadBlocks == IF tail < 56 THEN 1 ELSE 2
Inv == /\ tail \in 0..63 /\ 64 * blocks + tail = len
       /\ (len + 1 + ((119 - (len % 64)) % 64) + 8) = 64 * (blocks + PadBlocks)
View == <<len, blocks, tail, Len(hist)>>
Emit == Len(hist) = MaxOps => PrintT(<<"BEH", ToJson(hist)>>)
=============================================================================
