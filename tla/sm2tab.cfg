SPECIFICATION Spec
CONSTANTS
 CasesFile = "sm2cases.ndjson"
