------------------------------ MODULE RecordWire ------------------------------
(***************************************************************************)
(* C06.  The independent decoder of GMSSL wire bytes: given what an        *)
(* eavesdropper with the key log sees of one GM/T 0024 session (plaintext  *)
(* handshake flights, the first protected record of each direction, the    *)
(* first application records, client random + master secret from          *)
(* KeyLogWriter), TLC derives the key block with P_SM3, opens the records  *)
(* with SM4-CBC + HMAC-SM3 or SM4-GCM, and recomputes both Finished        *)
(* verify_data values from SM3 of the transcript.  Nothing of gmtls is     *)
(* used: SM3.tla, HMAC.tla, PRF.tla, SM4.tla, GCM.tla only.                *)
(***************************************************************************)
EXTENDS PRF, GCM, TLC, Json
CONSTANT SessionsFile
Sess == ndJsonDeserialize(SessionsFile)
VARIABLES c, done

Random(hello) == SubSeq(hello, 7, 38)          \* msg type(1) length(3) version(2) random(32)

\* SM4-CBC decryption with explicit IV
CbcDec(rk, iv, ct) ==
  FoldLeft(LAMBDA acc, i : LET blk == SubSeq(ct, 16 * i - 15, 16 * i)
                               p == DecRK(rk, blk)
                           IN <<blk, acc[2] \o [j \in 1..16 |-> p[j] ^^ acc[1][j]]>>,
           <<iv, <<>>>>, [i \in 1..(Len(ct) \div 16) |-> i])[2]
Seq8(n) == <<0, 0, 0, 0, 0, 0, 0, n>>
U16(n) == <<n \div 256, n % 256>>

\* open one CBC record body; returns [ok, typ-independent content]
OpenCBC(encKey, macKey, seq, typ, body) ==
  IF Len(body) < 64 \/ Len(body) % 16 # 0 THEN [ok |-> FALSE, content |-> <<>>, why |-> "length"]
  ELSE
  LET p == CbcDec(RoundKeys(encKey), SubSeq(body, 1, 16), SubSeq(body, 17, Len(body)))
      padv == p[Len(p)]
      padok == padv + 1 <= Len(p) - 32 /\ \A i \in (Len(p) - padv)..Len(p) : p[i] = padv
      n == Len(p) - padv - 1 - 32
      content == SubSeq(p, 1, n)
      mac == SubSeq(p, n + 1, n + 32)
      want == HMAC(macKey, Seq8(seq) \o <<typ, 1, 1>> \o U16(n) \o content)
  IN IF ~padok THEN [ok |-> FALSE, content |-> <<>>, why |-> "padding"]
     ELSE [ok |-> mac = want, content |-> content, why |-> IF mac = want THEN "" ELSE "mac"]

OpenGCM(key, iv4, seq, typ, body) ==
  IF Len(body) < 24 THEN [ok |-> FALSE, content |-> <<>>, why |-> "length"]
  ELSE
  LET nonce == iv4 \o SubSeq(body, 1, 8)
      ct == SubSeq(body, 9, Len(body) - 16)
      tag == SubSeq(body, Len(body) - 15, Len(body))
      aad == Seq8(seq) \o <<typ, 1, 1>> \o U16(Len(ct))
      want == TagOf(key, nonce, ct, aad)
  IN [ok |-> tag = want /\ SubSeq(body, 1, 8) = Seq8(seq), content |-> Open(key, nonce, ct, aad),
      why |-> IF tag # want THEN "tag" ELSE IF SubSeq(body, 1, 8) # Seq8(seq) THEN "explicit nonce is not the sequence number" ELSE ""]

Decode(s) ==
  LET cr == Random(s.hs_c1)
      sr == Random(s.hs_s1)
      ms == s.ms
      cbc == s.suite = "ECC_CBC"
      kb == PRF(ms, LblKeyExp, sr \o cr, IF cbc THEN 128 ELSE 40)
      cmac == SubSeq(kb, 1, 32) smac == SubSeq(kb, 33, 64)
      ckey == IF cbc THEN SubSeq(kb, 65, 80) ELSE SubSeq(kb, 1, 16)
      skey == IF cbc THEN SubSeq(kb, 81, 96) ELSE SubSeq(kb, 17, 32)
      civ == IF cbc THEN <<>> ELSE SubSeq(kb, 33, 36)
      siv == IF cbc THEN <<>> ELSE SubSeq(kb, 37, 40)
      OpenC(seq, typ, body) == IF cbc THEN OpenCBC(ckey, cmac, seq, typ, body) ELSE OpenGCM(ckey, civ, seq, typ, body)
      OpenS(seq, typ, body) == IF cbc THEN OpenCBC(skey, smac, seq, typ, body) ELSE OpenGCM(skey, siv, seq, typ, body)
      t1 == s.hs_c1 \o s.hs_s1 \o s.hs_c2
      cfin == OpenC(0, 22, s.c_fin)
      vdc == PRF(ms, LblCliFin, Digest(t1), 12)
      t2 == t1 \o cfin.content \o s.hs_s2
      sfin == OpenS(0, 22, s.s_fin)
      vds == PRF(ms, LblSrvFin, Digest(t2), 12)
      app == FoldLeft(LAMBDA acc, i : LET o == OpenC(i, 23, s.c_app[i]) IN <<acc[1] /\ o.ok, acc[2] \o o.content>>,
                      <<TRUE, <<>>>>, [i \in 1..Len(s.c_app) |-> i])
      sapp == FoldLeft(LAMBDA acc, i : LET o == OpenS(i, 23, s.s_app[i]) IN <<acc[1] /\ o.ok, acc[2] \o o.content>>,
                      <<TRUE, <<>>>>, [i \in 1..Len(s.s_app) |-> i])
  IN [id |-> s.id,
      keylog_random_matches |-> cr = s.cr,
      client_finished_opens |-> cfin.ok, client_finished_why |-> cfin.why,
      client_verify_data_ok |-> cfin.content = <<20, 0, 0, 12>> \o vdc,
      server_finished_opens |-> sfin.ok, server_finished_why |-> sfin.why,
      server_verify_data_ok |-> sfin.content = <<20, 0, 0, 12>> \o vds,
      c_app_opens |-> app[1], c_app_plain |-> app[2],
      s_app_opens |-> sapp[1], s_app_plain |-> sapp[2]]

Init == c \in 1..Len(Sess) /\ done = FALSE
Next == /\ ~done /\ done' = TRUE /\ c' = c
        /\ PrintT(<<"WIRE", ToJson(Decode(Sess[c]))>>)
Spec == Init /\ [][Next]_<<c, done>>
=============================================================================
