------------------------------ MODULE CipherObj ------------------------------
(***************************************************************************)
(* C05.  The cipher.Block returned by sm4.NewCipher as an object: a        *)
(* sequence of Encrypt/Decrypt calls on ONE object, with dst == src or     *)
(* disjoint buffers.  By specification the object is stateless: the result *)
(* of a call is a function of (key, block) only, whatever was processed    *)
(* before - `last` records what an implementation with scratch buffers     *)
(* would still hold, and no result may depend on it.                       *)
(***************************************************************************)
EXTENDS Integers, Sequences, TLC, Json
CONSTANTS KeyIds, BlkIds, MaxOps
VARIABLES key, last, hist
vars == <<key, last, hist>>
Init == key \in KeyIds /\ last = <<"none", 0>> /\ hist = <<>>
Call(op, b, alias) == /\ last' = <<op, b>>
                      /\ hist' = Append(hist, [op |-> op, b |-> b, alias |-> alias])
                      /\ UNCHANGED key
\* a call whose source is shorter than a block: the object refuses it (it may panic) and nothing about it changes
Short(op) == /\ hist' = Append(hist, [op |-> op, b |-> 0, alias |-> FALSE])
             /\ UNCHANGED <<key, last>>
Next == /\ Len(hist) < MaxOps
        /\ \/ \E op \in {"enc", "dec"}, b \in BlkIds, a \in BOOLEAN : Call(op, b, a)
           \/ \E op \in {"encshort", "decshort"} : Short(op)
Spec == Init /\ [][Next]_vars
Emit == Len(hist) = MaxOps => PrintT(<<"BEH", ToJson([key |-> key, ops |-> hist])>>)
=============================================================================
