----------------------------- MODULE ConcConfigMC -----------------------------
(* Bounded model of ConcConfig: NC clients reconnect with the ticket they hold while a rotator installs *)
(* <<new key, previous first key>> (the documented way to rotate).  Checked: a ticket is accepted       *)
(* exactly when its key is among the keys in force at the instant it is opened; a client whose ticket   *)
(* is at most one rotation old at that instant resumes; tickets are only ever sealed under a key that   *)
(* was first at some instant; re-issue happens exactly when an old key opened the ticket.               *)
EXTENDS ConcConfig
CONSTANTS NC, MaxRot, MaxConn,
          DevTwoStepRotate    \* deviation switch: the rotation installs the new key first and re-adds the previous one in a second step
VARIABLES ticket,    \* client |-> key of the ticket it holds (0: none)
          cur,       \* client |-> id of its handshake in progress (0: none)
          nrot, nid, firsts,
          seen       \* history: handshake id |-> the key list in force when it opened the offered ticket
vars == <<keys, hs, ticket, cur, nrot, nid, firsts, seen>>
Clients == 1..NC
Init == CInit(<<1>>) /\ ticket = [c \in Clients |-> 0] /\ cur = [c \in Clients |-> 0] /\ nrot = 0 /\ nid = 0 /\ firsts = {1} /\ seen = <<>>
DoRotate == /\ nrot < MaxRot /\ Rotate(<<keys[1] + 1, keys[1]>>) /\ nrot' = nrot + 1 /\ firsts' = firsts \cup {keys[1] + 1}
            /\ UNCHANGED <<ticket, cur, nid, seen>>
\* (deviation) a rotation that is not atomic: handshakes can see the list without the previous key
HalfRotate == /\ DevTwoStepRotate /\ nrot < MaxRot /\ Len(keys) > 0
              /\ \/ (Len(keys) = 2 \/ keys = <<1>>) /\ Rotate(<<keys[1] + 1>>) /\ firsts' = firsts \cup {keys[1] + 1} /\ UNCHANGED nrot
                 \/ Len(keys) = 1 /\ keys[1] > 1 /\ Rotate(<<keys[1], keys[1] - 1>>) /\ nrot' = nrot + 1 /\ UNCHANGED firsts
              /\ UNCHANGED <<ticket, cur, nid, seen>>
Start(c) == /\ cur[c] = 0 /\ nid < MaxConn /\ Begin(nid + 1, ticket[c]) /\ nid' = nid + 1 /\ cur' = [cur EXCEPT ![c] = nid + 1]
            /\ UNCHANGED <<ticket, nrot, firsts, seen>>
Step(c) == /\ cur[c] # 0 /\ UNCHANGED <<ticket, cur, nrot, nid, firsts>>
           /\ \/ Open(cur[c]) /\ seen' = (cur[c] :> keys) @@ seen
              \/ Seal(cur[c]) /\ UNCHANGED seen
Finish(c) == /\ cur[c] # 0 /\ End(cur[c])
             /\ ticket' = [ticket EXCEPT ![c] = IF hs[cur[c]].newkey # 0 THEN hs[cur[c]].newkey ELSE @]
             /\ cur' = [cur EXCEPT ![c] = 0] /\ UNCHANGED <<nrot, nid, firsts, seen>>
Next == (~DevTwoStepRotate /\ DoRotate) \/ HalfRotate \/ \E c \in Clients : Start(c) \/ Step(c) \/ Finish(c)
Spec == Init /\ [][Next]_vars

Opened(h) == h.phase \in {"opened", "sealed", "done"}
AcceptedIffInForce == \A id \in DOMAIN hs : Opened(hs[id]) => (hs[id].resumed <=> (hs[id].off # 0 /\ InSeq(seen[id], hs[id].off)))
RecentTicketResumes == \A id \in DOMAIN hs : (Opened(hs[id]) /\ hs[id].off # 0 /\ hs[id].off >= seen[id][1] - 1) => hs[id].resumed
SealedUnderAFirstKey == \A id \in DOMAIN hs : hs[id].newkey # 0 => hs[id].newkey \in firsts
ReissueIffOldKey == \A id \in DOMAIN hs : hs[id].phase \in {"sealed", "done"} =>
                       ((hs[id].newkey # 0) <=> (~hs[id].resumed \/ hs[id].off # seen[id][1]))
\* a client never holds a ticket newer than the newest key
TicketsExist == \A c \in Clients : ticket[c] \in firsts \cup {0}
=============================================================================
