---------------------------- MODULE CipherObjTrace ----------------------------
(* C05.  Validates traces of real sm4 cipher objects: every Encrypt/Decrypt   *)
(* result equals the value TLC computed from SM4.tla for (key, block).        *)
EXTENDS CipherObj, SequencesExt
CONSTANTS TraceFile, TableFile
Trace == ndJsonDeserialize(TraceFile)
Table == ndJsonDeserialize(TableFile)    \* lines [k, b, enc, dec]
Row(k, b) == SelectSeq(Table, LAMBDA r : r.k = k /\ r.b = b)[1]
ASSUME TLCSet(1, 0)
VARIABLE l
T == Trace[l]
IsEvent(e) == l <= Len(Trace) /\ Trace[l].ev = e /\ l' = l + 1
TNew  == IsEvent("new") /\ T.err = FALSE /\ T.bs = 16 /\ key' = T.key /\ last' = <<"none", 0>> /\ hist' = <<>>
TCall == /\ IsEvent("call") /\ Call(T.op, T.b, T.alias)
         /\ T.out = (IF T.op = "enc" THEN Row(key, T.b).enc ELSE Row(key, T.b).dec)
         /\ (T.alias \/ T.src_intact)
         /\ T.tail_intact                     \* a destination longer than a block is written in its first 16 bytes only
\* the refused call: whatever it did (panic, error, nothing), the following calls are judged as ever
TShort == /\ IsEvent("short") /\ Short(T.op)
TraceInit == l = 1 /\ key = 0 /\ last = <<"none", 0>> /\ hist = <<>>
TraceNext == TNew \/ TCall \/ TShort
TraceSpec == TraceInit /\ [][TraceNext]_<<vars, l>>
HighWater == TLCSet(1, IF l > TLCGet(1) THEN l ELSE TLCGet(1))
Accepted == PrintT(<<"HWM", TLCGet(1), Len(Trace)>>) /\ TLCGet(1) = Len(Trace) + 1
=============================================================================
