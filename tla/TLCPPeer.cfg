SPECIFICATION Spec
CONSTANTS
  Roles = {"client_gm", "server_gm", "server_auto_gm", "client_tls", "server_tls", "server_auto_tls", "client_tls10", "server_tls10", "client_tls_ecdhe", "server_auto_tls10"}
  InjTypes = {"HREQ", "CH", "SH", "NST", "CERT", "CERT_RSA", "SKE", "CREQ", "SHD", "CKE", "CV", "FIN", "CSTATUS", "NPN", "UNK", "CERT_RSA2", "CERT_SM2"}
  Truncs = {"body1", "bodyhalf", "bodyminus1", "len+1", "len-1", "len0", "lenmax", "inner+", "inner-",
            "cutend2", "cutend3", "cutend4", "cutend5", "cutend8", "cutend16", "cutend32", "cutend64"}
  Versions = {0, 2, 256, 257, 512, 768, 769, 770, 771, 772, 1024, 65535}
  SuiteRewrites = {"empty", "unknown", "unknown_first", "odd", "ecdhe_only", "scsv"}
  Scripts = {"none", "omit_cv", "dup_cv", "dup_cke", "noccs_plainfin", "noccs_plainfin_hreq", "fin_before_ccs", "ccs_twice", "appdata_before_fin", "fin_trailing1", "fin_trailing20", "fin_short", "npn_offered", "npn_unsolicited"}
  Policies = {"none", "request", "requireany", "verifyifgiven", "requireandverify"}
  ExtTypes = {0, 5, 10, 11, 13, 16, 18, 23, 35, 13172, 65281, 64250}
  ExtShapes = {"nodata", "list0_8", "list0_16", "item0", "item0_16", "over", "under", "ones", "twice"}
  CutMax = 100
  SelfMals = {"hi01", "hi80", "hiff", "lo+1", "lo-1", "zero"}
  ClientAuth = {TRUE, FALSE}
INVARIANTS NeverCompleteAfterDeviation BenignCompletes
CONSTRAINT Emit
