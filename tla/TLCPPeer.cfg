SPECIFICATION Spec
CONSTANTS
  Roles = {"client_gm", "server_gm", "server_auto_gm", "client_tls", "server_tls", "server_auto_tls", "client_tls10", "server_tls10"}
  InjTypes = {"HREQ", "CH", "SH", "NST", "CERT", "CERT_RSA", "SKE", "CREQ", "SHD", "CKE", "CV", "FIN", "CSTATUS", "NPN", "UNK", "CERT_RSA2"}
  Truncs = {"body1", "bodyhalf", "bodyminus1", "len+1", "len-1", "len0", "lenmax", "inner+", "inner-"}
  Versions = {0, 2, 256, 257, 512, 768, 769, 770, 771, 772, 1024, 65535}
  SuiteRewrites = {"empty", "unknown", "unknown_first", "odd", "ecdhe_only", "scsv"}
  SelfMals = {"hi01", "hi80", "hiff", "lo+1", "lo-1", "zero"}
  ClientAuth = {TRUE, FALSE}
INVARIANTS NeverCompleteAfterDeviation BenignCompletes
CONSTRAINT Emit
