------------------------------ MODULE ModesTab ------------------------------
(* C11 table spec: TLC computes the ciphertext of each (mode, iv, family, length). *)
EXTENDS SM4, TLC, Json
CONSTANTS CasesFile     \* ndjson, one [mode, iv, fam, len, key] per line
CaseSeq == ndJsonDeserialize(CasesFile)
VARIABLES c, done
M == INSTANCE Modes WITH ModeSet <- {}, IvIds <- {}, LenSet <- {}, MaxOps <- 0, iv <- 0, hist <- <<>>
KeyB(k) == [j \in 1..16 |-> (k * 37 + j * 101 + j * j * (k + 3) + (k \div 256) * (j * 29 + 11)) % 256]      \* Val(<<"lcg", k>>); the usual key is k = 7
\* IVs by id.  3 / 4 differ only in the case of one ASCII letter ("0123456789abcdef" / "...deF"), 5 / 6 are 16 x 0xfe / 16 x 0xff
\* (bytes that are no valid UTF-8): pairs that a careless "same IV as before?" comparison takes for equal
Ascii16 == <<48, 49, 50, 51, 52, 53, 54, 55, 56, 57, 97, 98, 99, 100, 101, 102>>
IvB(i) == CASE i = 0 -> [j \in 1..16 |-> 0]
            [] i = 3 -> Ascii16
            [] i = 4 -> [Ascii16 EXCEPT ![16] = 70]
            [] i = 5 -> [j \in 1..16 |-> 254]
            [] i = 6 -> [j \in 1..16 |-> 255]
            [] OTHER -> [j \in 1..16 |-> (i * 53 + j * 17) % 256]
PtByte(f, n, i) == CASE f = 0 -> (i * 29 + 11) % 256
                     [] f = 1 -> 1 + ((n - i) % 16)      \* ends ... 03 02 01: looks like padding
                     [] f = 2 -> 16
Pt(f, n) == [i \in 1..n |-> PtByte(f, n, i)]
Init == c \in 1..Len(CaseSeq) /\ done = FALSE
Next == /\ ~done /\ done' = TRUE /\ c' = c
        /\ LET x == CaseSeq[c] IN
           PrintT(<<"CASE", ToJson([case |-> x, expect |-> M!Encrypt(x.mode, KeyB(x.key), IvB(x.iv), Pt(x.fam, x.len))])>>)
Spec == Init /\ [][Next]_<<c, done>>
=============================================================================
