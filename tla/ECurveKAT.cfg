SPECIFICATION Spec
