SPECIFICATION Spec
CONSTANTS MaxLen = 6
