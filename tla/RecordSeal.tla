------------------------------ MODULE RecordSeal ------------------------------
(***************************************************************************)
(* C07.  The CBC padding catalogue.  TLC is the SENDER: from the key log   *)
(* of a live GMSSL session (ECC-SM4-CBC-SM3) it derives the client write   *)
(* keys with P_SM3 and seals application records with ANY padding length   *)
(* 0..255 - which the library's own sender never produces - optionally     *)
(* with one padding byte corrupted.  GM/T 0024 (TLS 1.1 CBC): a record is  *)
(* valid iff all padding_length+1 trailing bytes equal padding_length and  *)
(* the MAC verifies.  The real receiver must deliver exactly the valid     *)
(* ones and reject the others with a fatal error.                          *)
(***************************************************************************)
EXTENDS PRF, SM4, TLC, Json
CONSTANT JobsFile
Jobs == ndJsonDeserialize(JobsFile)     \* one job per connection: [id, ms, cr, sr, recs: seq of [seq, pad, corrupt, content]]
VARIABLES c, done

CbcEnc(rk, iv, pt) ==
  FoldLeft(LAMBDA acc, i : LET p == SubSeq(pt, 16 * i - 15, 16 * i)
                               ct == EncRK(rk, [j \in 1..16 |-> p[j] ^^ acc[1][j]])
                           IN <<ct, acc[2] \o ct>>,
           <<iv, <<>>>>, [i \in 1..(Len(pt) \div 16) |-> i])[2]
Seq8(n) == <<0, 0, 0, 0, 0, 0, n \div 256, n % 256>>
U16(n) == <<n \div 256, n % 256>>
IvOf(n) == [j \in 1..16 |-> (n * 29 + j * 13 + 5) % 256]

Seal(rk, macKey, r) ==
  LET n == Len(r.content)
      mac == HMAC(macKey, Seq8(r.seq) \o <<23, 1, 1>> \o U16(n) \o r.content)
      padding == [j \in 1..(r.pad + 1) |-> IF j - 1 = r.corrupt THEN (r.pad + 1) % 256 ELSE r.pad]
      pt == r.content \o mac \o padding
  IN IvOf(r.seq) \o CbcEnc(rk, IvOf(r.seq), pt)

Do(job) ==
  LET kb == PRF(job.ms, LblKeyExp, job.sr \o job.cr, 128)
      cmac == SubSeq(kb, 1, 32)
      rk == RoundKeys(SubSeq(kb, 65, 80))
  IN [id |-> job.id,
      recs |-> [i \in 1..Len(job.recs) |->
                  [body |-> Seal(rk, cmac, job.recs[i]),
                   valid |-> job.recs[i].corrupt = -1,
                   aligned |-> (Len(job.recs[i].content) + 32 + job.recs[i].pad + 1) % 16 = 0]]]

Init == c \in 1..Len(Jobs) /\ done = FALSE
Next == /\ ~done /\ done' = TRUE /\ c' = c
        /\ PrintT(<<"SEALED", ToJson(Do(Jobs[c]))>>)
Spec == Init /\ [][Next]_<<c, done>>
=============================================================================
