SPECIFICATION Spec
INVARIANT Contract
