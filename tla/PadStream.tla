------------------------------ MODULE PadStream ------------------------------
(***************************************************************************)
(* C19.  Abstract specification of the four streaming PKCS#7 objects of    *)
(* sm4/padding: the padding reader ("reader"), the un-padding writer       *)
(* ("writer") and the two block helpers P7BlockEnc ("enc") and             *)
(* P7BlockDecrypt ("dec", both with an identity BlockMode so that the      *)
(* byte stream stays visible).                                             *)
(*                                                                         *)
(* The specification is the MOST GENERAL correct object: it is free in how *)
(* many bytes it consumes and produces per step (chunking is the           *)
(* implementation's choice), and fixes only what the property fixes:       *)
(*   - the bytes produced are, in order, exactly Out(1..outTotal);         *)
(*   - a byte is produced only after the input it depends on was consumed  *)
(*     (no pad byte before the source reported EOF);                       *)
(*   - completion ("eof" for the reader, nil from Final / the helper) only *)
(*     when everything was produced; an invalid final block => error;      *)
(*   - progress: a Read call with a non-empty buffer returns no byte and   *)
(*     no EOF only if the source itself stalled.                           *)
(* The environment (source answers, caller buffers, write sizes) is        *)
(* unconstrained.  PadStreamImpl refines this spec; PadStreamTrace checks  *)
(* traces of the real code against it.                                     *)
(***************************************************************************)
EXTENDS Integers, Sequences, FiniteSets

CONSTANTS Kinds,       \* subset of {"reader","writer","enc","dec"}
          BlockSizes,  \* e.g. {8,16}
          DataLens,    \* lengths of the original (unpadded) data
          Bads,        \* subset of {"none","zero","big","fill","fill2","nopad","empty"}
          MaxReq       \* largest buffer / write size the environment uses

SrcByte(i) == 128 + ((i * 7) % 113)          \* data bytes are >= 0x80: never a pad byte
PadLen(n, b) == b - (n % b)

(* The stream a writer/dec is fed: Padded(n) with the last block damaged as `bad` says. *)
StreamLen(n, b, bad) == IF bad = "empty" THEN 0
                        ELSE IF bad = "nopad" THEN (IF n = 0 THEN b ELSE ((n + b - 1) \div b) * b)
                        ELSE n + PadLen(n, b)
StreamByte(i, n, b, bad) ==
  LET L == StreamLen(n, b, bad) p == PadLen(n, b) IN
  CASE bad = "none"  -> IF i <= n THEN SrcByte(i) ELSE p
    [] bad = "zero"  -> IF i <= n THEN SrcByte(i) ELSE IF i = L THEN 0 ELSE p
    [] bad = "big"   -> IF i <= n THEN SrcByte(i) ELSE IF i = L THEN b + 1 ELSE p
    [] bad = "fill"  -> \* last byte says p, but the first pad byte is wrong (needs p >= 2)
                        IF i <= n THEN SrcByte(i) ELSE IF i = n + 1 THEN (IF p = 1 THEN 2 ELSE p - 1) ELSE p
    [] bad = "fill2" -> \* the first TWO pad bytes are wrong and equal (85): faults that cancel in an XOR accumulator (needs p >= 3)
                        IF i <= n THEN SrcByte(i)
                        ELSE IF p >= 3 THEN (IF i <= n + 2 THEN 85 ELSE p)
                        ELSE IF i = n + 1 THEN (IF p = 1 THEN 2 ELSE p - 1) ELSE p
    [] bad = "nopad" -> SrcByte(i)
    [] OTHER         -> 0
\* "fill" with p = 1 degenerates into a single byte 2 preceded by data (>=0x80): still invalid.

IsPull(k) == k \in {"reader", "enc", "dec", "rt"}       \* object pulls its input from a source
Pads(k)   == k \in {"reader", "enc"}              \* object adds the pad (else removes it)

VARIABLES kind, bs, n, bad,
          inPos,      \* input bytes consumed so far
          inEof,      \* the source has reported io.EOF (pull kinds) / Final was called (writer)
          outLen,     \* bytes produced so far
          fin,        \* "run", "ok" (eof / nil), "err"
          call,       \* reader only: -1 = no Read in progress, else the buffer length
          zs,         \* reader only: a source read of this call returned 0 bytes
          post        \* reader only: Read calls made after EOF was returned
vars == <<kind, bs, n, bad, inPos, inEof, outLen, fin, call, zs, post>>

\* "rt" is P7BlockEnc followed by P7BlockDecrypt under real SM4-CBC: data in, the same data out
Raw(k)   == Pads(k) \/ k = "rt"
InLen    == IF Raw(kind) THEN n ELSE StreamLen(n, bs, bad)
In(i)    == IF Raw(kind) THEN SrcByte(i) ELSE StreamByte(i, n, bs, bad)
MustErr  == ~Raw(kind) /\ bad # "none"
OutTotal == IF Pads(kind) THEN n + PadLen(n, bs) ELSE IF MustErr THEN InLen ELSE n
Out(i)   == IF Pads(kind) THEN (IF i <= n THEN SrcByte(i) ELSE PadLen(n, bs)) ELSE In(i)
\* input needed before output byte j may be produced
Avail    == IF Pads(kind) THEN (IF inEof /\ inPos = n THEN OutTotal ELSE inPos)
            ELSE inPos

TypeOK == /\ kind \in Kinds /\ bs \in BlockSizes /\ n \in DataLens /\ bad \in Bads
          /\ inPos \in 0..InLen /\ inEof \in BOOLEAN /\ outLen \in 0..OutTotal
          /\ fin \in {"run", "ok", "err"} /\ call \in -1..MaxReq /\ zs \in BOOLEAN /\ post \in 0..2

Init == /\ kind \in Kinds /\ bs \in BlockSizes /\ n \in DataLens
        /\ bad \in (IF Raw(kind) THEN {"none"} ELSE Bads)
        /\ inPos = 0 /\ inEof = FALSE /\ outLen = 0 /\ fin = "run" /\ call = -1 /\ zs = FALSE /\ post = 0

(* ---- input side ---- *)
\* a pull object reads its source with a buffer of `req` bytes; the source answers (k, eof)
SrcRead(req, k, eof) ==
  /\ IsPull(kind) /\ fin = "run" /\ (kind = "reader" => call >= 0)
  /\ k \in 0..req /\ inPos + k <= InLen
  /\ (eof => inPos + k = InLen) /\ (inEof => eof)       \* environment: EOF is final
  /\ inPos' = inPos + k /\ inEof' = (inEof \/ eof)
  /\ zs' = (zs \/ k = 0)
  /\ UNCHANGED <<kind, bs, n, bad, outLen, fin, call, post>>

\* the caller pushes `len` bytes into the writer, which must take them all
WWrite(len) ==
  /\ kind = "writer" /\ fin = "run" /\ ~inEof
  /\ len \in 0..MaxReq /\ inPos + len <= InLen
  /\ inPos' = inPos + len
  /\ UNCHANGED <<kind, bs, n, bad, inEof, outLen, fin, call, zs, post>>

WFinalCall == /\ kind = "writer" /\ fin = "run" /\ ~inEof /\ inPos = InLen
              /\ inEof' = TRUE
              /\ UNCHANGED <<kind, bs, n, bad, inPos, outLen, fin, call, zs, post>>

(* ---- output side ---- *)
\* k more bytes are produced; their values are Out(outLen+1 .. outLen+k) (checked on traces)
Produce(k) == /\ k \in 0..MaxReq /\ outLen + k <= OutTotal /\ outLen + k <= Avail
              /\ (MustErr => outLen + k <= InLen - 1)  \* never the whole of an invalid stream
              /\ outLen' = outLen + k

\* writer / enc / dec hand bytes to the underlying writer
Emit(k) == /\ kind \in {"writer", "enc", "dec", "rt"} /\ fin = "run" /\ k >= 1
           /\ Produce(k)
           /\ UNCHANGED <<kind, bs, n, bad, inPos, inEof, fin, call, zs, post>>

\* the caller invokes Read with a buffer of length b
RCall(b) == /\ kind = "reader" /\ call = -1 /\ b \in 0..MaxReq /\ post < 2
            /\ call' = b /\ zs' = FALSE
            /\ post' = IF fin = "run" THEN post ELSE post + 1
            /\ UNCHANGED <<kind, bs, n, bad, inPos, inEof, outLen, fin>>

\* Read returns k bytes and err in {"nil","eof"}
RRet(k, eof) ==
  /\ kind = "reader" /\ call >= 0 /\ k <= call
  /\ IF fin = "run"
       THEN /\ Produce(k)
            /\ (eof => outLen + k = OutTotal /\ inEof)
            /\ (k = 0 /\ ~eof /\ call > 0 => zs)          \* progress
            /\ fin' = IF eof THEN "ok" ELSE "run"
       ELSE /\ k = 0 /\ eof /\ UNCHANGED <<outLen, fin>>   \* after EOF: nothing more, EOF again
  /\ call' = -1
  /\ UNCHANGED <<kind, bs, n, bad, inPos, inEof, zs, post>>

\* Final / P7BlockEnc / P7BlockDecrypt return
Done(ok) ==
  /\ kind \in {"writer", "enc", "dec", "rt"} /\ fin = "run" /\ inEof
  /\ IF ok THEN ~MustErr /\ outLen = OutTotal /\ inPos = InLen
           ELSE MustErr
  /\ fin' = IF ok THEN "ok" ELSE "err"
  /\ UNCHANGED <<kind, bs, n, bad, inPos, inEof, outLen, call, zs, post>>

Next == \/ \E req \in 0..MaxReq, k \in 0..MaxReq, e \in BOOLEAN : SrcRead(req, k, e)
        \/ \E l \in 0..MaxReq : WWrite(l)
        \/ WFinalCall
        \/ \E k \in 1..MaxReq : Emit(k)
        \/ \E b \in 0..MaxReq : RCall(b)
        \/ \E k \in 0..MaxReq, e \in BOOLEAN : RRet(k, e)
        \/ \E ok \in BOOLEAN : Done(ok)

Spec == Init /\ [][Next]_vars

(* ---- properties of the abstract machine (sanity of the specification itself) ---- *)
\* completion implies the whole expected output, and nothing was produced ahead of its input
Complete   == fin = "ok" => outLen = OutTotal /\ inEof /\ inPos = InLen /\ ~MustErr
NoPadEarly == Pads(kind) /\ outLen > n => inEof /\ inPos = n
Causal     == ~Pads(kind) => outLen <= inPos
BadRejects == MustErr => fin # "ok"
\* the pad that a reader/enc emits is a valid PKCS#7 pad, and a good stream un-pads to the data
PadValid   == \A b \in BlockSizes, m \in DataLens :
                 /\ (m + PadLen(m, b)) % b = 0 /\ PadLen(m, b) \in 1..b
                 /\ StreamLen(m, b, "none") = m + PadLen(m, b)
=============================================================================
