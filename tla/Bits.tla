-------------------------------- MODULE Bits --------------------------------
(***************************************************************************)
(* 32-bit words for TLC, whose integers are 32-bit signed: a word is the   *)
(* pair <<hi, lo>> of its 16-bit halves.  Bit operations come from the     *)
(* CommunityModules Bitwise module (Java overrides).  Values that flow     *)
(* through loops are tuple literals (DESIGN.md section 2).                 *)
(***************************************************************************)
EXTENDS Integers, Sequences, Bitwise, SequencesExt

M16 == 65536

W(hi, lo) == <<hi, lo>>
WXor(a, b) == <<a[1] ^^ b[1], a[2] ^^ b[2]>>
WAnd(a, b) == <<a[1] & b[1], a[2] & b[2]>>
WOr(a, b)  == <<a[1] | b[1], a[2] | b[2]>>
WNot(a)    == <<65535 - a[1], 65535 - a[2]>>
WAdd(a, b) == LET lo == a[2] + b[2] hi == a[1] + b[1] + (lo \div M16) IN <<hi % M16, lo % M16>>

Pow2(k) == CASE k = 0 -> 1 [] k = 1 -> 2 [] k = 2 -> 4 [] k = 3 -> 8 [] k = 4 -> 16 [] k = 5 -> 32
             [] k = 6 -> 64 [] k = 7 -> 128 [] k = 8 -> 256 [] k = 9 -> 512 [] k = 10 -> 1024
             [] k = 11 -> 2048 [] k = 12 -> 4096 [] k = 13 -> 8192 [] k = 14 -> 16384
             [] k = 15 -> 32768 [] k = 16 -> 65536

\* rotate left by k in 0..31
RotL16(hi, lo, k) == \* k in 0..15
  IF k = 0 THEN <<hi, lo>>
  ELSE <<((hi * Pow2(k)) % M16) + (lo \div Pow2(16 - k)), ((lo * Pow2(k)) % M16) + (hi \div Pow2(16 - k))>>
WRotL(a, k) == LET kk == k % 32 IN
               IF kk >= 16 THEN RotL16(a[2], a[1], kk - 16) ELSE RotL16(a[1], a[2], kk)
\* logical shifts
WShl(a, k) == IF k >= 32 THEN <<0, 0>>
              ELSE IF k >= 16 THEN <<(a[2] * Pow2(k - 16)) % M16, 0>>
              ELSE IF k = 0 THEN a
              ELSE <<((a[1] * Pow2(k)) % M16) + (a[2] \div Pow2(16 - k)), (a[2] * Pow2(k)) % M16>>
WShr(a, k) == IF k >= 32 THEN <<0, 0>>
              ELSE IF k >= 16 THEN <<0, a[1] \div Pow2(k - 16)>>
              ELSE IF k = 0 THEN a
              ELSE <<a[1] \div Pow2(k), (a[2] \div Pow2(k)) + ((a[1] % Pow2(k)) * Pow2(16 - k))>>

\* bytes (big-endian) <-> word
WFromBytes(b0, b1, b2, b3) == <<b0 * 256 + b1, b2 * 256 + b3>>
WBytes(a) == <<a[1] \div 256, a[1] % 256, a[2] \div 256, a[2] % 256>>

Range1(n) == [i \in 1..n |-> i]        \* index sequence for FoldLeft loops
\* flatten a sequence of words into bytes
WordsToBytes(ws) == FoldLeft(LAMBDA acc, w : acc \o WBytes(w), <<>>, ws)
\* bytes (length multiple of 4) into words
BytesToWords(bs) == FoldLeft(LAMBDA acc, i : Append(acc, WFromBytes(bs[4*i-3], bs[4*i-2], bs[4*i-1], bs[4*i])),
                             <<>>, Range1(Len(bs) \div 4))
XorBytes(a, b) == [i \in 1..Len(a) |-> a[i] ^^ b[i]]

HexDigit(d) == CASE d = 0 -> "0" [] d = 1 -> "1" [] d = 2 -> "2" [] d = 3 -> "3" [] d = 4 -> "4"
                 [] d = 5 -> "5" [] d = 6 -> "6" [] d = 7 -> "7" [] d = 8 -> "8" [] d = 9 -> "9"
                 [] d = 10 -> "a" [] d = 11 -> "b" [] d = 12 -> "c" [] d = 13 -> "d"
                 [] d = 14 -> "e" [] d = 15 -> "f"
=============================================================================
