------------------------------ MODULE SM3Table ------------------------------
(* Table spec: one state per case; TLC evaluates the executable SM3 / HMAC /  *)
(* PBKDF2 definitions and prints the expected value of each case.            *)
EXTENDS SM3, HMAC, TLC, Json
CONSTANTS Lens,        \* message lengths whose digest is tabulated (content family 0)
          EdgeLens     \* lengths also tabulated for the all-0x00 and all-0xff families
VARIABLES c, done
MsgByte(f, i) == IF f = 0 THEN (i * 13 + 7) % 256 ELSE IF f = 1 THEN 255 ELSE 0
Msg(f, n) == [i \in 1..n |-> MsgByte(f, i)]
KeyByte(i) == (i * 31 + 3) % 256
Key(n) == [i \in 1..n |-> KeyByte(i)]

HmacCases == { [kind |-> "hmac", klen |-> k, mlen |-> m] : k \in {0, 1, 16, 32, 63, 64, 65, 100}, m \in {0, 1, 55, 56, 64, 65, 70, 72, 100, 129} }
PbkdfCases == { [kind |-> "pbkdf2", plen |-> p, slen |-> s, iter |-> it, dklen |-> d] :
                 p \in {0, 8, 70}, s \in {0, 8}, it \in {1, 2, 3}, d \in {1, 32, 33, 64} }
DigestCases == { [kind |-> "digest", fam |-> 0, len |-> n] : n \in Lens } \cup
               { [kind |-> "digest", fam |-> f, len |-> n] : f \in {1, 2}, n \in EdgeLens }
Cases == DigestCases \cup HmacCases \cup PbkdfCases

Expect(x) == CASE x.kind = "digest" -> Digest(Msg(x.fam, x.len))
               [] x.kind = "hmac"   -> HMAC(Key(x.klen), Msg(0, x.mlen))
               [] x.kind = "pbkdf2" -> PBKDF2(Key(x.plen), Msg(0, x.slen), x.iter, x.dklen)

Init == c \in Cases /\ done = FALSE
Next == /\ ~done /\ done' = TRUE /\ c' = c
        /\ PrintT(<<"CASE", ToJson([case |-> c, expect |-> Expect(c)])>>)
Spec == Init /\ [][Next]_<<c, done>>
=============================================================================
