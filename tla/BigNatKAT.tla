------------------------------ MODULE BigNatKAT ------------------------------
EXTENDS BigNat, TLC
VARIABLE x
Init == x = 0
Next == /\ x = 0 /\ x' = 1
        /\ Assert(BAdd("ff", "1") = "100", "add")
        /\ Assert(BMulMod("fffffffeffffffffffffffffffffffffffffffff00000000ffffffffffffffff", "2", "fffffffeffffffffffffffffffffffff7203df6b21c6052b53bbf40939d54123") = BMod(BMul("fffffffeffffffffffffffffffffffffffffffff00000000ffffffffffffffff", "2"), "fffffffeffffffffffffffffffffffff7203df6b21c6052b53bbf40939d54123"), "mulmod")
        /\ Assert(BMulMod(BInvMod("3", "17"), "3", "17") = "1", "inv")
        /\ Assert(BToBytes("1ff", 4) = <<0, 0, 1, 255>> /\ BFromBytes(<<0, 1, 255>>) = "1ff" /\ BToBytes("0", 0) = <<>>, "bytes")
        /\ Assert(BBit("5", 0) /\ ~BBit("5", 1) /\ BBitLen("ff") = 8 /\ BCmp("a", "9") = 1, "bits")
Spec == Init /\ [][Next]_x
=============================================================================
