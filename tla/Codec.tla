--------------------------------- MODULE Codec ---------------------------------
(***************************************************************************)
(* C14.  Serialisation conventions for integers and what the library's     *)
(* serialisers are specified to do with them.  A value is a natural below  *)
(* 256^W (W = 3 "bytes" here; the real width is 32); its shapes are the    *)
(* number of leading zero bytes, a leading zero nibble, the high bit.      *)
(* A serialiser is a (writer convention, reader convention) pair; TLC      *)
(* checks Dec(reader, Enc(writer, v)) = v for every value.  The table of   *)
(* (serialiser, shape, password class) cases is replayed on real keys      *)
(* realising each shape.                                                   *)
(***************************************************************************)
EXTENDS Integers, Sequences, FiniteSets, TLC, Json
CONSTANTS W,            \* width in bytes of the model integers
          DevHexMinimal \* the repaired defect: hexadecimal private-key writer used the minimal rendering

Digits(v, base, n) == [i \in 1..n |-> (v \div (base ^ (n - i))) % base]     \* exactly n digits, big endian
RECURSIVE NDigits(_, _)
NDigits(v, base) == IF v < base THEN 1 ELSE 1 + NDigits(v \div base, base)
Minimal(v, base) == Digits(v, base, NDigits(v, base))
Val(ds, base) == LET F[i \in 0..Len(ds)] == IF i = 0 THEN 0 ELSE F[i - 1] * base + ds[i] IN F[Len(ds)]

\* writer conventions -> sequence of symbols (bytes, or hex digits for the hex conventions)
Enc(conv, v) == CASE conv = "fixed" -> Digits(v, 256, W)
                  [] conv = "min" -> Minimal(v, 256)
                  [] conv = "derint" -> LET m == Minimal(v, 256) IN IF m[1] >= 128 THEN <<0>> \o m ELSE m
                  [] conv = "hexfixed" -> Digits(v, 16, 2 * W)
                  [] conv = "hexmin" -> Minimal(v, 16)
\* reader conventions -> value, or -1 for an error
Dec(conv, s) == CASE conv = "fixed" -> IF Len(s) = W THEN Val(s, 256) ELSE -1
                  [] conv = "anybytes" -> Val(s, 256)
                  [] conv = "derint" -> IF Len(s) = 0 \/ s[1] >= 128 \/ (Len(s) > 1 /\ s[1] = 0 /\ s[2] < 128) THEN -1 ELSE Val(s, 256)
                  [] conv = "hexbytes" -> IF Len(s) % 2 = 1 THEN -1 ELSE Val(s, 16)      \* hex.DecodeString: whole bytes only
\* the serialisers of the library: name |-> <<writer, reader>>
Ser == [privhex |-> <<IF DevHexMinimal THEN "hexmin" ELSE "hexfixed", "hexbytes">>,
        pubhex |-> <<"hexfixed", "hexbytes">>,          \* 04 || x || y, each coordinate fixed width
        compressed |-> <<"fixed", "anybytes">>,         \* parity byte || x fixed width
        asn1sig |-> <<"derint", "derint">>,             \* SEQUENCE { r INTEGER, s INTEGER }
        asn1cipher |-> <<"derint", "derint">>,          \* x, y as INTEGER; re-padded to fixed width when converted back to raw
        pkcs8 |-> <<"min", "anybytes">>,                \* ECPrivateKey.privateKey OCTET STRING
        pkix |-> <<"fixed", "fixed">>]                  \* uncompressed point in the BIT STRING
RoundTrips(name) == \A v \in 0..(256 ^ W - 1) : Dec(Ser[name][2], Enc(Ser[name][1], v)) = v
AllRoundTrip == \A name \in DOMAIN Ser : RoundTrips(name)

\* ---- the table replayed on the real code ----
Shapes == {"plain", "lead0_1", "lead0_2", "lead0_nibble", "highbit"}
Pwds == {"none", "empty", "ascii", "utf8", "long"}
VARIABLES c, done
Cases == {[kind |-> "key", ser |-> s, shape |-> sh, pwd |-> "none"] : s \in {"privhex", "pubhex", "pkix"}, sh \in Shapes} \cup
         \* the compressed form keeps x and one bit of y: both parities for every shape of x (y shapes matter only through the parity)
         {[kind |-> "key", ser |-> "compressed", shape |-> sh, pwd |-> "none", par |-> pa] : sh \in Shapes, pa \in {"even", "odd"}} \cup
         {[kind |-> "key", ser |-> "pkcs8", shape |-> sh, pwd |-> p] : sh \in Shapes, p \in Pwds} \cup
         \* the ends of the private-key range: d = 1 and d = n - 2 (the largest key GenerateKey can return)
         {[kind |-> "key", ser |-> s, shape |-> sh, pwd |-> "none"] : s \in {"privhex", "pkcs8"}, sh \in {"d_one", "d_max"}} \cup
         {[kind |-> "key", ser |-> "pkcs8", shape |-> sh, pwd |-> "ascii"] : sh \in {"d_one", "d_max"}} \cup
         \* the byte that ends the key's DER (the low byte of the public y) takes every value a pad byte of the password-based
         \* encryption can have (1..16), for private keys of 32, 31 and 30 bytes (the DER length decides the pad length)
         {[kind |-> "key", ser |-> "pkcs8", shape |-> "ylow" \o ToString(k) \o "_" \o ToString(l), pwd |-> "ascii"] : k \in 1..16, l \in {30, 31, 32}} \cup
         \* (top80: the most significant byte is exactly 80, the smallest value that needs the sign octet)
         {[kind |-> "sig", ser |-> "asn1sig", shape |-> sh, pwd |-> "none"] : sh \in Shapes \cup {"top80", "d_one", "d_max", "v_nm1"}} \cup   \* (1, n-2, n-1: r and s range over [1, n-1])
         {[kind |-> "cipher", ser |-> "asn1cipher", shape |-> sh, pwd |-> "none"] : sh \in {"plain", "lead0_1"}} \cup
         {[kind |-> "wrongpwd", ser |-> "pkcs8", shape |-> "plain", pwd |-> p] : p \in {"ascii", "utf8", "long"}} \cup
         {[kind |-> "loader", ser |-> l, shape |-> m, pwd |-> "none"] :
            l \in {"X509KeyPair", "GMX509KeyPairsSingle", "GMX509KeyPairs", "LoadX509KeyPair", "LoadGMX509KeyPair", "LoadGMX509KeyPairs"},
            \* match_prefixed: the matching key behind other PEM blocks (EC PARAMETERS, the certificate) in the key input;
            \* grafted: another private scalar in a PKCS#8 file whose optional public-key field holds the certificate's point;
            \* negated: the key n-d, whose point has the same x; match_chain: the certificate PEM holds the leaf followed by
            \* its CA, the key is the leaf's; chain_cakey: the same PEM with the CA's key (it matches a certificate, not the leaf)
            m \in {"match", "otherkey", "swapped", "negated", "match_chain", "chain_cakey", "grafted", "match_prefixed"}}
Expect(x) == CASE x.kind \in {"key", "sig", "cipher"} -> [roundtrip |-> TRUE]
               \* decoding is a function of (bytes, password) alone: the right password opens the key before and after any
               \* number of attempts with other passwords, and those fail whether or not the right one was used before
               [] x.kind = "wrongpwd" -> [error |-> TRUE, right_opens_before |-> TRUE, right_opens_after |-> TRUE, error_on_fresh_file |-> TRUE]
               [] x.kind = "loader" -> [accept |-> x.shape \in {"match", "match_chain", "match_prefixed"}]
Init == c \in Cases /\ done = FALSE
Next == /\ ~done /\ done' = TRUE /\ c' = c /\ PrintT(<<"CASE", ToJson([case |-> c, expect |-> Expect(c)])>>)
Spec == Init /\ [][Next]_<<c, done>>
=============================================================================
