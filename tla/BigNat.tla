------------------------------- MODULE BigNat -------------------------------
(***************************************************************************)
(* Naturals of arbitrary size for TLC (whose integers are 32-bit): a value *)
(* is a lowercase hexadecimal string without leading zeros.  The operators *)
(* below are implemented by the Java class overrides/BigNat.java over      *)
(* java.math.BigInteger; the TLA+ bodies are never evaluated (they state   *)
(* the meaning on values that fit TLC's integers and are cross-checked     *)
(* against the override on small operands in ECurveKAT).                   *)
(***************************************************************************)
EXTENDS Integers, Sequences

BAdd(a, b) == CHOOSE s \in STRING : TRUE
BSub(a, b) == CHOOSE s \in STRING : TRUE          \* a >= b
BMul(a, b) == CHOOSE s \in STRING : TRUE
BMod(a, m) == CHOOSE s \in STRING : TRUE
BDiv(a, b) == CHOOSE s \in STRING : TRUE
BAddMod(a, b, m) == CHOOSE s \in STRING : TRUE
BSubMod(a, b, m) == CHOOSE s \in STRING : TRUE    \* (a - b) mod m, in 0..m-1
BMulMod(a, b, m) == CHOOSE s \in STRING : TRUE
BInvMod(a, m) == CHOOSE s \in STRING : TRUE
BCmp(a, b) == CHOOSE i \in {-1, 0, 1} : TRUE
BBit(a, i) == CHOOSE b \in BOOLEAN : TRUE
BBitLen(a) == CHOOSE i \in Nat : TRUE
BShr(a, k) == CHOOSE s \in STRING : TRUE
BAnd(a, b) == CHOOSE s \in STRING : TRUE
BFromInt(i) == CHOOSE s \in STRING : TRUE
BToInt(a) == CHOOSE i \in Nat : TRUE
BFromBytes(seq) == CHOOSE s \in STRING : TRUE
BToBytes(a, len) == CHOOSE s \in Seq(0..255) : TRUE

BEq(a, b) == BCmp(a, b) = 0
BLt(a, b) == BCmp(a, b) < 0
BIsZero(a) == a = "0"
=============================================================================
