---------------------------- MODULE PadStreamImpl ----------------------------
(***************************************************************************)
(* C19.  The algorithms of sm4/padding as they are in the code, one action *)
(* per step of the code, composed with an unconstrained environment        *)
(* (source answers, caller buffer sizes, write sizes).  TLC checks that    *)
(* every behaviour is a behaviour of the abstract PadStream specification  *)
(* (refinement, property AbsSpec) and that the produced bytes are the      *)
(* expected ones (DataOK).  `hist` records the environment's choices; the  *)
(* harness replays them against the real objects.                          *)
(*                                                                         *)
(* Deviation switches reproduce the defects repaired by the "fix:" commits *)
(* (known_findings.json, fixed entries); with a switch on, TLC finds the   *)
(* corresponding counter-example (used as the anti-vacuity self-test).     *)
(***************************************************************************)
EXTENDS Integers, Sequences, FiniteSets, TLC, Json

CONSTANTS Kinds, BlockSizes, DataLens, Bads, MaxReq,
          Reqs,          \* buffer / write sizes the environment picks from (subset of 0..MaxReq)
          Chunk,         \* helper chunk size (1024 in the code; multiple of every block size)
          SwapSize,      \* writer swap buffer (1024 in the old code)
          SrcKs,         \* byte counts the source answers with (capped by request and remainder)
          MaxZero,       \* bound on consecutive zero-byte source answers (keeps the model finite)
          DevShortReadPads, DevSwapOverflow, DevFinalLastByteOnly, DevHelperSingleRead

VARIABLES kind, bs, n, bad, inPos, inEof, outLen, fin, call, zs, post,   \* abstract state
          pc,
          rEof, rEop, rReaded, rPadSize, rPadRem, rN, rBuf, rVals, retK, retEof,   \* reader object
          wLo, wHi,                 \* writer cache = stream positions wLo+1..wHi
          hN, hVals, hErr,          \* helper: bytes accumulated in bufIn, their values
          emit,                     \* every byte produced so far
          zrun,                     \* consecutive zero-byte source answers
          panic,                    \* the code would have panicked here
          hist                      \* environment choices, for replay
avars == <<kind, bs, n, bad, inPos, inEof, outLen, fin, call, zs, post>>
ivars == <<pc, rEof, rEop, rReaded, rPadSize, rPadRem, rN, rBuf, rVals, retK, retEof, wLo, wHi,
           hN, hVals, hErr, emit, zrun, panic, hist>>
vars == <<avars, ivars>>

A == INSTANCE PadStream
AbsSpec == A!Spec

Min(a, b) == IF a < b THEN a ELSE b
Rep(v, k) == [i \in 1..k |-> v]
InVals(lo, hi) == [i \in 1..(hi - lo) |-> A!In(lo + i)]      \* stream bytes lo+1..hi
H(e) == hist' = Append(hist, e)

Init == /\ A!Init
        /\ pc = "idle"
        /\ rEof = FALSE /\ rEop = FALSE /\ rReaded = 0 /\ rPadSize = 0 /\ rPadRem = -1
        /\ rN = 0 /\ rBuf = 0 /\ rVals = <<>> /\ retK = 0 /\ retEof = FALSE
        /\ wLo = 0 /\ wHi = 0 /\ hN = 0 /\ hVals = <<>> /\ hErr = FALSE
        /\ emit = <<>> /\ zrun = 0 /\ panic = FALSE /\ hist = <<>>

UA == UNCHANGED avars
UR == UNCHANGED <<rEof, rEop, rReaded, rPadSize, rPadRem, rN, rBuf, rVals, retK, retEof>>
UW == UNCHANGED <<wLo, wHi>>
UH == UNCHANGED <<hN, hVals, hErr>>

(* ===================== PKCS7PaddingReader.Read ===================== *)
\* entry of Read(buf) with len(buf) = b, from whoever calls it
ReadEnter(b) ==
  /\ rBuf' = b /\ rN' = 0 /\ rVals' = <<>>
  /\ IF rEof /\ rEop
       THEN pc' = "r_ret" /\ retK' = 0 /\ retEof' = TRUE
       ELSE pc' = (IF rEof THEN "r_pad" ELSE "r_loop") /\ UNCHANGED <<retK, retEof>>
  /\ UNCHANGED <<rEof, rEop, rReaded, rPadSize, rPadRem>>

\* one fIn.Read(buf[n:]) inside the loop; the environment answers (k, e)
RSrc(k, e) ==
  /\ pc = "r_loop" /\ ~rEof /\ rN < rBuf
  /\ k >= 0 /\ (e => inPos + k = n)
  /\ (k = 0 /\ ~e => zrun < MaxZero)
  /\ zrun' = IF k = 0 /\ ~e THEN zrun + 1 ELSE 0
  /\ inPos' = inPos + k /\ inEof' = (inEof \/ e) /\ zs' = (zs \/ k = 0)
  /\ rN' = rN + k /\ rReaded' = rReaded + k /\ rEof' = e
  /\ rVals' = rVals \o InVals(inPos, inPos + k)
  /\ H([op |-> "src", k |-> k, eof |-> e])
  \* old code: a single read, and "short read" taken for end of data
  /\ pc' = IF DevShortReadPads THEN "r_exit" ELSE "r_loop"
  /\ UNCHANGED <<kind, bs, n, bad, outLen, fin, call, post, rEop, rPadSize, rPadRem, rBuf, retK, retEof,
                 wLo, wHi, hN, hVals, hErr, emit, panic>>

RLoopExit ==
  /\ \/ pc = "r_loop" /\ (rN = rBuf \/ rEof)
     \/ pc = "r_exit"
  /\ LET full == IF DevShortReadPads THEN rN = rBuf ELSE ~rEof IN
     IF full
       THEN pc' = "r_ret" /\ retK' = rN /\ retEof' = FALSE /\ UNCHANGED <<rPadSize, rPadRem>>
       ELSE /\ pc' = "r_pad" /\ UNCHANGED <<retK, retEof>>
            /\ IF rPadRem = -1
                 THEN rPadSize' = bs - (rReaded % bs) /\ rPadRem' = bs - (rReaded % bs)
                 ELSE UNCHANGED <<rPadSize, rPadRem>>
  /\ UA /\ UW /\ UH /\ UNCHANGED <<rEof, rEop, rReaded, rN, rBuf, rVals, emit, zrun, panic, hist>>

RPad ==
  /\ pc = "r_pad"
  /\ IF rPadRem = -1
       THEN \* old code, data+EOF filled the buffer: p.padding is nil here
            panic' = TRUE /\ pc' = "stop" /\ UNCHANGED <<rPadRem, rEop, rVals, retK, retEof>>
       ELSE /\ UNCHANGED panic /\ pc' = "r_ret"
            /\ IF rPadRem = 0
                 THEN rEop' = TRUE /\ retK' = rN /\ retEof' = TRUE /\ UNCHANGED <<rPadRem, rVals>>
                 ELSE LET k == Min(rBuf - rN, rPadRem) IN
                      /\ rPadRem' = rPadRem - k /\ retK' = rN + k /\ retEof' = FALSE
                      /\ rVals' = rVals \o Rep(rPadSize, k) /\ UNCHANGED rEop
  /\ UA /\ UW /\ UH /\ UNCHANGED <<rEof, rReaded, rPadSize, rN, rBuf, emit, zrun, hist>>

(* ---- kind = "reader": the caller is the environment ---- *)
RCall(b) ==
  /\ kind = "reader" /\ pc = "idle" /\ b \in Reqs /\ post < 2
  /\ call' = b /\ zs' = FALSE /\ post' = IF fin = "run" THEN post ELSE post + 1
  /\ ReadEnter(b) /\ H([op |-> "call", buf |-> b])
  /\ UNCHANGED <<kind, bs, n, bad, inPos, inEof, outLen, fin>> /\ UW /\ UH /\ UNCHANGED <<emit, zrun, panic>>

RRet ==
  /\ kind = "reader" /\ pc = "r_ret"
  /\ outLen' = IF fin = "run" THEN outLen + retK ELSE outLen
  /\ emit' = emit \o rVals
  /\ fin' = IF fin = "run" /\ retEof THEN "ok" ELSE fin
  /\ call' = -1 /\ pc' = "idle"
  /\ UNCHANGED <<kind, bs, n, bad, inPos, inEof, zs, post>> /\ UR /\ UW /\ UH /\ UNCHANGED <<zrun, panic, hist>>

(* ===================== PKCS7PaddingWriter ===================== *)
\* Write(buff): cache.Write, then move everything above one block to out
WriteBody(len) == wHi' = wHi + len /\ UNCHANGED wLo

WFlush ==
  /\ pc = "w_flush"
  /\ IF wHi - wLo > bs
       THEN LET size == wHi - wLo - bs IN
            IF DevSwapOverflow /\ size > SwapSize
              THEN panic' = TRUE /\ pc' = "stop" /\ UNCHANGED <<wLo, emit, outLen>>
              ELSE /\ emit' = emit \o InVals(wLo, wLo + size) /\ outLen' = outLen + size
                   /\ wLo' = wLo + size /\ UNCHANGED panic
                   /\ pc' = IF kind = "writer" THEN "idle" ELSE "d_loop"
       ELSE /\ UNCHANGED <<wLo, emit, outLen, panic>>
            /\ pc' = IF kind = "writer" THEN "idle" ELSE "d_loop"
  /\ UNCHANGED <<kind, bs, n, bad, inPos, inEof, fin, call, zs, post, wHi>> /\ UR /\ UH /\ UNCHANGED <<zrun, hist>>

\* Final, first half: validate the cached block and write the data part
WFinal ==
  /\ pc = "w_final"
  /\ LET len == wHi - wLo
         unp == A!In(wHi)
         okLast == unp >= 1 /\ unp <= bs
         okFill == DevFinalLastByteOnly \/ \A i \in (wHi - unp + 1)..wHi : A!In(i) = unp IN
     IF len # bs \/ ~okLast \/ ~okFill
       THEN pc' = "w_err" /\ UNCHANGED <<emit, outLen>>
       ELSE /\ pc' = "w_ok"
            /\ emit' = emit \o InVals(wLo, wHi - unp) /\ outLen' = outLen + (bs - unp)
  /\ UNCHANGED <<kind, bs, n, bad, inPos, inEof, fin, call, zs, post>> /\ UR /\ UW /\ UH /\ UNCHANGED <<zrun, panic, hist>>

WDone ==
  /\ pc \in {"w_ok", "w_err"}
  /\ fin' = (IF pc = "w_ok" THEN "ok" ELSE "err") /\ pc' = "stop"
  /\ UNCHANGED <<kind, bs, n, bad, inPos, inEof, outLen, call, zs, post>> /\ UR /\ UW /\ UH /\ UNCHANGED <<emit, zrun, panic, hist>>

(* ---- kind = "writer": the caller is the environment ---- *)
Rest == IF A!InLen - inPos <= MaxReq THEN {A!InLen - inPos} ELSE {}     \* everything that is left, in one Write
WWrite(len) ==
  \* (a Write of one of the catalogue sizes, or of everything that is left)
  /\ kind = "writer" /\ pc = "idle" /\ ~inEof /\ len \in (Reqs \cup Rest) /\ len >= 1 /\ inPos + len <= A!InLen
  /\ inPos' = inPos + len /\ WriteBody(len) /\ pc' = "w_flush" /\ H([op |-> "write", len |-> len])
  /\ UNCHANGED <<kind, bs, n, bad, inEof, outLen, fin, call, zs, post>> /\ UR /\ UH /\ UNCHANGED <<emit, zrun, panic>>

\* the environment writes whatever is left in one piece and calls Final
WFinalCall ==
  /\ kind = "writer" /\ pc = "idle" /\ ~inEof /\ inPos = A!InLen
  /\ inEof' = TRUE /\ pc' = "w_final" /\ H([op |-> "final"])
  /\ UNCHANGED <<kind, bs, n, bad, inPos, outLen, fin, call, zs, post>> /\ UR /\ UW /\ UH /\ UNCHANGED <<emit, zrun, panic>>

(* ===================== P7BlockDecrypt (identity BlockMode) ===================== *)
DStart == /\ kind = "dec" /\ pc = "idle" /\ fin = "run" /\ pc' = "d_loop"
          /\ UA /\ UR /\ UW /\ UH /\ UNCHANGED <<emit, zrun, panic, hist>>

\* io.ReadFull(in, bufIn): one in.Read(bufIn[hN:]) answered by the environment
DSrc(k, e) ==
  /\ kind = "dec" /\ pc = "d_loop" /\ hN < Chunk /\ ~hErr
  /\ k >= 0 /\ (e => inPos + k = A!InLen) /\ (inEof => e)
  /\ (k = 0 /\ ~e => zrun < MaxZero)
  /\ zrun' = IF k = 0 /\ ~e THEN zrun + 1 ELSE 0
  /\ inPos' = inPos + k /\ inEof' = (inEof \/ e) /\ zs' = (zs \/ k = 0)
  /\ hN' = hN + k /\ hErr' = (e \/ DevHelperSingleRead) /\ UNCHANGED hVals
  /\ H([op |-> "src", k |-> k, eof |-> e])
  /\ UNCHANGED <<kind, bs, n, bad, outLen, fin, call, post, pc>> /\ UR /\ UW /\ UNCHANGED <<emit, panic>>

\* ReadFull returned: n == 0 => Final; partial block => error; else CryptBlocks + Write
DChunk ==
  /\ kind = "dec" /\ pc = "d_loop" /\ (hN = Chunk \/ hErr)
  /\ IF hN = 0
       THEN pc' = "w_final" /\ UNCHANGED <<wHi, panic>>
       ELSE IF hN % bs # 0
         THEN IF DevHelperSingleRead
                THEN panic' = TRUE /\ pc' = "stop" /\ UNCHANGED wHi    \* CryptBlocks: input not full blocks
                ELSE pc' = "w_err" /\ UNCHANGED <<wHi, panic>>
         ELSE wHi' = wHi + hN /\ pc' = "w_flush" /\ UNCHANGED panic
  /\ hN' = 0 /\ hErr' = FALSE /\ UNCHANGED <<hVals, wLo>>
  /\ UA /\ UR /\ UNCHANGED <<emit, zrun, hist>>

(* ===================== P7BlockEnc (identity BlockMode) ===================== *)
EStart == /\ kind = "enc" /\ pc = "idle" /\ fin = "run" /\ pc' = "e_loop"
          /\ UA /\ UR /\ UW /\ UH /\ UNCHANGED <<emit, zrun, panic, hist>>

\* io.ReadFull(p7In, bufIn): one p7In.Read(bufIn[hN:])
ERead == /\ kind = "enc" /\ pc = "e_loop" /\ hN < Chunk /\ ~hErr
         /\ ReadEnter(Chunk - hN)
         /\ UA /\ UW /\ UH /\ UNCHANGED <<emit, zrun, panic, hist>>

EGot == /\ kind = "enc" /\ pc = "r_ret"
        /\ hN' = hN + retK /\ hVals' = hVals \o rVals /\ hErr' = (retEof \/ DevHelperSingleRead)
        /\ pc' = "e_loop"
        /\ UA /\ UR /\ UW /\ UNCHANGED <<emit, zrun, panic, hist>>

EChunk ==
  /\ kind = "enc" /\ pc = "e_loop" /\ (hN = Chunk \/ hErr)
  /\ IF hN = 0
       THEN pc' = "w_ok" /\ UNCHANGED <<emit, outLen, panic>>
       ELSE IF hN % bs # 0
         THEN panic' = TRUE /\ pc' = "stop" /\ UNCHANGED <<emit, outLen>>      \* CryptBlocks panics
         ELSE emit' = emit \o hVals /\ outLen' = outLen + hN /\ pc' = "e_loop" /\ UNCHANGED panic
  /\ hN' = 0 /\ hVals' = <<>> /\ hErr' = FALSE
  /\ UNCHANGED <<kind, bs, n, bad, inPos, inEof, fin, call, zs, post>> /\ UR /\ UW /\ UNCHANGED <<zrun, hist>>

Next == \/ \E b \in Reqs : RCall(b)
        \/ \E x \in SrcKs, e \in BOOLEAN : RSrc(Min(x, Min(rBuf - rN, n - inPos)), e)
        \/ RLoopExit \/ RPad \/ RRet
        \/ \E l \in (Reqs \cup Rest) : WWrite(l)
        \/ WFinalCall \/ WFlush \/ WFinal \/ WDone
        \/ DStart \/ (\E x \in SrcKs, e \in BOOLEAN : DSrc(Min(x, Min(Chunk - hN, A!InLen - inPos)), e)) \/ DChunk
        \/ EStart \/ ERead \/ EGot \/ EChunk

Spec == Init /\ [][Next]_vars

(* ---- properties ---- *)
DataOK   == \A i \in 1..Len(emit) : emit[i] = A!Out(i)
LenOK    == Len(emit) = outLen
NoPanic  == ~panic
Finishes == <>(fin # "run" \/ panic)            \* checked under FairSpec only
FairSpec == Spec /\ WF_vars(Next)

\* observables of a finished behaviour, printed for the replay harness
Terminal == pc = "stop" \/ (kind = "reader" /\ pc = "idle" /\ post = 2)
View == <<avars, pc, rEof, rEop, rReaded, rPadSize, rPadRem, rN, rBuf, rVals, retK, retEof, wLo, wHi,
          hN, hVals, hErr, emit, zrun, panic>>
EnvOut == IF Terminal
            THEN PrintT(<<"ENV", ToJson([kind |-> kind, bs |-> bs, n |-> n, bad |-> bad, ops |-> hist,
                                          outLen |-> outLen, fin |-> fin, panic |-> panic])>>)
            ELSE TRUE
=============================================================================
