---------------------------------- MODULE TLV ----------------------------------
(***************************************************************************)
(* C18.  A total reader of BER/DER tag-length-value structure as a state   *)
(* machine with a step counter.  Every byte string leads, in at most       *)
(* 4*len + 4 steps, to status "value" or "error" - never a stuck state,    *)
(* never an index outside the input: this is what "fails closed" means for *)
(* the ASN.1 based decoders.  TLC proves it for every string up to a       *)
(* length bound over an alphabet of critical bytes.  On the valid          *)
(* encodings of the corpus the same machine yields the TLV nodes (tag      *)
(* offset, length-field offset and size, content length) from which the    *)
(* mutation catalogue of the quantifier is generated.                      *)
(***************************************************************************)
EXTENDS Integers, Sequences, FiniteSets, TLC, Json
CONSTANTS Alphabet, MaxLen, CorpusFile
Corpus == IF CorpusFile = "" THEN <<>> ELSE ndJsonDeserialize(CorpusFile)     \* items [name, bytes]

VARIABLES inp, item, pos, stack, status, steps, nodes
vars == <<inp, item, pos, stack, status, steps, nodes>>
\* stack: sequence of end positions (exclusive, 1-based index of the first byte after the enclosing content);
\* 0 marks an indefinite-length constructed value (ended by 00 00)

RECURSIVE Strings(_)
Strings(n) == IF n = 0 THEN {<<>>} ELSE LET S == Strings(n - 1) IN S \cup {Append(s, b) : s \in {t \in S : Len(t) = n - 1}, b \in Alphabet}

Init == /\ \/ (CorpusFile = "" /\ inp \in Strings(MaxLen) /\ item = 0)
           \/ (CorpusFile # "" /\ item \in 1..Len(Corpus) /\ inp = Corpus[item].bytes)
        /\ pos = 1 /\ stack = <<Len(inp) + 1>> /\ status = "run" /\ steps = 0 /\ nodes = <<>>

Top == stack[Len(stack)]
Limit == IF Top = 0 THEN Len(inp) + 1 ELSE Top          \* bytes available to the current level
Fail == status' = "error" /\ UNCHANGED <<inp, item, pos, stack, nodes>> /\ steps' = steps + 1

\* end of the current level reached: pop, or finish at the outermost level
Ascend == /\ status = "run" /\ Top # 0 /\ pos = Top
          /\ IF Len(stack) = 1 THEN status' = "value" /\ UNCHANGED <<stack>>
             ELSE stack' = SubSeq(stack, 1, Len(stack) - 1) /\ UNCHANGED status
          /\ steps' = steps + 1 /\ UNCHANGED <<inp, item, pos, nodes>>
\* end-of-contents octets of an indefinite-length value
EndOfContents == /\ status = "run" /\ Top = 0 /\ pos + 1 <= Len(inp) /\ inp[pos] = 0 /\ inp[pos + 1] = 0
                 /\ stack' = SubSeq(stack, 1, Len(stack) - 1) /\ pos' = pos + 2
                 /\ steps' = steps + 1 /\ UNCHANGED <<inp, item, status, nodes>>
\* one TLV header at pos: identifier octets (high tag numbers continue while the top bit is set), length octets
TagEnd(p) == IF inp[p] % 32 # 31 THEN p + 1
             ELSE LET more == {q \in (p + 1)..Len(inp) : inp[q] < 128} IN
                  IF more = {} THEN 0 ELSE (CHOOSE q \in more : \A r \in more : q <= r) + 1
ReadTLV ==
  /\ status = "run" /\ ~(Top # 0 /\ pos = Top)
  /\ ~(Top = 0 /\ pos + 1 <= Len(inp) /\ inp[pos] = 0 /\ inp[pos + 1] = 0)
  /\ IF pos >= Limit THEN Fail                                        \* nothing left although a value is required
     ELSE LET te == TagEnd(pos) IN
     IF te = 0 \/ te >= Limit THEN Fail                               \* identifier or length octet missing
     ELSE LET l0 == inp[te]
              constructed == (inp[pos] \div 32) % 2 = 1
              nlen == IF l0 > 128 THEN l0 - 128 ELSE 0
          IN IF l0 = 128
               THEN IF ~constructed THEN Fail
                    ELSE /\ stack' = Append(stack, 0) /\ pos' = te + 1 /\ steps' = steps + 1
                         /\ nodes' = Append(nodes, [tag |-> pos, lenoff |-> te, lensz |-> 1, len |-> -1, cons |-> TRUE])
                         /\ UNCHANGED <<inp, item, status>>
             ELSE IF nlen > 4 THEN Fail
             ELSE IF nlen > 0 /\ te + nlen > Len(inp) THEN Fail
             ELSE LET len == IF nlen = 0 THEN l0
                             ELSE LET F[i \in 0..nlen] == IF i = 0 THEN 0 ELSE F[i - 1] * 256 + inp[te + i] IN F[nlen]
                      cstart == te + 1 + nlen
                  IN IF nlen = 4 /\ inp[te + 1] > 127 THEN Fail
                     ELSE IF cstart + len > Limit THEN Fail           \* content runs past the enclosing value
                     ELSE /\ nodes' = Append(nodes, [tag |-> pos, lenoff |-> te, lensz |-> 1 + nlen, len |-> len, cons |-> constructed])
                          /\ steps' = steps + 1 /\ UNCHANGED <<inp, item, status>>
                          /\ IF constructed THEN stack' = Append(stack, cstart + len) /\ pos' = cstart
                             ELSE pos' = cstart + len /\ UNCHANGED stack
\* an indefinite level that runs out of input without end-of-contents
Next == Ascend \/ EndOfContents \/ ReadTLV
Spec == Init /\ [][Next]_vars

\* ---- totality ----
Bounded == steps <= 4 * Len(inp) + 4
InBounds == pos \in 1..(Len(inp) + 1)
\* a state in which nothing is enabled is a final state
NoStuck == status = "run" => ENABLED Next
Done == status # "run"
Emit == (Done /\ item # 0) => PrintT(<<"NODES", ToJson([item |-> item, name |-> Corpus[item].name, status |-> status, nodes |-> nodes])>>)
EmitStr == (Done /\ item = 0) => PrintT(<<"STR", ToJson([s |-> inp, status |-> status])>>)
=============================================================================
