----------------------------- MODULE ConcConnTrace -----------------------------
(***************************************************************************)
(* Validates histories recorded from real gmtls connections against        *)
(* ConcConn.  A history is a sequence of invocation and response events    *)
(* stamped by one atomic counter in the harness (so "returned before       *)
(* invoked" is real time).  Each operation takes effect (Lin) at an        *)
(* unlogged instant between its two events; TLC searches for the instants. *)
(* The result logged with the response is attached to the invocation by    *)
(* the recorder's post-processing, so Lin can use it.                      *)
(***************************************************************************)
EXTENDS ConcConn, Json
CONSTANTS TraceFile
Trace == ndJsonDeserialize(TraceFile)
ASSUME TLCSet(1, 0)
VARIABLES l, pend       \* pend: op id |-> "inv" | "lin"
tvars == <<stream, rd, closed, broken, half, faulted, l, pend>>
T == Trace[l]

TReset == /\ l <= Len(Trace) /\ T.ev = "reset" /\ l' = l + 1 /\ pend = <<>>
          /\ stream' = [e \in Ends |-> <<>>] /\ rd' = [e \in Ends |-> <<1, 0>>] /\ closed' = {} /\ broken' = {} /\ half' = {} /\ faulted' = {}
          /\ pend' = <<>>
\* pend is a function from op ids to states, kept as a set of pairs for simplicity
TInv == /\ l <= Len(Trace) /\ T.ev = "inv" /\ l' = l + 1
        /\ pend' = Append(pend, [op |-> T.op, st |-> "inv", line |-> l])
        /\ UNCHANGED cvars
Idx(op) == CHOOSE i \in 1..Len(pend) : pend[i].op = op
\* Every linearisation can be rearranged so that each operation takes effect just before SOME response event (delaying
\* an effect past invocation events changes nothing): Lin is enabled only when the next event is a response.  This keeps
\* the search small without losing histories.
Lin == \E i \in 1..Len(pend) :
         /\ l <= Len(Trace) /\ T.ev = "res"
         /\ pend[i].st = "inv"
         /\ LET o == Trace[pend[i].line] IN
              CASE o.kind = "write" -> IF o.ok THEN WriteOK(o.e, o.id, o.n) ELSE WriteErr(o.e, o.id, o.n)
                [] o.kind = "read" -> IF o.ok THEN ReadOK(o.e, o.segs) ELSE ReadErr(o.e)
                [] o.kind = "close" -> CloseOp(o.e)
                [] o.kind = "closewrite" -> CloseWriteOp(o.e)
                [] o.kind = "faultread" -> FaultRead(o.e)
         /\ pend' = [pend EXCEPT ![i].st = "lin"]
         /\ UNCHANGED l
TRes == /\ l <= Len(Trace) /\ T.ev = "res" /\ l' = l + 1
        /\ \E i \in 1..Len(pend) : /\ pend[i].op = T.op /\ pend[i].st = "lin"
                                   /\ LET o == Trace[pend[i].line] IN (o.kind = "write" /\ ~o.ok) => WriteErrReturn(o.e)
        /\ pend' = SelectSeq(pend, LAMBDA p : p.op # T.op)
        /\ UNCHANGED cvars

TraceInit == l = 1 /\ pend = <<>> /\ CInit
TraceNext == TReset \/ TInv \/ Lin \/ TRes
TraceSpec == TraceInit /\ [][TraceNext]_tvars
HighWater == TLCSet(1, IF l > TLCGet(1) THEN l ELSE TLCGet(1))
Accepted == PrintT(<<"HWM", TLCGet(1), Len(Trace)>>) /\ TLCGet(1) = Len(Trace) + 1
=============================================================================
