-------------------------------- MODULE HMAC --------------------------------
(* HMAC (RFC 2104) and PBKDF2 (RFC 8018) over SM3, as executable definitions. *)
EXTENDS SM3
HZeros(k) == [i \in 1..k |-> 0]
HKey(K) == LET k == IF Len(K) > 64 THEN Digest(K) ELSE K IN k \o HZeros(64 - Len(k))
XorConst(bs, v) == [i \in 1..Len(bs) |-> bs[i] ^^ v]
HMAC(K, m) == LET k == HKey(K) IN Digest(XorConst(k, 92) \o Digest(XorConst(k, 54) \o m))
Int4(i) == <<0, 0, i \div 256, i % 256>>
\* U_1 .. U_c xor-ed together
PBlock(P, S, c, i) ==
  LET u1 == HMAC(P, S \o Int4(i))
      r == FoldLeft(LAMBDA acc, j : LET u == HMAC(P, acc[1]) IN <<u, XorBytes(acc[2], u)>>,
                    <<u1, u1>>, [j \in 1..(c - 1) |-> j])
  IN r[2]
PBKDF2(P, S, c, dkLen) ==
  LET nb == (dkLen + 31) \div 32
      all == FoldLeft(LAMBDA acc, i : acc \o PBlock(P, S, c, i), <<>>, [i \in 1..nb |-> i])
  IN SubSeq(all, 1, dkLen)
=============================================================================
