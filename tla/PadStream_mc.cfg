SPECIFICATION Spec
CONSTANTS
  Kinds = {"reader", "writer", "enc", "dec"}
  BlockSizes = {2, 3}
  DataLens = {0, 1, 2, 3, 4, 5}
  Bads = {"none", "zero", "big", "fill", "nopad", "empty"}
  MaxReq = 4
INVARIANTS TypeOK Complete NoPadEarly Causal BadRejects PadValid
