------------------------------ MODULE PrimKAT ------------------------------
(* Known-answer tests from the standards, evaluated by TLC: the executable *)
(* specifications are checked against the published vectors before they   *)
(* are used as oracles.                                                    *)
EXTENDS SM3, SM4, TLC
VARIABLE step

Abc == <<97, 98, 99>>
Abcd16 == [i \in 1..64 |-> 97 + ((i - 1) % 4)]
K1 == <<1, 35, 69, 103, 137, 171, 205, 239, 254, 220, 186, 152, 118, 84, 50, 16>>
Hex(bs) == FoldLeft(LAMBDA acc, b : acc \o HexDigit(b \div 16) \o HexDigit(b % 16), "", bs)

KAT(n) ==
  CASE n = 1 -> Hex(Digest(Abc)) = "66c7f0f462eeedd9d1f2d46bdc10e4e24167c4875cf2f7a2297da02b8f4ba8e0"
    [] n = 2 -> Hex(Digest(Abcd16)) = "debe9ff92275b8a138604889c18e5a4d6fdb70e5387e5765293dcba39c0c5732"
    [] n = 3 -> Hex(Enc(K1, K1)) = "681edf34d206965e86b3e94f536e4246"
    [] n = 4 -> Dec(K1, Enc(K1, K1)) = K1
    [] n = 5 -> /\ SBox(0) = 214 /\ SBox(1) = 144 /\ SBox(255) = 72
                /\ Hex(WordsToBytes(<<CKw(0), CKw(31)>>)) = "00070e15646b7279"
NKAT == 5

Init == step = 0
Next == /\ step < NKAT /\ step' = step + 1
        /\ Assert(KAT(step + 1), <<"KAT failed", step + 1>>)
Spec == Init /\ [][Next]_step
=============================================================================
