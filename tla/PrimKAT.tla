------------------------------ MODULE PrimKAT ------------------------------
(* Known-answer tests from the standards, evaluated by TLC: the executable *)
(* specifications are checked against the published vectors before they   *)
(* are used as oracles.                                                    *)
EXTENDS SM3, TLC
VARIABLE step

Abc == <<97, 98, 99>>
Abcd16 == [i \in 1..64 |-> 97 + ((i - 1) % 4)]
Hex(bs) == FoldLeft(LAMBDA acc, b : acc \o HexDigit(b \div 16) \o HexDigit(b % 16), "", bs)

KAT(n) ==
  CASE n = 1 -> Hex(Digest(Abc)) = "66c7f0f462eeedd9d1f2d46bdc10e4e24167c4875cf2f7a2297da02b8f4ba8e0"
    [] n = 2 -> Hex(Digest(Abcd16)) = "debe9ff92275b8a138604889c18e5a4d6fdb70e5387e5765293dcba39c0c5732"
NKAT == 2

Init == step = 0
Next == /\ step < NKAT /\ step' = step + 1
        /\ Assert(KAT(step + 1), <<"KAT failed", step + 1>>)
Spec == Init /\ [][Next]_step
=============================================================================
