--------------------------------- MODULE PKIX ---------------------------------
(***************************************************************************)
(* C10.  A reference path validator (RFC 5280 style, restricted to what    *)
(* the statement fixes) over abstract certificates, and a family of small  *)
(* PKIs with knobs.  ValidChains(sc) is declarative: all simple paths from *)
(* the leaf through supplied intermediates to a supplied root in which     *)
(* each certificate is signed by the next, all are within validity at the  *)
(* verification time, every issuer is a CA allowed to sign with path       *)
(* length and permitted DNS domains respected, the leaf matches the        *)
(* requested name and extended key usages and carries no unknown critical  *)
(* extension.  Verify must return a chain iff ValidChains # {} and only    *)
(* chains from ValidChains.                                                *)
(***************************************************************************)
EXTENDS Integers, Sequences, FiniteSets, TLC, Json

\* a certificate; names and keys are small strings
Cert(id, subj, key, issuer, signer) ==
  [id |-> id, subj |-> subj, key |-> key, issuer |-> issuer, signer |-> signer,      \* signer: key that made the signature
   ca |-> TRUE, pathlen |-> -1, certsign |-> TRUE, nb |-> 0, na |-> 10,              \* validity window [nb, na], time unit abstract
   permitted |-> {}, eku |-> {}, dns |-> {}, ip |-> {}, crit |-> FALSE, cn |-> "",
   \* subject key identifier carried by the certificate: its children name skid(key) as authority key identifier.
   \* The identifiers are hints for finding candidates (RFC 5280 4.2.1.1): they do not enter the reference validator.
   ski |-> "own"]
Leaf(id, subj, key, issuer, signer, dns) ==
  [Cert(id, subj, key, issuer, signer) EXCEPT !.ca = FALSE, !.certsign = FALSE, !.dns = dns, !.eku = {"server"}]

\* --- host name matching (the statement: exact, leftmost-label wildcard, IP SAN; case-insensitive, trailing dot of the host ignored) ---
Lower(s) == s      \* names in the catalogue are lower case; case variants are listed explicitly as equivalents below
Labels == [n \in {"a.example.com", "b.a.example.com", "example.com", "other.org", "*.example.com", "*.a.example.com", "a.*.com", "*", "localhost"} |->
             CASE n = "a.example.com" -> <<"a", "example", "com">> [] n = "b.a.example.com" -> <<"b", "a", "example", "com">>
               [] n = "example.com" -> <<"example", "com">> [] n = "other.org" -> <<"other", "org">>
               [] n = "*.example.com" -> <<"*", "example", "com">> [] n = "*.a.example.com" -> <<"*", "a", "example", "com">>
               [] n = "a.*.com" -> <<"a", "*", "com">> [] n = "*" -> <<"*">> [] n = "localhost" -> <<"localhost">>]
\* the requested name as typed -> its canonical form
Canon(h) == CASE h = "A.Example.COM" -> "a.example.com" [] h = "a.example.com." -> "a.example.com" [] OTHER -> h
MatchPattern(pat, host) ==
  LET p == Labels[pat] h == Labels[host] IN
  /\ Len(p) = Len(h)
  /\ \A i \in 1..Len(p) : (i = 1 /\ p[i] = "*") \/ p[i] = h[i]
NameOK(leaf, q) ==
  CASE q.name = "" -> TRUE
    [] q.kind = "ip" -> q.name \in leaf.ip
    [] OTHER -> \E pat \in leaf.dns : MatchPattern(pat, Canon(q.name))
\* permitted DNS domains of a CA against the requested name: the name equals the constraint or is a subdomain of it
InDomain(name, dom) == LET n == Labels[Canon(name)] d == Labels[dom] IN
                       Len(n) >= Len(d) /\ \A i \in 1..Len(d) : n[Len(n) - Len(d) + i] = d[i]
ConstraintOK(c, q) == c.permitted = {} \/ q.name = "" \/ q.kind = "ip" \/ \E d \in c.permitted : InDomain(q.name, d)
\* the verification time is q.time days plus q.sub half seconds (certificate times are whole seconds; the verification time
\* need not be): valid from NotBefore to NotAfter inclusive, not half a second earlier or later
TimeOK(c, q) == /\ (c.nb < q.time \/ (c.nb = q.time /\ q.sub >= 0))
                /\ (q.time < c.na \/ (q.time = c.na /\ q.sub <= 0))
UsageOK(leaf, q) == "any" \in q.usages \/ leaf.eku = {} \/ "any" \in leaf.eku \/ (q.usages \cap leaf.eku) # {}

\* --- chains ---
\* a chain is a sequence of certificate ids <<leaf, i1, .., ik, root>>
Signed(child, parent) == child.issuer = parent.subj /\ child.signer = parent.key
IssuerOK(parent) == parent.ca /\ parent.certsign
\* number of intermediates below position i of chain ch (positions 2..Len-1 are intermediates)
ChainOK(sc, ch) ==
  LET C(i) == sc.certs[ch[i]] n == Len(ch) IN
  /\ ch[1] = sc.leaf /\ ch[n] \in sc.roots
  /\ \A i \in 2..(n - 1) : ch[i] \in sc.inters
  /\ \A i, j \in 1..n : i # j => ch[i] # ch[j]                         \* simple path
  /\ \A i \in 1..(n - 1) : Signed(C(i), C(i + 1)) /\ IssuerOK(C(i + 1))
  /\ \A i \in 1..n : TimeOK(C(i), sc.q) /\ ConstraintOK(C(i), sc.q)
  /\ \A i \in 2..n : C(i).pathlen < 0 \/ (i - 2) <= C(i).pathlen      \* i-2 intermediates lie below position i
  /\ NameOK(C(1), sc.q) /\ UsageOK(C(1), sc.q) /\ ~C(1).crit
\* The statement asks for the requested usage in the LEAF.  The library (like the standard library of its time) also drops a
\* chain in which some CA carries an extended key usage extension that excludes the usage.  Both readings are kept: a chain
\* that passes even the strict reading must be found; a chain that is returned must pass at least the statement's reading.
StrictUsageOK(sc, ch) == \A i \in 1..Len(ch) : UsageOK(sc.certs[ch[i]], sc.q)
Ids(sc) == DOMAIN sc.certs
\* all sequences without repetition over the supplied certificates, up to the number of certificates
RECURSIVE Paths(_, _, _)
Paths(sc, prefix, k) ==
  IF k = 0 THEN {prefix}
  ELSE {prefix} \cup UNION {Paths(sc, Append(prefix, x), k - 1) : x \in {y \in Ids(sc) : \A i \in 1..Len(prefix) : prefix[i] # y}}
\* a leaf that is itself a supplied root is accepted as the one-element chain
ValidChains(sc) ==
  LET leaf == sc.certs[sc.leaf] IN
  IF sc.leaf \in sc.roots
    THEN (IF TimeOK(leaf, sc.q) /\ ConstraintOK(leaf, sc.q) /\ NameOK(leaf, sc.q) /\ UsageOK(leaf, sc.q) /\ ~leaf.crit THEN {<<sc.leaf>>} ELSE {})
    ELSE {ch \in Paths(sc, <<sc.leaf>>, Cardinality(Ids(sc)) - 1) : Len(ch) >= 2 /\ ChainOK(sc, ch)}

\* --- PKI templates ---
Q0 == [time |-> 5, sub |-> 0, name |-> "a.example.com", kind |-> "dns", usages |-> {"server"}]
Fn(cs) == [i \in {c.id : c \in cs} |-> CHOOSE c \in cs : c.id = i]
DNS0 == {"a.example.com"}
\* linear: leaf <- I1 <- I2 <- R (depth d = number of intermediates 0..2)
Linear(d) ==
  LET R == Cert(9, "R", "kR", "R", "kR")
      I2 == Cert(2, "I2", "k2", "R", "kR")
      I1 == Cert(1, "I1", "k1", IF d = 2 THEN "I2" ELSE "R", IF d = 2 THEN "k2" ELSE "kR")
      L == Leaf(0, "L", "kL", IF d = 0 THEN "R" ELSE "I1", IF d = 0 THEN "kR" ELSE "k1", DNS0)
      cs == CASE d = 0 -> {R, L} [] d = 1 -> {R, I1, L} [] d = 2 -> {R, I2, I1, L}
  IN [certs |-> Fn(cs), leaf |-> 0, inters |-> {c.id : c \in cs} \ {0, 9}, roots |-> {9}, order |-> <<>>, q |-> Q0, tmpl |-> <<"linear", d>>]
\* two roots, intermediate cross-signed by both (same name and key, two certificates)
Cross ==
  LET R1 == Cert(8, "R1", "kR1", "R1", "kR1") R2 == Cert(9, "R2", "kR2", "R2", "kR2")
      Ia == Cert(1, "I", "kI", "R1", "kR1") Ib == Cert(2, "I", "kI", "R2", "kR2")
      L == Leaf(0, "L", "kL", "I", "kI", DNS0)
  IN [certs |-> Fn({R1, R2, Ia, Ib, L}), leaf |-> 0, inters |-> {1, 2}, roots |-> {8, 9}, order |-> <<>>, q |-> Q0, tmpl |-> <<"cross", 0>>]
\* mutual cross-signing loop between two intermediates, one of them also issued by the root
Loop ==
  LET R == Cert(9, "R", "kR", "R", "kR")
      A1 == Cert(1, "A", "kA", "R", "kR") A2 == Cert(2, "A", "kA", "B", "kB") B1 == Cert(3, "B", "kB", "A", "kA")
      L == Leaf(0, "L", "kL", "B", "kB", DNS0)
  IN [certs |-> Fn({R, A1, A2, B1, L}), leaf |-> 0, inters |-> {1, 2, 3}, roots |-> {9}, order |-> <<>>, q |-> Q0, tmpl |-> <<"loop", 0>>]
\* diamond: root with path length 2; Y <- R; Z <- Y; X1 <- Y and X2 <- Z carry the same name and key; leaf <- X
Diamond ==
  LET R == [Cert(9, "R", "kR", "R", "kR") EXCEPT !.pathlen = 2]
      Y == Cert(1, "Y", "kY", "R", "kR") Z == Cert(2, "Z", "kZ", "Y", "kY")
      X1 == Cert(3, "X", "kX", "Y", "kY") X2 == Cert(4, "X", "kX", "Z", "kZ")
      L == Leaf(0, "L", "kL", "X", "kX", DNS0)
  IN [certs |-> Fn({R, Y, Z, X1, X2, L}), leaf |-> 0, inters |-> {1, 2, 3, 4}, roots |-> {9}, order |-> <<>>, q |-> Q0, tmpl |-> <<"diamond", 0>>]
\* two intermediates below a root R that is trusted directly AND cross-certified by another trusted root R0
\* (R' = the cross-certificate, same name and key as R, among the intermediates): two valid chains of different length
DeepCross ==
  LET R0 == Cert(8, "R0", "kR0", "R0", "kR0") R == Cert(9, "R", "kR", "R", "kR")
      Rx == Cert(3, "R", "kR", "R0", "kR0")
      I2 == Cert(2, "I2", "k2", "R", "kR") I1 == Cert(1, "I1", "k1", "I2", "k2")
      L == Leaf(0, "L", "kL", "I1", "k1", DNS0)
  IN [certs |-> Fn({R0, R, Rx, I2, I1, L}), leaf |-> 0, inters |-> {1, 2, 3}, roots |-> {8, 9}, order |-> <<>>, q |-> Q0, tmpl |-> <<"deepcross", 0>>]
\* two trusted certificates for the same root name and key (a renewed root next to the old one) above two intermediates
TwinRoots ==
  LET Ra == Cert(8, "R", "kR", "R", "kR") Rb == [Cert(9, "R", "kR", "R", "kR") EXCEPT !.na = 9]
      I2 == Cert(2, "I2", "k2", "R", "kR") I1 == Cert(1, "I1", "k1", "I2", "k2")
      L == Leaf(0, "L", "kL", "I1", "k1", DNS0)
  IN [certs |-> Fn({Ra, Rb, I2, I1, L}), leaf |-> 0, inters |-> {1, 2}, roots |-> {8, 9}, order |-> <<>>, q |-> Q0, tmpl |-> <<"twinroots", 0>>]
\* a CA X that is trusted directly through a self-signed certificate limited to client authentication, and that is also
\* certified by an unrestricted root R2 (the cross-certificate is among the intermediates): for a server the chain that
\* ends in the self-signed X is unusable under the strict reading, the longer one through R2 is fine under both
CrossEku ==
  LET Xr == [Cert(8, "X", "kX", "X", "kX") EXCEPT !.eku = {"client"}] R2 == Cert(9, "R2", "kR2", "R2", "kR2")
      Xc == Cert(1, "X", "kX", "R2", "kR2")
      L == Leaf(0, "L", "kL", "X", "kX", DNS0)
  IN [certs |-> Fn({Xr, R2, Xc, L}), leaf |-> 0, inters |-> {1}, roots |-> {8, 9}, order |-> <<>>, q |-> Q0, tmpl |-> <<"crosseku", 0>>]
\* the certificate to verify is an old self-signed CA certificate; its name and key have since been cross-certified by a new
\* root: the issuer of the old certificate is found in a DIFFERENT certificate with the same subject and key as itself
SelfTwin ==
  LET R == Cert(9, "R", "kR", "R", "kR")
      Xc == Cert(1, "X", "kX", "R", "kR")
      Xo == [Cert(0, "X", "kX", "X", "kX") EXCEPT !.dns = DNS0, !.eku = {"server"}]
  IN [certs |-> Fn({R, Xc, Xo}), leaf |-> 0, inters |-> {1}, roots |-> {9}, order |-> <<>>, q |-> Q0, tmpl |-> <<"selftwin", 0>>]
Templates == {Linear(0), Linear(1), Linear(2), Cross, Loop, Diamond, DeepCross, TwinRoots, CrossEku, SelfTwin}

\* --- knobs: one change to one certificate or to the query ---
CertKnobs == {"none", "expired", "notyet", "notca", "nocertsign", "pathlen0", "pathlen1", "forged", "permit_ok", "permit_other", "permit_two", "permit_two_other", "crit",
              "noski", "otherski"}      \* the issuer certificate in the pool was re-issued without / with another key identifier
ApplyC(c, k) == CASE k = "expired" -> [c EXCEPT !.na = 3] [] k = "notyet" -> [c EXCEPT !.nb = 7]
                  [] k = "notca" -> [c EXCEPT !.ca = FALSE] [] k = "nocertsign" -> [c EXCEPT !.certsign = FALSE]
                  [] k = "pathlen0" -> [c EXCEPT !.pathlen = 0] [] k = "pathlen1" -> [c EXCEPT !.pathlen = 1]
                  [] k = "forged" -> [c EXCEPT !.signer = "kForged"]
                  [] k = "permit_ok" -> [c EXCEPT !.permitted = {"example.com"}] [] k = "permit_other" -> [c EXCEPT !.permitted = {"other.org"}]
                  \* several permitted subtrees: a name inside ANY of them is permitted
                  [] k = "permit_two" -> [c EXCEPT !.permitted = {"other.org", "example.com"}]
                  [] k = "permit_two_other" -> [c EXCEPT !.permitted = {"other.org", "b.a.example.com"}]
                  [] k = "crit" -> [c EXCEPT !.crit = TRUE]
                  [] k = "noski" -> [c EXCEPT !.ski = "none"] [] k = "otherski" -> [c EXCEPT !.ski = "other"] [] OTHER -> c
\* knobs that make sense for a certificate: leaves have no CA knobs
KnobsFor(c) == IF c.ca THEN CertKnobs \ {"crit"} ELSE {"none", "expired", "notyet", "forged", "crit"}
\* "unknown" stands for an extended key usage the library has no name for
QueryKnobs == {"q_none", "time_before", "time_after", "time_at_na", "time_past_na", "time_at_nb", "time_ahead_nb", "name_case", "name_dot", "name_other", "name_empty", "use_client", "use_any",
               "leaf_wild_ok", "leaf_wild_deep", "leaf_wild_mid", "leaf_wild_bare", "leaf_wild_bare_deep", "leaf_eku_client", "leaf_eku_none", "leaf_ip_ok", "leaf_ip_bad",
               "leaf_eku_unknown", "leaf_eku_server_unknown", "leaf_eku_unknown_use_any"}
ApplyQ(sc, k) ==
  LET L == sc.certs[sc.leaf]
      setL(c) == [sc EXCEPT !.certs = [sc.certs EXCEPT ![sc.leaf] = c]] IN
  CASE k = "time_before" -> [sc EXCEPT !.q.time = -1] [] k = "time_after" -> [sc EXCEPT !.q.time = 11]
    \* exactly at the leaf's NotAfter / NotBefore, and half a second beyond
    [] k = "time_at_na" -> [sc EXCEPT !.q.time = L.na] [] k = "time_past_na" -> [sc EXCEPT !.q.time = L.na, !.q.sub = 1]
    [] k = "time_at_nb" -> [sc EXCEPT !.q.time = L.nb] [] k = "time_ahead_nb" -> [sc EXCEPT !.q.time = L.nb, !.q.sub = -1]
    [] k = "name_case" -> [sc EXCEPT !.q.name = "A.Example.COM"] [] k = "name_dot" -> [sc EXCEPT !.q.name = "a.example.com."]
    [] k = "name_other" -> [sc EXCEPT !.q.name = "other.org"] [] k = "name_empty" -> [sc EXCEPT !.q.name = ""]
    [] k = "use_client" -> [sc EXCEPT !.q.usages = {"client"}] [] k = "use_any" -> [sc EXCEPT !.q.usages = {"any"}]
    [] k = "leaf_wild_ok" -> setL([L EXCEPT !.dns = {"*.example.com"}])
    [] k = "leaf_wild_deep" -> [setL([L EXCEPT !.dns = {"*.example.com"}]) EXCEPT !.q.name = "b.a.example.com"]
    \* a pattern that is nothing but the wildcard label: it stands for exactly one label, so it covers a single-label host
    \* and no host with a dot
    [] k = "leaf_wild_bare" -> [setL([L EXCEPT !.dns = {"*"}]) EXCEPT !.q.name = "localhost"]
    [] k = "leaf_wild_bare_deep" -> setL([L EXCEPT !.dns = {"*"}])
    [] k = "leaf_wild_mid" -> setL([L EXCEPT !.dns = {"a.*.com"}])
    [] k = "leaf_eku_client" -> setL([L EXCEPT !.eku = {"client"}]) [] k = "leaf_eku_none" -> setL([L EXCEPT !.eku = {}])
    [] k = "leaf_eku_unknown" -> setL([L EXCEPT !.eku = {"unknown"}]) [] k = "leaf_eku_server_unknown" -> setL([L EXCEPT !.eku = {"server", "unknown"}])
    [] k = "leaf_eku_unknown_use_any" -> [setL([L EXCEPT !.eku = {"unknown"}]) EXCEPT !.q.usages = {"any"}]
    [] k = "leaf_ip_ok" -> [setL([L EXCEPT !.ip = {"10.0.0.1"}, !.dns = {}]) EXCEPT !.q.name = "10.0.0.1", !.q.kind = "ip"]
    [] k = "leaf_ip_bad" -> [setL([L EXCEPT !.ip = {"10.0.0.2"}, !.dns = {}]) EXCEPT !.q.name = "10.0.0.1", !.q.kind = "ip"]
    [] OTHER -> sc
WithCert(sc, id, k) == [sc EXCEPT !.certs = [sc.certs EXCEPT ![id] = ApplyC(sc.certs[id], k)]]

\* --- the table: template x (one certificate knob) x (one query knob) x pool order (for the ordered pools) ---
CONSTANT Pairs   \* TRUE: also two certificate knobs at once
VARIABLES c, done
Orders(sc) == IF Cardinality(sc.inters) <= 1 THEN {<<>>}
              ELSE {o \in [1..Cardinality(sc.inters) -> sc.inters] : \A i, j \in 1..Cardinality(sc.inters) : i # j => o[i] # o[j]}
BaseCases == UNION {UNION {{[sc |-> WithCert(t, id, k), ck |-> <<id, k>>] : k \in KnobsFor(t.certs[id])} : id \in DOMAIN t.certs} : t \in Templates}
PairCases == IF ~Pairs THEN {} ELSE
             UNION {UNION {{[sc |-> WithCert(b.sc, id, k), ck |-> b.ck \o <<id, k>>] : k \in KnobsFor(b.sc.certs[id]) \ {"none"}}
                           : id \in {i \in DOMAIN b.sc.certs : i > b.ck[1]}} : b \in {x \in BaseCases : x.ck[2] # "none"}}
HasPermit(sc) == \E i \in DOMAIN sc.certs : sc.certs[i].permitted # {}
Cases == UNION {{[sc |-> ApplyQ(b.sc, qk), ck |-> b.ck, qk |-> qk] : qk \in (IF b.ck[2] = "none" THEN QueryKnobs ELSE {"q_none"})} : b \in BaseCases \cup PairCases}
         \cup {[sc |-> ApplyQ(b.sc, qk), ck |-> b.ck, qk |-> qk] : b \in {x \in BaseCases : x.ck[2] \in {"permit_ok", "permit_other", "permit_two", "permit_two_other"}}, qk \in {"name_other", "name_dot", "name_case"}}
\* (what permitted DNS domains mean when no DNS name is requested, or an IP address is, is left open by the statement: not generated)
Init == c \in Cases /\ done = FALSE
SetToSeq(S) == CHOOSE f \in [1..Cardinality(S) -> S] : \A i, j \in 1..Cardinality(S) : i # j => f[i] # f[j]
Next == /\ ~done /\ done' = TRUE /\ c' = c
        /\ LET vc == ValidChains(c.sc) IN
           PrintT(<<"CASE", ToJson([case |-> [tmpl |-> c.sc.tmpl, ck |-> c.ck, qk |-> c.qk],
                                    certs |-> [i \in DOMAIN c.sc.certs |-> [c.sc.certs[i] EXCEPT !.permitted = SetToSeq(@), !.eku = SetToSeq(@), !.dns = SetToSeq(@), !.ip = SetToSeq(@)]],
                                    leaf |-> c.sc.leaf, inters |-> SetToSeq(c.sc.inters), roots |-> SetToSeq(c.sc.roots),
                                    q |-> [c.sc.q EXCEPT !.usages = SetToSeq(@)],
                                    accept |-> vc # {}, chains |-> SetToSeq(vc),
                                    must_accept |-> \E ch \in vc : StrictUsageOK(c.sc, ch)])>>)
Spec == Init /\ [][Next]_<<c, done>>

\* meta-properties of the reference itself
ChainsUseSupplied == \A ch \in ValidChains(c.sc) : \A i \in 1..Len(ch) : ch[i] \in DOMAIN c.sc.certs
HonestAccepts == (c.ck[2] = "none" /\ c.qk = "q_none" /\ Len(c.ck) = 2) => ValidChains(c.sc) # {}
=============================================================================
