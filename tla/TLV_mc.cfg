SPECIFICATION Spec
CONSTANTS
  Alphabet = {0, 1, 2, 4, 31, 48, 127, 128, 129, 132, 160, 255}
  MaxLen = 4
  CorpusFile = ""
INVARIANTS Bounded InBounds NoStuck
