---------------------------- MODULE PadStreamTrace ----------------------------
(***************************************************************************)
(* C19.  Validates traces recorded from the real sm4/padding objects       *)
(* against the abstract PadStream specification.  One action per event     *)
(* kind: IsEvent(e) /\ <logged fields bound> /\ <PadStream action>; the    *)
(* bytes the implementation produced are compared with Out(..) here.       *)
(* Many traces are concatenated; a "reset" line starts the next one.       *)
(***************************************************************************)
EXTENDS PadStream, Json, TLC

CONSTANT TraceFile
Trace == ndJsonDeserialize(TraceFile)

VARIABLE l
tvars == <<vars, l>>

ASSUME TLCSet(1, 0)

IsEvent(e) == l <= Len(Trace) /\ Trace[l].ev = e /\ l' = l + 1
T == Trace[l]

DataIs(d, from) == \A i \in 1..Len(d) : d[i] = Out(from + i)

TReset == /\ IsEvent("reset") /\ (IF l = 1 THEN TRUE ELSE Trace[l - 1].ev = "end")
          /\ kind' = T.kind /\ bs' = T.bs /\ n' = T.n /\ bad' = T.bad
          /\ inPos' = 0 /\ inEof' = FALSE /\ outLen' = 0 /\ fin' = "run"
          /\ call' = -1 /\ zs' = FALSE /\ post' = 0

TCall  == IsEvent("call") /\ RCall(T.buf)
TSrc   == IsEvent("src") /\ SrcRead(T.req, T.k, T.eof)
TRet   == /\ IsEvent("ret") /\ T.err \in {"nil", "eof"}
          /\ Len(T.data) = T.k
          /\ (fin = "run" => DataIs(T.data, outLen))
          /\ RRet(T.k, T.err = "eof")
TWrite == IsEvent("write") /\ T.err = "nil" /\ T.k = T.len /\ WWrite(T.len)
TFinalCall == IsEvent("finalcall") /\ WFinalCall
TOut   == /\ IsEvent("out")
          /\ IF Len(T.data) = 0 THEN UNCHANGED vars
             ELSE DataIs(T.data, outLen) /\ Emit(Len(T.data))
TDone  == IsEvent("done") /\ T.err \in {"nil", "err"} /\ Done(T.err = "nil")
TEnd   == IsEvent("end") /\ fin # "run" /\ UNCHANGED vars

TraceInit == /\ l = 1 /\ kind = "reader" /\ bs = 1 /\ n = 0 /\ bad = "none" /\ inPos = 0 /\ inEof = FALSE
             /\ outLen = 0 /\ fin = "ok" /\ call = -1 /\ zs = FALSE /\ post = 0
TraceNext == TReset \/ TCall \/ TSrc \/ TRet \/ TWrite \/ TFinalCall \/ TOut \/ TDone \/ TEnd
TraceSpec == TraceInit /\ [][TraceNext]_tvars

HighWater == TLCSet(1, IF l > TLCGet(1) THEN l ELSE TLCGet(1))
Accepted == /\ PrintT(<<"HWM", TLCGet(1), Len(Trace)>>)
            /\ TLCGet(1) = Len(Trace) + 1
=============================================================================
