--------------------------------- MODULE GCM ---------------------------------
(***************************************************************************)
(* C12.  GCM (NIST SP 800-38D) instantiated with SM4 (SM4.tla), executable. *)
(* 128-bit blocks are sequences of 16 bytes; inside the GF(2^128)           *)
(* multiplication they are 8 half-words <<h1..h8>> (h1 most significant).   *)
(***************************************************************************)
EXTENDS SM4

ToH(b) == <<b[1] * 256 + b[2], b[3] * 256 + b[4], b[5] * 256 + b[6], b[7] * 256 + b[8],
            b[9] * 256 + b[10], b[11] * 256 + b[12], b[13] * 256 + b[14], b[15] * 256 + b[16]>>
FromH(h) == <<h[1] \div 256, h[1] % 256, h[2] \div 256, h[2] % 256, h[3] \div 256, h[3] % 256,
              h[4] \div 256, h[4] % 256, h[5] \div 256, h[5] % 256, h[6] \div 256, h[6] % 256,
              h[7] \div 256, h[7] % 256, h[8] \div 256, h[8] % 256>>
HX(a, b) == <<a[1] ^^ b[1], a[2] ^^ b[2], a[3] ^^ b[3], a[4] ^^ b[4], a[5] ^^ b[5], a[6] ^^ b[6], a[7] ^^ b[7], a[8] ^^ b[8]>>
\* V >> 1 over 128 bits
Shr1(v) == <<v[1] \div 2, (v[2] \div 2) + (v[1] % 2) * 32768, (v[3] \div 2) + (v[2] % 2) * 32768,
             (v[4] \div 2) + (v[3] % 2) * 32768, (v[5] \div 2) + (v[4] % 2) * 32768,
             (v[6] \div 2) + (v[5] % 2) * 32768, (v[7] \div 2) + (v[6] % 2) * 32768,
             (v[8] \div 2) + (v[7] % 2) * 32768>>
\* bit i (0 = leftmost) of y
BitOf(y, i) == (y[(i \div 16) + 1] \div Pow2(15 - (i % 16))) % 2
\* X . Y in GF(2^128), SP 800-38D algorithm 1 (R = 11100001 || 0^120)
GFMulH(x, y) ==
  FoldLeft(LAMBDA s, i :
             LET z == IF BitOf(y, i) = 1 THEN HX(s[1], s[2]) ELSE s[1]
                 v1 == Shr1(s[2])
                 v == IF s[2][8] % 2 = 1 THEN <<v1[1] ^^ 57600, v1[2], v1[3], v1[4], v1[5], v1[6], v1[7], v1[8]>> ELSE v1
             IN <<z, v>>,
           << <<0, 0, 0, 0, 0, 0, 0, 0>>, x >>, [i \in 1..128 |-> i - 1])[1]
GFMul(x, y) == FromH(GFMulH(ToH(x), ToH(y)))

Zero16 == <<0, 0, 0, 0, 0, 0, 0, 0, 0, 0, 0, 0, 0, 0, 0, 0>>
ZerosN(k) == [i \in 1..k |-> 0]
PadTo16(m) == m \o ZerosN((16 - (Len(m) % 16)) % 16)
\* 64-bit big-endian bit length of n bytes (n < 2^28)
Len64(n) == <<0, 0, 0, 0, (n \div 2097152) % 256, (n \div 8192) % 256, (n \div 32) % 256, (n * 8) % 256>>
\* GHASH_H over a byte string whose length is a multiple of 16
GHashBlocks(hH, m) ==
  FromH(FoldLeft(LAMBDA x, i : GFMulH(HX(x, ToH(SubSeq(m, 16 * i - 15, 16 * i))), hH),
                 <<0, 0, 0, 0, 0, 0, 0, 0>>, Range1(Len(m) \div 16)))
GHash(h, a, c) == GHashBlocks(ToH(h), PadTo16(a) \o PadTo16(c) \o Len64(Len(a)) \o Len64(Len(c)))

\* increment the rightmost 32 bits modulo 2^32 (on 16-bit halves: TLC integers are 32-bit signed)
Inc32(y) ==    LET lo == y[15] * 256 + y[16] + 1
                   hi == (y[13] * 256 + y[14] + (lo \div 65536)) % 65536
                   l2 == lo % 65536
               IN SubSeq(y, 1, 12) \o <<hi \div 256, hi % 256, l2 \div 256, l2 % 256>>
J0(h, iv) == IF Len(iv) = 12 THEN iv \o <<0, 0, 0, 1>>
             ELSE GHashBlocks(ToH(h), PadTo16(iv) \o <<0, 0, 0, 0, 0, 0, 0, 0>> \o Len64(Len(iv)))
\* GCTR with initial counter block icb over x
GCtr(rk, icb, x) ==
  LET nb == (Len(x) + 15) \div 16
      r == FoldLeft(LAMBDA s, i :
                      LET ks == EncRK(rk, s[1])
                          blk == SubSeq(x, 16 * i - 15, IF 16 * i <= Len(x) THEN 16 * i ELSE Len(x))
                      IN <<Inc32(s[1]), s[2] \o [j \in 1..Len(blk) |-> blk[j] ^^ ks[j]]>>,
                    <<icb, <<>>>>, Range1(nb))
  IN r[2]
\* authenticated encryption: <<C, T>>
Seal(key, iv, p, a) ==
  LET rk == RoundKeys(key)
      h == EncRK(rk, Zero16)
      j0 == J0(h, iv)
      c == GCtr(rk, Inc32(j0), p)
      s == GHash(h, a, c)
      e == EncRK(rk, j0)
  IN <<c, [j \in 1..16 |-> s[j] ^^ e[j]]>>
TagOf(key, iv, c, a) ==
  LET rk == RoundKeys(key) h == EncRK(rk, Zero16) j0 == J0(h, iv) s == GHash(h, a, c) e == EncRK(rk, j0)
  IN [j \in 1..16 |-> s[j] ^^ e[j]]
Open(key, iv, c, a) == GCtr(RoundKeys(key), Inc32(J0(EncRK(RoundKeys(key), Zero16), iv)), c)
=============================================================================
