SPECIFICATION Spec
CONSTANTS
 W = 2
 DevHexMinimal = TRUE
INVARIANT AllRoundTrip
