SPECIFICATION Spec
INVARIANT Sane
