SPECIFICATION Spec
CONSTANTS
 W = 2
 DevHexMinimal = FALSE
INVARIANT AllRoundTrip
