SPECIFICATION Spec
CONSTANTS
  Cap = 1
  MaxOps = 5
  Suites = {"CBC", "GCM"}
  Names = {"a", "b"}
INVARIANTS ResumeContinues CacheSane CacheBound
