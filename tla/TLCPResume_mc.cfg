SPECIFICATION Spec
CONSTANTS
 ShapeName = "free"
  Cap = 1
  MaxOps = 5
  Suites = {"CBC", "GCM"}
  Names = {"a", "b"}
  Versions = {11, 12}
INVARIANTS ResumeContinues CacheSane CacheBound
