--------------------------------- MODULE Issue ---------------------------------
(***************************************************************************)
(* C09.  The issuance contract of the x509 package as a table: an object   *)
(* (certificate, request, CRL through CreateCRL, CRL through               *)
(* CreateRevocationList) created by a signer of family F with requested    *)
(* algorithm A (unset, or a member of F) carries the effective algorithm   *)
(* Eff = A if set else Default(F); its signature is Sig(key, In(Eff, tbs)) *)
(* where In is the raw TBS for the SM2 algorithms and the digest otherwise *)
(* - so it verifies under the issuer's public key, fails under any other   *)
(* key and after any change to the TBS or signature bytes, and it parses   *)
(* back to the template's field values.                                    *)
(***************************************************************************)
EXTENDS Integers, Sequences, FiniteSets, TLC, Json
\* ("sm2opaque": an SM2 key behind an opaque crypto.Signer - a hardware module, a key service - of which the package sees
\* only Public() and Sign())
\* ("ecdsa521": signatures of about 139 bytes - the only ones whose DER SEQUENCE needs the long length form; "ecdsa224")
Families == {"sm2", "sm2opaque", "rsa", "ecdsa256", "ecdsa384", "ecdsa521", "ecdsa224"}
Algs(f) == CASE f \in {"sm2", "sm2opaque"} -> {"SM2WithSM3", "SM2WithSHA1", "SM2WithSHA256"}
             [] f = "rsa" -> {"SHA256WithRSA", "SHA1WithRSA", "SHA384WithRSA", "SHA512WithRSA", "SHA256WithRSAPSS", "SHA384WithRSAPSS", "SHA512WithRSAPSS"}
             [] f = "ecdsa256" -> {"ECDSAWithSHA256", "ECDSAWithSHA1", "ECDSAWithSHA384"}
             [] f = "ecdsa384" -> {"ECDSAWithSHA384", "ECDSAWithSHA256", "ECDSAWithSHA512"}
             [] f = "ecdsa521" -> {"ECDSAWithSHA512", "ECDSAWithSHA256", "ECDSAWithSHA384"}
             [] f = "ecdsa224" -> {"ECDSAWithSHA256", "ECDSAWithSHA1"}
Default(f) == CASE f \in {"sm2", "sm2opaque"} -> "SM2WithSM3" [] f = "rsa" -> "SHA256WithRSA" [] f = "ecdsa256" -> "ECDSAWithSHA256" [] f = "ecdsa384" -> "ECDSAWithSHA384"
              [] f = "ecdsa521" -> "ECDSAWithSHA512" [] f = "ecdsa224" -> "ECDSAWithSHA256"
Kinds == {"cert", "csr", "crl", "revlist"}
\* template classes for certificates (field groups that must survive the round trip)
Classes == {"plain", "serial20", "names", "usages", "ekus", "ca_pathlen0", "ca_pathlen2", "sans", "constraints", "constraints_extra_policies", "policies", "extraext", "validity_edges",
            \* the certified key has a coordinate with a leading zero byte (the point is written with fixed-width coordinates)
            "subjkey_shortx", "subjkey_shorty",
            \* interactions: every field group at once; an extra extension that replaces a generated one (same OID) next to
            \* other generated extensions
            "all_fields", "extra_overrides_keyusage", "extra_overrides_eku",
            \* an extension the package does not know, followed by a critical one it does know (both given as extras)
            "extra_unknown_then_known"}
Eff(f, a) == IF a = "unset" THEN Default(f) ELSE a
\* symbolic signing: what is signed, by which key
SignedInput(alg, tbs) == IF alg \in Algs("sm2") THEN <<"raw", tbs>> ELSE <<"digest", alg, tbs>>
Sig(key, input) == <<"sig", key, input>>
VerifyUnder(obj, key) == obj.sig = Sig(key, SignedInput(obj.alg, obj.tbs))
Create(f, a, tbs) == [alg |-> Eff(f, a), tbs |-> tbs, sig |-> Sig(f, SignedInput(Eff(f, a), tbs))]

VARIABLES c, done
Cases == UNION {{[kind |-> k, signer |-> f, alg |-> a, class |-> "plain"] : k \in Kinds, a \in {"unset"} \cup Algs(f)} : f \in Families} \cup
         {[kind |-> "cert", signer |-> "sm2", alg |-> "SM2WithSM3", class |-> cl] : cl \in Classes} \cup
         \* a request carries its signer's own key: signers whose public key has a short coordinate
         {[kind |-> "csr", signer |-> "sm2", alg |-> "SM2WithSM3", class |-> cl] : cl \in {"subjkey_shortx", "subjkey_shorty",
            "attrs_sans"}}      \* a request whose template already carries an extensionRequest attribute AND names to add
Init == c \in Cases /\ done = FALSE
Next == /\ ~done /\ done' = TRUE /\ c' = c
        /\ LET o == Create(c.signer, c.alg, "tbs") IN
           PrintT(<<"CASE", ToJson([case |-> c, expect |-> [created |-> TRUE, alg |-> o.alg,
                                     verifies |-> VerifyUnder(o, c.signer), other_key |-> VerifyUnder(o, "other"),
                                     tampered |-> VerifyUnder([o EXCEPT !.tbs = "tbs'"], c.signer),
                                     \* another encoding of "the same" numbers (s + n, r + n) is another signature value
                                     resigned |-> VerifyUnder([o EXCEPT !.sig = <<"sig", c.signer, <<"other value">>>>], c.signer)]])>>)
Spec == Init /\ [][Next]_<<c, done>>
Contract == LET o == Create(c.signer, c.alg, "tbs") IN
            /\ VerifyUnder(o, c.signer) /\ ~VerifyUnder(o, "other") /\ ~VerifyUnder([o EXCEPT !.tbs = "x"], c.signer)
            /\ o.alg \in Algs(c.signer)
=============================================================================
