-------------------------------- MODULE SM4 --------------------------------
(***************************************************************************)
(* GM/T 0002-2012 SM4 as executable TLA+.  Constants are DEFINED, not      *)
(* copied from the code: the S-box is S(x) = A(I(A(x))) with               *)
(* A(x) = x + (x<<<1) + (x<<<3) + (x<<<6) + (x<<<7) + 0xD3 over GF(2) and  *)
(* I the inverse in GF(2^8) modulo x^8+x^7+x^6+x^5+x^4+x^2+1; CK is        *)
(* ck[i][j] = 7*(4i+j) mod 256; FK are the four published words.  Keys and *)
(* blocks are sequences of 16 bytes.                                       *)
(***************************************************************************)
EXTENDS Bits

Rot8(x, k) == ((x * Pow2(k)) % 256) + (x \div Pow2(8 - k))
Aff(x) == ((((x ^^ Rot8(x, 1)) ^^ Rot8(x, 3)) ^^ Rot8(x, 6)) ^^ Rot8(x, 7)) ^^ 211
\* GF(2^8) multiplication modulo 0x1F5
GMul(a, b) ==
  FoldLeft(LAMBDA s, i : LET r == IF (s[3] % 2) = 1 THEN s[1] ^^ s[2] ELSE s[1]
                             a2 == s[2] * 2
                             a3 == IF a2 >= 256 THEN (a2 - 256) ^^ 245 ELSE a2
                         IN <<r, a3, s[3] \div 2>>,
           <<0, a, b>>, <<1, 2, 3, 4, 5, 6, 7, 8>>)[1]
GSq(a) == GMul(a, a)
\* a^254 = inverse (0 -> 0)
GInv(a) == LET a2 == GSq(a) a4 == GSq(a2) a8 == GSq(a4) a16 == GSq(a8) a32 == GSq(a16)
               a64 == GSq(a32) a128 == GSq(a64)
           IN GMul(GMul(GMul(GMul(GMul(GMul(a128, a64), a32), a16), a8), a4), a2)
SBoxT == FoldLeft(LAMBDA acc, x : Append(acc, Aff(GInv(Aff(x - 1)))), <<>>, Range1(256))
SBox(x) == SBoxT[x + 1]

Tau(w) == LET b == WBytes(w) IN WFromBytes(SBox(b[1]), SBox(b[2]), SBox(b[3]), SBox(b[4]))
L(b)  == WXor(WXor(WXor(WXor(b, WRotL(b, 2)), WRotL(b, 10)), WRotL(b, 18)), WRotL(b, 24))
L2(b) == WXor(WXor(b, WRotL(b, 13)), WRotL(b, 23))
TT(w)  == L(Tau(w))
TT2(w) == L2(Tau(w))

FK == << <<41905, 47814>>, <<22186, 13136>>, <<26493, 37271>>, <<45680, 8924>> >>
\* a3b1bac6 56aa3350 677d9197 b27022dc
CKw(i) == \* i in 0..31
  WFromBytes((28 * i) % 256, (28 * i + 7) % 256, (28 * i + 14) % 256, (28 * i + 21) % 256)

\* round keys rk[1..32] from a 16-byte key
RoundKeys(key) ==
  LET mk == BytesToWords(key)
      k0 == <<WXor(mk[1], FK[1]), WXor(mk[2], FK[2]), WXor(mk[3], FK[3]), WXor(mk[4], FK[4])>>
      ks == FoldLeft(LAMBDA k, i :  \* k has i+3 elements; append K_{i+4}
                       Append(k, WXor(k[i], TT2(WXor(WXor(WXor(k[i + 1], k[i + 2]), k[i + 3]), CKw(i - 1))))),
                     k0, Range1(32))
  IN SubSeq(ks, 5, 36)

Crypt(rk, blk) ==
  LET x0 == BytesToWords(blk)
      xs == FoldLeft(LAMBDA x, i :
                       Append(x, WXor(x[i], TT(WXor(WXor(WXor(x[i + 1], x[i + 2]), x[i + 3]), rk[i])))),
                     x0, Range1(32))
  IN WordsToBytes(<<xs[36], xs[35], xs[34], xs[33]>>)

Rev(s) == [i \in 1..Len(s) |-> s[Len(s) + 1 - i]]
Enc(key, blk) == Crypt(RoundKeys(key), blk)
Dec(key, blk) == Crypt(Rev(RoundKeys(key)), blk)
EncRK(rk, blk) == Crypt(rk, blk)
DecRK(rk, blk) == Crypt(Rev(rk), blk)

\* the four T-tables of the table-driven round function, by formula: table j is indexed by
\* byte j of the word (byte 0 = least significant), so that T(x) = T0[x0] + T1[x1] + T2[x2] + T3[x3]:
\*   Tj[v] = L(S(v) << 8j)
TTab(j, x) == L(WShl(<<0, SBox(x)>>, 8 * j))
=============================================================================
