SPECIFICATION Spec
CONSTANT Fracs = 8
INVARIANTS AuthServer AuthClient Agreement HonestCompletes
CONSTRAINT Emit
