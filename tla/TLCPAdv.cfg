SPECIFICATION Spec
CONSTANT Fracs = 8
INVARIANTS AuthServer AuthClient Agreement HonestCompletes ClockHonoured
CONSTRAINT Emit
