SPECIFICATION Spec
CONSTANTS
  Kinds = {"reader", "writer", "enc", "dec"}
  BlockSizes = {2, 3}
  DataLens = {0, 1, 2, 3, 4, 5, 6, 7}
  Bads = {"none", "zero", "big", "fill", "nopad", "empty"}
  MaxReq = 6
  Reqs = {0, 1, 2, 3, 5}
  Chunk = 6
  SwapSize = 4
  MaxZero = 1
  DevShortReadPads = FALSE
  DevSwapOverflow = FALSE
  DevFinalLastByteOnly = FALSE
  DevHelperSingleRead = FALSE
INVARIANTS DataOK LenOK NoPanic
PROPERTIES AbsSpec
VIEW View
