-------------------------------- MODULE SM2Tab --------------------------------
(* C01 / C02 / C13 / C14 table spec over the real curve: one state per case read from a file. *)
EXTENDS SM2, TLC, Json
CONSTANT CasesFile
CaseSeq == ndJsonDeserialize(CasesFile)
VARIABLES c, done
MsgBytes(f, n) == CASE f = 0 -> [i \in 1..n |-> (i * 17 + 3) % 256] [] f = 1 -> [i \in 1..n |-> 0] [] f = 2 -> [i \in 1..n |-> 255]
                    [] f = 8 -> <<101, 110, 99, 114, 121, 112, 116, 105, 111, 110, 32, 115, 116, 97, 110, 100, 97, 114, 100>>  \* "encryption standard"
                    [] f = 9 -> <<109, 101, 115, 115, 97, 103, 101, 32, 100, 105, 103, 101, 115, 116>>     \* "message digest" (the standard's example)
\* an absent (nil / empty) user id means the default id "1234567812345678" (the API's documented convention)
IdBytes(spec) == CASE spec.kind \in {"default", "absent", "empty"} -> DefaultID     \* ("empty": a zero-length, non-nil slice)
                   [] spec.kind = "len" -> [i \in 1..spec.n |-> 65 + (i % 26)]
Hex(bs) == FoldLeft(LAMBDA acc, b : acc \o HexDigit(b \div 16) \o HexDigit(b % 16), "", bs)

\* ---- GM/T 0003.3 key exchange (cofactor 1, w = 127) ----
Pow127 == "80000000000000000000000000000000"
XHat(xc) == BAdd(Pow127, BAnd(xc, "7fffffffffffffffffffffffffffffff"))
KX(x) ==
  LET PA == PMul(C, x.da, G(C)) PB == PMul(C, x.db, G(C)) RA == PMul(C, x.ra, G(C)) RB == PMul(C, x.rb, G(C))
      tA == BAddMod(x.da, BMulMod(XHat(RA.x), x.ra, C.n), C.n)
      tB == BAddMod(x.db, BMulMod(XHat(RB.x), x.rb, C.n), C.n)
      U == PMul(C, tA, PAdd(C, PB, PMul(C, XHat(RB.x), RB)))        \* initiator's point
      V == PMul(C, tB, PAdd(C, PA, PMul(C, XHat(RA.x), RA)))        \* responder's point
      za == ZA(IdBytes(x.ida), PA.x, PA.y) zb == ZA(IdBytes(x.idb), PB.x, PB.y)
      inner == Digest(B32(V.x) \o za \o zb \o B32(RA.x) \o B32(RA.y) \o B32(RB.x) \o B32(RB.y))
  IN IF x.kind = "findkx" THEN [xlen |-> Len(BToBytes(V.x, 0)), ylen |-> Len(BToBytes(V.y, 0)), same |-> U = V]
     ELSE [same |-> U = V,
           \* A5 / B5 of the standard: a party whose point is the point at infinity (t = 0 mod n, or P = -[x~]R) fails
           fail |-> U.inf \/ V.inf,
           pa |-> <<PA.x, PA.y>>, pb |-> <<PB.x, PB.y>>, ra |-> <<RA.x, RA.y>>, rb |-> <<RB.x, RB.y>>,
           k |-> KDF(B32(V.x) \o B32(V.y) \o za \o zb, x.klen),
           s1 |-> Digest(<<2>> \o B32(V.y) \o inner), s2 |-> Digest(<<3>> \o B32(V.y) \o inner)]

\* one party's side of the exchange, the peer's static and ephemeral values given as POINTS (their scalars need not be
\* known: points with a coordinate in [n, p), with a zero coordinate, with a 16-byte x whose top bit is set ...)
KXHalf(x) ==
  LET P == PMul(C, x.d, G(C)) R == PMul(C, x.r, G(C))
      PP == Pt(x.ppx, x.ppy) PR == Pt(x.prx, x.pry)
      t == BAddMod(x.d, BMulMod(XHat(R.x), x.r, C.n), C.n)
      WW == PMul(C, t, PAdd(C, PP, PMul(C, XHat(PR.x), PR)))
      init == x.role = "a"
      za == IF init THEN ZA(IdBytes(x.ida), P.x, P.y) ELSE ZA(IdBytes(x.ida), PP.x, PP.y)
      zb == IF init THEN ZA(IdBytes(x.idb), PP.x, PP.y) ELSE ZA(IdBytes(x.idb), P.x, P.y)
      RA == IF init THEN R ELSE PR
      RB == IF init THEN PR ELSE R
      inner == Digest(B32(WW.x) \o za \o zb \o B32(RA.x) \o B32(RA.y) \o B32(RB.x) \o B32(RB.y))
  IN [peer_ok |-> OnCurve(C, x.ppx, x.ppy) /\ OnCurve(C, x.prx, x.pry), fail |-> WW.inf,
      k |-> KDF(B32(WW.x) \o B32(WW.y) \o za \o zb, x.klen),
      s1 |-> Digest(<<2>> \o B32(WW.y) \o inner), s2 |-> Digest(<<3>> \o B32(WW.y) \o inner)]

Eval(x) ==
  CASE x.kind = "findkey" -> \* public point of a small private key, to find coordinates with leading zero bytes
         LET P == PMul(C, BFromInt(x.d), G(C)) IN [x |-> P.x, y |-> P.y, xlen |-> Len(BToBytes(P.x, 0)), ylen |-> Len(BToBytes(P.y, 0))]
    [] x.kind = "sign" ->
         LET P == PMul(C, x.d, G(C))
             id == IdBytes(x.id)
             msg == MsgBytes(x.mf, x.mlen)
             e == EOf(id, P.x, P.y, msg)
             sg == Sign(x.d, x.ks, e)
         IN [px |-> P.x, py |-> P.y, za |-> Hex(ZA(id, P.x, P.y)), e |-> e, ok |-> sg.ok, r |-> sg.r, s |-> sg.s, draws |-> sg.draws,
             self |-> (sg.ok => Verify(P.x, P.y, e, sg.r, sg.s))]
    [] x.kind = "verify" -> \* a candidate (r, s) for a key / id / message: the standard's verdict
         LET P == PMul(C, x.d, G(C)) IN
         [px |-> P.x, py |-> P.y, accept |-> Verify(P.x, P.y, EOf(IdBytes(x.id), P.x, P.y, MsgBytes(x.mf, x.mlen)), x.r, x.s)]
    [] x.kind = "enc" ->
         LET P == PMul(C, x.d, G(C))
             msg == MsgBytes(x.mf, x.mlen)
             ct == Enc(P.x, P.y, x.ks, msg)
         IN [px |-> P.x, py |-> P.y, ok |-> ct.ok, draws |-> ct.draws, c1c3c2 |-> Raw(ct, TRUE), c1c2c3 |-> Raw(ct, FALSE),
             x1 |-> ct.x1, y1 |-> ct.y1, c2 |-> ct.c2, c3 |-> ct.c3,
             back |-> (ct.ok => Dec(x.d, BFromBytes(ct.x1), BFromBytes(ct.y1), ct.c2, ct.c3) = [ok |-> TRUE, m |-> msg])]
    [] x.kind = "findk" -> \* does nonce k make the first KDF byte zero for this key (then a 1-byte plaintext must be re-encrypted)?
         LET P == PMul(C, x.d, G(C)) kp == PMul(C, BFromInt(x.k), P) IN [zero |-> KDF(B32(kp.x) \o B32(kp.y), 1) = <<0>>]
    [] x.kind = "invalidcurve" -> \* C1 = (x0, y0) is NOT on the SM2 curve (it is on y^2 = x^3 + ax + b' for another b'); the ciphertext is
                                  \* nevertheless consistent with [d]C1 computed by the same formulas - only the on-curve test can reject it
         LET c1 == Pt(x.x0, x.y0)
             dp == PMul(C, x.d, c1)
             msg == MsgBytes(x.mf, x.mlen)
             t == KDF(B32(dp.x) \o B32(dp.y), Len(msg))
             ct == [x1 |-> B32(c1.x), y1 |-> B32(c1.y), c2 |-> [i \in 1..Len(msg) |-> msg[i] ^^ t[i]], c3 |-> Digest(B32(dp.x) \o msg \o B32(dp.y))]
         IN [oncurve |-> OnCurve(C, x.x0, x.y0), c1c3c2 |-> Raw(ct, TRUE), c1c2c3 |-> Raw(ct, FALSE), reject |-> ~Dec(x.d, x.x0, x.y0, ct.c2, ct.c3).ok]
    [] x.kind = "decspec" -> \* the standard's verdict on given components
         LET r == Dec(x.d, BFromBytes(x.x1), BFromBytes(x.y1), x.c2, x.c3) IN [ok |-> r.ok, m |-> IF r.ok THEN r.m ELSE <<>>]
    [] x.kind \in {"kx", "findkx"} -> KX(x)
    [] x.kind = "kxhalf" -> KXHalf(x)
Init == c \in 1..Len(CaseSeq) /\ done = FALSE
Next == /\ ~done /\ done' = TRUE /\ c' = c
        /\ PrintT(<<"CASE", ToJson([case |-> CaseSeq[c], expect |-> Eval(CaseSeq[c])])>>)
Spec == Init /\ [][Next]_<<c, done>>
=============================================================================
