-------------------------------- MODULE SM3 --------------------------------
(***************************************************************************)
(* GM/T 0004-2012 SM3, transcribed from the standard as executable TLA+    *)
(* (messages and digests are sequences of bytes 0..255).  Independent of   *)
(* the Go code: nothing here is derived from sm3/sm3.go.                   *)
(***************************************************************************)
EXTENDS Bits

IV == << <<29568, 5743>>,  <<18708, 45753>>, <<5924, 17111>>,  <<55946, 1536>>,
         <<43375, 12476>>, <<5681, 14506>>,  <<58253, 61005>>, <<45307, 3662>> >>
\* 7380166f 4914b2b9 172442d7 da8a0600 a96f30bc 163138aa e38dee4d b0fb0e4e

T(j) == IF j < 16 THEN <<31180, 17689>> ELSE <<31367, 40330>>      \* 79cc4519, 7a879d8a

FF(j, x, y, z) == IF j < 16 THEN WXor(WXor(x, y), z)
                  ELSE WOr(WOr(WAnd(x, y), WAnd(x, z)), WAnd(y, z))
GG(j, x, y, z) == IF j < 16 THEN WXor(WXor(x, y), z)
                  ELSE WOr(WAnd(x, y), WAnd(WNot(x), z))
P0(x) == WXor(WXor(x, WRotL(x, 9)), WRotL(x, 17))
P1(x) == WXor(WXor(x, WRotL(x, 15)), WRotL(x, 23))

\* message expansion: 68 words W[1..68] (W_0..W_67 of the standard)
Expand(b) ==  \* b: 16 words
  FoldLeft(LAMBDA w, j :   \* j = 17..68 (1-based)
             Append(w, WXor(WXor(P1(WXor(WXor(w[j - 16], w[j - 9]), WRotL(w[j - 3], 15))),
                                 WRotL(w[j - 13], 7)), w[j - 6])),
           b, [i \in 1..52 |-> i + 16])

\* one round; s = <<A,B,C,D,E,F,G,H>>, j in 0..63, w the 68 expanded words
Round(s, j, w) ==
  LET a12 == WRotL(s[1], 12)
      ss1 == WRotL(WAdd(WAdd(a12, s[5]), WRotL(T(j), j % 32)), 7)
      ss2 == WXor(ss1, a12)
      w1  == WXor(w[j + 1], w[j + 5])
      tt1 == WAdd(WAdd(WAdd(FF(j, s[1], s[2], s[3]), s[4]), ss2), w1)
      tt2 == WAdd(WAdd(WAdd(GG(j, s[5], s[6], s[7]), s[8]), ss1), w[j + 1])
  IN << tt1, s[1], WRotL(s[2], 9), s[3], P0(tt2), s[5], WRotL(s[6], 19), s[7] >>

\* compression function CF(V, B)
CF(v, b) ==
  LET w == Expand(b)
      r == FoldLeft(LAMBDA s, j : Round(s, j, w), v, [i \in 1..64 |-> i - 1])
  IN << WXor(r[1], v[1]), WXor(r[2], v[2]), WXor(r[3], v[3]), WXor(r[4], v[4]),
        WXor(r[5], v[5]), WXor(r[6], v[6]), WXor(r[7], v[7]), WXor(r[8], v[8]) >>

\* padding: 0x80, zeros to 56 mod 64, 64-bit big-endian bit length (lengths < 2^28 bytes here)
Zeros(k) == [i \in 1..k |-> 0]
PadBytes(len) ==
  LET z == (119 - (len % 64)) % 64        \* number of zero bytes
      bits_hi == len \div 536870912       \* (len*8) >> 32
  IN <<128>> \o Zeros(z) \o <<0, 0, 0, bits_hi>> \o
     <<(len \div 2097152) % 256, (len \div 8192) % 256, (len \div 32) % 256, (len * 8) % 256>>

\* chaining value after absorbing whole blocks of msg (Len(msg) multiple of 64)
Absorb(v, msg) ==
  FoldLeft(LAMBDA s, i : CF(s, BytesToWords(SubSeq(msg, 64 * i - 63, 64 * i))), v, Range1(Len(msg) \div 64))

Digest(msg) == WordsToBytes(Absorb(IV, msg \o PadBytes(Len(msg))))

\* streaming form used by HashObj: state after n whole blocks, then finish with a tail
Finish(v, tail, total) == WordsToBytes(Absorb(v, tail \o PadBytes(total)))
=============================================================================
