------------------------------ MODULE ModesTrace ------------------------------
(* C11.  Validates traces of the real sm4.Sm4Ecb/Cbc/CFB/OFB helpers with SetIV *)
(* interleaved, against Modes: ciphertext = TLC's table value for the IV that   *)
(* the specification says is current; output length law; caller memory intact.  *)
EXTENDS Modes, SequencesExt
CONSTANTS TraceFile, TableFile
Trace == ndJsonDeserialize(TraceFile)
Table == ndJsonDeserialize(TableFile)    \* rows [mode, iv, fam, len, ct]
CT(m, i, n) == SelectSeq(Table, LAMBDA r : r.mode = m /\ r.iv = (IF m = "ecb" THEN 0 ELSE i) /\ r.fam = 0 /\ r.len = n)[1].ct
PtB(n) == [i \in 1..n |-> (i * 29 + 11) % 256]
ASSUME TLCSet(1, 0)
VARIABLE l
T == Trace[l]
IsEvent(e) == l <= Len(Trace) /\ Trace[l].ev = e /\ l' = l + 1
TStart == IsEvent("start") /\ iv' = 0 /\ hist' = <<>>
TSetIV == IsEvent("setiv") /\ T.err = FALSE /\ OpSetIV(T.iv)
TSetIVBad == IsEvent("setiv_bad") /\ T.err = TRUE /\ OpSetIVBad(T.n)
TEnc == /\ IsEvent("enc") /\ T.err = FALSE /\ OpEnc(T.mode, T.len, T.cap)
        /\ Len(T.out) = 16 * ((T.len \div 16) + 1)
        /\ T.out = CT(T.mode, iv, T.len)
        /\ T.in_intact /\ T.spare_intact
TDec == /\ IsEvent("dec") /\ T.err = FALSE /\ OpDec(T.mode, T.len)
        /\ T.out = PtB(T.len) /\ T.in_intact
TraceInit == l = 1 /\ iv = 0 /\ hist = <<>>
TraceNext == TStart \/ TSetIV \/ TSetIVBad \/ TEnc \/ TDec
TraceSpec == TraceInit /\ [][TraceNext]_<<iv, hist, l>>
HighWater == TLCSet(1, IF l > TLCGet(1) THEN l ELSE TLCGet(1))
Accepted == PrintT(<<"HWM", TLCGet(1), Len(Trace)>>) /\ TLCGet(1) = Len(Trace) + 1
=============================================================================
