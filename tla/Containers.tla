------------------------------ MODULE Containers ------------------------------
(***************************************************************************)
(* C17.  PKCS#7 enveloped-data and signed-data objects and PKCS#12 bundles *)
(* as terms of a symbolic algebra (perfect encryption, unforgeable         *)
(* signatures and MACs), built by an honest producer, optionally changed   *)
(* once by an adversary who knows no private key and no password, and then *)
(* used by some holder.  The state machine is                              *)
(*     make  ->  (tamper)?  ->  use                                        *)
(* and TLC explores every producer choice, every adversary change and      *)
(* every use.  The theorems of the statement are invariants of the "done"  *)
(* states; each done state is also emitted as a case that the harness      *)
(* realises with the real x509 / pkcs12 packages.                          *)
(***************************************************************************)
EXTENDS Integers, Sequences, FiniteSets, TLC, Json

CONSTANTS Holders,      \* owners of a certified key pair of each kind
          Full,         \* BOOLEAN: all recipient lists over three holders, or three representative ones
          TamperLen,    \* the content length used when the adversary acts
          Lens,         \* content lengths
          Passwords,    \* password classes
          WrongPwd      \* how a wrong password differs: "char", "case", "longer", "shorter", "empty", "other"

R3 == {"a", "b", "c"}
Recips == IF Full THEN {<<x>> : x \in R3} \cup {<<q[1], q[2]>> : q \in {q \in R3 \X R3 : q[1] # q[2]}} \cup
                       UNION {{<<p[1], p[2], z>> : z \in R3 \ {p[1], p[2]}} : p \in {q \in R3 \X R3 : q[1] # q[2]}}
          ELSE {<<"a">>, <<"a", "b">>, <<"b", "a", "c">>}
Kinds == {"sm2", "rsa"}
Algs  == {"des", "gcm"}
Modes == {0, 1}                     \* C1C3C2, C1C2C3 (sm2 only)
Err == "error"

\* ---- symbolic algebra ----
Wrap(cek, h, kind, mode) == [t |-> "wrap", cek |-> cek, to |-> h, kind |-> kind, mode |-> mode]
Unwrap(w, priv, kind, mode) == IF w.to = priv /\ w.kind = kind /\ (kind = "rsa" \/ w.mode = mode) THEN w.cek ELSE Err
Sig(signer, what) == [t |-> "sig", by |-> signer, over |-> what]
SigOK(s, cert, what) == s.by = cert /\ s.over = what
Mac(pw, what) == [t |-> "mac", pw |-> pw, over |-> what]

\* A certificate is named by issuer AND serial number; the holders are certified so that neither alone identifies one
Issuer == [a |-> "CA1", b |-> "CA1", c |-> "CA2", x |-> "CA2"]
\* (and the two certificates of one issuer carry serial numbers of the same magnitude: serials are signed INTEGERs)
Serial == [a |-> 77, b |-> -77, c |-> 77, x |-> -77]
Ias(h) == <<Issuer[h], Serial[h]>>
ASSUME \A g, h \in Holders : Ias(g) = Ias(h) => g = h

\* ---- objects ----
Envelope(kind, alg, mode, recips) ==
  [t |-> "env", kind |-> kind, alg |-> alg, mode |-> mode,
   infos |-> [i \in 1..Len(recips) |-> [ias |-> Ias(recips[i]), key |-> Wrap("cek", recips[i], kind, mode)]],
   body |-> [cek |-> "cek", m |-> "content", intact |-> TRUE]]

\* the recipient opens with certificate of holder c and private key of holder k through the API for apikind
Open(e, c, k, apikind, usemode) ==
  LET idx == {i \in DOMAIN e.infos : e.infos[i].ias = Ias(c)} IN
  IF idx = {} THEN Err
  ELSE LET i == CHOOSE j \in idx : \A j2 \in idx : j <= j2
           cek == Unwrap(e.infos[i].key, k, apikind, usemode)
       IN IF cek = Err \/ cek # e.body.cek THEN Err
          ELSE IF e.body.intact THEN e.body.m
          ELSE IF e.alg = "gcm" THEN Err ELSE "unspecified"     \* DES-CBC carries no integrity

OtherHolder(h) == CHOOSE x \in Holders : x # h
Signed(kind, attrs, detached, signer) ==
  [t |-> "signed", kind |-> kind, attrs |-> attrs, detached |-> detached,
   content |-> "content", digestattr |-> "H(content)", otherattr |-> "time", cert |-> signer,
   sig |-> Sig(signer, IF attrs THEN <<"H(content)", "time">> ELSE <<"content">>),
   \* a second signer (another holder) of the same content: "none", or with / without signed attributes of its own
   second |-> "none", sig2 |-> Sig(signer, <<"none">>)]
WithSecond(s, second) ==
  [s EXCEPT !.second = second,
            !.sig2 = Sig(OtherHolder(s.cert), IF second = "attrs" THEN <<"H(content)", "time2">> ELSE <<"content">>)]

\* Verify as the statement defines it; supplied = the content the verifier holds (detached) or the embedded one
\* (every signer is checked against what IT signed: its own attributes if it has any, otherwise the content)
Verify(s, supplied) ==
  /\ IF s.attrs
       THEN s.digestattr = "H(" \o supplied \o ")" /\ SigOK(s.sig, s.cert, <<s.digestattr, s.otherattr>>)
       ELSE SigOK(s.sig, s.cert, <<supplied>>)
  /\ CASE s.second = "none" -> TRUE
        [] s.second = "attrs" -> s.digestattr = "H(" \o supplied \o ")" /\ SigOK(s.sig2, OtherHolder(s.cert), <<s.digestattr, "time2">>)
        [] s.second = "noattrs" -> SigOK(s.sig2, OtherHolder(s.cert), <<supplied>>)

Bundle(pw, keykind, ncas) ==
  [t |-> "p12", key |-> "key", certs |-> ncas + 1, keykind |-> keykind, mac |-> Mac(pw, <<"key", ncas + 1>>), pw |-> pw]
Decode(b, pw) == IF b.mac.pw = pw /\ b.mac.over = <<b.key, b.certs>> /\ b.pw = pw THEN b.key \o "+" \o ToString(b.certs) ELSE Err

\* ---- the adversary: one change of one semantic field ----
EnvTampers == {"none", "body", "wrapped_key", "drop_recipient", "reorder"}
SigTampers == {"none", "content", "digest_attr", "other_attr", "signature", "resign_other_key", "swap_cert", "second_over_attrs"}
P12Tampers == {"none", "byte", "strip_mac"}      \* strip_mac: the MAC is removed; what it protected can then be changed at will

VARIABLES obj, make, tamper, use, result, pc
vars == <<obj, make, tamper, use, result, pc>>


MakeEnv == \E kind \in Kinds, alg \in Algs, mode \in Modes, r \in Recips, n \in Lens :
             /\ (kind = "rsa" => mode = 0)
             /\ obj' = Envelope(kind, alg, mode, r)
             /\ make' = [what |-> "env", kind |-> kind, alg |-> alg, mode |-> mode, recips |-> r, len |-> n]
MakeSigned == \E kind \in Kinds, attrs \in BOOLEAN, det \in BOOLEAN, s \in Holders, n \in Lens, second \in {"none", "attrs", "noattrs"} :
             /\ (second # "none" => ~det /\ n = TamperLen)      \* two signers: attached, one length
             /\ obj' = WithSecond(Signed(kind, attrs, det, s), second)
             /\ make' = [what |-> "signed", kind |-> kind, attrs |-> attrs, detached |-> det, signer |-> s, len |-> n, second |-> second]
MakeP12 == \E pw \in Passwords, kk \in Kinds, ncas \in 0..2 :
             /\ obj' = Bundle(pw, kk, ncas)
             /\ make' = [what |-> "p12", pw |-> pw, keykind |-> kk, ncas |-> ncas]
Make == /\ pc = "make" /\ (MakeEnv \/ MakeSigned \/ MakeP12)
        /\ pc' = "tamper" /\ UNCHANGED <<tamper, use, result>>

TamperEnv(t) ==
  CASE t = "none" -> obj
    [] t = "body" -> [obj EXCEPT !.body.intact = FALSE]
    [] t = "wrapped_key" -> [obj EXCEPT !.infos[1].key.cek = "garbage"]
    [] t = "drop_recipient" -> [obj EXCEPT !.infos = SubSeq(obj.infos, 2, Len(obj.infos))]
    [] t = "reorder" -> [obj EXCEPT !.infos = [i \in DOMAIN obj.infos |-> obj.infos[Len(obj.infos) + 1 - i]]]
TamperSig(t) ==
  CASE t = "none" -> obj
    [] t = "content" -> [obj EXCEPT !.content = "changed"]
    [] t = "digest_attr" -> [obj EXCEPT !.digestattr = "H(changed)"]
    [] t = "other_attr" -> [obj EXCEPT !.otherattr = "changed"]
    [] t = "signature" -> [obj EXCEPT !.sig.over = <<"garbage">>]
    \* the adversary signs (changed) data with the key it owns but leaves the signer's certificate in place
    [] t = "resign_other_key" -> [obj EXCEPT !.sig = Sig(OtherHolder(obj.cert), obj.sig.over)]
    \* ... or puts another holder's certificate under the signer's name
    [] t = "swap_cert" -> [obj EXCEPT !.cert = OtherHolder(obj.cert)]
    \* the second signer (one without attributes of its own) signed the FIRST signer's attributes instead of the content
    [] t = "second_over_attrs" -> [obj EXCEPT !.sig2 = Sig(OtherHolder(obj.cert), <<obj.digestattr, obj.otherattr>>)]
TamperP12(t) == CASE t = "none" -> obj
                  [] t = "byte" -> [obj EXCEPT !.mac.over = <<"other bytes">>]
                  [] t = "strip_mac" -> [obj EXCEPT !.mac.pw = "no mac"]

Tamper == /\ pc = "tamper"
          /\ \E t \in (CASE obj.t = "env" -> EnvTampers [] obj.t = "signed" -> SigTampers [] obj.t = "p12" -> P12Tampers) :
               /\ tamper' = t
               /\ (t \in {"digest_attr", "other_attr"} => obj.attrs)       \* there are no attributes to change otherwise
               /\ (t = "content" => ~obj.detached)                        \* a detached object carries no content
               /\ (t = "second_over_attrs" => obj.attrs /\ obj.second = "noattrs")
               /\ (t # "none" /\ "len" \in DOMAIN make) => make.len = TamperLen
               /\ obj' = (CASE obj.t = "env" -> TamperEnv(t) [] obj.t = "signed" -> TamperSig(t) [] obj.t = "p12" -> TamperP12(t))
          /\ pc' = "use" /\ UNCHANGED <<make, use, result>>

UseEnv == \E c \in Holders, k \in Holders, api \in Kinds, um \in Modes :
            /\ (api = "rsa" => um = 0)
            /\ use' = [cert |-> c, key |-> k, api |-> api, mode |-> um]
            /\ result' = Open(obj, c, k, api, um)
UseSigned == \E supplied \in {"content", "changed"} :
            /\ (~obj.detached => supplied = obj.content)          \* attached: the verifier uses what is inside
            /\ use' = [supplied |-> supplied]
            /\ result' = IF Verify(obj, supplied) THEN "verified" ELSE Err
\* which wrong-password variants exist for a password class
\* ("nulsuffix": the password followed by U+0000 - one 16-bit zero more in front of the terminator; for the empty
\* password both strings are runs of zeros, which the format's key derivation cannot tell apart)
Applicable(pw, w) == CASE w \in {"empty", "shorter", "char", "nulsuffix"} -> pw # "empty"
                       [] w = "case" -> pw \in {"ascii", "long"}
                       [] w = "badbyte" -> pw = "badutf8"                        \* another byte that is not UTF-8 either
                       [] w = "lowbyte" -> pw \in {"utf8", "bmp_edge"}      \* every character replaced by its low byte
                       [] w = "nulpad" -> pw \in {"utf8", "bmp_edge"}       \* as many U+0000 appended as the UTF-8 form has bytes beyond one per character
                       [] OTHER -> TRUE
\* "StdVerify": a reader written from RFC 7292 alone (password as BMPString per B.1, MAC key per B.2, HMAC-SHA-1 over the
\* authenticated safe) - "that password" is the password as every implementation of the format understands it
UseP12 == \E w \in {"right"} \cup WrongPwd, api \in {"DecodeAll", "Decode", "ToPEM", "StdVerify"} :
            /\ (w # "right" => Applicable(obj.pw, w))
            /\ (api = "Decode" => obj.keykind = "rsa")      \* Decode: parsed by crypto/x509
            /\ use' = [pwd |-> w, api |-> api]
            \* Decode hands out ONE certificate with the key: a bundle that holds more is outside its contract and is
            \* refused (handing out some other certificate of the bundle as "the" certificate would pair the key wrongly)
            /\ result' = IF api = "Decode" /\ obj.certs > 1 THEN Err ELSE Decode(obj, IF w = "right" THEN obj.pw ELSE "wrong:" \o w)
Use == /\ pc = "use"
       /\ (CASE obj.t = "env" -> UseEnv [] obj.t = "signed" -> UseSigned [] obj.t = "p12" -> UseP12)
       /\ pc' = "done" /\ UNCHANGED <<obj, make, tamper>>

Init == pc = "make" /\ obj = [t |-> "none"] /\ make = [what |-> "none"] /\ tamper = "none" /\ use = [x |-> 0] /\ result = "none"
Next == Make \/ Tamper \/ Use
Spec == Init /\ [][Next]_vars

\* ---- the statement, on the model ----
\* the content comes back exactly to a listed recipient using its own key through the matching API ...
RecipientsRecover ==
  (pc = "done" /\ make.what = "env" /\ tamper \in {"none", "reorder"}) =>
     (result = "content" <=> (\E i \in DOMAIN make.recips : make.recips[i] = use.cert) /\ use.key = use.cert
                              /\ use.api = make.kind /\ (make.kind = "sm2" => use.mode = make.mode))
\* ... and nobody else ever gets it, whatever the adversary did
OnlyRecipients ==
  (pc = "done" /\ make.what = "env" /\ result \notin {Err, "unspecified"}) =>
     (result = "content" /\ use.key = use.cert /\ \E i \in DOMAIN make.recips : make.recips[i] = use.key)
VerifiesExactlyWhenGenuine ==
  (pc = "done" /\ make.what = "signed") =>
     (result = "verified" <=> (tamper = "none" /\ use.supplied = "content"))
BundleOnlyWithPassword ==
  (pc = "done" /\ make.what = "p12") =>
     /\ (result # Err => result = "key+" \o ToString(make.ncas + 1))            \* never another key or certificate
     /\ (result # Err <=> (use.pwd = "right" /\ tamper = "none" /\ (use.api = "Decode" => make.ncas = 0)))

Emit == pc = "done" => PrintT(<<"CASE", ToJson([make |-> make, tamper |-> tamper, use |-> use, expect |-> result])>>)
=============================================================================
