-------------------------------- MODULE Modes --------------------------------
(***************************************************************************)
(* C11.  PKCS#7 padding and the ECB / CBC / CFB-128 / OFB modes over       *)
(* SM4 (SM4.tla), as the standard defines them, plus the package-level IV  *)
(* of the helpers as state (SetIV).  Executable: TLC computes ciphertexts. *)
(***************************************************************************)
EXTENDS SM4, TLC, Json

Pad(m) == LET p == 16 - (Len(m) % 16) IN m \o [i \in 1..p |-> p]
Blocks(m) == [i \in 1..(Len(m) \div 16) |-> SubSeq(m, 16 * i - 15, 16 * i)]
Xor16(a, b) == <<a[1] ^^ b[1], a[2] ^^ b[2], a[3] ^^ b[3], a[4] ^^ b[4], a[5] ^^ b[5], a[6] ^^ b[6],
                 a[7] ^^ b[7], a[8] ^^ b[8], a[9] ^^ b[9], a[10] ^^ b[10], a[11] ^^ b[11], a[12] ^^ b[12],
                 a[13] ^^ b[13], a[14] ^^ b[14], a[15] ^^ b[15], a[16] ^^ b[16]>>

\* encryption of an already padded message; rk = round keys; acc = <<feedback, output>>
EncBlocks(mode, rk, iv, m) ==
  FoldLeft(LAMBDA acc, p :
             CASE mode = "ecb" -> LET c == EncRK(rk, p) IN <<acc[1], acc[2] \o c>>
               [] mode = "cbc" -> LET c == EncRK(rk, Xor16(p, acc[1])) IN <<c, acc[2] \o c>>
               [] mode = "cfb" -> LET c == Xor16(p, EncRK(rk, acc[1])) IN <<c, acc[2] \o c>>
               [] mode = "ofb" -> LET o == EncRK(rk, acc[1]) IN <<o, acc[2] \o Xor16(p, o)>>,
           <<iv, <<>>>>, Blocks(m))[2]
Encrypt(mode, key, iv, m) == EncBlocks(mode, RoundKeys(key), iv, Pad(m))

\* --- the helpers' process-wide IV as a state machine (behaviour generation) ---
CONSTANTS ModeSet, IvIds, LenSet, MaxOps
VARIABLES iv, hist
Init == iv = 0 /\ hist = <<>>         \* IV id 0 = the initial all-zero IV
OpSetIV(i) == iv' = i /\ hist' = Append(hist, [op |-> "setiv", iv |-> i])
\* SetIV with a value that is not 16 bytes long (n = its length) is refused and changes nothing
OpSetIVBad(n) == UNCHANGED iv /\ hist' = Append(hist, [op |-> "setiv_bad", n |-> n])
OpEnc(m, n, cap) == UNCHANGED iv /\ hist' = Append(hist, [op |-> "enc", mode |-> m, len |-> n, cap |-> cap, iv |-> iv])
OpDec(m, n) == UNCHANGED iv /\ hist' = Append(hist, [op |-> "dec", mode |-> m, len |-> n, iv |-> iv])
Next == /\ Len(hist) < MaxOps
        /\ \/ \E i \in IvIds : OpSetIV(i)
           \/ \E n \in {0, 8, 15, 17, 32} : OpSetIVBad(n)
           \/ \E m \in ModeSet, n \in LenSet, c \in BOOLEAN : OpEnc(m, n, c)
           \/ \E m \in ModeSet, n \in LenSet : OpDec(m, n)
Spec == Init /\ [][Next]_<<iv, hist>>
Emit == Len(hist) = MaxOps => PrintT(<<"BEH", ToJson(hist)>>)
=============================================================================
