SPECIFICATION Spec
