SPECIFICATION Spec
CONSTANTS
  Procs = {"p1", "p2"}
  Shared = FALSE
INVARIANTS AsIfAlone Emit
