-------------------------------- MODULE SM2Toy --------------------------------
(***************************************************************************)
(* C01 / C02 on a toy group, exhaustively.  A prime-order curve            *)
(* y^2 = x^3 + Ax + B over GF(P) with N points; XY[i] = [i]G is computed   *)
(* here with the affine group law, so a point is its discrete logarithm    *)
(* and the group law is addition mod N.  The SM2 algorithms of GM/T 0003   *)
(* are then plain arithmetic; every (key, nonce, digest) is enumerated,    *)
(* including the measure-zero branches r = 0, r + k = n, s = 0, t = 0.     *)
(* The real sm2 code runs on the same cases over a plugged-in              *)
(* elliptic.Curve built from the XY table.                                 *)
(***************************************************************************)
EXTENDS Integers, Sequences, FiniteSets, SequencesExt, TLC, Json
CONSTANTS P, A, B, N, GX, GY

InvP(a) == CHOOSE b \in 1..(P - 1) : (a * b) % P = 1
InvN(a) == CHOOSE b \in 1..(N - 1) : (a * b) % N = 1
Mod(a, m) == ((a % m) + m) % m
\* affine addition of two finite points given as <<x, y>>; <<-1, -1>> is the point at infinity
O == <<-1, -1>>
AffAdd(p1, p2) ==
  IF p1 = O THEN p2 ELSE IF p2 = O THEN p1
  ELSE IF p1[1] = p2[1] /\ Mod(p1[2] + p2[2], P) = 0 THEN O
  ELSE LET lam == IF p1 = p2 THEN Mod((3 * p1[1] * p1[1] + A) * InvP(Mod(2 * p1[2], P)), P)
                            ELSE Mod((p2[2] - p1[2]) * InvP(Mod(p2[1] - p1[1], P)), P)
           x3 == Mod(lam * lam - p1[1] - p2[1], P)
       IN <<x3, Mod(lam * (p1[1] - x3) - p1[2], P)>>
\* XY[i] = [i]G for i = 1..N-1
XY == FoldLeft(LAMBDA acc, i : Append(acc, AffAdd(acc[Len(acc)], <<GX, GY>>)), << <<GX, GY>> >>, [i \in 1..(N - 2) |-> i])
X(i) == XY[i][1]
OnCurve(x, y) == Mod(y * y - (x * x * x + A * x + B), P) = 0
\* the table is a group of prime order N: closed, injective, [N]G = O
GroupOK == /\ Len(XY) = N - 1
           /\ \A i \in 1..(N - 1) : OnCurve(XY[i][1], XY[i][2])
           /\ \A i, j \in 1..(N - 1) : i # j => XY[i] # XY[j]
           /\ AffAdd(XY[N - 1], <<GX, GY>>) = O
           /\ Cardinality({<<x, y>> \in (0..(P - 1)) \X (0..(P - 1)) : OnCurve(x, y)}) = N - 1

\* ---- GM/T 0003.2 on discrete logs: public key of d is the point index d ----
SignTry(d, k, e) ==
  LET r == (e + X(k)) % N IN
  IF r = 0 THEN [ok |-> FALSE, why |-> "r=0", r |-> 0, s |-> 0]
  ELSE IF r + k = N THEN [ok |-> FALSE, why |-> "r+k=n", r |-> 0, s |-> 0]
  ELSE LET s == Mod(InvN((1 + d) % N) * (k - r * d), N) IN
       IF s = 0 THEN [ok |-> FALSE, why |-> "s=0", r |-> 0, s |-> 0] ELSE [ok |-> TRUE, why |-> "", r |-> r, s |-> s]
Verify(d, e, r, s) ==
  /\ r \in 1..(N - 1) /\ s \in 1..(N - 1)
  /\ LET t == (r + s) % N
         idx == (s + t * d) % N
     IN t # 0 /\ idx # 0 /\ (e + X(idx)) % N = r
\* candidates whose verification meets [s]G + [t]P = O: x of infinity is not defined by the standard
Unspec(d, r, s) == r \in 1..(N - 1) /\ s \in 1..(N - 1) /\ (r + s) % N # 0 /\ (s + ((r + s) % N) * d) % N = 0

VARIABLES c, done
Keys == 1..(N - 2)
Cases == {[kind |-> "sign", d |-> d, e |-> e] : d \in Keys, e \in 0..(N - 1)} \cup
         {[kind |-> "verify", d |-> d, e |-> e] : d \in Keys, e \in 0..(N - 1)} \cup {[kind |-> "group"]}
Eval(x) ==
  CASE x.kind = "group" -> [p |-> P, a |-> A, b |-> B, n |-> N, xy |-> XY, ok |-> GroupOK]
    [] x.kind = "sign" -> \* for every first nonce: the signature, or the retry and the result with the smallest acceptable second nonce
         [tries |-> [k \in 1..(N - 1) |->
             LET t == SignTry(x.d, k, x.e) IN
             IF t.ok THEN [k |-> k, ok |-> TRUE, r |-> t.r, s |-> t.s, why |-> "", k2 |-> 0, r2 |-> 0, s2 |-> 0]
             ELSE LET k2 == CHOOSE q \in 1..(N - 1) : SignTry(x.d, q, x.e).ok /\ \A q2 \in 1..(q - 1) : ~SignTry(x.d, q2, x.e).ok
                      t2 == SignTry(x.d, k2, x.e) IN
                  [k |-> k, ok |-> FALSE, r |-> 0, s |-> 0, why |-> t.why, k2 |-> k2, r2 |-> t2.r, s2 |-> t2.s]]]
    [] x.kind = "verify" ->
         [accept |-> {<<r, s>> \in (0..N) \X (0..N) : Verify(x.d, x.e, r, s)},
          unspec |-> {<<r, s>> \in (0..N) \X (0..N) : Unspec(x.d, r, s)}]
Init == c \in Cases /\ done = FALSE
Next == /\ ~done /\ done' = TRUE /\ c' = c
        /\ PrintT(<<"CASE", ToJson([case |-> c, expect |-> Eval(c)])>>)
Spec == Init /\ [][Next]_<<c, done>>

\* properties of the algorithm itself, on every case (checked by TLC as invariants)
Complete == c.kind = "sign" => \A k \in 1..(N - 1) : LET t == SignTry(c.d, k, c.e) IN t.ok => Verify(c.d, c.e, t.r, t.s)
Sound == c.kind = "verify" =>
           {rs \in (0..N) \X (0..N) : Verify(c.d, c.e, rs[1], rs[2])} \subseteq
           ({<<SignTry(c.d, k, c.e).r, SignTry(c.d, k, c.e).s>> : k \in {q \in 1..(N - 1) : SignTry(c.d, q, c.e).ok}})
\* r is a function of the nonce only: two different nonces share r exactly when their x coordinates coincide (k and n-k)
NonceR == c.kind = "sign" => \A k1, k2 \in 1..(N - 1) :
            (k1 # k2 /\ SignTry(c.d, k1, c.e).ok /\ SignTry(c.d, k2, c.e).ok /\ SignTry(c.d, k1, c.e).r = SignTry(c.d, k2, c.e).r) => k1 + k2 = N
EveryBranch == c.kind = "group" =>
            /\ \E d \in Keys, e \in 0..(N - 1), k \in 1..(N - 1) : SignTry(d, k, e).why = "r=0"
            /\ \E d \in Keys, e \in 0..(N - 1), k \in 1..(N - 1) : SignTry(d, k, e).why = "r+k=n"
            /\ \E d \in Keys, e \in 0..(N - 1), k \in 1..(N - 1) : SignTry(d, k, e).why = "s=0"
=============================================================================
