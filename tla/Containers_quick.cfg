SPECIFICATION Spec
CONSTANTS
  Holders = {"a", "b", "c", "x"}
  Full = FALSE
  TamperLen = 100
  Lens = {0, 8, 100, 65535, 65536}
  Passwords = {"empty", "ascii", "utf8", "long", "badutf8"}
  WrongPwd = {"char", "case", "longer", "shorter", "empty", "other", "lowbyte", "badbyte", "nulsuffix", "nulpad"}
INVARIANTS RecipientsRecover OnlyRecipients VerifiesExactlyWhenGenuine BundleOnlyWithPassword Emit
