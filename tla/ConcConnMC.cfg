SPECIFICATION Spec
CONSTANTS
  Ends = {"A", "B"}
  Writers = {"w1", "w2"}
  K = 1
  N = 2
INVARIANTS PerWriterOrder DeliveredIsPrefix HalfCloseLeavesPeerWriting
PROPERTIES NothingAfterClose
