SPECIFICATION Spec
CONSTANTS
  NC = 2
  MaxRot = 2
  MaxConn = 3
  DevTwoStepRotate = TRUE
INVARIANTS RecentTicketResumes
