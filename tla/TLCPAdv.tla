------------------------------- MODULE TLCPAdv -------------------------------
(***************************************************************************)
(* C08.  The authenticated handshake with symbolic cryptography and an      *)
(* attacker, for the GM/T 0024 ECC key exchange and the two TLS 1.2 key     *)
(* exchanges of the standard path (RSA key transport, ECDHE_RSA), each with *)
(* a CBC and an AEAD suite, under every client-authentication policy.       *)
(* Terms: sig(k, m) verifies only under pk(k); enc(pk(k), m) opens only     *)
(* with k; prf/hash are injective.  The attacker is a peer that lacks some  *)
(* private key or presents a certificate that must not be accepted, or a    *)
(* man in the middle rewriting plaintext handshake fields, or replays       *)
(* signed material from another session.  Each scenario is one deviation    *)
(* from the honest run; the handshake is stepped through the standard's     *)
(* checks and TLC checks Authentication and Agreement.                      *)
(***************************************************************************)
EXTENDS Integers, Sequences, FiniteSets, TLC, Json

CONSTANTS Fracs,        \* positions tried per message by the single-byte man in the middle
          ByteAll       \* TRUE: the byte-level man in the middle runs under every protocol combination
MsgKinds == {"CH", "SH", "CERT", "SKE", "CREQ", "CCERT", "CKE", "CV"}    \* (ServerHelloDone has no body)
ToServerKinds == {"CH", "CCERT", "CKE", "CV"}
Policies == {"none", "request", "requireany", "verifyifgiven", "require"}
Verifying == {"verifyifgiven", "require"}      \* a presented client certificate must chain to the client CAs
NeedCert == {"requireany", "require"}          \* a client without a certificate is refused
VARIABLES s, pcC, pcS, step, viewC, viewS
vars == <<s, pcC, pcS, step, viewC, viewS>>

\* protocol combinations: GM/T 0024 ECC (two certificates, pre-master secret encrypted to the encryption certificate,
\* ServerKeyExchange = signature over randoms and encryption certificate), TLS RSA key transport (no ServerKeyExchange),
\* TLS ECDHE_RSA (ServerKeyExchange = signed ephemeral parameters); each with a CBC and an AEAD suite
Combos == {<<"gm", "ecc", "CBC">>, <<"gm", "ecc", "GCM">>, <<"tls", "rsa", "CBC">>, <<"tls", "rsa", "GCM">>,
           <<"tls", "ecdhe", "CBC">>, <<"tls", "ecdhe", "GCM">>}
ByteCombos == IF ByteAll THEN Combos ELSE {<<"gm", "ecc", "CBC">>, <<"gm", "ecc", "GCM">>, <<"tls", "rsa", "GCM">>, <<"tls", "ecdhe", "CBC">>}
Base(c) == [proto |-> c[1], kx |-> c[2], suite |-> c[3],
            verify |-> TRUE, signCert |-> "good", encCert |-> "good", signKey |-> "right", encKey |-> "right",
            ske |-> "honest", policy |-> "none", cliCert |-> "good", cliKey |-> "right", cv |-> "honest", mitm |-> "none",
            msg |-> "", frac |-> 0, clock |-> "now", veto |-> "none"]
Dual(h) == h.proto = "gm"                  \* signing + encryption certificate
HasSKE(h) == h.kx \in {"ecc", "ecdhe"}
\* certificates that must not be accepted.  GMSSL: also a non-SM2 certificate and swapped key usages (both refused even
\* with verification off: the client needs an SM2 key of the right usage); TLS: an extended key usage that excludes servers
\* "lookalike_root": self-signed, with the subject and the key identifier of the root the client trusts, but another key;
\* "noipsan": the client addresses the server by an IP literal and the (otherwise good) certificate names no IP address
\* "cn_not_san": the subject's common name is the requested name while the subjectAltName extension names another host
CertKinds(h) == {"good", "untrusted", "expired", "notyet", "wrongname", "lookalike_root", "noipsan", "cn_not_san"} \cup (IF Dual(h) THEN {"rsa", "wrongusage"} ELSE {"wrongeku"})
HonestOf(h) == {h, [h EXCEPT !.verify = FALSE]} \cup {[h EXCEPT !.policy = p] : p \in Policies}
\* "valid at the configured time": both endpoints may run on a configured clock (Config.Time) instead of the wall clock.
\* clock = "ahead": the configured time lies ten days after the wall clock.  Certificate kinds by validity period:
\* "good" is valid now and over by then, "long" is valid at both moments, "future" only at the later one.
\* "good_then_rogue": the genuine encryption certificate followed by a self-signed one of the sender's own making - what
\* counts is the certificate at the position the protocol assigns (the second one), whatever follows it
Trustworthy == {"good", "long", "future", "good_then_other", "good_then_rogue"}
ValidAt(k, clock) == k = "long" \/ (k \in {"good", "good_then_other", "good_then_rogue"} /\ clock = "now") \/ (k = "future" /\ clock = "ahead")
Acceptable(k, clock) == k \in Trustworthy /\ ValidAt(k, clock)
ClockScenarios(h) ==
  LET L == [h EXCEPT !.signCert = "long", !.encCert = "long"] IN
  UNION {
    {[L EXCEPT !.clock = c, !.signCert = a] : a \in {"good", "long", "future"}} \cup
    (IF Dual(h) THEN {[L EXCEPT !.clock = c, !.encCert = b] : b \in {"good", "long", "future"}} ELSE {}) \cup
    {[h EXCEPT !.clock = c, !.signCert = "future", !.encCert = "future", !.verify = FALSE]} \cup
    {[L EXCEPT !.clock = c, !.policy = p, !.cliCert = k] : k \in {"good", "long", "future"}, p \in {"requireany", "verifyifgiven", "require"}}
    : c \in {"now", "ahead"}}
\* an application callback (Config.VerifyPeerCertificate) that refuses the certificates it is shown: the side that runs
\* it aborts - under every client-certificate policy that makes the client present one, also the non-verifying ones
\* the callback exists for, and also with verification switched off
VetoScenarios(h) ==
  {[h EXCEPT !.veto = "client"], [h EXCEPT !.veto = "client", !.verify = FALSE]} \cup
  {[h EXCEPT !.policy = p, !.veto = "server"] : p \in Policies \ {"none"}} \cup
  {[h EXCEPT !.policy = p, !.veto = "server", !.cliCert = "untrusted"] : p \in {"request", "requireany"}}

ScenariosOf(h) ==
  LET W(f, v) == [h EXCEPT ![f] = v]
      W2(f, v, g, w) == [h EXCEPT ![f] = v, ![g] = w]
      NV == W("verify", FALSE)
      CA(p) == [h EXCEPT !.policy = p]
  IN
  HonestOf(h) \cup
  {W("signCert", k) : k \in CertKinds(h) \ {"good"}} \cup
  (IF Dual(h) THEN {W("encCert", k) : k \in CertKinds(h) \ {"good"}} \cup {W("encKey", "wrong"), [NV EXCEPT !.encKey = "wrong"]} \cup
                   \* both certificates from a CA the client does not trust, the CA's own certificate appended to the message
                   {W2("signCert", "untrusted", "encCert", "untrusted_with_ca")} \cup
                   \* a third certificate behind the genuine pair: harmless when the server holds the genuine keys; a server that
                   \* holds only the key of that third, self-made certificate cannot take the place of the certified one
                   {W("encCert", "good_then_rogue"), W2("encCert", "good_then_rogue", "encKey", "wrong")}
              ELSE {W("signCert", "untrusted_with_ca")}) \cup
  {W("signKey", "wrong"), [NV EXCEPT !.signKey = "wrong"]} \cup
  (IF HasSKE(h) THEN
     {W("ske", k) : k \in {"omitted", "otherrandoms", "badsig"} \cup
                        \* (GMSSL, made by the signer itself, so the transcript stays consistent) the right signature in a form that is
                        \* not SEQUENCE { r, s }: a byte appended behind it / a third INTEGER inside it
                        (IF Dual(h) THEN {"otherenccert", "trailing", "extraint"} ELSE {})} \cup
     \* a recorded ServerKeyExchange replayed in a session that shares ONE of the two randoms with the recorded one (the
     \* attacker picks its own server random; a client may be fed a repeating random source): the signature covers both
     {W2("signKey", "wrong", "ske", k) : k \in {"same_server_random", "same_client_random"}} \cup
     \* the attacker of the statement: holds the encryption key but not the signing key, and omits / replays the SKE
     {W2("signKey", "wrong", "ske", k) : k \in {"omitted", "otherrandoms"}} \cup
     \* verification switched off: possession of the keys must still be proven
     {[NV EXCEPT !.signKey = "wrong", !.ske = "omitted"]}
   ELSE {}) \cup
  \* client authentication under every policy: certificates that do not chain / are not valid now (refused exactly by the
  \* verifying policies), no certificate at all (refused exactly by the requiring policies), and - whatever the policy -
  \* a client that does not hold the key of the certificate it presents or replays another session's CertificateVerify
  UNION {
    {[CA(p) EXCEPT !.cliCert = k] : k \in {"untrusted", "expired", "notyet", "none"}} \cup
    {[CA(p) EXCEPT !.cliKey = "wrong"], [CA(p) EXCEPT !.cv = "othersession"]} \cup
    (IF Dual(h) THEN {[CA(p) EXCEPT !.cv = "trailing"]} ELSE {}) \cup
    \* the client's list starts with a CA certificate of its own making (whose key it holds and proves), followed by a
    \* victim's certificate and the victim's issuer: the identity is the FIRST certificate, and that one chains nowhere
    (IF Dual(h) THEN {[CA(p) EXCEPT !.cliCert = "ca_first"]} ELSE {}) \cup
    \* the client sends further certificates after its own: harmless with its own key, but possession must be proven
    \* for the FIRST certificate (the identity the server reports), not for any later one
    {[CA(p) EXCEPT !.cliCert = "good_then_other"], [CA(p) EXCEPT !.cliCert = "good_then_other", !.cliKey = "of_other"]}
    : p \in Policies \ {"none"} } \cup
  {W("mitm", m) : m \in {"ch_random", "ch_suites", "ch_session", "sh_random", "sh_suite", "sh_session", "cert_bit", "cke_bit"}
                          \cup (IF Dual(h) THEN {"cert_swap"} ELSE {}) \cup (IF HasSKE(h) THEN {"ske_bit"} ELSE {})} \cup
  {[CA(p) EXCEPT !.mitm = m] : m \in {"creq_bit", "ccert_bit", "cv_bit"}, p \in {"request", "require"}}

ByteScenarios(h) ==
  \* one byte changed anywhere in a plaintext handshake message (position = frac/Fracs of its length)
  {[h EXCEPT !.policy = "require", !.mitm = "byte", !.msg = k, !.frac = f] :
      k \in (IF HasSKE(h) THEN MsgKinds ELSE MsgKinds \ {"SKE"}), f \in 0..(Fracs - 1)}

Scenarios == UNION {ScenariosOf(Base(c)) \cup ClockScenarios(Base(c)) \cup VetoScenarios(Base(c)) : c \in Combos} \cup UNION {ByteScenarios(Base(c)) : c \in ByteCombos}
Honest == UNION {HonestOf(Base(c)) : c \in Combos}

Init == s \in Scenarios /\ pcC = "run" /\ pcS = "run" /\ step = 1
        /\ viewC = <<>> /\ viewS = <<>>

\* what each side has seen of the plaintext handshake; a man in the middle makes them differ
Views == LET base == <<"ch", "sh", "cert", "ske", "creq", "ccert", "cke", "cv">> IN
         IF s.mitm = "none" THEN <<base, base>>
         ELSE IF s.mitm = "byte" THEN (IF s.msg \in ToServerKinds THEN <<base, Append(base, "byte")>> ELSE <<Append(base, "byte"), base>>)
         ELSE IF s.mitm \in {"ch_random", "ch_suites", "ch_session", "ccert_bit", "cke_bit", "cv_bit"}
              THEN <<base, Append(base, s.mitm)>>        \* the server received something else than the client sent
              ELSE <<Append(base, s.mitm), base>>        \* the client received something else than the server sent

\* --- the standard's checks, in protocol order ---
\* 1. client: the certificate(s) fit the key exchange (GMSSL: both SM2 with the right key usage), chain to a trusted
\*    root, are valid now, the name matches
CertStructOK(k) == k \notin {"rsa", "wrongusage"}
ClientAcceptsCerts == /\ CertStructOK(s.signCert) /\ CertStructOK(s.encCert)
                      /\ s.mitm # "cert_swap"                                  \* swapped order: usages do not fit
                      /\ (s.verify => Acceptable(s.signCert, s.clock) /\ (Dual(s) => Acceptable(s.encCert, s.clock)))
                      /\ (s.verify => s.mitm # "cert_bit")
                      /\ s.veto # "client"                     \* a changed certificate does not verify
\* 2. client: ServerKeyExchange present, signed by the (signing) certificate's key over this session's randoms and
\*    (GMSSL) the encryption certificate it received / (ECDHE) the ephemeral parameters; RSA key transport has none
SkeOK == ~HasSKE(s) \/ (/\ s.ske = "honest" /\ s.signKey = "right"
                        /\ s.mitm \notin {"ch_random", "sh_random", "ske_bit", "cert_bit"})
\* 3. server: the pre-master secret opens with the encryption key (GMSSL) / the certificate's key (RSA); with ECDHE the
\*    shared secret exists iff the client's share arrives unchanged
PmsOK == /\ s.mitm # "cke_bit"
         /\ (Dual(s) => s.encKey = "right")
         /\ (s.kx = "rsa" => s.signKey = "right")
\* 4. server: the client-certificate policy; possession of the key of the FIRST certificate is proven by a
\*    CertificateVerify over this transcript whenever a certificate is presented
ClientSends == s.policy # "none" /\ s.cliCert # "none"
ClientAuthOK == /\ (s.policy \in NeedCert => s.cliCert # "none")
                /\ (ClientSends => /\ (s.policy \in Verifying => Acceptable(s.cliCert, s.clock))
                                   /\ s.veto # "server"
                                   /\ s.cliKey = "right" /\ s.cv = "honest"
                                   /\ s.mitm \notin {"ccert_bit", "cv_bit"}
                                   /\ Views[1] = Views[2])        \* the signature covers the transcript as the client saw it
\* 5. Finished: each side's verify_data covers its own view; they match iff the views are equal and the master secret is shared
FinishedOK == Views[1] = Views[2] /\ PmsOK

Step ==
  /\ step <= 5 /\ step' = step + 1 /\ UNCHANGED <<s, viewC, viewS>>
  /\ CASE step = 1 -> pcC' = (IF ClientAcceptsCerts THEN pcC ELSE "abort") /\ UNCHANGED pcS
       [] step = 2 -> pcC' = (IF pcC = "run" /\ ~SkeOK THEN "abort" ELSE pcC) /\ UNCHANGED pcS
       [] step = 3 -> pcS' = (IF pcC = "abort" \/ ~PmsOK THEN "abort" ELSE pcS) /\ UNCHANGED pcC
       [] step = 4 -> pcS' = (IF pcS = "run" /\ ~ClientAuthOK THEN "abort" ELSE pcS) /\ UNCHANGED pcC
       [] step = 5 -> /\ pcS' = (IF pcS = "run" /\ pcC = "run" /\ FinishedOK THEN "complete" ELSE "abort")
                      /\ pcC' = (IF pcS = "run" /\ pcC = "run" /\ FinishedOK THEN "complete" ELSE "abort")
Spec == Init /\ [][Step]_vars

Done == step = 6
\* Authentication: the client completes only with a peer that holds the certified private key(s) and proved it in
\* this session; with verification on, only under acceptable certificates
AuthServer == (Done /\ pcC = "complete") => /\ s.signKey = "right" /\ (Dual(s) => s.encKey = "right")
                                            /\ (HasSKE(s) => s.ske = "honest")
                                            /\ (s.verify => Acceptable(s.signCert, s.clock) /\ (Dual(s) => Acceptable(s.encCert, s.clock)))
                                            /\ s.veto # "client"
\* the server completes with a client that presents a certificate only if the client proved possession of its key over
\* this transcript; under a verifying policy only if the certificate chains and is valid; under a requiring policy only
\* with a certificate
AuthClient == (Done /\ pcS = "complete") => /\ (ClientSends => s.cliKey = "right" /\ s.cv = "honest")
                                            /\ (ClientSends /\ s.policy \in Verifying => Acceptable(s.cliCert, s.clock))
                                            /\ (ClientSends => s.veto # "server")
                                            /\ (s.policy \in NeedCert => s.cliCert # "none")
\* Agreement: never both complete with different views
Agreement == (Done /\ pcC = "complete" /\ pcS = "complete") => Views[1] = Views[2]
HonestCompletes == (Done /\ s \in Honest) => pcC = "complete" /\ pcS = "complete"
\* the policies that do not verify accept any certificate whose key the client proves
LaxPoliciesAccept == (Done /\ s.policy \in {"request", "requireany"} /\ s.cliCert \in {"untrusted", "expired", "notyet"}
                      /\ [s EXCEPT !.policy = "none", !.cliCert = "good"] \in Honest) => pcS = "complete"
\* a certificate is judged at the configured time, not at the wall clock: whatever is trusted and valid then is accepted
ClockHonoured == (Done /\ s.mitm = "none" /\ s.veto = "none" /\ s.signKey = "right" /\ s.encKey = "right" /\ s.ske = "honest" /\ s.cliKey = "right" /\ s.cv = "honest"
                  /\ s.signCert \in Trustworthy /\ s.encCert \in Trustworthy /\ s.cliCert \in Trustworthy \cup {"none"}
                  /\ ValidAt(s.signCert, s.clock) /\ (Dual(s) => ValidAt(s.encCert, s.clock))
                  /\ (ClientSends => ValidAt(s.cliCert, s.clock)) /\ (s.policy \in NeedCert => s.cliCert # "none"))
                 => pcC = "complete" /\ pcS = "complete"
Emit == Done => PrintT(<<"CASE", ToJson([case |-> s, expect |-> [client |-> pcC, server |-> pcS]])>>)
=============================================================================
