------------------------------- MODULE TLCPAdv -------------------------------
(***************************************************************************)
(* C08.  The GM/T 0024 ECC handshake with symbolic cryptography and an     *)
(* attacker.  Terms: sig(k, m) verifies only under pk(k); enc(pk(k), m)    *)
(* opens only with k; prf/hash are injective.  The attacker is a peer that *)
(* lacks some private key or presents a certificate that must not be       *)
(* accepted, or a man in the middle rewriting plaintext handshake fields,  *)
(* or replays signed material from another session.  Each scenario is one  *)
(* deviation from the honest run; the handshake is stepped through the     *)
(* standard's checks and TLC checks Authentication and Agreement.          *)
(***************************************************************************)
EXTENDS Integers, Sequences, FiniteSets, TLC, Json

CONSTANT Fracs
MsgKinds == {"CH", "SH", "CERT", "SKE", "CREQ", "CCERT", "CKE", "CV"}    \* (ServerHelloDone has no body)
ToServerKinds == {"CH", "CCERT", "CKE", "CV"}
CertKinds == {"good", "untrusted", "expired", "notyet", "wrongname", "rsa", "wrongusage"}
VARIABLES s, pcC, pcS, step, viewC, viewS
vars == <<s, pcC, pcS, step, viewC, viewS>>

Honest == [verify |-> TRUE, signCert |-> "good", encCert |-> "good", signKey |-> "right", encKey |-> "right",
           ske |-> "honest", cauth |-> FALSE, cliCert |-> "good", cliKey |-> "right", cv |-> "honest", mitm |-> "none",
           msg |-> "", frac |-> 0]
With(f, v) == [Honest EXCEPT ![f] = v]
With2(f, v, g, w) == [Honest EXCEPT ![f] = v, ![g] = w]
CA == [Honest EXCEPT !.cauth = TRUE]

Scenarios ==
  {Honest, CA, With("verify", FALSE)} \cup
  {With("signCert", k) : k \in CertKinds \ {"good"}} \cup
  {With("encCert", k) : k \in CertKinds \ {"good"}} \cup
  \* both certificates from a CA the client does not trust, the CA's own certificate appended to the message
  {With2("signCert", "untrusted", "encCert", "untrusted_with_ca")} \cup
  {With("signKey", "wrong"), With("encKey", "wrong")} \cup
  {With("ske", k) : k \in {"omitted", "otherrandoms", "otherenccert", "badsig"}} \cup
  \* a recorded ServerKeyExchange replayed in a session that shares ONE of the two randoms with the recorded one (the
  \* attacker picks its own server random; a client may be fed a repeating random source): the signature covers both
  {With2("signKey", "wrong", "ske", k) : k \in {"same_server_random", "same_client_random"}} \cup
  \* the attacker of the statement: holds the encryption key but not the signing key, and omits / replays the SKE
  {With2("signKey", "wrong", "ske", k) : k \in {"omitted", "otherrandoms"}} \cup
  \* verification switched off: possession of the keys must still be proven
  {[With("verify", FALSE) EXCEPT !.signKey = "wrong"], [With("verify", FALSE) EXCEPT !.encKey = "wrong"],
   [With("verify", FALSE) EXCEPT !.signKey = "wrong", !.ske = "omitted"]} \cup
  {[CA EXCEPT !.cliCert = k] : k \in {"untrusted", "expired", "notyet"}} \cup
  {[CA EXCEPT !.cliKey = "wrong"], [CA EXCEPT !.cv = "othersession"]} \cup
  \* the client sends further certificates after its own: harmless with its own key, but possession must be proven
  \* for the FIRST certificate (the identity the server reports), not for any later one
  {[CA EXCEPT !.cliCert = "good_then_other"], [CA EXCEPT !.cliCert = "good_then_other", !.cliKey = "of_other"]} \cup
  {With("mitm", m) : m \in {"ch_random", "ch_suites", "ch_session", "sh_random", "sh_suite", "sh_session",
                             "cert_swap", "cert_bit", "ske_bit", "cke_bit"}} \cup
  {[CA EXCEPT !.mitm = m] : m \in {"creq_bit", "ccert_bit", "cv_bit"}} \cup
  \* one byte changed anywhere in a plaintext handshake message (position = frac/Fracs of its length)
  {[CA EXCEPT !.mitm = "byte", !.msg = k, !.frac = f] : k \in MsgKinds, f \in 0..(Fracs - 1)}

Init == s \in Scenarios /\ pcC = "run" /\ pcS = "run" /\ step = 1
        /\ viewC = <<>> /\ viewS = <<>>

\* what each side has seen of the plaintext handshake; a man in the middle makes them differ
Views == LET base == <<"ch", "sh", "cert", "ske", "creq", "ccert", "cke", "cv">> IN
         IF s.mitm = "none" THEN <<base, base>>
         ELSE IF s.mitm = "byte" THEN (IF s.msg \in ToServerKinds THEN <<base, Append(base, "byte")>> ELSE <<Append(base, "byte"), base>>)
         ELSE IF s.mitm \in {"ch_random", "ch_suites", "ch_session", "ccert_bit", "cke_bit", "cv_bit"}
              THEN <<base, Append(base, s.mitm)>>        \* the server received something else than the client sent
              ELSE <<Append(base, s.mitm), base>>        \* the client received something else than the server sent

\* --- the standard's checks, in protocol order ---
\* 1. client: both certificates are SM2, carry the right key usage, chain to a trusted root, are valid now, name matches
CertStructOK(k) == k \notin {"rsa", "wrongusage"}
ClientAcceptsCerts == /\ CertStructOK(s.signCert) /\ CertStructOK(s.encCert)
                      /\ s.mitm # "cert_swap"                                  \* swapped order: usages do not fit
                      /\ (s.verify => s.signCert = "good" /\ s.encCert = "good")
                      /\ (s.verify => s.mitm # "cert_bit")                     \* a changed certificate does not verify
\* 2. client: ServerKeyExchange present, signed by the signing certificate's key over this session's randoms and
\*    the encryption certificate it received
SkeOK == /\ s.ske = "honest" /\ s.signKey = "right"
         /\ s.mitm \notin {"ch_random", "sh_random", "ske_bit", "cert_bit"}
\* 3. server: the pre-master secret opens with the encryption key
PmsOK == s.encKey = "right" /\ s.mitm # "cke_bit"
\* 4. server (client auth required and verified): chain, validity, CertificateVerify over this transcript
ClientAuthOK == ~s.cauth \/ (/\ s.cliCert \in {"good", "good_then_other"} /\ s.cliKey = "right" /\ s.cv = "honest"
                                /\ s.mitm \notin {"ccert_bit", "cv_bit"}
                                /\ Views[1] = Views[2])           \* the signature covers the transcript as the client saw it
\* 5. Finished: each side's verify_data covers its own view; they match iff the views are equal and the master secret is shared
FinishedOK == Views[1] = Views[2] /\ PmsOK

Step ==
  /\ step <= 5 /\ step' = step + 1 /\ UNCHANGED <<s, viewC, viewS>>
  /\ CASE step = 1 -> pcC' = (IF ClientAcceptsCerts THEN pcC ELSE "abort") /\ UNCHANGED pcS
       [] step = 2 -> pcC' = (IF pcC = "run" /\ ~SkeOK THEN "abort" ELSE pcC) /\ UNCHANGED pcS
       [] step = 3 -> pcS' = (IF pcC = "abort" \/ ~PmsOK THEN "abort" ELSE pcS) /\ UNCHANGED pcC
       [] step = 4 -> pcS' = (IF pcS = "run" /\ ~ClientAuthOK THEN "abort" ELSE pcS) /\ UNCHANGED pcC
       [] step = 5 -> /\ pcS' = (IF pcS = "run" /\ pcC = "run" /\ FinishedOK THEN "complete" ELSE "abort")
                      /\ pcC' = (IF pcS = "run" /\ pcC = "run" /\ FinishedOK THEN "complete" ELSE "abort")
Spec == Init /\ [][Step]_vars

Done == step = 6
\* Authentication: the client completes only with a peer that holds BOTH certified private keys and proved it in
\* this session; with verification on, only under acceptable certificates
AuthServer == (Done /\ pcC = "complete") => /\ s.signKey = "right" /\ s.encKey = "right" /\ s.ske = "honest"
                                            /\ (s.verify => s.signCert = "good" /\ s.encCert = "good")
AuthClient == (Done /\ pcS = "complete" /\ s.cauth) => s.cliCert \in {"good", "good_then_other"} /\ s.cliKey = "right" /\ s.cv = "honest"
\* Agreement: never both complete with different views
Agreement == (Done /\ pcC = "complete" /\ pcS = "complete") => Views[1] = Views[2]
HonestCompletes == (Done /\ s \in {Honest, CA, With("verify", FALSE)}) => pcC = "complete" /\ pcS = "complete"
Emit == Done => PrintT(<<"CASE", ToJson([case |-> s, expect |-> [client |-> pcC, server |-> pcS]])>>)
=============================================================================
