SPECIFICATION Spec
