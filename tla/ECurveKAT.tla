------------------------------ MODULE ECurveKAT ------------------------------
(* Self-checks of ECurve + BigNat on the SM2 parameters: G on the curve, [n]G = O, *)
(* [n-1]G = -G, [2]G = G+G, (G+[2]G)+[3]G = [6]G, and override = meaning on small operands. *)
EXTENDS ECurve, TLC
VARIABLE x
C == SM2Curve
Init == x = 0
Next == /\ x = 0 /\ x' = 1
        /\ Assert(OnCurve(C, C.gx, C.gy), "G on curve")
        /\ Assert(PMul(C, C.n, G(C)).inf, "[n]G = O")
        /\ Assert(PMul(C, BSub(C.n, "1"), G(C)) = PNeg(C, G(C)), "[n-1]G = -G")
        /\ Assert(PMul(C, "2", G(C)) = PAdd(C, G(C), G(C)), "[2]G")
        /\ Assert(PAdd(C, PAdd(C, G(C), PMul(C, "2", G(C))), PMul(C, "3", G(C))) = PMul(C, "6", G(C)), "assoc")
        /\ Assert(~OnCurve(C, C.gx, BAddMod(C.gy, "1", C.p)), "off curve")
        /\ Assert(\A a \in 0..40, b \in 1..12 : /\ BToInt(BAdd(BFromInt(a), BFromInt(b))) = a + b
                                                 /\ BToInt(BMul(BFromInt(a), BFromInt(b))) = a * b
                                                 /\ BToInt(BMod(BFromInt(a), BFromInt(b))) = a % b
                                                 /\ BToInt(BSubMod(BFromInt(a % b), BFromInt(b - 1), BFromInt(b))) = ((a % b) - (b - 1)) % b,
                  "override = meaning on small operands")
Spec == Init /\ [][Next]_x
=============================================================================
