---------------------------- MODULE HashObjTrace ----------------------------
(* C04.  Validates traces recorded from real sm3.New() objects against      *)
(* HashObj.  The digest oracle DT is the table TLC computed from SM3.tla.   *)
EXTENDS HashObj, SequencesExt
CONSTANTS TraceFile, TableFile
Trace == ndJsonDeserialize(TraceFile)
Table == ndJsonDeserialize(TableFile)       \* line i+1: [len |-> i, d |-> digest of Msg(i)]
DT(n) == Table[n + 1].d
ASSUME TLCSet(1, 0)
ASSUME \A i \in 1..Len(Table) : Table[i].len = i - 1
VARIABLE l
T == Trace[l]
IsEvent(e) == l <= Len(Trace) /\ Trace[l].ev = e /\ l' = l + 1

TNew   == IsEvent("new") /\ len' = 0 /\ blocks' = 0 /\ tail' = 0 /\ hist' = <<>>
\* (the driver overwrites its buffer right after Write returns: the object must have copied what it keeps)
\* (results_intact: every slice an earlier Sum returned still holds the value it held when it was returned - results are
\* values of the caller, not windows into the object)
TWrite == IsEvent("write") /\ T.ret = T.n /\ T.err = FALSE /\ T.caller_intact /\ T.results_intact /\ Write(T.n)
\* the slice returned by Sum is the caller's prefix followed by the digest of the stream so far
TSum   == /\ IsEvent("sum") /\ Sum(T.p, T.c)
          /\ T.out = Prefix(T.p) \o DT(len)
          /\ T.prefix_intact /\ T.results_intact
TReset == IsEvent("reset") /\ T.results_intact /\ Reset
\* Sm3Sum(Msg(n)) one-shot
TOne   == IsEvent("oneshot") /\ T.out = DT(T.n) /\ UNCHANGED vars
TSize  == IsEvent("size") /\ T.size = 32 /\ T.bs = 64 /\ UNCHANGED vars

TraceInit == l = 1 /\ Init
TraceNext == TNew \/ TWrite \/ TSum \/ TReset \/ TOne \/ TSize
TraceSpec == TraceInit /\ [][TraceNext]_<<vars, l>>
HighWater == TLCSet(1, IF l > TLCGet(1) THEN l ELSE TLCGet(1))
Accepted == PrintT(<<"HWM", TLCGet(1), Len(Trace)>>) /\ TLCGet(1) = Len(Trace) + 1
=============================================================================
