import java.math.BigInteger;

import tlc2.value.impl.BoolValue;
import tlc2.value.impl.IntValue;
import tlc2.value.impl.StringValue;
import tlc2.value.impl.TupleValue;
import tlc2.value.impl.Value;

// Operator overrides for module BigNat: naturals of arbitrary size as lowercase hex strings
// ("0", "1f", ...), computed with java.math.BigInteger.  TLC's own integers are 32-bit.
public class BigNat {
    private static BigInteger n(Value v) {
        return new BigInteger(((StringValue) v).val.toString(), 16);
    }

    private static Value s(BigInteger b) {
        if (b.signum() < 0) {
            throw new RuntimeException("BigNat: negative result");
        }
        return new StringValue(b.toString(16));
    }

    public static Value BAdd(Value a, Value b) { return s(n(a).add(n(b))); }
    public static Value BSub(Value a, Value b) { return s(n(a).subtract(n(b))); }
    public static Value BMul(Value a, Value b) { return s(n(a).multiply(n(b))); }
    public static Value BMod(Value a, Value m) { return s(n(a).mod(n(m))); }
    public static Value BDiv(Value a, Value b) { return s(n(a).divide(n(b))); }
    public static Value BAddMod(Value a, Value b, Value m) { return s(n(a).add(n(b)).mod(n(m))); }
    public static Value BSubMod(Value a, Value b, Value m) { return s(n(a).subtract(n(b)).mod(n(m))); }
    public static Value BMulMod(Value a, Value b, Value m) { return s(n(a).multiply(n(b)).mod(n(m))); }
    public static Value BInvMod(Value a, Value m) { return s(n(a).modInverse(n(m))); }
    public static Value BCmp(Value a, Value b) { return IntValue.gen(n(a).compareTo(n(b))); }
    public static Value BBit(Value a, Value i) { return n(a).testBit(((IntValue) i).val) ? BoolValue.ValTrue : BoolValue.ValFalse; }
    public static Value BBitLen(Value a) { return IntValue.gen(n(a).bitLength()); }
    public static Value BShr(Value a, Value k) { return s(n(a).shiftRight(((IntValue) k).val)); }
    public static Value BAnd(Value a, Value b) { return s(n(a).and(n(b))); }
    public static Value BFromInt(Value i) { return s(BigInteger.valueOf(((IntValue) i).val)); }
    public static Value BToInt(Value a) { return IntValue.gen(n(a).intValueExact()); }

    // big-endian byte sequence (TLA+ sequence of 0..255) -> natural
    public static Value BFromBytes(Value seq) {
        TupleValue t = (TupleValue) seq.toTuple();
        byte[] b = new byte[t.size() + 1];
        for (int i = 0; i < t.size(); i++) {
            b[i + 1] = (byte) ((IntValue) t.elems[i]).val;
        }
        return s(new BigInteger(b));
    }

    // natural -> big-endian bytes, left-padded with zeros to at least len bytes (minimal if len = 0)
    public static Value BToBytes(Value a, Value len) {
        byte[] raw = n(a).toByteArray();
        int off = (raw.length > 1 && raw[0] == 0) ? 1 : 0;
        int m = raw.length - off;
        if (n(a).signum() == 0) {
            m = 0;
        }
        int want = Math.max(m, ((IntValue) len).val);
        Value[] out = new Value[want];
        for (int i = 0; i < want - m; i++) {
            out[i] = IntValue.gen(0);
        }
        for (int i = 0; i < m; i++) {
            out[want - m + i] = IntValue.gen(raw[off + i] & 0xff);
        }
        return new TupleValue(out);
    }
}
