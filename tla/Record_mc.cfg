SPECIFICATION Spec
CONSTANTS
  NRec = 3
  Budget = 3
  Hows = {"any"}
  Aliens = {"any"}
  Canonical = FALSE
INVARIANTS Prefix SeqByOne TypeOK
PROPERTIES Sticky
VIEW View
