SPECIFICATION Spec
CONSTANTS
  Procs = {"p1", "p2"}
  Shared = TRUE
INVARIANTS AsIfAlone Emit
