------------------------------- MODULE ECWalk -------------------------------
(***************************************************************************)
(* C03.  The SM2 curve object as a walk in the group: the state is a point *)
(* P together with its discrete logarithm dl (so the specification KNOWS   *)
(* when an addition is really a doubling or a cancellation and forces      *)
(* those cases).  Each action is one call of the elliptic.Curve API and    *)
(* records operands and the affine result the mathematics prescribes,      *)
(* (0,0) standing for the point at infinity.                               *)
(***************************************************************************)
EXTENDS ECurve, TLC, Json
CONSTANTS MaxOps, AddSet, NLcg,          \* AddSet: small integers j (Q = [j]BasePt); NLcg: number of pseudo-random scalars
          BaseKind                       \* the point BasePt the walk starts from and measures discrete logs against: "G", or "X0" =
                                         \* (0, sqrt b), the finite point with a ZERO coordinate (SM2's b is a square mod p; the
                                         \* group has prime order, so X0 generates it too); (0,0) encodes infinity in this API,
                                         \* so an implementation may confuse a point with one zero coordinate with it
\* scalar descriptors <<family, parameter>>: zero, tiny, values at and around the group order and twice it, powers of
\* two and all-ones windows, leading zeros, empty and 40-byte strings, n-1..n-20 (whose windowed recoding makes the
\* accumulator meet +-digit*P), pseudo-random
\* (walks use a short list: simulation computes every successor of every state it visits)
WalkScalars == {<<"small", 0>>, <<"small", 1>>, <<"small", 2>>, <<"nminus", 1>>, <<"nminus", 6>>, <<"nminus", 0>>, <<"nplus", 1>>,
                <<"ones", 32>>, <<"lead0", 5>>, <<"long40", 1>>, <<"lcg", 1>>, <<"lcg", 2>>}
ScalarSet == IF NLcg = 0 THEN WalkScalars ELSE
             {<<"small", v>> : v \in {0, 1, 2, 3, 15, 16, 17, 255, 256}} \cup {<<"small32", 1>>, <<"lead0", 5>>, <<"empty", 0>>} \cup
             {<<"nminus", v>> : v \in 0..20} \cup {<<"nplus", v>> : v \in 1..16} \cup {<<"twon", v>> : v \in {0, 1}} \cup
             {<<"pow2", k>> : k \in {8, 64, 128, 248, 256}} \cup {<<"ones", k>> : k \in {1, 16, 31, 32, 33, 40}} \cup
             {<<"alt", v>> : v \in {0, 15, 85, 170}} \cup {<<"long40", v>> : v \in {0, 1, 255}} \cup
             {<<"lcg", s>> : s \in 1..NLcg}
C == SM2Curve
X0 == Pt("0", "2baee16e8c959f0f817757c2930a5e9805192e4636ccf1991dcd1ff0a323eab")
ASSUME OnCurve(C, X0.x, X0.y)
BasePt == IF BaseKind = "X0" THEN X0 ELSE G(C)
VARIABLES P, dl, hist
vars == <<P, dl, hist>>

Rep(v, k) == [i \in 1..k |-> v]
\* scalar descriptors -> big-endian byte strings as a caller would pass them
ScalarBytes(d) ==
  CASE d[1] = "small"  -> BToBytes(BFromInt(d[2]), 0)
    [] d[1] = "small32" -> BToBytes(BFromInt(d[2]), 32)
    [] d[1] = "lead0"  -> <<0, 0, 0>> \o BToBytes(BFromInt(d[2]), 1)
    [] d[1] = "empty"  -> <<>>
    [] d[1] = "nminus" -> BToBytes(BSub(C.n, BFromInt(d[2])), 32)
    [] d[1] = "nplus"  -> BToBytes(BAdd(C.n, BFromInt(d[2])), 32)
    [] d[1] = "twon"   -> BToBytes(BAdd(BMul("2", C.n), BFromInt(d[2])), 33)
    [] d[1] = "pow2"   -> BToBytes(BMul("1", BFromBytes(<<1>> \o Rep(0, d[2] \div 8))), 0)     \* 2^(8k) for k = d[2] div 8
    [] d[1] = "ones"   -> Rep(255, d[2])                                                     \* d[2] bytes of 0xff
    [] d[1] = "alt"    -> [i \in 1..32 |-> IF i % 2 = 0 THEN d[2] ELSE 255 - d[2]]
    [] d[1] = "long40" -> Rep(d[2], 8) \o BToBytes(BSub(C.n, "3"), 32)
    [] d[1] = "lcg"    -> [i \in 1..32 |-> (d[2] * 37 + i * 101 + i * i * (d[2] + 3) + (d[2] \div 256) * (i * 29 + 11)) % 256]
ScalarVal(d) == BMod(BFromBytes(ScalarBytes(d)), C.n)

Init == /\ \/ (P = BasePt /\ dl = "1") \/ (P = Inf /\ dl = "0")
        /\ hist = <<>>
H(e) == hist' = Append(hist, e)
Aff(Q) == [x |-> Affine(Q)[1], y |-> Affine(Q)[2]]

\* Add(P, Q): Q = [j]G for a catalogue value, or chosen relative to P: "same" (Q = P), "neg" (Q = -P), "inf"
AddQ(kind, j) ==
  LET jj == CASE kind = "same" -> dl [] kind = "neg" -> BSubMod("0", dl, C.n) [] kind = "inf" -> "0" [] OTHER -> BFromInt(j)
      Q == PMul(C, jj, BasePt)
      R == PAdd(C, P, Q)
  IN /\ P' = R /\ dl' = BAddMod(dl, jj, C.n)
     /\ H([op |-> "add", kind |-> kind, p |-> Aff(P), q |-> Aff(Q), expect |-> Aff(R)])
Dbl == LET R == PDouble(C, P) IN
       /\ P' = R /\ dl' = BMulMod(dl, "2", C.n)
       /\ H([op |-> "double", p |-> Aff(P), expect |-> Aff(R)])
Mul(d) == LET R == PMulBytes(C, ScalarBytes(d), P) IN
          /\ ~P.inf                 \* ScalarMult of (0,0) is outside the statement (a finite curve point is required)
          /\ P' = R /\ dl' = BMulMod(dl, ScalarVal(d), C.n)
          /\ H([op |-> "mul", p |-> Aff(P), k |-> ScalarBytes(d), kd |-> d, expect |-> Aff(R)])
BaseMul(d) == LET R == PMulBytes(C, ScalarBytes(d), G(C)) IN
              /\ BaseKind = "G"          \* (the discrete log of G with respect to X0 is unknown)
              /\ P' = R /\ dl' = ScalarVal(d)
              /\ H([op |-> "basemul", k |-> ScalarBytes(d), kd |-> d, expect |-> Aff(R)])
\* membership probes around the current point
Probe(how) ==
  LET x == IF P.inf THEN "0" ELSE P.x
      y == IF P.inf THEN "0" ELSE P.y
      xy == CASE how = "self" -> <<x, y>>
              [] how = "negy" -> <<x, IF y = "0" THEN "0" ELSE BSub(C.p, y)>>
              [] how = "y+1"  -> <<x, BAddMod(y, "1", C.p)>>
              [] how = "x+1"  -> <<BAddMod(x, "1", C.p), y>>
              [] how = "swap" -> <<y, x>>
              \* (pairs outside [0, p) are outside the statement: no probes there; C13 asks for them to be refused as peer values)
  IN /\ UNCHANGED <<P, dl>>
     /\ H([op |-> "oncurve", x |-> xy[1], y |-> xy[2], expect |-> OnCurve(C, xy[1], xy[2])])

Next == /\ Len(hist) < MaxOps
        /\ \/ \E j \in AddSet : AddQ("cat", j)
           \/ \E k \in {"same", "neg", "inf"} : AddQ(k, 0)
           \/ Dbl
           \/ \E d \in ScalarSet : Mul(d) \/ BaseMul(d)
           \/ \E h \in {"self", "negy", "y+1", "x+1", "swap"} : Probe(h)
Spec == Init /\ [][Next]_vars

\* the specification's own sanity: the tracked discrete log explains the point, and the point is on the curve
Consistent == P = PMul(C, dl, BasePt) /\ (P.inf \/ OnCurve(C, P.x, P.y))
Emit == Len(hist) = MaxOps => PrintT(<<"BEH", ToJson(hist)>>)

\* --- key generation as a table: the bytes the reader supplies determine d = (bytes mod (n-2)) + 1, P = [d]G ---
KeyOf(bytes40) == LET d == BAdd(BMod(BFromBytes(bytes40), BSub(C.n, "2")), "1") IN
                  [d |-> d, pub |-> Aff(PMul(C, d, G(C)))]
=============================================================================
