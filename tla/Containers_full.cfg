SPECIFICATION Spec
CONSTANTS
  Holders = {"a", "b", "c", "x"}
  Full = TRUE
  TamperLen = 100
  Lens = {0, 1, 7, 8, 9, 15, 16, 17, 100, 4096, 65519, 65520, 65528, 65535, 65536, 65537}
  Passwords = {"empty", "ascii", "utf8", "long", "bmp_edge", "badutf8"}
  WrongPwd = {"char", "case", "longer", "shorter", "empty", "other", "lowbyte", "badbyte", "nulsuffix", "nulpad"}
INVARIANTS RecipientsRecover OnlyRecipients VerifiesExactlyWhenGenuine BundleOnlyWithPassword Emit
