------------------------------ MODULE TLCPFlight ------------------------------
(***************************************************************************)
(* C06, message level.  The flights of a full GM/T 0024 / TLS 1.0-1.2      *)
(* handshake as the standard orders them, as a function of what was        *)
(* negotiated and configured:                                              *)
(*   C: ClientHello                                                        *)
(*   S: ServerHello Certificate [ServerKeyExchange] [CertificateRequest]   *)
(*      ServerHelloDone                                                    *)
(*   C: [Certificate] ClientKeyExchange [CertificateVerify]                *)
(*      ChangeCipherSpec Finished(protected)                               *)
(*   S: [NewSessionTicket] ChangeCipherSpec Finished(protected)            *)
(* ServerKeyExchange: always in GMSSL (signature over the randoms and the  *)
(* encryption certificate), in TLS only for ECDHE suites.                  *)
(* CertificateRequest iff the server's policy asks; the client answers a   *)
(* request with a (possibly empty) Certificate and proves possession       *)
(* (CertificateVerify) iff it sent one.  The sequences observed on the     *)
(* wire by the interposer, for every configuration C06 runs, are checked   *)
(* against this: a completed handshake shows exactly the sequence, an      *)
(* aborted one a prefix of it in each direction followed by alerts only.   *)
(***************************************************************************)
EXTENDS Integers, Sequences, FiniteSets, TLC, Json
CONSTANTS ObsFile
Obs == ndJsonDeserialize(ObsFile)    \* [proto, suite, auth, ccert, tickets, complete, flight]

Opt(b, m) == IF b THEN <<m>> ELSE <<>>
NeedsSKE(proto, suite) == proto = "gm" \/ suite \in {"ECDHE_RSA_AES128_GCM", "ECDHE_RSA_AES256_CBC", "ECDHE_RSA_CHACHA"}
\* nst: the server issues a ticket iff it has tickets enabled AND the ClientHello offered the extension (RFC 5077);
\* o.tickets is the conjunction (the driver decides independently whether the client has a session cache, which is
\* what makes it offer)
ExpectedN(o, nst) ==
  LET req == o.auth # "none" sent == req /\ o.ccert # "none" IN
  <<"c:CH", "s:SH", "s:CERT">> \o Opt(NeedsSKE(o.proto, o.suite), "s:SKE") \o Opt(req, "s:CREQ") \o <<"s:SHD">> \o
  Opt(req, "c:CERT") \o <<"c:CKE">> \o Opt(sent, "c:CV") \o <<"c:CCS", "c:ENC">> \o
  Opt(nst, "s:NST") \o <<"s:CCS", "s:ENC">>
Expected(o) == ExpectedN(o, o.tickets)
ExpectedSet(o) == {ExpectedN(o, o.tickets)}

Sel(s, P(_)) == LET F[i \in 0..Len(s)] == IF i = 0 THEN <<>> ELSE IF P(s[i]) THEN Append(F[i - 1], s[i]) ELSE F[i - 1] IN F[Len(s)]
IsPrefix(a, b) == Len(a) <= Len(b) /\ SubSeq(b, 1, Len(a)) = a
Dir(s, d) == Sel(s, LAMBDA m : SubSeq(m, 1, 1) = d)
NoAlerts(s) == Sel(s, LAMBDA m : m \notin {"c:ALERT", "s:ALERT"})
\* everything up to the first alert
UpToAlert(s) == LET idx == {i \in 1..Len(s) : s[i] \in {"c:ALERT", "s:ALERT"}} IN
                IF idx = {} THEN s ELSE SubSeq(s, 1, (CHOOSE i \in idx : \A j \in idx : i <= j) - 1)

\* when the server's suite is not known (aborted before agreement) the prefix may follow either shape
Shapes(o) == IF o.suite # "" THEN ExpectedSet(o)
             ELSE UNION {ExpectedSet([o EXCEPT !.suite = s]) : s \in {"RSA_AES128_GCM", "ECDHE_RSA_AES128_GCM"}}
Conforms(o) ==
  IF o.complete
    THEN NoAlerts(o.flight) \in ExpectedSet(o)      \* (a close_notify after completion is not part of the handshake)
    ELSE \E e \in Shapes(o) : LET f == UpToAlert(o.flight) IN IsPrefix(Dir(f, "c"), Dir(e, "c")) /\ IsPrefix(Dir(f, "s"), Dir(e, "s"))

VARIABLES i, done
Init == i \in 1..Len(Obs) /\ done = FALSE
Next == ~done /\ done' = TRUE /\ i' = i
        /\ PrintT(<<"FLIGHT", ToJson([i |-> i, ok |-> Conforms(Obs[i]), expected |-> IF Obs[i].suite # "" THEN Expected(Obs[i]) ELSE <<>>])>>)
Spec == Init /\ [][Next]_<<i, done>>
=============================================================================
