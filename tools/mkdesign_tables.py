#!/usr/bin/env python3
# Regenerates the generated tables of DESIGN.md (between the BEGIN/END markers) from seeded/*/meta.json,
# known_findings.json and seeded/RESULTS.json (written by tools/selftest_mutants.sh).
import glob
import json
import os
import re

ROOT = os.path.dirname(os.path.dirname(os.path.abspath(__file__)))


def mutants_table():
    res = {}
    rp = os.path.join(ROOT, "seeded", "RESULTS.json")
    if os.path.exists(rp):
        res = json.load(open(rp))
    rows = ["| seeded change | what it does | caught by | last self-test |", "|---|---|---|---|"]
    for d in sorted(glob.glob(os.path.join(ROOT, "seeded", "*", ""))):
        name = os.path.basename(d.rstrip("/"))
        m = json.load(open(os.path.join(d, "meta.json")))
        what = m.get("what") or m.get("needs") or m.get("kind") or ""
        if m.get("kind", "").startswith("revert") and m.get("needs"):
            what = m["kind"] + ": " + m["needs"]
        what = re.sub(r"\s+", " ", what).replace("|", "/")
        if len(what) > 230:
            what = what[:227] + "..."
        by = re.sub(r"\s+", " ", m.get("detected_by", "")).replace("|", "/")
        if len(by) > 160:
            by = by[:157] + "..."
        rows.append("| `%s` | %s | %s | %s |" % (name, what, by, res.get(name, "-")))
    return "\n".join(rows)


def fixed_table():
    k = json.load(open(os.path.join(ROOT, "known_findings.json")))
    rows = ["| property | commit in /repo | what failed on the unchanged tree |", "|---|---|---|"]
    for f in k["fixed"]:
        m = re.match(r"fixed: property=(C\d+) (\w+) (.*)", f)
        if m:
            rows.append("| %s | `%s` | %s |" % (m.group(1), m.group(2), m.group(3).replace("|", "/")))
    return "\n".join(rows)


def main():
    p = os.path.join(ROOT, "DESIGN.md")
    s = open(p).read()
    for tag, fn in (("MUTANTS", mutants_table), ("FIXED", fixed_table)):
        b, e = "<!-- BEGIN %s -->" % tag, "<!-- END %s -->" % tag
        if b in s and e in s:
            s = s[:s.index(b) + len(b)] + "\n" + fn() + "\n" + s[s.index(e):]
    open(p, "w").write(s)


if __name__ == "__main__":
    main()
