#!/bin/bash
# tools/mutant.sh <patch> <Cxx> [tier]   apply a patch to /repo, run the check, undo the patch
set -u
P=$(realpath "$1"); ID=$2; TIER=${3:-quick}
R=""; if [ "${4:-}" = "-R" ]; then R="-R"; fi
git -C /repo apply $R "$P" || { echo "patch does not apply"; exit 3; }
( cd /repo && go build ./... ) || { git -C /repo checkout -- .; echo "does not build"; exit 3; }
/verif/check "$ID" "$TIER" 2>&1 | grep -E "VIOLATION|KNOWN-FINDING|INFRA|OK |FAIL|detail" | head -12
rc=${PIPESTATUS[0]}
git -C /repo checkout -- .
echo "exit=$rc"
