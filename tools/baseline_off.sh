#!/bin/bash
# Runs the repository's own test suite with the `verif` build tag OFF, on a scratch copy of
# /repo's working tree (the tests write files into the tree and bind fixed ports).
set -u
export GOFLAGS=-mod=mod GOPROXY=off GOSUMDB=off GOTOOLCHAIN=local
S=$(mktemp -d /tmp/gmsm-baseline.XXXXXX)
trap 'rm -rf "$S"' EXIT
rsync -a --exclude .git /repo/ "$S/"
cd "$S" && go test -json -vet=off -count=1 -timeout 25m ./...
