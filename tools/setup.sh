#!/bin/bash
# Offline setup: compile the TLC operator overrides (if any) and warm the Go build cache.
set -eu
cd "$(dirname "$0")/.."
export GOFLAGS=-mod=mod GOPROXY=off GOSUMDB=off GOTOOLCHAIN=local
if ls tla/overrides/*.java >/dev/null 2>&1; then
  javac -cp /opt/veriftools/tla/tla2tools.jar -d tla/overrides tla/overrides/*.java
fi
cp /repo/go.sum harness/go.sum
( cd harness && go build -tags verif -o /dev/null . )
echo setup ok
