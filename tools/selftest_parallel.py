#!/usr/bin/env python3
# tools/selftest_parallel.py [-j N] [pattern]: every seeded change is applied to its own scratch worktree of /repo (under /tmp,
# removed afterwards), the quick check of its property runs against that worktree (VERIF_REPO), and the outcome is recorded in
# seeded/RESULTS.json: DETECTED / MISSED / N-A (patch no longer applies or does not build) / INFRA.  /repo itself is not touched.
# VERIF_ROOT=<copy of /verif> runs the checks from a frozen copy (so that /verif can be edited meanwhile).
import concurrent.futures
import glob
import json
import os
import shutil
import subprocess
import sys

ENV = dict(os.environ, GOFLAGS="-mod=mod", GOPROXY="off", GOSUMDB="off", GOTOOLCHAIN="local")


def one(d):
    name = os.path.basename(d.rstrip("/"))
    pid = name[:3]
    try:
        pid = json.load(open(os.path.join(d, "meta.json"))).get("check_property", pid)
    except Exception:
        pass
    wt = "/tmp/st-" + name
    subprocess.run(["git", "-C", "/repo", "worktree", "remove", "--force", wt], capture_output=True)
    r = subprocess.run(["git", "-C", "/repo", "worktree", "add", "-q", "--detach", wt, "HEAD"], capture_output=True, text=True)
    if r.returncode != 0:
        return name, "INFRA worktree: " + r.stderr.strip()[:80]
    try:
        r = subprocess.run(["git", "-C", wt, "apply", os.path.join(d, "patch.diff")], capture_output=True, text=True)
        if r.returncode != 0:
            return name, "N-A (no longer applies)"
        r = subprocess.run(["go", "build", "./..."], cwd=wt, env=ENV, capture_output=True, text=True)
        if r.returncode != 0:
            return name, "N-A (does not build)"
        r = subprocess.run([os.path.join(os.environ.get("VERIF_ROOT", "/verif"), "check"), pid, "quick"], env=dict(ENV, VERIF_REPO=wt), capture_output=True, text=True)
        out = r.stdout + r.stderr
        if r.returncode == 1 and "VIOLATION" in out:
            return name, "DETECTED"
        if r.returncode == 0:
            return name, "MISSED"
        last = [l for l in out.strip().splitlines() if l.strip()]
        return name, "INFRA " + (last[-1][:70] if last else "")
    finally:
        subprocess.run(["git", "-C", "/repo", "worktree", "remove", "--force", wt], capture_output=True)
        shutil.rmtree(wt, ignore_errors=True)


def main():
    args = sys.argv[1:]
    jobs = 4
    if args[:1] == ["-j"]:
        jobs = int(args[1])
        args = args[2:]
    pat = args[0] if args else ""
    rp = "/verif/seeded/RESULTS.json"
    res = json.load(open(rp)) if os.path.exists(rp) else {}
    dirs = [d for d in sorted(glob.glob("/verif/seeded/*/")) if pat in os.path.basename(d.rstrip("/"))]
    with concurrent.futures.ThreadPoolExecutor(jobs) as ex:
        for name, v in ex.map(one, dirs):
            res[name] = v
            print(name, v, flush=True)
            json.dump(res, open(rp, "w"), indent=1, sort_keys=True)
    subprocess.run("find %s/replay -name '*.json' -delete" % os.environ.get("VERIF_ROOT", "/verif"), shell=True)


if __name__ == "__main__":
    main()
