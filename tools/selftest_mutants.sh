#!/bin/bash
# tools/selftest_mutants.sh [pattern]: applies every seeded change to /repo in turn, runs the quick check of its
# property, undoes the change, and records DETECTED / MISSED / N-A (patch no longer applies or does not build)
# in seeded/RESULTS.json.  /repo must be clean.
set -u
cd /verif
[ -z "$(git -C /repo status --porcelain --untracked-files=no)" ] || { echo "/repo is not clean"; exit 2; }
PAT=${1:-}
python3 - "$PAT" <<'PY'
import glob, json, os, subprocess, sys
pat = sys.argv[1]
rp = "/verif/seeded/RESULTS.json"
res = json.load(open(rp)) if os.path.exists(rp) else {}
for d in sorted(glob.glob("/verif/seeded/*/")):
    name = os.path.basename(d.rstrip("/"))
    if pat and pat not in name:
        continue
    pid = name[:3]
    r = subprocess.run(["/verif/tools/mutant.sh", d + "patch.diff", pid, "quick"], capture_output=True, text=True)
    out = r.stdout + r.stderr
    if "patch does not apply" in out or "does not build" in out:
        v = "N-A (no longer applies)"
    elif "exit=1" in out and "VIOLATION" in out:
        v = "DETECTED"
    elif "exit=0" in out:
        v = "MISSED"
    else:
        v = "INFRA " + out.strip().splitlines()[-1][:60] if out.strip() else "INFRA"
    res[name] = v
    print(name, v, flush=True)
    subprocess.run(["git", "-C", "/repo", "checkout", "--", "."])
    subprocess.run("find /verif/replay -name '*.json' -delete", shell=True)
    json.dump(res, open(rp, "w"), indent=1, sort_keys=True)
PY
