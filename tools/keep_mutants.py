#!/usr/bin/env python3
# tools/keep_mutants.py <Cxx> <worktree> <detected-note...>: copy agent mutants into /verif/seeded
import json, os, shutil, sys, glob
pid, wt = sys.argv[1], sys.argv[2]
note = " ".join(sys.argv[3:])
for d in sorted(glob.glob(os.path.join(wt, "_mut", "m[0-9]*"))):
    n = os.path.basename(d)
    dst = "/verif/seeded/%s-agent-%s" % (pid, n)
    k = 1
    while os.path.exists(dst):
        k += 1
        dst = "/verif/seeded/%s-agent%d-%s" % (pid, k, n)
    os.makedirs(dst)
    shutil.copy(os.path.join(d, "patch.diff"), dst)
    for f in glob.glob(os.path.join(d, "demo*")):
        shutil.copy(f, dst)
    m = json.load(open(os.path.join(d, "meta.json")))
    m["source"] = "independent sub-agent given only the property text and a scratch worktree"
    m["confirmed"] = "tools/eval_mutants.sh: builds, repository tests of the package pass with the patch, demo fails with the patch and passes on HEAD"
    m["detected_by"] = note
    json.dump(m, open(os.path.join(dst, "meta.json"), "w"), indent=1)
    print("kept", dst)
