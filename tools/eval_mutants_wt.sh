#!/bin/bash
# tools/eval_mutants_wt.sh <Cxx> <worktree> <pkgdir-for-demo|auto> <go test pkgs>
# Like eval_mutants.sh, but the check runs against the scratch worktree itself (VERIF_REPO), so /repo is never touched
# and several evaluations can run side by side.
set -u
export GOFLAGS=-mod=mod GOPROXY=off GOSUMDB=off GOTOOLCHAIN=local
ID=$1; WT=$2; PKG0=$3; shift 3; TESTPKGS="$@"
# the repository's gmtls tests bind fixed ports: each go test run gets its own network namespace (loopback only), so
# several evaluations can run side by side
NS=""; if unshare -rn sh -c 'ip link set lo up' >/dev/null 2>&1; then NS="unshare -rn sh -c"; fi
gotest() { if [ -n "$NS" ]; then unshare -rn sh -c "ip link set lo up; $*"; else sh -c "$*"; fi; }
for d in $WT/_mut/m*/; do
  n=$(basename $d)
  PKG=$PKG0; if [ "$PKG0" = auto ]; then PKG=$(python3 -c "import json;print(json.load(open('$d/meta.json'))['pkg'])"); fi
  echo "=== $ID $n: $(python3 -c "import json;print(json.load(open('$d/meta.json'))['what'][:150])")"
  cd $WT && git checkout -q -- . && git apply $d/patch.diff || { echo "  patch does not apply"; continue; }
  go build ./... >/dev/null 2>&1 || { echo "  DOES NOT BUILD"; git checkout -q -- .; continue; }
  t1=$(gotest "go test -count=1 $TESTPKGS" 2>&1 | grep -c "^FAIL\|^--- FAIL")
  cp $d/demo_test.go $WT/$PKG/zz_demo_test.go
  dm=$(cd $WT/$PKG && gotest "go test ${DEMOFLAGS:-} -count=1 -run 'Demo|Mut' ." 2>&1 | grep -c "^--- FAIL\|^FAIL\|panic:")
  rm -f $WT/$PKG/zz_demo_test.go
  VERIF_REPO=$WT ${VERIF_ROOT:-/verif}/check $ID quick 2>&1 | grep -E "VIOLATION|KNOWN-FINDING|INFRA|OK |FAIL|detail" | cut -c1-260 | head -4
  echo "  check-exit=${PIPESTATUS[0]}"
  git checkout -q -- .
  cp $d/demo_test.go $WT/$PKG/zz_demo_test.go
  dh=$(cd $WT/$PKG && gotest "go test ${DEMOFLAGS:-} -count=1 -run 'Demo|Mut' ." 2>&1 | grep -c "^--- FAIL\|^FAIL\|panic:")
  rm -f $WT/$PKG/zz_demo_test.go
  echo "  existing-tests-failures-with-patch=$t1 demo-fails-with-patch=$dm demo-fails-on-HEAD=$dh"
done
