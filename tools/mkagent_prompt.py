#!/usr/bin/env python3
# tools/mkagent_prompt.py <Cxx> <round> : write /tmp/prop-<Cxx>.txt and /tmp/agent<round>-<Cxx>.txt (the text given to an
# independent sub-agent that writes seeded changes: the property and a scratch worktree, nothing from /verif)
import json, sys
pid, rnd = sys.argv[1], int(sys.argv[2])
p = [json.loads(l) for l in open("/verif/properties.jsonl") if l.strip()]
p = [x for x in p if x["id"] == pid][0]
a = p["anchors"]
prop = "Title: %s\n\nStatement: %s\n\nQuantifier: %s\n\nAnchor files: %s\n\nMechanisms:\n%s\n\nObserve at: %s\n" % (
    p["title"], p["statement"], p["quantifier"]["text"], ", ".join(a["files"]),
    "\n".join("  - %s (%s)" % (m["name"], m["where"]) for m in a["mechanism"]), "; ".join(a["observe_at"]))
open("/tmp/prop-%s.txt" % pid, "w").write(prop)
pkgs = sorted(set("./" + f.split("/")[0] for f in a["files"]))
tmpl = open("/verif/tools/agent_prompt.tmpl").read()
extra = ""
if rnd == 3:
    extra = open("/verif/tools/agent_prompt_round3.tmpl").read()
if rnd == 4:
    extra = open("/verif/tools/agent_prompt_round4.tmpl").read().rstrip("\n")
if rnd == 5:
    extra = open("/verif/tools/agent_prompt_round5.tmpl").read().rstrip("\n")
if rnd == 6:
    extra = open("/verif/tools/agent_prompt_round6.tmpl").read().rstrip("\n")
if rnd >= 7:
    extra = open("/verif/tools/agent_prompt_round7.tmpl").read().rstrip("\n")
open("/tmp/agent%d-%s.txt" % (rnd, pid), "w").write(tmpl.replace("@ID@", pid).replace("@PROP@", prop).replace("@PKGS@", " ".join(pkgs)).replace("@EXTRA@", extra))
print("/tmp/agent%d-%s.txt" % (rnd, pid))
