#!/usr/bin/env python3
# Writes /verif/MANIFEST.json from the table below (one entry per claimed property).
import json
import os
import subprocess

ROOT = os.path.dirname(os.path.dirname(os.path.abspath(__file__)))

CHECKS = {
    "C01": dict(
        level="model_checking",
        technique="TLA+ transcription of GM/T 0003.2 checked exhaustively by TLC on toy prime-order groups (SM2Toy: completeness, soundness, nonce->r, every retry branch reachable) and evaluated on the real curve (SM2.tla over BigNat/ECurve/SM3, anchored by the GM/T 0003.5 Appendix A example); every TLC case replayed into the real sm2 functions (toy cases through an elliptic.Curve built from TLC's point table)",
        text="On a 29-point (thorough: also 59-point) curve TLC enumerates every private key, every digest residue and every nonce, proves on the specification that every emitted signature verifies, that the accepted (r,s) are exactly the emitted ones, and that r=0 / r+k=n / s=0 are reachable; the real Sm2Sign must return the same (r,s) after the same number of draws and Sm2Verify/Verify must accept exactly the same set among all (r,s) in [0,n]^2. On the real curve TLC computes ZA, e, (r,s) for scripted nonces over boundary keys, keys with short coordinates (found by TLC), ids absent/default/1/8191 bytes, message lengths to 64 KiB, and the verdict for 16 perturbations of each valid tuple; DER strictness is tried on 10 malformations.",
        note="Trusts TLC, BigInteger under BigNat, SM3.tla. The toy curve in the harness is a table lookup in TLC's XY table. Candidates whose verification meets the point at infinity are left unspecified.",
        ref="DESIGN.md section 5 C01"),
    "C02": dict(
        level="model_checking",
        technique="TLA+ transcription of GM/T 0003.4 (SM2.tla: KDF, C1/C2/C3, retry on zero key stream, on-curve requirement) evaluated by TLC, anchored by the standard's encryption example; expected ciphertexts, a TLC-found nonce that forces the retry, and TLC-built invalid-curve ciphertexts replayed into Encrypt/Decrypt/EncryptAsn1/DecryptAsn1",
        text="TLC computes the exact ciphertext (both orderings and the ASN.1 form) for scripted nonces over boundary and short-coordinate keys and lengths 0, 1, 31..33, 63..65, 4096 (dense in thorough); it searches a nonce whose KDF byte is zero so that the real Encrypt must draw twice; sparse scalars as key and nonce; a sweep of 1000 (4000) nonces x 3 short lengths in the real code hands every odd outcome to the specification; decryption must return the plaintext for the right key and an error for another key, every tried single-byte change of the raw form, every single-byte change of the ASN.1 form, every truncation, and for ciphertexts that TLC builds on curves with another b.",
        note="Trusts TLC, BigInteger, SM3.tla. Exhaustive toy-group enumeration is done for signatures (C01) only.",
        ref="DESIGN.md section 5 C02"),
    "C03": dict(
        level="exploration",
        technique="TLA+ affine group law over BigNat (ECurve.tla, self-checked: G on curve, [n]G=O) as oracle; ECWalk state machine with the discrete log tracked by the specification (forces doubling / cancellation / infinity); ECTab table cases; limb-boundary field elements and the comb table through verif accessors (table conformance)",
        text="Every catalogue scalar (0, tiny, n-20..n+16, 2n, 2n+1, 2^k, all-ones strings of 1..40 bytes, leading zeros, empty, 40 bytes, pseudo-random) goes through ScalarBaseMult and ScalarMult on four points; all two-call walks over Add (catalogue point, the same point, the opposite point, infinity) / Double / ScalarMult / ScalarBaseMult / IsOnCurve probes plus simulated longer walks; GenerateKey for eight reader contents incl. a reader that runs dry; the published parameters; 300 (3000) limb-boundary field elements through mul/square/add/sub; all 30 comb-table entries against [2^(64j+32t)]G.",
        note="Arithmetic correctness is decided on the enumerated elements only (numeric accuracy is where this technique is weakest). The former known finding field-square-carry (wrong products for limb-boundary elements) was diagnosed and repaired in round 4; its revert is a seeded change.",
        ref="DESIGN.md section 5 C03"),
    "C04": dict(
        level="model_checking",
        technique="executable TLA+ transcription of GM/T 0004 (SM3.tla, KAT-checked) evaluated by TLC as oracle; HashObj state machine model-checked; all TLC-generated Write/Sum/Reset behaviours replayed on sm3.New() and every event validated by TLC (HashObjTrace); HMAC/PBKDF2 tables from TLC compared with crypto/hmac and x/crypto/pbkdf2 over sm3.New",
        text="TLC enumerates every Write/Sum/Reset sequence of depth 3 (and simulated depth-8 sequences) over the write sizes around the padding boundaries; each is run on a real hash object and every returned value (prefix + digest, write counts) is validated by TLC against the HashObj specification whose digest oracle is the TLA+ transcription of the standard, tabulated by TLC for every stream length reached; one-shot digests for every length 0..N and HMAC-SM3 / PBKDF2-SM3 tables are compared too.",
        note="Trusts TLC + Bitwise overrides and the two GM/T 0004 vectors that anchor SM3.tla. One message content per length (plus all-0x00 / all-0xff at boundary lengths); multi-megabyte streams are not evaluated by TLC.",
        ref="DESIGN.md section 5 C04"),
    "C05": dict(
        level="model_checking",
        technique="executable TLA+ transcription of GM/T 0002 (SM4.tla: algebraic S-box, CK by formula, KAT-checked) evaluated by TLC; the code's sbox/T-tables/FK/CK dumped through a verif accessor and compared entry-by-entry with the formulas by TLC; TLC-computed vectors and TLC-enumerated Encrypt/Decrypt call sequences on one object replayed and validated (CipherObjTrace)",
        text="Every entry of the five tables and of FK/CK is compared with the standard's formula (exhaustive over the tables, so a wrong entry is found even if no vector reaches it); Enc/Dec are compared with TLC's values for the standard example, every single-bit key and block, byte fills, pseudo-random pairs and pairs that TLC found to put a half-word 0000 / ffff into the S-box layer of some round; source and destination at every alignment; keys handed over in one reused, wiped buffer; all call sequences of depth 3 (4 thorough) over Encrypt/Decrypt x 3 blocks x aliasing on one object are replayed and each result validated by TLC; key lengths 0..64 with four kinds of content.",
        note="Trusts TLC + Bitwise, the GM/T 0002 example anchoring SM4.tla, and that VerifTables returns the arrays cryptBlock reads. Correctness for all 2^256 (key, block) pairs follows only insofar as the round structure is the standard's and the tables are right; it is decided on the enumerated vectors.",
        ref="DESIGN.md section 5 C05"),
    "C06": dict(
        level="model_checking",
        technique="TLA+ configuration-level specification TLCPCfg (policy verdict per configuration, enumerated by TLC) replayed as real handshakes; TLA+ flight specification TLCPFlight evaluated by TLC on the message sequence recorded from every run; TLA+ executable transcription of the GM/T 0024 key schedule and record protection (RecordWire over SM3/HMAC/PRF/SM4/GCM) decoding captured GMSSL wire bytes + key log in TLC; Go standard library crypto/tls as independent TLS 1.0-1.2 peer",
        text="TLC enumerates 8.7k configurations (server mode x client kind x suite lists and preference x ClientAuth x client certificate absent/trusted/untrusted x certificate source x tickets) with the verdict the policy demands; each chosen configuration (all in thorough) is a real gmtls client/server handshake whose outcome, version, suite, peer certificates and exported keying material on both ends are compared with the specification, a subset also moves 260 kB in odd fragment sizes; captured GMSSL sessions of both suites are decoded by TLC from the wire and the key log alone (key block, first protected records, both Finished verify_data, application data); every TLS role/version/suite is run against crypto/tls; the handshake messages each run shows on the wire (plaintext messages, ChangeCipherSpec, protected records, alerts, per direction and merged) are checked by TLC against TLCPFlight: a completed handshake shows exactly the standard flights for what was negotiated and configured (ServerKeyExchange, CertificateRequest, client Certificate / CertificateVerify, NewSessionTicket iff offered and enabled), an aborted one a prefix of them. On a second connection of each data configuration the reader's transport delivers 3 / 400 / 2 / 5000 / 1 ... bytes per Read and lets every other Read end in an expired deadline; the retrying reader must receive exactly the stream, and the last message before Close must arrive before the end of the stream.",
        note="Trusts TLC, the fixture PKI, the interposer. The independent GM/T 0024 implementation is the TLA+ specification itself (none is installed); ECDHE-SM2 suites are specified as not negotiable (no server implementation). Alert codes and which side errs first are not compared.",
        ref="DESIGN.md section 5 C06"),
    "C07": dict(
        level="model_checking",
        technique="TLA+ spec Record (authenticated channel + bounded active adversary) model-checked by TLC; every canonical adversary schedule TLC generates is executed by a record-level man in the middle between real established GMSSL connections; record-layer hooks traced from the real code are validated by TLC (HalfConnTrace: sequence numbers, nonces/IVs, sticky error)",
        text="TLC proves Prefix/SeqByOne/Sticky for the channel model with a free adversary (3-4 records, 3 actions) and enumerates all canonical schedules of <=2 actions with concrete instances (header field rewrites incl. type->alert/CCS on alert-like payloads, IV/body/MAC byte flips, truncation/extension, drop, dup, swap, forged / other-direction / other-connection records); each runs against both GMSSL suites and both directions: what Read returned must be exactly the predicted prefix and the first affected record must end the connection with a fatal error; single-bit flips over a whole record; the same with the receiver half-closed and with the sequence numbers of the direction at 2^32-2 (accessor VerifSetSeq); every encrypt/decrypt/CCS/error of every run - and of the repository's own gmtls tests, run with the hooks on - is validated by the half-connection trace spec.",
        note="Trusts TLC, the interposer and the hooks (emitted under the half-connection lock). The CBC padding catalogue (every length 0..255, corrupted padding bytes) is produced by TLC itself: RecordSeal.tla derives the session keys from the key log and seals the records that the real receiver must accept or reject. Schedules beyond 2 actions and records beyond 3 are covered by the model only.",
        ref="DESIGN.md section 5 C07"),
    "C08": dict(
        level="model_checking",
        technique="TLA+ symbolic model TLCPAdv of the authenticated handshake with an attacker - GM/T 0024 ECC, TLS RSA key transport and TLS ECDHE_RSA, CBC and AEAD suite each, all five client-auth policies (Authentication, Agreement, LaxPoliciesAccept checked by TLC); every attacker scenario realised against real endpoints through generated SM2 and RSA PKI, wrong private keys, verif peer fault points (GMSSL) or the same deviation made on the wire (TLS), and a field-aware man in the middle",
        text="TLC checks Authentication (client completes only with a peer holding both certified keys and proving it in this session; server with verified client auth only with the key holder over this transcript) and Agreement on the symbolic model for every single-deviation scenario under six protocol combinations and five client-auth policies (7 certificate kinds per slot, wrong key per slot, SKE omitted/replayed/mis-signed/over another encryption certificate, client certificate kinds, wrong client key, replayed CertificateVerify, 13 field rewrites, a changed byte at 8 (64 thorough) positions of each plaintext handshake message, verification off; both endpoints on a configured clock ten days ahead with certificates valid now / then / both in every slot - ClockHonoured demands completion for what is valid at the configured time; a VerifyPeerCertificate callback that refuses, on either side, under every policy; a certificate whose common name matches while its SAN names another host; a third self-made encryption certificate behind the genuine pair; a client list that starts with a self-made CA certificate); each scenario runs against the real client and server and the set of endpoints that complete must be the model's.",
        note="Symbolic cryptography (signatures unforgeable, encryption opaque). TLS scenarios use RSA certificates (ECDSA server certificates are not exercised). One deviation per scenario.",
        ref="DESIGN.md section 5 C08"),
    "C09": dict(
        level="fault_enumeration",
        technique="TLA+ table spec Issue (effective algorithm = requested or signer default; signed input raw for SM2 algorithms, digest otherwise; verifies only under the signing key and unchanged bytes) checked by TLC; every cell created with the real package, parsed back, verified, and re-verified under another key and after single-byte changes of TBS and signature value",
        text="All 66 offered cells of {certificate, request, CreateCRL, CreateRevocationList} x {SM2, RSA-2048, ECDSA P-256, P-384} x {algorithm unset, each family member} plus 12 certificate template classes (20-byte serial, multi-valued and extra name attributes, every KeyUsage bit, EKUs incl. unknown OIDs, path length 0 and 2, SANs, critical name constraints, policies / AIA / CRL DP / SKI, extra extension, validity edges): created, parsed back and compared field by field, verified under the issuer (must pass), under another key of the family (must fail) and after changing bytes of the signed part and of the signature value (60 positions per object, every byte in thorough).",
        note="Signing is symbolic in the specification; the concrete oracle is the library's own verifier plus the Go standard library for RSA/ECDSA keys. Mismatching algorithm/key combinations are outside the statement.",
        ref="DESIGN.md section 5 C09"),
    "C10": dict(
        level="model_checking",
        technique="TLA+ declarative reference path validator (PKIX.tla: ValidChains as all simple paths satisfying signature, name chaining, validity, CA / certSign, path length, permitted domains, host name, EKU, critical extension) evaluated by TLC over PKI templates x knobs; each case materialised with real SM2 certificates and run through (*Certificate).Verify under several pool orders",
        text="TLC enumerates 633 cases (thorough: pairs of certificate knobs, ~5000) over linear chains of depth 0-2, two roots with a cross-signed intermediate, a mutual cross-signing loop and a diamond under a path-length-limited root, with one knob per certificate (expired / not yet valid / not a CA / no certSign / path length 0,1 / forged signature / permitted domains / unknown critical extension) and one per query (time, name case, trailing dot, other name, no name, wildcards, IP SAN, requested and leaf EKUs) and computes the set of valid chains; the real Verify must succeed exactly when that set is non-empty and return only members of it, for up to 6 (24) insertion orders of the intermediate pool.",
        note="Name constraints are exercised only together with a requested DNS name, EKU restrictions only on leaves (where nested and leaf semantics agree). Trusts that the PKI factory realises each abstract field (it uses the library's own CreateCertificate with an explicit algorithm).",
        ref="DESIGN.md section 5 C10"),
    "C11": dict(
        level="model_checking",
        technique="executable TLA+ definitions of PKCS#7 + ECB/CBC/CFB/OFB over SM4.tla evaluated by TLC as oracle (ModesTab); helpers' package-level IV modelled as state (Modes.tla) with TLC-simulated SetIV/encrypt/decrypt behaviours replayed and validated by TLC (ModesTrace); caller-memory canaries",
        text="For every length 0..64 x 4 modes x default/set IV (plus padding look-alike plaintexts, plus lengths 65..1024: all in thorough, seeded sample in quick) TLC computes the standard ciphertext; the real helper must return it with and without spare capacity behind the input, leave input, key and spare bytes untouched, and decrypt the specification's ciphertext to the plaintext; SetIV histories are validated by a TLC trace spec that tracks which IV is current.",
        note="Trusts TLC + Bitwise and SM4.tla (GM/T 0002 example); one key; plaintext contents from three deterministic families.",
        ref="DESIGN.md section 5 C11"),
    "C12": dict(
        level="exploration",
        technique="executable TLA+ transcription of SP 800-38D GCM over SM4.tla (GF(2^128) multiplication, J0, inc32, GCTR, GHASH) evaluated by TLC as a table spec; each case replayed on sm4.Sm4GCM, on crypto/cipher GCM over sm4.NewCipher (the TLS suites' construction) and under exhaustive single-bit tampering",
        text="TLC computes ciphertext and tag for (IV length 1..64 incl. all-0xff IVs and an IV it constructs so that the 32-bit counter wraps) x (AAD, plaintext) lengths 0..80 (all pairs in thorough, boundary grid + seeded sample in quick); the helper must return exactly these, decrypt the specification's ciphertext to exactly the plaintext, agree with the standard library GCM over the same block cipher, leave caller memory untouched, and change the recomputed tag under every single-bit change of IV, AAD and ciphertext.",
        note="Exploration over enumerated lengths and three content families; trusts TLC + Bitwise and SM4.tla. GCM.tla itself is cross-checked on every case against crypto/cipher's GCM over the real block cipher.",
        ref="DESIGN.md section 5 C12"),
    "C13": dict(
        level="exploration",
        technique="TLA+ transcription of the GM/T 0003.3 key exchange (x-bar truncation, t, V, KDF, S1/S2 with fixed 32-byte coordinates) over ECurve/BigNat/SM3 evaluated by TLC as a table spec; replayed into KeyExchangeA/KeyExchangeB",
        text="TLC computes K, S1, S2 for both roles (asserting on the specification that initiator and responder reach the same point) over random and boundary keys, identities of 0..8191 bytes, key lengths 1..1024, and - found by TLC search - long-term, ephemeral and shared points whose coordinates have leading zero bytes, sparse scalars, keys chosen so that t = 0 mod n (both parties must fail); both real parties must return exactly these values; a peer ephemeral value off the curve, at infinity or outside [0, p) must give an error; a sweep of 1500 (6000) exchanges with key lengths 1 and 2 on the same key objects, whose errors, disagreements, all-zero keys and last exchange are judged against the table as observed; one-sided exchanges (both roles) in which the peer's static and ephemeral values are points no known scalar produces: an ephemeral x in [n, p), the static key (0, sqrt b), an ephemeral x of 15 / 16 / 17 bytes with bit 127 set or clear.",
        note="Exploration over enumerated cases on the real curve only (keyExchange is hard-wired to P256Sm2). Trusts BigInteger, SM3.tla.",
        ref="DESIGN.md section 5 C13"),
    "C14": dict(
        level="exploration",
        technique="TLA+ spec Codec (integer serialisation conventions as writer/reader pairs; round trip checked by TLC over all model integers, with the repaired minimal-hex deviation as a switch the model must reject); table of (serialiser, value shape, password class) cases replayed on real keys, signatures and ciphertexts realising each shape; loader table",
        text="For hex private/public keys, compressed points, PKIX and PKCS#8 PEM (no / empty / ASCII / UTF-8 / 1 KiB password), ASN.1 signatures and ASN.1 ciphertexts, values with 1 (thorough: 2) leading zero bytes, a leading zero nibble or the high bit set in d, x, y, r, s or C1 are written and read back and must be unchanged; password-protected keys must not decode under five wrong-password variants; X509KeyPair, GMX509KeyPairs(Single) and the three file loaders must accept a matching certificate/key and reject another key or swapped sign/enc keys; password-protected PKCS#8 of keys whose DER ends in each of the 16 values a pad byte can take, for private keys of 30, 31 and 32 bytes.",
        note="Exploration over shapes, not over all keys. Keys with short public coordinates are found by searching small private keys with the library's own scalar multiplication (their shape is then checked on the bytes).",
        ref="DESIGN.md section 5 C14"),
    "C15": dict(
        level="fault_enumeration",
        technique="TLA+ spec TLCPPeer (endpoint flight grammar as a state machine + one peer deviation), every (role, position, deviation) explored by TLC to its verdict; each case realised by a message-level interposer between the endpoint under test and an honest gmtls peer, by peer fault points, or by hand-written scripted peers with their own transcript, key schedule and record protection (a GMSSL client, GMSSL / TLS servers, a TLS server that renegotiates)",
        text="TLC enumerates 2.3k cases over 6 endpoint roles (GM client, GM-only server, auto-switch server under GM and TLS, TLS client, TLS server) x client auth on/off x every position of the plaintext flight x {drop, duplicate, swap, inject or substitute each of 16 message kinds incl. RSA certificates where SM2 ones belong, 9 truncations / length-field perturbations, ChangeCipherSpec, application data, warning and fatal alerts, end of stream, ClientHello rewritten to 12 versions / 6 suite lists / no null compression, one of 12 hello extensions (either direction) replaced by 9 content shapes with consistent outer lengths, a consistent server naming an unsupported ServerHello version, a transport that refuses the endpoint's last flight}; the real endpoint must return an error, never report completion, never panic, and return once its input has ended; consistent deviations by scripted peers (CertificateVerify omitted or doubled, Finished before / without ChangeCipherSpec or with a wrong length, application data before Finished, another curve, a second handshake without ChangeCipherSpec); benign variations (re-fragmentation, a warning alert, an honest renegotiation) must still complete.",
        note="Deviations are single ops applied to an otherwise honest flight (no keys are needed: the plaintext phase); encrypted-phase deviations are made by the scripted peers only (wrong Finished values and records after CCS are C07/C08). Trusts the interposer's handshake-message reassembly. Hang detection: input ended after 0.6 s of silence, then 3 s to return.",
        ref="DESIGN.md section 5 C15"),
    "C16": dict(
        level="model_checking",
        technique="TLA+ spec TLCPResume (client LRU cache, ordered ticket keys, resumption gate, configuration changes, ticket tampering) model-checked by TLC; TLC-generated histories (exhaustive connect-change-change-connect, simulated 6-op histories) replayed against real gmtls endpoints sharing one client session cache",
        text="TLC checks on all histories of 6-7 operations (cache capacity 1 and 2) that a resumed connection continues an earlier full handshake with the same identity, suite and client-certificate status; every history connect / <=2 changes / connect and hundreds of simulated histories (rotations keeping or dropping old keys, suite list and ClientAuth changes on either side, tickets disabled, tampering per ticket region, cache capacity 1..3, two server names, GMSSL and TLS) run on the real code: each connection must resume exactly when the gate holds, fail exactly when the client's certificate does not satisfy the server's policy in a full handshake either (untrusted client certificates are part of the model), agree on DidResume, suite and keys on both ends, carry the original master secret and client identity; single-byte ticket changes (every byte in thorough) must fall back to a full handshake.",
        note="Server CipherSuites are always listed explicitly (the statement's positive clause). Trusts the accessors that expose the ticket of a cached client session. Histories beyond 7 operations are not model-checked.",
        ref="DESIGN.md section 5 C16"),
    "C17": dict(
        level="model_checking",
        technique="TLA+ spec Containers (symbolic algebra of PKCS#7 enveloped-data, signed-data and PKCS#12 objects; state machine make -> one adversary change -> use; the clauses of the statement are invariants checked by TLC over every producer choice, adversary change and use); every done state replayed on the real x509 / pkcs12 packages; single-byte corruption sweep with the statement's 'exactly when' as oracle",
        text="TLC explores 7.9k (thorough 36k) states: envelopes {SM2 in both ciphertext orderings, RSA} x {DES-CBC, AES-128-GCM} x recipient lists over three holders whose certificates share issuers and serial numbers pairwise x content lengths x {untouched, body changed, wrapped key changed, recipient dropped, reordered} x every (certificate holder, key holder, API, ordering) over four holders; signed data {SM2 with both SM3 identifiers, RSA incl. the package's own AddSigner output} x signed attributes x detached x signer x {content, digest attribute, other attribute, signature, re-signed by another key, certificate swapped} x supplied content; PKCS#12 {empty, ASCII, UTF-8, long, BMP-edge, invalid UTF-8 password} x {SM2, RSA key} x 0..2 CA certificates x {untouched, byte changed, MAC stripped} x right + 10 wrong-password variants x {DecodeAll, Decode, ToPEM, StdVerify = a reader of the integrity protection written from RFC 7292 alone (BMPString, key derivation, HMAC-SHA-1)}; Decode (one certificate) must refuse bundles that hold more. Signed data with two signers (order kept on the wire; a second signature made over the first signer's attributes must fail); a DES envelope opened 2000 times with another holder's key. Each case runs on the real packages and must give exactly the content / verified / key and certificates, or an error. Every (quick: every 5th) byte of 8 signed-data objects, 2 GCM envelopes and 4 bundles (with and without macData) is set to 4 values: what still verifies must carry the genuine content, attributes, signature and signer key; what still decrypts or decodes must be the original.",
        note="Symbolic cryptography in the model. SM2 signers and attribute-less objects are built by the harness's mirror of the ASN.1 structures because the package cannot produce them. DES-CBC content changed in transit is left unspecified (no integrity in the format). Verify does not validate certificate chains, so 'certified key' means the key of the embedded certificate named by issuer and serial.",
        ref="DESIGN.md section 5 C17"),
    "C18": dict(
        level="fault_enumeration",
        technique="TLA+ spec TLV (total BER/DER tag-length-value reader as a state machine with a step counter; termination within 4*len+4 steps, in-bounds indexing and absence of stuck states checked by TLC for every string up to a length bound over the critical-byte alphabet); TLC extracts the TLV nodes of a library-produced corpus, which generate the structural mutation catalogue; every mutant and every TLC-enumerated short string is run through the real decoders under recover, a deadline and an allocation counter",
        text="35 corpus items (certificate, request, CRL, enveloped and signed PKCS#7, PKCS#8 plain and encrypted, PKCS#1, PKIX key, PEM keys and certificates plain and encrypted, SM4 key PEM, hex keys, PKCS#12, raw and ASN.1 SM2 ciphertexts, signature, compressed point, every GMSSL handshake message kind, session ticket and session state) through 60 decoder entry points: every truncation, seven substitutions per byte, five length rewrites and eleven tag swaps per TLV node, nesting to 10^4 (definite and indefinite), overlapping and well-terminated indefinite nesting of increasing depth, elements inserted among the components of every constructed node, every primitive string re-encoded in 18 constructed (BER-segmented) forms, empty and random strings, and all strings up to 4 bytes over 12 critical byte values; each call must return within 3 s without panicking and allocate no more than 256 x input + 8 MiB, except where a mutated password-stretching iteration count is the cause (quick tier samples byte positions of long items).",
        note="Fault enumeration over the catalogue of the quantifier, not all byte strings. Trusts recover(), the wall clock and runtime/metrics. A fatal runtime error (stack exhaustion) would kill the harness and is reported as an infrastructure failure with the input named, not as a verdict.",
        ref="DESIGN.md section 5 C18"),
    "C19": dict(
        level="model_checking",
        technique="TLA+ spec PadStream + refinement PadStreamImpl checked by TLC; TLC-generated environments replayed on the real objects; recorded traces validated by TLC (PadStreamTrace)",
        text="TLC checks exhaustively (block sizes 2-4, data lengths 0..13, every source-answer / buffer / write-size sequence) that the code's algorithms refine the abstract chunking-independent specification; the real reader, writer and block helpers are then driven by TLC-generated environments (small and real sizes 8/16, lengths to 5000) and every recorded event is validated by TLC against the abstract specification, bytes included.",
        note="Trusts TLC, the scripted io.Reader/io.Writer that log requests and answers, and that sources return no error other than io.EOF. Exhaustive only for the small constants; real sizes are sampled by TLC simulation.",
        ref="DESIGN.md section 5 C19"),
    "C20": dict(
        level="model_checking",
        technique="TLA+ specs ConcSm4 (block function as four steps on scratch storage; TLC refutes 'as if alone' for object-owned scratch, proves it for call-owned scratch and enumerates every interleaving, each replayed deterministically through verif gates on one real cipher object), ConcConn / ConcConnMC (Write / Read / Close / CloseWrite of one connection as atomic operations on two byte streams, consequences model-checked) and ConcConnTrace (histories of real connections, invocation and response stamped by one counter, validated by TLC searching the linearisation points), ConcConfig / ConcConfigMC / ConcConfigTrace (the ticket-key list of one shared server Config: atomic rotation, a handshake's Open and Seal instants; histories of real GMSSL and TLS servers under continuous re-installation of the keys validated the same way); stress drivers for every shared object of the statement whose results are compared with the sequential ones, all run under the Go race detector as the sensor of the no-data-race clause",
        text="All 70 (thorough: 34 650) interleavings of 2 (3) concurrent Encrypt/Decrypt calls x 4 steps on one sm4 cipher are executed through the gates and each call must return its sequential block. Drivers with 2..32 goroutines: package-level sign / verify / encrypt / decrypt / SM3 / SM4-ECB / certificate parse / chain verification on separate data; one cipher.Block shared raw and under CBC; one hash constructor under HMAC; one root + intermediate CertPool; PKCS#7 parse and envelope; first use of the curve in a fresh process; SetIV with the CBC helper (result must be the CBC encryption under one of the installed IVs); GMSSL and TLS 1.2 handshakes on one server Config with session tickets, key rotation every 3 ms and a shared client session cache. Connection histories: GMSSL (CBC) and TLS 1.2 (GCM) connections over loopback TCP with 1..4 writers and 1..2 readers on one end, 1..3 writers on the other, self-describing messages of 64 B..40 kB, Close after or during the traffic, or a half close (CloseWrite) in the middle while the peer keeps writing, or (Config histories) rotations that happen inside a handshake at the draw of a ticket IV from Config.Rand, or a forged record reaching one end's reader while its Writes are blocked in the transport (the alert it answers with must be one atomic operation of the sending half); every history must be explained by atomic operations (contiguous payloads, per-writer order, no successful Write after Close, errors only once an end has closed). Config histories: 2..7 clients reconnect with their latest ticket during 3..19 key rotations; resumption, re-issue and the key of every new ticket must be explained by an atomic order of rotations and of each handshake's two instants. Any race report whose top frames are in the library is a violation.",
        note="Exhaustive interleaving only for the sm4 object (gated); the connection and Config are explored by stress under the race detector plus history validation, which sees what the scheduler happens to produce. A failed Write is modelled as non-atomic (its records may be read before the close that fails it). Read after the endpoint's own Close may still return bytes that had arrived. Races in the harness itself abort the check as an infrastructure error.",
        ref="DESIGN.md section 5 C20"),
}

NOT_APPLICABLE = {
}

ALL = ["C%02d" % i for i in range(1, 21)]


def main():
    repo_hooks = subprocess.run(["git", "-C", "/repo", "log", "--format=%H %s"], capture_output=True, text=True).stdout.splitlines()
    hook_commits = [l.split()[0] for l in repo_hooks if l.split(" ", 1)[1].startswith("verif:")]
    checks = []
    for pid in ALL:
        if pid not in CHECKS:
            continue
        c = CHECKS[pid]
        checks.append({
            "property_id": pid,
            "quick_cmd": "./check %s quick" % pid,
            "thorough_cmd": "./check %s thorough" % pid,
            "evidence_file": "/verif/evidence/%s.json" % pid,
            "replay_cmd_template": "./check %s quick --replay {path}" % pid,
            "engine": "tlc+go-harness",
            "level_claimed": {"category": c["level"], "text": c["text"], "design_ref": c["ref"]},
            "level_note": c["note"],
            "technique": c["technique"],
        })
    na = []
    for pid in ALL:
        if pid in CHECKS:
            continue
        na.append({"property_id": pid, "reason": NOT_APPLICABLE.get(pid, "not built yet in this round: the TLA+ specification and conformance harness for this property are planned in DESIGN.md but no check is registered, so nothing is claimed")})
    m = {
        "version": 1,
        "setup_cmd": "./tools/setup.sh",
        "hooks": {
            "guard": "verif",
            "enable": "go build -tags verif (the harness module /verif/harness replaces github.com/tjfoc/gmsm with /repo and is built with -tags verif by every check)",
            "baseline_off_cmd": "/verif/tools/baseline_off.sh",
            "source_commits": hook_commits,
            "add_only": True,
        },
        "engines": [
            {"name": "tlc+go-harness", "path": "/verif/check",
             "serves_properties": sorted(CHECKS),
             "kind_free_text": "explicit TLA+ specifications (/verif/tla) model-checked by TLC; TLC-generated behaviours/cases replayed into the real code by a Go harness (/verif/harness, built from /repo's working tree with -tags verif); traces recorded from the real code validated by TLC trace specifications"},
        ],
        "checks": checks,
        "not_applicable": na,
        "notes": "Exit codes: 0 held / 1 VIOLATION line(s) + replay file / 2 infrastructure (TLC, driver, timeout) - never a violation. known_findings.json lists recorded and fixed defects.",
    }
    with open(os.path.join(ROOT, "MANIFEST.json"), "w") as f:
        json.dump(m, f, indent=1)
    print("MANIFEST.json: %d checks, %d not_applicable" % (len(checks), len(na)))


main()
